import HdVerif.Proofs.Volume
import HdVerif.Proofs.VolumeOnto
import HdVerif.Model.VolumeMore
/-! C08 (round 2): acceptance lemmas in constructive form, inverse pairs of operations, randomised conveniences. -/
namespace HdVerif.VolLemmas
open HdVerif HdVerif.Gen HdVerif.Vol

/-! ## an index of three explicit items -/

theorem getitemG_three (sz : AxMap → Int) (g : Geom) (it0 it1 it2 : Item) {m0 m1 m2 : AxMap}
    (h0 : axisOfItem (some it0) g.n0 = .ok m0) (h1 : axisOfItem (some it1) g.n1 = .ok m1)
    (h2 : axisOfItem (some it2) g.n2 = .ok m2) :
    getitemG sz g [it0, it1, it2] = .ok (g.remap sz m0 m1 m2, remapSrc m0 m1 m2) := by
  obtain ⟨s0, e0, f0⟩ := bind_ok.mp h0
  obtain ⟨s1, e1, f1⟩ := bind_ok.mp h1
  obtain ⟨s2, e2, f2⟩ := bind_ok.mp h2
  have : ¬ (0 + 1 + 1 + 1 > 3) := by decide
  simp only [getitemG, getitemMaps, List.length_cons, List.length_nil, this, if_false, bind, Except.bind,
    List.getElem?_cons_zero, List.getElem?_cons_succ, e0, e1, e2, f0, f1, f2, pure, Except.pure]

/-- `start:stop` with `0 ≤ start < stop ≤ n` is accepted and selects `stop - start` voxels from `start` on -/
theorem range_axis_accept {n f e : Int} (hf : 0 ≤ f) (hfe : f < e) (he : e ≤ n) :
    axisOfItem (some (Item.slice (some f) (some e) none)) n = .ok ⟨f, 1, e - f, e - f, f, 1⟩ := by
  have c : checkSlice (some f) (some e) n = .ok 0 := by
    unfold checkSlice
    have a1 : ¬ (f < -n) := by omega
    have a2 : ¬ (f ≥ n) := by omega
    have a3 : ¬ (e < -n - 1) := by omega
    have a4 : ¬ (e > n) := by omega
    simp [a1, a2, a3, a4]
  have h1 : sliceIndices (some f) (some e) none n = .ok (f, e, 1) := by
    simp only [sliceIndices]
    have b1 : ¬ ((1 : Int) = 0) := by decide
    have b2 : ¬ ((1 : Int) < 0) := by decide
    have b3 : ¬ f < 0 := by omega
    have b4 : ¬ e < 0 := by omega
    have b5 : min f n = f := by omega
    have b6 : min e n = e := by omega
    simp [b1, b2, b3, b4, b5, b6]
  have h2 : getitemAxisItem f e 1 = .ok (f, 1, e - f) := by
    unfold getitemAxisItem
    have b : ¬ (e - f = 0) := by omega
    have c' : ¬ (e - f < 0) := by omega
    have d : Int.fdiv (e - f - 1) 1 = e - f - 1 := by rw [fdiv_pos _ _ (by decide)]; simp
    simp [b, c', d]
  have h3 : sliceLen f e 1 = e - f := by simp [sliceLen, hfe]
  simp only [axisOfItem, optItemSlice, itemSlice, c, bind, Except.bind, pure, Except.pure, axisOfSlice, h1, h2, h3]

/-! ## index items of a foreign type -/

theorem optItemSlice_foreign (n : Int) : optItemSlice (some Item.foreign) n = .error .type := rfl

/-- an accepted index holds ints and slices only: any item of another type (None, Ellipsis, numpy integer, float, list …)
makes `__getitem__` raise (TypeError at that item, unless an earlier item is refused first) -/
theorem getitemG_no_foreign (sz : AxMap → Int) {g : Geom} {items : List Item} {r : GStep}
    (h : getitemG sz g items = .ok r) : ∀ it ∈ items, it ≠ Item.foreign := by
  simp only [getitemG] at h
  obtain ⟨⟨m0, m1, m2⟩, hm, _⟩ := bind_ok.mp h
  obtain ⟨hl, s0, s1, s2, e0, e1, e2, _⟩ := getitemMaps_ok hm
  intro it hit hf
  subst hf
  match items, hl, hit with
  | [a], _, hit =>
    simp only [List.mem_singleton] at hit; subst hit
    simp [optItemSlice_foreign] at e0
  | [a, b], _, hit =>
    simp only [List.mem_cons, List.not_mem_nil, or_false] at hit
    rcases hit with rfl | rfl
    · simp [optItemSlice_foreign] at e0
    · simp [optItemSlice_foreign] at e1
  | [a, b, c], _, hit =>
    simp only [List.mem_cons, List.not_mem_nil, or_false] at hit
    rcases hit with rfl | rfl | rfl
    · simp [optItemSlice_foreign] at e0
    · simp [optItemSlice_foreign] at e1
    · simp [optItemSlice_foreign] at e2

/-- a foreign item in first place is refused with TypeError whatever follows (up to three items) -/
theorem getitemG_foreign_first (sz : AxMap → Int) (g : Geom) (rest : List Item) (hl : rest.length ≤ 2) :
    getitemG sz g (Item.foreign :: rest) = .error .type := by
  have : ¬ ((Item.foreign :: rest).length > 3) := by simp only [List.length_cons]; omega
  simp only [getitemG, getitemMaps, this, if_false, List.getElem?_cons_zero, optItemSlice_foreign, bind, Except.bind]

/-! ## inverse pairs -/

theorem I3.ext' {a b : I3} (h0 : a.i0 = b.i0) (h1 : a.i1 = b.i1) (h2 : a.i2 = b.i2) : a = b := by
  cases a; cases b; simp_all

theorem V3.ext' {a b : V3} (h0 : a.x = b.x) (h1 : a.y = b.y) (h2 : a.z = b.z) : a = b := by
  cases a; cases b; simp_all

theorem smul_neg_neg (v : V3) : V3.smul ((-1 : Int) : Rat) (V3.smul ((-1 : Int) : Rat) v) = v := by
  apply V3.ext' <;> simp [V3.smul]

theorem smul_one_int (v : V3) : V3.smul ((1 : Int) : Rat) v = v := by
  apply V3.ext' <;> simp [V3.smul]

/-- the axis map of a flip undone by the same flip -/
theorem flipMap_twice (b : Bool) (n k : Int) :
    (flipMap b n).afirst + (flipMap b n).astep * ((flipMap b n).afirst + (flipMap b n).astep * k) = k := by
  cases b <;> simp [flipMap] <;> ring

/-- **flip twice = identity** (geometry and index map) -/
theorem flipG_twice (sz : AxMap → Int) (hsz : SzOk sz) (g : Geom) (axes : List Int) (hp : g.Pos)
    (hv : (axes.length > 3 || axes.any (fun a => !validAxis a)) = false) :
    ∃ r1 r2, flipG sz g axes = .ok r1 ∧ flipG sz r1.1 axes = .ok r2 ∧ r2.1 = g ∧ ∀ j, r1.2 (r2.2 j) = j := by
  have h1 := flipG_spec sz g axes hp hv
  obtain ⟨s1, _, _⟩ := flipG_sound sz hsz hp h1
  have h2 := flipG_spec sz _ axes s1.shape hv
  refine ⟨_, _, h1, h2, ?_, ?_⟩
  · have szf : ∀ b n, sz (flipMap b n) = n := by
      intro b n; rw [hsz _ (by cases b <;> rfl)]; cases b <;> rfl
    cases g with
    | mk c0 c1 c2 t n0 n1 n2 =>
    simp only [Geom.remap, szf, Geom.mk.injEq, and_true]
    generalize axes.contains 0 = b0
    generalize axes.contains 1 = b1
    generalize axes.contains 2 = b2
    refine ⟨?_, ?_, ?_, ?_⟩
    · cases b0 <;> simp [flipMap, V3.smul]
    · cases b1 <;> simp [flipMap, V3.smul]
    · cases b2 <;> simp [flipMap, V3.smul]
    · apply V3.ext' <;> cases b0 <;> cases b1 <;> cases b2 <;>
        simp [flipMap, Geom.pos, V3.add, V3.smul] <;> ring
  · intro j
    have szf : ∀ b n, sz (flipMap b n) = n := by
      intro b n; rw [hsz _ (by cases b <;> rfl)]; cases b <;> rfl
    simp only [remapSrc, Geom.remap, szf]
    apply I3.ext' <;> exact flipMap_twice _ _ _

/-! ### permute, then permute by the inverse permutation -/

theorem permOfList_inv (q : Perm) (hq : PermValid q) : permOfList (invPerm q).toList = .ok (invPerm q) := by
  obtain ⟨a, b, c⟩ := q
  cases a <;> cases b <;> cases c <;> simp [PermValid] at hq <;> decide

theorem permute_inv_geom (g : Geom) (q : Perm) (hq : PermValid q) : (g.permute q).permute (invPerm q) = g := by
  obtain ⟨a, b, c⟩ := q
  cases g
  cases a <;> cases b <;> cases c <;> simp [PermValid] at hq <;> rfl

theorem permSrc_inv (q : Perm) (hq : PermValid q) (j : I3) : permSrc q (permSrc (invPerm q) j) = j := by
  obtain ⟨a, b, c⟩ := q
  cases j
  cases a <;> cases b <;> cases c <;> simp [PermValid] at hq <;> rfl

/-- **permute, then permute by `argsort` of the indices = identity** -/
theorem permuteG_inverse {g : Geom} {p : List Int} {r1 : GStep} (h : permuteG g p = .ok r1) :
    ∃ q r2, permOfList p = .ok q ∧ permuteG r1.1 (invPerm q).toList = .ok r2 ∧ r2.1 = g ∧ ∀ j, r1.2 (r2.2 j) = j := by
  simp only [permuteG] at h
  obtain ⟨q, hq, h⟩ := bind_ok.mp h
  simp only [pure, Except.pure, Except.ok.injEq] at h
  subst h
  have hv := permOfList_valid hq
  refine ⟨q, ((g.permute q).permute (invPerm q), permSrc (invPerm q)), hq, ?_, permute_inv_geom g q hv, permSrc_inv q hv⟩
  simp only [permuteG, permOfList_inv q hv, bind, Except.bind, pure, Except.pure]

/-- **swap twice = identity** -/
theorem swapG_twice {g : Geom} {a b : Int} {r1 : GStep} (h : swapG g a b = .ok r1) :
    ∃ r2, swapG r1.1 a b = .ok r2 ∧ r2.1 = g ∧ ∀ j, r1.2 (r2.2 j) = j := by
  simp only [swapG] at h
  obtain ⟨p, hp, h⟩ := bind_ok.mp h
  unfold swapList at hp
  split at hp
  · cases hp
  · rename_i hva
    split at hp
    · cases hp
    · rename_i hab
      simp only [Bool.or_eq_true, Bool.not_eq_true', not_or, Bool.not_eq_false] at hva
      obtain ⟨va, vb⟩ := hva
      simp only [Except.ok.injEq] at hp
      subst hp
      rcases validAxis_cases va with rfl | rfl | rfl <;> rcases validAxis_cases vb with rfl | rfl | rfl <;>
        first
        | exact absurd rfl hab
        | (simp only [permuteG, List.map, bind, Except.bind] at h
           simp only [pure, Except.pure] at h
           cases g
           injection h with h
           subst h
           refine ⟨_, rfl, rfl, fun j => by cases j; rfl⟩)

/-! ### pad, then crop the padding away -/

theorem pad_axis_crop (n b a : Int) (hn : 0 < n) (hb : 0 ≤ b) (ha : 0 ≤ a) :
    axisOfItem (some (Item.slice (some b) (some (b + n)) none)) (n + b + a) = .ok ⟨b, 1, n, n, b, 1⟩ := by
  have := range_axis_accept (n := n + b + a) (f := b) (e := b + n) hb (by omega) (by omega)
  simpa using this

/-- **pad, then index `[before : before + n]` on every axis = identity** -/
theorem padFullG_then_crop (sz : AxMap → Int) (hsz : SzOk sz) (g : Geom) (hp : g.Pos) (full : FullPad)
    (hf : 0 ≤ full.1.1 ∧ 0 ≤ full.1.2 ∧ 0 ≤ full.2.1.1 ∧ 0 ≤ full.2.1.2 ∧ 0 ≤ full.2.2.1 ∧ 0 ≤ full.2.2.2) :
    ∃ r1 r2, padFullG sz g full = .ok r1 ∧
      getitemG sz r1.1 [Item.slice (some full.1.1) (some (full.1.1 + g.n0)) none,
                        Item.slice (some full.2.1.1) (some (full.2.1.1 + g.n1)) none,
                        Item.slice (some full.2.2.1) (some (full.2.2.1 + g.n2)) none] = .ok r2 ∧
      r2.1 = g ∧ ∀ j, r1.2 (r2.2 j) = j := by
  obtain ⟨⟨b0, a0⟩, ⟨b1, a1⟩, ⟨b2, a2⟩⟩ := full
  obtain ⟨f0, f1, f2, f3, f4, f5⟩ := hf
  simp only at f0 f1 f2 f3 f4 f5
  have e1 : padFullG sz g ((b0, a0), (b1, a1), (b2, a2)) = .ok
      (g.remap sz ⟨-b0, 1, g.n0 + b0 + a0, g.n0 + b0 + a0, -b0, 1⟩ ⟨-b1, 1, g.n1 + b1 + a1, g.n1 + b1 + a1, -b1, 1⟩
        ⟨-b2, 1, g.n2 + b2 + a2, g.n2 + b2 + a2, -b2, 1⟩,
       remapSrc ⟨-b0, 1, g.n0 + b0 + a0, g.n0 + b0 + a0, -b0, 1⟩ ⟨-b1, 1, g.n1 + b1 + a1, g.n1 + b1 + a1, -b1, 1⟩
        ⟨-b2, 1, g.n2 + b2 + a2, g.n2 + b2 + a2, -b2, 1⟩) := by
    simp only [padFullG, padAxis, padOriginOffset, padNewSize, bind, Except.bind, pure, Except.pure]
  have s0 : sz ⟨-b0, 1, g.n0 + b0 + a0, g.n0 + b0 + a0, -b0, 1⟩ = g.n0 + b0 + a0 := hsz _ rfl
  have s1 : sz ⟨-b1, 1, g.n1 + b1 + a1, g.n1 + b1 + a1, -b1, 1⟩ = g.n1 + b1 + a1 := hsz _ rfl
  have s2 : sz ⟨-b2, 1, g.n2 + b2 + a2, g.n2 + b2 + a2, -b2, 1⟩ = g.n2 + b2 + a2 := hsz _ rfl
  have t0 : sz ⟨b0, 1, g.n0, g.n0, b0, 1⟩ = g.n0 := hsz _ rfl
  have t1 : sz ⟨b1, 1, g.n1, g.n1, b1, 1⟩ = g.n1 := hsz _ rfl
  have t2 : sz ⟨b2, 1, g.n2, g.n2, b2, 1⟩ = g.n2 := hsz _ rfl
  refine ⟨_, ((g.remap sz ⟨-b0, 1, g.n0 + b0 + a0, g.n0 + b0 + a0, -b0, 1⟩ ⟨-b1, 1, g.n1 + b1 + a1, g.n1 + b1 + a1, -b1, 1⟩
        ⟨-b2, 1, g.n2 + b2 + a2, g.n2 + b2 + a2, -b2, 1⟩).remap sz ⟨b0, 1, g.n0, g.n0, b0, 1⟩ ⟨b1, 1, g.n1, g.n1, b1, 1⟩
        ⟨b2, 1, g.n2, g.n2, b2, 1⟩,
      remapSrc ⟨b0, 1, g.n0, g.n0, b0, 1⟩ ⟨b1, 1, g.n1, g.n1, b1, 1⟩ ⟨b2, 1, g.n2, g.n2, b2, 1⟩), e1, ?_, ?_, ?_⟩
  · exact getitemG_three sz _ _ _ _
      (by simp only [Geom.remap, s0]; exact pad_axis_crop g.n0 b0 a0 hp.1 f0 f1)
      (by simp only [Geom.remap, s1]; exact pad_axis_crop g.n1 b1 a1 hp.2.1 f2 f3)
      (by simp only [Geom.remap, s2]; exact pad_axis_crop g.n2 b2 a2 hp.2.2 f4 f5)
  · cases g with
    | mk c0 c1 c2 t n0 n1 n2 =>
    simp only [Geom.remap, t0, t1, t2, Geom.mk.injEq, and_true]
    refine ⟨?_, ?_, ?_, ?_⟩
    · apply V3.ext' <;> simp [V3.smul]
    · apply V3.ext' <;> simp [V3.smul]
    · apply V3.ext' <;> simp [V3.smul]
    · apply V3.ext' <;> simp [Geom.pos, V3.add, V3.smul] <;> ring
  · intro j
    simp only [remapSrc]
    apply I3.ext' <;> simp

/-- **pad_to_spatial_shape, then crop_to_spatial_shape back to the old shape = identity**: the centre crop removes exactly
what the centred padding added (`to_pad // 2` in front on both ways; T9a, T9b) -/
theorem padTo_then_cropTo (sz : AxMap → Int) (hsz : SzOk sz) {g : Geom} (hp : g.Pos) {s : List Int} {r1 : GStep}
    (h : padToG sz g s = .ok r1) :
    ∃ r2, cropToG sz r1.1 [g.n0, g.n1, g.n2] = .ok r2 ∧ r2.1 = g ∧ ∀ j, r1.2 (r2.2 j) = j := by
  have hshape := padToG_shape sz hsz h
  simp only [padToG] at h
  obtain ⟨w, hw, h⟩ := bind_ok.mp h
  simp only [padToWidth] at hw
  obtain ⟨⟨o0, o1, o2⟩, hs, hw⟩ := bind_ok.mp hw
  dsimp only at hw
  obtain ⟨⟨f0, b0⟩, c0, hw⟩ := bind_ok.mp hw
  dsimp only at hw
  obtain ⟨⟨f1, b1⟩, c1, hw⟩ := bind_ok.mp hw
  dsimp only at hw
  obtain ⟨⟨f2, b2⟩, c2, hw⟩ := bind_ok.mp hw
  simp only [pure, Except.pure, Except.ok.injEq] at hw
  subst hw
  obtain ⟨l0, k0, q0⟩ := padToAxis_ok c0
  obtain ⟨l1, k1, q1⟩ := padToAxis_ok c1
  obtain ⟨l2, k2, q2⟩ := padToAxis_ok c2
  have nn : 0 ≤ f0 ∧ 0 ≤ b0 ∧ 0 ≤ f1 ∧ 0 ≤ b1 ∧ 0 ≤ f2 ∧ 0 ≤ b2 := by omega
  simp only [padG] at h
  obtain ⟨full, hfull, h⟩ := bind_ok.mp h
  rw [fullPadWidth_nested2 hfull] at h
  obtain ⟨r1', r2, e1, e2, e3, e4⟩ := padFullG_then_crop sz hsz g hp ((f0, b0), (f1, b1), (f2, b2)) nn
  rw [h] at e1
  simp only [Except.ok.injEq] at e1
  subst e1
  refine ⟨r2, ?_, e3, e4⟩
  have hs3 := shape3_ok hs
  rw [hs3] at hshape
  simp only [List.cons.injEq, and_true] at hshape
  obtain ⟨z0, z1, z2⟩ := hshape
  have cr : ∀ n o f : Int, n ≤ o → f = (o - n) / 2 → cropToAxis o n = .ok (f, f + n) := by
    intro n o f hno hf
    unfold cropToAxis
    simp only [fdiv_pos _ _ (by decide : (0 : Int) < 2)]
    have : ¬ (o - n < 0) := by omega
    simp only [this, decide_false, Bool.false_eq_true, if_false, Bool.not_false, if_true, Except.ok.injEq, Prod.mk.injEq]
    omega
  simp only [cropToG, cropToItems, shape3, bind, Except.bind, ← z0, ← z1, ← z2, cr _ _ _ l0 k0, cr _ _ _ l1 k1,
    cr _ _ _ l2 k2, pure, Except.pure]
  exact e2

/-! ## randomised conveniences -/

/-- `random_spatial_crop`: for every value the generator can return (`draw_lo ≤ s < draw_hi`, T9m) the request
`1 ≤ c ≤ n` per axis is accepted; axis `d` of the result shows the voxels `s_d, …, s_d + c_d - 1` -/
theorem randomCropG_spec (sz : AxMap → Int) (g : Geom) (c0 c1 c2 s0 s1 s2 : Int)
    (h0 : 1 ≤ c0 ∧ c0 ≤ g.n0 ∧ 0 ≤ s0 ∧ s0 ≤ g.n0 - c0) (h1 : 1 ≤ c1 ∧ c1 ≤ g.n1 ∧ 0 ≤ s1 ∧ s1 ≤ g.n1 - c1)
    (h2 : 1 ≤ c2 ∧ c2 ≤ g.n2 ∧ 0 ≤ s2 ∧ s2 ≤ g.n2 - c2) :
    randomCropG sz g [c0, c1, c2] [s0, s1, s2] =
      .ok (g.remap sz ⟨s0, 1, c0, c0, s0, 1⟩ ⟨s1, 1, c1, c1, s1, 1⟩ ⟨s2, 1, c2, c2, s2, 1⟩,
           remapSrc ⟨s0, 1, c0, c0, s0, 1⟩ ⟨s1, 1, c1, c1, s1, 1⟩ ⟨s2, 1, c2, c2, s2, 1⟩) := by
  have ax : ∀ c n s : Int, 1 ≤ c → c ≤ n → 0 ≤ s → s ≤ n - c →
      randomCropAxis c n s = .ok (0, n - c + 1, s, s + c) ∧ ¬ (s < 0 ∨ n - c + 1 ≤ s) := by
    intro c n s _ _ _ _
    unfold randomCropAxis
    have : ¬ (n - c < 0) := by omega
    refine ⟨by simp [this], by omega⟩
  obtain ⟨a0, b0⟩ := ax c0 g.n0 s0 h0.1 h0.2.1 h0.2.2.1 h0.2.2.2
  obtain ⟨a1, b1⟩ := ax c1 g.n1 s1 h1.1 h1.2.1 h1.2.2.1 h1.2.2.2
  obtain ⟨a2, b2⟩ := ax c2 g.n2 s2 h2.1 h2.2.1 h2.2.2.1 h2.2.2.2
  have items : randomCropItems g [c0, c1, c2] [s0, s1, s2] =
      .ok [Item.slice (some s0) (some (s0 + c0)) none, Item.slice (some s1) (some (s1 + c1)) none,
           Item.slice (some s2) (some (s2 + c2)) none] := by
    simp only [randomCropItems, List.zip, List.zipWith, randomCropGo, a0, a1, a2, bind, Except.bind, b0, b1, b2, if_false,
      pure, Except.pure]
  simp only [randomCropG, items, bind, Except.bind]
  have r0 := range_axis_accept (n := g.n0) (f := s0) (e := s0 + c0) h0.2.2.1 (by omega) (by omega)
  have r1 := range_axis_accept (n := g.n1) (f := s1) (e := s1 + c1) h1.2.2.1 (by omega) (by omega)
  have r2 := range_axis_accept (n := g.n2) (f := s2) (e := s2 + c2) h2.2.2.1 (by omega) (by omega)
  simp only [add_sub_cancel_left] at r0 r1 r2
  exact getitemG_three sz g _ _ _ r0 r1 r2

/-- `zip` stops at the three axes: entries of the requested shape beyond the third are never looked at -/
theorem randomCropG_ignores_extra (sz : AxMap → Int) (g : Geom) (c0 c1 c2 : Int) (rest draws : List Int) :
    randomCropG sz g (c0 :: c1 :: c2 :: rest) draws = randomCropG sz g [c0, c1, c2] draws := by
  simp only [randomCropG, randomCropItems, List.zip, List.zipWith]

theorem optItemSlice_none (n : Int) : optItemSlice none n = .ok none := rfl

theorem axisOfSlice_none (n : Int) : axisOfSlice none n = .ok ⟨0, 1, n, n, 0, 1⟩ := by
  simp [axisOfSlice, getitemAxisNone, bind, Except.bind, pure, Except.pure]

/-- a requested shape of two entries crops the first two axes and leaves the third alone (the source zips, it does not
insist on three entries) -/
theorem randomCropG_two (sz : AxMap → Int) (g : Geom) (c0 c1 s0 s1 : Int)
    (h0 : 1 ≤ c0 ∧ c0 ≤ g.n0 ∧ 0 ≤ s0 ∧ s0 ≤ g.n0 - c0) (h1 : 1 ≤ c1 ∧ c1 ≤ g.n1 ∧ 0 ≤ s1 ∧ s1 ≤ g.n1 - c1) :
    randomCropG sz g [c0, c1] [s0, s1] =
      .ok (g.remap sz ⟨s0, 1, c0, c0, s0, 1⟩ ⟨s1, 1, c1, c1, s1, 1⟩ ⟨0, 1, g.n2, g.n2, 0, 1⟩,
           remapSrc ⟨s0, 1, c0, c0, s0, 1⟩ ⟨s1, 1, c1, c1, s1, 1⟩ ⟨0, 1, g.n2, g.n2, 0, 1⟩) := by
  have ax : ∀ c n s : Int, 1 ≤ c → c ≤ n → 0 ≤ s → s ≤ n - c →
      randomCropAxis c n s = .ok (0, n - c + 1, s, s + c) ∧ ¬ (s < 0 ∨ n - c + 1 ≤ s) := by
    intro c n s _ _ _ _
    unfold randomCropAxis
    have : ¬ (n - c < 0) := by omega
    refine ⟨by simp [this], by omega⟩
  obtain ⟨a0, b0⟩ := ax c0 g.n0 s0 h0.1 h0.2.1 h0.2.2.1 h0.2.2.2
  obtain ⟨a1, b1⟩ := ax c1 g.n1 s1 h1.1 h1.2.1 h1.2.2.1 h1.2.2.2
  have items : randomCropItems g [c0, c1] [s0, s1] =
      .ok [Item.slice (some s0) (some (s0 + c0)) none, Item.slice (some s1) (some (s1 + c1)) none] := by
    simp only [randomCropItems, List.zip, List.zipWith, randomCropGo, a0, a1, bind, Except.bind, b0, b1, if_false,
      pure, Except.pure]
  have r0 := range_axis_accept (n := g.n0) (f := s0) (e := s0 + c0) h0.2.2.1 (by omega) (by omega)
  have r1 := range_axis_accept (n := g.n1) (f := s1) (e := s1 + c1) h1.2.2.1 (by omega) (by omega)
  simp only [add_sub_cancel_left] at r0 r1
  obtain ⟨t0, e0, f0⟩ := bind_ok.mp r0
  obtain ⟨t1, e1, f1⟩ := bind_ok.mp r1
  have : ¬ (0 + 1 + 1 > 3) := by decide
  simp only [randomCropG, items, bind, Except.bind, getitemG, getitemMaps, List.length_cons, List.length_nil, this, if_false,
    List.getElem?_cons_zero, List.getElem?_cons_succ, List.getElem?_nil, e0, e1, f0, f1, optItemSlice_none, axisOfSlice_none,
    pure, Except.pure]

/-- a requested shape of one entry crops the first axis only -/
theorem randomCropG_one (sz : AxMap → Int) (g : Geom) (c0 s0 : Int) (h0 : 1 ≤ c0 ∧ c0 ≤ g.n0 ∧ 0 ≤ s0 ∧ s0 ≤ g.n0 - c0) :
    randomCropG sz g [c0] [s0] =
      .ok (g.remap sz ⟨s0, 1, c0, c0, s0, 1⟩ ⟨0, 1, g.n1, g.n1, 0, 1⟩ ⟨0, 1, g.n2, g.n2, 0, 1⟩,
           remapSrc ⟨s0, 1, c0, c0, s0, 1⟩ ⟨0, 1, g.n1, g.n1, 0, 1⟩ ⟨0, 1, g.n2, g.n2, 0, 1⟩) := by
  have a0 : randomCropAxis c0 g.n0 s0 = .ok (0, g.n0 - c0 + 1, s0, s0 + c0) := by
    unfold randomCropAxis
    have : ¬ (g.n0 - c0 < 0) := by omega
    simp [this]
  have b0 : ¬ (s0 < 0 ∨ g.n0 - c0 + 1 ≤ s0) := by omega
  have items : randomCropItems g [c0] [s0] = .ok [Item.slice (some s0) (some (s0 + c0)) none] := by
    simp only [randomCropItems, List.zip, List.zipWith, randomCropGo, a0, bind, Except.bind, b0, if_false, pure, Except.pure]
  have r0 := range_axis_accept (n := g.n0) (f := s0) (e := s0 + c0) h0.2.2.1 (by omega) (by omega)
  simp only [add_sub_cancel_left] at r0
  obtain ⟨t0, e0, f0⟩ := bind_ok.mp r0
  have : ¬ (0 + 1 > 3) := by decide
  simp only [randomCropG, items, bind, Except.bind, getitemG, getitemMaps, List.length_cons, List.length_nil, this, if_false,
    List.getElem?_cons_zero, List.getElem?_cons_succ, List.getElem?_nil, e0, f0, optItemSlice_none, axisOfSlice_none,
    pure, Except.pure]

/-- an empty requested shape: nothing is cropped, nothing is drawn -/
theorem randomCropG_none (sz : AxMap → Int) (g : Geom) :
    randomCropG sz g [] [] =
      .ok (g.remap sz ⟨0, 1, g.n0, g.n0, 0, 1⟩ ⟨0, 1, g.n1, g.n1, 0, 1⟩ ⟨0, 1, g.n2, g.n2, 0, 1⟩,
           remapSrc ⟨0, 1, g.n0, g.n0, 0, 1⟩ ⟨0, 1, g.n1, g.n1, 0, 1⟩ ⟨0, 1, g.n2, g.n2, 0, 1⟩) := by
  have : ¬ (0 > 3) := by decide
  simp only [randomCropG, randomCropItems, List.zip, List.zipWith, randomCropGo, bind, Except.bind, getitemG, getitemMaps,
    List.length_nil, this, if_false, List.getElem?_nil, optItemSlice_none, axisOfSlice_none, pure, Except.pure]

/-- a requested size larger than the axis is refused before anything is drawn (ValueError) -/
theorem randomCropAxis_refuses (c n s : Int) (h : n < c) : randomCropAxis c n s = .error .value := by
  unfold randomCropAxis
  have : n - c < 0 := by omega
  simp [this]

/-- `slice(None, None, -1)` (what `random_flip_spatial` appends) reads the axis backwards, completely — the same axis
map as the `slice(-1, None, -1)` of `flip_spatial` -/
theorem rev_axis_map (n : Int) (hn : 0 < n) :
    axisOfSlice (some (none, none, some (-1))) n = .ok ⟨n - 1, -1, n, n, n - 1, -1⟩ := by
  have h1 : sliceIndices none none (some (-1)) n = .ok (n - 1, -1, -1) := by
    simp [sliceIndices]
  have h2 : getitemAxisItem (n - 1) (-1) (-1) = .ok (n - 1, -1, n) := by
    unfold getitemAxisItem
    have a : (-1 - (n - 1) : Int) = -n := by ring
    have b : ¬ (-n = 0) := by omega
    have c : -n < 0 := by omega
    have d : Int.fdiv (n - 1) 1 = n - 1 := by rw [fdiv_pos _ _ (by decide)]; simp
    have e : ¬ n ≤ 0 := by omega
    simp [a, b, c, d, e, hn]
  have h3 : sliceLen (n - 1) (-1) (-1) = n := by
    simp only [sliceLen]
    simp [hn]
  simp only [axisOfSlice, h1, bind, Except.bind, h2, pure, Except.pure, h3]

def randItem (b : Bool) : Item := if b then Item.slice none none (some (-1)) else Item.slice none none none

theorem randItem_axis (b : Bool) (n : Int) (hn : 0 < n) : axisOfItem (some (randItem b)) n = .ok (flipMap b n) := by
  cases b
  · simp only [axisOfItem, randItem, optItemSlice, itemSlice, checkSlice, bind, Except.bind, pure, Except.pure,
      Bool.false_eq_true, if_false]
    exact full_axis_map n hn
  · simp only [axisOfItem, randItem, optItemSlice, itemSlice, checkSlice, bind, Except.bind, pure, Except.pure, if_true]
    exact rev_axis_map n hn

/-- one step of the loop of `random_flip_spatial` -/
theorem randomFlipGo_step {axes : List Int} {d : Int} {rest draws : List Int} {items : List Item}
    (h : randomFlipGo axes (d :: rest) draws = .ok items) :
    ∃ b tail draws', items = randItem b :: tail ∧ (b = true → axes.contains d = true) ∧
      randomFlipGo axes rest draws' = .ok tail := by
  simp only [randomFlipGo] at h
  split at h
  · rename_i hc
    cases draws with
    | nil => cases h
    | cons x xs =>
      simp only at h
      split at h
      · cases h
      · obtain ⟨f, hf, h⟩ := bind_ok.mp h
        obtain ⟨tail, ht, h⟩ := bind_ok.mp h
        simp only [pure, Except.pure, Except.ok.injEq] at h
        exact ⟨f, tail, xs, (by rw [← h]; rfl), (fun _ => hc), ht⟩
  · obtain ⟨f, hf, h⟩ := bind_ok.mp h
    obtain ⟨tail, ht, h⟩ := bind_ok.mp h
    simp only [pure, Except.pure, Except.ok.injEq] at h
    have : f = false := by
      unfold randomFlipAxis at hf
      simpa using hf.symm
    subst this
    exact ⟨false, tail, draws, (by rw [← h]; rfl), (fun hb => by cases hb), ht⟩

/-- the axes with a set flag, as `flip_spatial` takes them -/
def flagAxes (b0 b1 b2 : Bool) : List Int := (if b0 then [0] else []) ++ (if b1 then [1] else []) ++ (if b2 then [2] else [])

/-- **`random_flip_spatial` is `flip_spatial` of a subset of the listed axes**: whatever is drawn, an accepted call returns
exactly what `flip_spatial(S)` returns for some `S ⊆ axes` (geometry and index map); axes not listed are never flipped -/
theorem randomFlipG_is_flip (sz : AxMap → Int) {g : Geom} (hp : g.Pos) {axes draws : List Int} {r : GStep}
    (h : randomFlipG sz g axes draws = .ok r) :
    ∃ b0 b1 b2, (b0 = true → axes.contains 0 = true) ∧ (b1 = true → axes.contains 1 = true) ∧
      (b2 = true → axes.contains 2 = true) ∧ flipG sz g (flagAxes b0 b1 b2) = .ok r := by
  simp only [randomFlipG] at h
  obtain ⟨items, hi, h⟩ := bind_ok.mp h
  simp only [randomFlipItems] at hi
  split at hi
  · cases hi
  · obtain ⟨b0, t0, d0, e0, c0, hi⟩ := randomFlipGo_step hi
    obtain ⟨b1, t1, d1, e1, c1, hi⟩ := randomFlipGo_step hi
    obtain ⟨b2, t2, d2, e2, c2, hi⟩ := randomFlipGo_step hi
    simp only [randomFlipGo, Except.ok.injEq] at hi
    subst hi e2 e1 e0
    refine ⟨b0, b1, b2, c0, c1, c2, ?_⟩
    have hv : ((flagAxes b0 b1 b2).length > 3 || (flagAxes b0 b1 b2).any (fun a => !validAxis a)) = false := by
      cases b0 <;> cases b1 <;> cases b2 <;> decide
    rw [flipG_spec sz g _ hp hv]
    have k0 : (flagAxes b0 b1 b2).contains 0 = b0 := by cases b0 <;> cases b1 <;> cases b2 <;> decide
    have k1 : (flagAxes b0 b1 b2).contains 1 = b1 := by cases b0 <;> cases b1 <;> cases b2 <;> decide
    have k2 : (flagAxes b0 b1 b2).contains 2 = b2 := by cases b0 <;> cases b1 <;> cases b2 <;> decide
    rw [k0, k1, k2, ← h]
    exact (getitemG_three sz g _ _ _ (randItem_axis b0 g.n0 hp.1) (randItem_axis b1 g.n1 hp.2.1)
      (randItem_axis b2 g.n2 hp.2.2)).symm

/-- valid `axes` and enough binary draws: accepted -/
theorem randomFlipItems_accepts (axes : List Int) (x0 x1 x2 : Int) (hv : randomAxesOk axes = true)
    (h0 : x0 = 0 ∨ x0 = 1) (h1 : x1 = 0 ∨ x1 = 1) (h2 : x2 = 0 ∨ x2 = 1) :
    ∃ items, randomFlipItems axes [x0, x1, x2] = .ok items := by
  simp only [randomFlipItems, hv, Bool.not_true, Bool.false_eq_true, if_false, randomFlipGo]
  generalize axes.contains 0 = a0
  generalize axes.contains 1 = a1
  generalize axes.contains 2 = a2
  rcases h0 with rfl | rfl <;> rcases h1 with rfl | rfl <;> rcases h2 with rfl | rfl <;>
    cases a0 <;> cases a1 <;> cases a2 <;>
    simp [randomFlipAxis, bind, Except.bind, pure, Except.pure, randomFlipGo]

/-! ### random_permute_spatial_axes -/

/-- the hand-written validation accepts exactly the lists the source's validation accepts (T9m, on the enumerated domain:
lists over -1..3 of length ≤ 4); outside that domain nothing is accepted by the hand-written test either -/
theorem randomAxesOk_iff_source (axes : List Int) : randomAxesOk axes = true ↔ axes ∈ randomAxesAccepted := by
  constructor
  · intro h
    simp only [randomAxesOk, Bool.and_eq_true, Bool.or_eq_true, beq_iff_eq, List.all_eq_true] at h
    obtain ⟨⟨hl, hd⟩, hv⟩ := h
    rcases hl with hl | hl
    · match axes, hl with
      | [a, b], _ =>
        have va := validAxis_cases (hv a (by simp))
        have vb := validAxis_cases (hv b (by simp))
        rcases va with rfl | rfl | rfl <;> rcases vb with rfl | rfl | rfl <;> first | (exact absurd hd (by decide)) | decide
    · match axes, hl with
      | [a, b, c], _ =>
        have va := validAxis_cases (hv a (by simp))
        have vb := validAxis_cases (hv b (by simp))
        have vc := validAxis_cases (hv c (by simp))
        rcases va with rfl | rfl | rfl <;> rcases vb with rfl | rfl | rfl <;> rcases vc with rfl | rfl | rfl <;>
          first | (exact absurd hd (by decide)) | decide
  · intro h
    have : randomAxesAccepted.all (fun a => randomAxesOk a) = true := by decide
    exact List.all_eq_true.mp this axes h

/-- all lists over {0, 1, 2} of length 2 and 3 -/
def drawCandidates : List (List Int) :=
  ([0, 1, 2].flatMap fun (a : Int) => [0, 1, 2].map fun (b : Int) => [a, b]) ++
  ([0, 1, 2].flatMap fun (a : Int) => [0, 1, 2].flatMap fun (b : Int) => [0, 1, 2].map fun (c : Int) => [a, b, c])

/-- what `random_permute_spatial_axes` must satisfy for `axes` and the drawn rearrangement: accepted; the indices handed on
are a permutation of 0, 1, 2 that `permute_spatial_axes` accepts; every axis not listed stays where it is -/
def randomPermuteGood (axes drawn : List Int) : Bool :=
  match randomPermuteList axes drawn with
  | .ok p => (match permOfList p with | .ok _ => true | .error _ => false) &&
      [0, 1, 2].all (fun (d : Int) => axes.contains d || p[d.toNat]? == some d) &&
      axes.all (fun a => (p[a.toNat]?).any (fun x => axes.contains x))
  | .error _ => false

theorem randomPermute_table :
    randomAxesAccepted.all (fun axes => drawCandidates.all (fun drawn =>
      !isRearrangement axes drawn || randomPermuteGood axes drawn)) = true := by decide +kernel

theorem rearrangement_candidate {axes drawn : List Int} (ha : axes ∈ randomAxesAccepted)
    (hr : isRearrangement axes drawn = true) : drawn ∈ drawCandidates := by
  simp only [isRearrangement, Bool.and_eq_true, beq_iff_eq, List.all_eq_true] at hr
  obtain ⟨⟨hl, _⟩, hd⟩ := hr
  have hv : ∀ x ∈ drawn, x = 0 ∨ x = 1 ∨ x = 2 := by
    intro x hx
    have hc := hd x hx
    have hok := (randomAxesOk_iff_source axes).mpr ha
    simp only [randomAxesOk, Bool.and_eq_true, List.all_eq_true] at hok
    exact validAxis_cases (hok.2 x (by simpa using hc))
  have hlen : axes.length = 2 ∨ axes.length = 3 := by
    have hok := (randomAxesOk_iff_source axes).mpr ha
    simp only [randomAxesOk, Bool.and_eq_true, Bool.or_eq_true, beq_iff_eq] at hok
    exact hok.1.1
  rcases hlen with h2 | h3
  · rw [h2] at hl
    match drawn, hl with
    | [a, b], _ =>
      rcases hv a (by simp) with rfl | rfl | rfl <;> rcases hv b (by simp) with rfl | rfl | rfl <;> decide
  · rw [h3] at hl
    match drawn, hl with
    | [a, b, c], _ =>
      rcases hv a (by simp) with rfl | rfl | rfl <;> rcases hv b (by simp) with rfl | rfl | rfl <;>
        rcases hv c (by simp) with rfl | rfl | rfl <;> decide

/-- **`random_permute_spatial_axes`**: valid `axes`, any rearrangement drawn: the call goes through to
`permute_spatial_axes` with a valid permutation that moves listed axes only -/
theorem randomPermute_good {axes drawn : List Int} (hv : randomAxesOk axes = true) (hr : isRearrangement axes drawn = true) :
    randomPermuteGood axes drawn = true := by
  have ha := (randomAxesOk_iff_source axes).mp hv
  have hc := rearrangement_candidate ha hr
  have := List.all_eq_true.mp (List.all_eq_true.mp randomPermute_table axes ha) drawn hc
  simpa [hr] using this

end HdVerif.VolLemmas
