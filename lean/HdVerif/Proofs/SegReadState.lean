import HdVerif.Model.SegReadState
/-! C02: a read's answer does not depend on what earlier calls left on the object (induction over histories). -/
namespace HdVerif.SegState
open HdVerif

structure ProgFacts (pre post : List TempOp) : Prop where
  indep : ∀ f e, runOps f pre e = runOps f pre false
  clean : runOps false pre false = (true, true)
  fail : (runOps true pre false).1 = false
  drops : runOps false post true = (true, false)

theorem progFacts_of_ok (pre post : List TempOp) (h : tempProgOk pre post = true) : ProgFacts pre post := by
  unfold tempProgOk at h
  simp only [Bool.and_eq_true, List.all_cons, List.all_nil, Bool.and_true, beq_iff_eq, Bool.not_eq_true'] at h
  obtain ⟨⟨⟨⟨h1, h2⟩, h3⟩, h4⟩, h5⟩ := h
  refine ⟨?_, h3, h4, h5⟩
  intro f e
  cases f <;> cases e <;> first | rfl | exact h1 | exact h2

/-- the loop before the `yield`: succeeds iff no INSERT fails, whatever existed before; then every table exists -/
theorem runAll_pre (pre post : List TempOp) (hp : ProgFacts pre post) (l : List (Bool × Bool)) :
    (runAll pre l).1 = !(l.any (·.1)) ∧ ((runAll pre l).1 = true → (runAll pre l).2 = l.map (fun _ => true)) ∧
      (runAll pre l).2.length = l.length := by
  induction l with
  | nil => simp [runAll]
  | cons a t ih =>
    obtain ⟨f, e⟩ := a
    unfold runAll
    simp only
    rw [hp.indep f e]
    cases f with
    | false =>
      rw [hp.clean]
      simp only [↓reduceIte, List.any_cons, Bool.false_or, List.map_cons, List.length_cons]
      exact ⟨ih.1, fun h => by rw [ih.2.1 h], by rw [ih.2.2]⟩
    | true =>
      have hf := hp.fail
      simp only [hf, Bool.false_eq_true, ↓reduceIte, List.any_cons, Bool.true_or, Bool.not_true, List.length_cons,
        List.length_map, false_implies, true_and]

/-- the loop after the `yield` on tables that all exist: no error, nothing left -/
theorem runAll_post (pre post : List TempOp) (hp : ProgFacts pre post) (n : Nat) :
    runAll post (List.replicate n (false, true)) = (true, List.replicate n false) := by
  induction n with
  | zero => rfl
  | succ k ih =>
    simp only [List.replicate_succ]
    unfold runAll
    simp only
    rw [hp.drops]
    simp only [↓reduceIte, ih]

theorem any_zip_fst (fails : List Bool) (db : List Bool) (h : db.length = fails.length) :
    ((fails.zip db).any (·.1)) = fails.any id := by
  induction fails generalizing db with
  | nil => simp
  | cons f t ih =>
    cases db with
    | nil => simp at h
    | cons e r =>
      simp only [List.zip_cons_cons, List.any_cons, id]
      rw [ih r (by simpa using h)]

/-- **one read**: the answer is the stateless one, and the number of tables is kept -/
theorem withTemp_answer {α} (g : Bool) (pre post : List TempOp) (hp : ProgFacts pre post) (fails db : List Bool)
    (h : db.length = fails.length) (body : Except ErrKind α) :
    (withTemp g pre post fails db body).1 = (if fails.any id then .error .other else body) ∧
      (withTemp g pre post fails db body).2.length = fails.length := by
  obtain ⟨h1, h2, h3⟩ := runAll_pre pre post hp (fails.zip db)
  have hz : (fails.zip db).length = fails.length := by simp [h]
  unfold withTemp
  simp only
  rw [any_zip_fst fails db h] at h1
  cases hany : fails.any id with
  | true =>
    rw [hany] at h1
    have h1' : (runAll pre (fails.zip db)).1 = false := by simpa using h1
    simp only [h1', Bool.not_false, ↓reduceIte, h3, hz, and_self]
  | false =>
    rw [hany] at h1
    have h1' : (runAll pre (fails.zip db)).1 = true := by simpa using h1
    have hall := h2 h1'
    have hrep : (runAll pre (fails.zip db)).2 = List.replicate fails.length true := by
      rw [hall, ← hz]
      exact List.map_const' ..
    simp only [h1', Bool.not_true, Bool.false_eq_true, ↓reduceIte, hrep, List.map_replicate]
    have hpost := runAll_post pre post hp fails.length
    cases body with
    | error e =>
      refine ⟨rfl, ?_⟩
      cases g
      · simp
      · simp [hpost]
    | ok v => simp [hpost]

/-- **histories**: whatever the object's state at the start, whatever was read (or refused) before, every answer is the
stateless one — provided the frames taken from the cached array are the frames decoded one by one -/
theorem run_stateless {α} (g : Bool) (pre post : List TempOp) (hp : ProgFacts pre post) (n : Nat) (ops : List (Op α))
    (hlen : ∀ f d c, Op.read f d c ∈ ops → f.length = n) (hlaw : ∀ f d c, Op.read f d c ∈ ops → c = d)
    (σ : ObjState) (hσ : σ.db.length = n) : run g pre post ops σ = ops.map stateless := by
  induction ops generalizing σ with
  | nil => rfl
  | cons op rest ih =>
    unfold run
    simp only [List.map_cons]
    cases op with
    | touch =>
      simp only [step, stateless]
      rw [ih (fun f d c hm => hlen f d c (List.mem_cons_of_mem _ hm)) (fun f d c hm => hlaw f d c (List.mem_cons_of_mem _ hm))
        { σ with cached := true } hσ]
    | read f d c =>
      have hf := hlen f d c (by simp)
      have hc := hlaw f d c (by simp)
      subst hc
      have hcc : (if σ.cached then c else c) = c := by simp
      obtain ⟨ha, hl⟩ := withTemp_answer g pre post hp f σ.db (by rw [hσ, hf]) c
      simp only [step, stateless]
      rw [ih (fun f d c hm => hlen f d c (List.mem_cons_of_mem _ hm)) (fun f d c hm => hlaw f d c (List.mem_cons_of_mem _ hm))
        _ (by simp only [hcc]; rw [hl, hf])]
      simp only [hcc, ha]

end HdVerif.SegState
