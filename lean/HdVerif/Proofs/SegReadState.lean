import HdVerif.Model.SegReadState
/-! C02: a read's answer does not depend on what earlier calls left on the object (induction over histories) — provided the
code closes its query cursors on every exit; without that a kept exception changes later answers. -/
namespace HdVerif.SegState
open HdVerif

structure ProgFacts (pre post : List TempOp) : Prop where
  indep : ∀ f e, runOps f false pre e = runOps f false pre false
  clean : runOps false false pre false = (true, true)
  fail : (runOps true false pre false).1 = false
  drops : runOps false false post true = (true, false)

theorem progFacts_of_ok (pre post : List TempOp) (h : tempProgOk pre post = true) : ProgFacts pre post := by
  unfold tempProgOk at h
  simp only [Bool.and_eq_true, List.all_cons, List.all_nil, Bool.and_true, beq_iff_eq, Bool.not_eq_true'] at h
  obtain ⟨⟨⟨⟨h1, h2⟩, h3⟩, h4⟩, h5⟩ := h
  refine ⟨?_, h3, h4, h5⟩
  intro f e
  cases f <;> cases e <;> first | rfl | exact h1 | exact h2

/-- the loop before the `yield`, no lock in force: succeeds iff no INSERT fails, whatever existed before; then every table exists -/
theorem runAll_pre (pre post : List TempOp) (hp : ProgFacts pre post) (l : List (Bool × Bool)) :
    (runAll false pre l).1 = !(l.any (·.1)) ∧ ((runAll false pre l).1 = true → (runAll false pre l).2 = l.map (fun _ => true)) ∧
      (runAll false pre l).2.length = l.length := by
  induction l with
  | nil => simp [runAll]
  | cons a t ih =>
    obtain ⟨f, e⟩ := a
    unfold runAll
    simp only
    rw [hp.indep f e]
    cases f with
    | false =>
      rw [hp.clean]
      simp only [↓reduceIte, List.any_cons, Bool.false_or, List.map_cons, List.length_cons]
      exact ⟨ih.1, fun h => by rw [ih.2.1 h], by rw [ih.2.2]⟩
    | true =>
      have hf := hp.fail
      simp only [hf, Bool.false_eq_true, ↓reduceIte, List.any_cons, Bool.true_or, Bool.not_true, List.length_cons,
        List.length_map, false_implies, true_and]

/-- the loop after the `yield` on tables that all exist, no lock in force: no error, nothing left -/
theorem runAll_post (pre post : List TempOp) (hp : ProgFacts pre post) (n : Nat) :
    runAll false post (List.replicate n (false, true)) = (true, List.replicate n false) := by
  induction n with
  | zero => rfl
  | succ k ih =>
    simp only [List.replicate_succ]
    unfold runAll
    simp only
    rw [hp.drops]
    simp only [↓reduceIte, ih]

theorem runAll_length (l : Bool) (prog : List TempOp) (xs : List (Bool × Bool)) : (runAll l prog xs).2.length = xs.length := by
  induction xs with
  | nil => rfl
  | cons a t ih =>
    obtain ⟨f, e⟩ := a
    unfold runAll
    simp only
    split <;> simp [ih]

theorem any_zip_fst (fails : List Bool) (db : List Bool) (h : db.length = fails.length) :
    ((fails.zip db).any (·.1)) = fails.any id := by
  induction fails generalizing db with
  | nil => simp
  | cons f t ih =>
    cases db with
    | nil => simp at h
    | cons e r =>
      simp only [List.zip_cons_cons, List.any_cons, id]
      rw [ih r (by simpa using h)]

/-- **one read on an object without a lock, by a program that closes its cursors**: the answer is the stateless one, the number
of tables is kept, and no lock is left — whether or not the caller keeps the exception, wherever the read was refused -/
theorem withTemp_answer {α} (P : Prog) (hp : ProgFacts P.pre P.post) (hc : P.closes = true) (fails db : List Bool)
    (kept exhausted : Bool) (h : db.length = fails.length) (body : Except ErrKind α) :
    (withTemp P fails kept exhausted db false body).1 = (if fails.any id then .error .other else body) ∧
      (withTemp P fails kept exhausted db false body).2.1.length = fails.length ∧
      (withTemp P fails kept exhausted db false body).2.2 = false := by
  obtain ⟨h1, h2, h3⟩ := runAll_pre P.pre P.post hp (fails.zip db)
  have hz : (fails.zip db).length = fails.length := by simp [h]
  unfold withTemp
  simp only
  rw [any_zip_fst fails db h] at h1
  cases hany : fails.any id with
  | true =>
    rw [hany] at h1
    have h1' : (runAll false P.pre (fails.zip db)).1 = false := by simpa using h1
    simp only [h1', Bool.not_false, ↓reduceIte, h3, hz, and_self]
  | false =>
    rw [hany] at h1
    have h1' : (runAll false P.pre (fails.zip db)).1 = true := by simpa using h1
    have hall := h2 h1'
    have hrep : (runAll false P.pre (fails.zip db)).2 = List.replicate fails.length true := by
      rw [hall, ← hz]
      exact List.map_const' ..
    simp only [h1', Bool.not_true, Bool.false_eq_true, ↓reduceIte, hrep, List.map_replicate, hc, Bool.and_false,
      Bool.false_and, Bool.or_false, Bool.or_self]
    have hpost := runAll_post P.pre P.post hp fails.length
    cases body with
    | error e =>
      refine ⟨rfl, ?_, rfl⟩
      cases P.guarded
      · simp
      · simp [hpost]
    | ok v => simp [hpost]

/-- **histories**: whatever tables are left behind and whether the pixel array is cached at the start, whatever was read (or
refused, with the exception kept or not) before, every answer is the stateless one and no lock ever arises — provided the code
closes its cursors (`P.closes`) and the frames taken from the cached array are the frames decoded one by one -/
theorem run_stateless {α} (P : Prog) (hp : ProgFacts P.pre P.post) (hc : P.closes = true) (n : Nat) (ops : List (Op α))
    (hlen : ∀ f k x d c, Op.read f k x d c ∈ ops → f.length = n) (hlaw : ∀ f k x d c, Op.read f k x d c ∈ ops → c = d)
    (σ : ObjState) (hσ : σ.db.length = n) (hl : σ.locked = false) : run P ops σ = ops.map stateless := by
  induction ops generalizing σ with
  | nil => rfl
  | cons op rest ih =>
    unfold run
    simp only [List.map_cons]
    have ih' := ih (fun f k x d c hm => hlen f k x d c (List.mem_cons_of_mem _ hm))
      (fun f k x d c hm => hlaw f k x d c (List.mem_cons_of_mem _ hm))
    cases op with
    | touch =>
      simp only [step, stateless]
      rw [ih' { σ with cached := true } hσ hl]
    | release =>
      simp only [step, stateless]
      rw [ih' { σ with locked := false } hσ rfl]
    | read f k x d c =>
      have hf := hlen f k x d c (by simp)
      have hcd := hlaw f k x d c (by simp)
      subst hcd
      have hcc : (if σ.cached then c else c) = c := by simp
      obtain ⟨ha, hlen', hlock⟩ := withTemp_answer P hp hc f σ.db k x (by rw [hσ, hf]) c
      simp only [step, stateless, hl, hcc]
      rw [ih' _ (by simp only; rw [hlen', hf]) (by simp only; exact hlock)]
      simp only [ha]

end HdVerif.SegState
