import HdVerif.Model.SegRead
import HdVerif.Model.SegMeta
/-! Helper lemmas for C02: casts, the translated decisions in closed form, table look-ups, the frame loops. -/
namespace HdVerif.SegReadLemmas
open HdVerif HdVerif.Gen HdVerif.SegRead

/-! ### generic -/

theorem mapM_ok {α β} (f : α → Except ErrKind β) (g : α → β) (l : List α)
    (h : ∀ x ∈ l, f x = .ok (g x)) : l.mapM f = .ok (l.map g) := by
  induction l with
  | nil => rfl
  | cons a t ih =>
    rw [List.mapM_cons, h a (by simp), ih (fun x hx => h x (by simp [hx]))]
    rfl

theorem mapM_error {α β} (f : α → Except ErrKind β) (l : List α) (e : ErrKind)
    (h : ∀ x ∈ l, (∃ y, f x = .ok y) ∨ f x = .error e) (hx : ∃ x ∈ l, f x = .error e) :
    l.mapM f = .error e := by
  induction l with
  | nil => simp at hx
  | cons a t ih =>
    rw [List.mapM_cons]
    rcases h a (by simp) with ⟨y, hy⟩ | he
    · rw [hy]
      obtain ⟨x, hxm, hxe⟩ := hx
      have : x ∈ t := by
        rcases List.mem_cons.mp hxm with rfl | h'
        · rw [hy] at hxe; cases hxe
        · exact h'
      rw [ih (fun x hx => h x (by simp [hx])) ⟨x, this, hxe⟩]
      rfl
    · rw [he]; rfl

/-! ### casts -/

theorem castVal_of_le (d : DType) (v : Int) (h0 : 0 ≤ v) (h1 : v ≤ d.maxVal) : castVal d v = v := by
  cases d <;> simp only [castVal, DType.maxVal] at * <;> omega

theorem castVal_zero (d : DType) : castVal d 0 = 0 := by cases d <;> simp [castVal]
theorem castVal_one (d : DType) : castVal d 1 = 1 := by cases d <;> simp [castVal]

set_option exponentiation.threshold 2000 in
theorem one_le_maxVal (d : DType) : 1 ≤ d.maxVal := by cases d <;> simp [DType.maxVal]

theorem ofCode_code (d : DType) : DType.ofCode d.code = some d := by cases d <;> rfl

/-- the translated capacity check (T8g) in closed form -/
theorem checkReprT_eq (mv : Int) (kind : String) (fm im : Int) :
    checkReprT mv kind fm im =
      if (if kind == "f" then decide (mv > fm) else if (kind == "i" || kind == "u") then decide (mv > im)
          else if kind == "b" then decide (mv > 1) else false) = true
      then .error .value else .ok mv := by
  unfold checkReprT
  by_cases h1 : (kind == "f") = true <;> by_cases h2 : (kind == "i" || kind == "u") = true <;>
    by_cases h3 : (kind == "b") = true <;> simp [h1, h2, h3] <;> split <;> simp_all

theorem map_ite (c : Prop) [Decidable c] (e : ErrKind) (a : Int) :
    (if c then Except.error e else Except.ok a : Except ErrKind Int).map (fun _ => ()) =
      if c then .error e else .ok () := by
  by_cases h : c <;> simp [h, Except.map]

set_option exponentiation.threshold 2000 in
theorem checkRepr_eq (mv : Int) (d : DType) :
    checkRepr mv d = if mv > d.maxVal then .error .value else .ok () := by
  unfold checkRepr
  rw [checkReprT_eq]
  cases d <;> simp [DType.kind, DType.maxVal, map_ite]

theorem castFrame_id (d : DType) (f : List Int) (h : ∀ v ∈ f, 0 ≤ v ∧ v ≤ d.maxVal) : castFrame d f = f := by
  unfold castFrame
  induction f with
  | nil => rfl
  | cons a t ih =>
    simp only [List.map_cons]
    rw [castVal_of_le d a (h a (by simp)).1 (h a (by simp)).2, ih (fun v hv => h v (by simp [hv]))]

/-! ### the translated decisions in closed form -/

theorem unsignedDtype_eq (v : Int) :
    unsignedDtype v = .ok (if v < 256 then 8 else if v < 65536 then 16 else 32) := by
  unfold unsignedDtype; grind

/-- LABELMAP decision for the two bit depths a label map can have (`n` = number of requested segments ≥ 1) -/
theorem labelmapDecision_eq (combine relabel : Bool) (dc n x : Int) (one : Bool) (bits : Nat)
    (hb : bits = 8 ∨ bits = 16) (hn : 1 ≤ n) :
    labelmapDecision false combine relabel dc n x one (bits : Int) =
      .ok (((!combine || relabel) || decide (0 < x)),
           if ((!combine || relabel) || decide (0 < x)) then (bits : Int) else dc) := by
  unfold labelmapDecision
  rcases hb with rfl | rfl <;> simp <;> grind

/-! ### lists -/

theorem foldl_max_ge (l : List Nat) (a : Nat) : a ≤ l.foldl max a := by
  induction l generalizing a with
  | nil => exact Nat.le_refl _
  | cons b t ih => exact Nat.le_trans (Nat.le_max_left a b) (ih (max a b))

theorem le_foldl_max (l : List Nat) (a x : Nat) (hx : x ∈ l) : x ≤ l.foldl max a := by
  induction l generalizing a with
  | nil => cases hx
  | cons b t ih =>
    rcases List.mem_cons.mp hx with rfl | h
    · exact Nat.le_trans (Nat.le_max_right a x) (foldl_max_ge t (max a x))
    · exact ih (max a b) h

theorem le_listMax (l : List Nat) (x : Nat) (hx : x ∈ l) : x ≤ listMax l := le_foldl_max l 0 x hx

theorem mem_uniq (l : List Nat) (x : Nat) : x ∈ uniq l ↔ x ∈ l := by
  induction l with
  | nil => simp [uniq]
  | cons a t ih =>
    unfold uniq
    by_cases h : a ∈ t
    · have hc : t.contains a = true := by simpa using h
      simp only [hc, ↓reduceIte, ih, List.mem_cons]
      constructor
      · exact Or.inr
      · rintro (rfl | h')
        · exact h
        · exact h'
    · have hc : t.contains a = false := by simpa using h
      simp only [hc, Bool.false_eq_true, ↓reduceIte, List.mem_cons, ih]

theorem nXor_zero_sub (a b : List Nat) (h : nXor a b = 0) : ∀ x ∈ b, x ∈ a := by
  intro x hx
  unfold nXor at h
  have h2 : ((uniq b).filter (fun x => !a.contains x)).length = 0 := by omega
  have h3 := List.length_eq_zero_iff.mp h2
  have hxu : x ∈ uniq b := (mem_uniq b x).mpr hx
  apply Decidable.byContradiction
  intro hna
  have : x ∈ (uniq b).filter (fun x => !a.contains x) := by
    rw [List.mem_filter]; exact ⟨hxu, by simpa using hna⟩
  rw [h3] at this
  cases this

theorem uniq_length_le (l : List Nat) : (uniq l).length ≤ l.length := by
  induction l with
  | nil => simp [uniq]
  | cons a t ih =>
    unfold uniq
    by_cases hc : t.contains a = true
    · simp only [hc, ↓reduceIte, List.length_cons]; omega
    · simp only [hc, Bool.false_eq_true, ↓reduceIte, List.length_cons]; omega

/-- `len(np.unique(x)) == len(x)` says: no value occurs twice -/
theorem uniq_length_eq_iff (l : List Nat) : (uniq l).length = l.length ↔ l.Nodup := by
  induction l with
  | nil => simp [uniq]
  | cons a t ih =>
    unfold uniq
    have hle := uniq_length_le t
    by_cases hc : t.contains a = true
    · have hm : a ∈ t := by simpa using hc
      simp only [hc, ↓reduceIte, List.length_cons, List.nodup_cons]
      constructor
      · intro h; omega
      · intro h; exact absurd hm h.1
    · have hm : a ∉ t := by simpa using hc
      simp only [hc, Bool.false_eq_true, ↓reduceIte, List.length_cons, List.nodup_cons, Nat.add_right_cancel_iff, ih]
      exact ⟨fun h => ⟨hm, h⟩, fun h => h.2⟩

/-! ### `_get_pixels_by_seg_frame`: the head in closed form -/

/-- the translated validation of the requested numbers (T8p) in closed form -/
theorem requestAdmitted_eq (allKnown : Bool) (nd n : Int) :
    requestAdmitted allKnown nd n =
      if allKnown = false then .error .value else if nd ≠ n then .error .value else .ok n := by
  unfold requestAdmitted
  cases allKnown <;> by_cases h : nd = n <;> simp [h]

/-- … on a request: refused iff some number is not described or some number occurs twice -/
theorem requestAdmitted_request (st : Stored) (rq : Req) :
    requestAdmitted (rq.segs.all fun s => st.segNums.contains s) ((uniq rq.segs).length : Int) (rq.segs.length : Int) =
      if (∀ s ∈ rq.segs, s ∈ st.segNums) ∧ rq.segs.Nodup then .ok (rq.segs.length : Int) else .error .value := by
  rw [requestAdmitted_eq]
  by_cases hsub : ∀ s ∈ rq.segs, s ∈ st.segNums
  · have h1 : (rq.segs.all fun s => st.segNums.contains s) = true := by
      rw [List.all_eq_true]; intro s hs; simpa using hsub s hs
    rw [h1]
    by_cases hnd : rq.segs.Nodup
    · have := (uniq_length_eq_iff rq.segs).mpr hnd
      rw [if_neg (by simp), if_neg (by simp [this]), if_pos ⟨hsub, hnd⟩]
    · have : (uniq rq.segs).length ≠ rq.segs.length := fun h => hnd ((uniq_length_eq_iff rq.segs).mp h)
      have h' : ((uniq rq.segs).length : Int) ≠ (rq.segs.length : Int) := by omega
      rw [if_neg (by simp), if_pos h', if_neg (fun h => hnd h.2)]
  · have h1 : (rq.segs.all fun s => st.segNums.contains s) = false := by
      rw [List.all_eq_false]
      apply Classical.byContradiction
      intro hne
      apply hsub
      intro s hs
      apply Classical.byContradiction
      intro hn
      exact hne ⟨s, hs, by simpa using hn⟩
    rw [h1, if_pos rfl, if_neg (fun h => hsub h.1)]

theorem readHead_eq (st : Stored) (rq : Req) :
    readHead rq.combine rq.relabel rq.rescale (rq.dtype.map DType.code) rq.segs.length (listMax rq.segs)
      (st.type == .fractional) st.mfv = .ok (ceiling st rq, willRescale st rq, (chosenDtype st rq).code) := by
  unfold readHead ceiling willRescale chosenDtype ceiling willRescale
  cases hd : rq.dtype with
  | none =>
    simp only [Option.map_none]
    have key : ∀ c : Int, (if c < 256 then (8:Int) else if c < 65536 then 16 else 32) =
        (if c < 256 then DType.u8 else if c < 65536 then .u16 else .u32).code := by
      intro c
      by_cases h1 : c < 256
      · simp [h1, DType.code]
      · by_cases h2 : c < 65536 <;> simp [h1, h2, DType.code]
    cases rq.combine <;> cases rq.relabel <;> cases rq.rescale <;> cases (st.type == SegType.fractional) <;>
      simp only [Bool.false_eq_true, ↓reduceIte, Bool.not_false, Bool.not_true, Bool.and_true, Bool.and_false,
        Bool.true_and, Bool.false_and, Bool.and_self, decide_eq_true_eq, key] <;> first | rfl | (simp [DType.code])
  | some d =>
    simp only [Option.map_some]

theorem readCore_eq (st : Stored) (rq : Req) (hsub : ∀ s ∈ rq.segs, s ∈ st.segNums) (hnd : rq.segs.Nodup) :
    readCore st rq =
      (if ceiling st rq > (chosenDtype st rq).maxVal then .error .value
       else if st.type = .labelmap then labelmapRead st rq (chosenDtype st rq)
       else stackRead st rq (chosenDtype st rq) (willRescale st rq)) := by
  unfold readCore
  have h1 : (∀ s ∈ rq.segs, s ∈ st.segNums) ∧ rq.segs.Nodup := ⟨hsub, hnd⟩
  rw [requestAdmitted_request, if_pos h1]
  simp only [readHead_eq, bind, Except.bind, ofCode_code, checkRepr_eq]
  by_cases h : ceiling st rq > (chosenDtype st rq).maxVal
  · simp [h]
  · simp [h]
/-- a request naming an undescribed number, or a number twice, is refused before anything else -/
theorem readCore_not_admitted (st : Stored) (rq : Req) (h : ¬ ((∀ s ∈ rq.segs, s ∈ st.segNums) ∧ rq.segs.Nodup)) :
    readCore st rq = .error .value := by
  unfold readCore
  rw [requestAdmitted_request, if_neg h]
  rfl

end HdVerif.SegReadLemmas
