import HdVerif.Model.SegMeta
/-! C02 helper lemmas: segment metadata search. -/
namespace HdVerif.SegMetaLemmas
open HdVerif HdVerif.Gen HdVerif.SegMeta

theorem numberFilterFuncs_all (m : Mapping) (f : Filter) (ppv : Option Nat) (d : Desc) :
    ((numberFilterFuncs m f ppv).all fun g => g d) = (matchesFilter m f d && !isBackground ppv d) := by
  unfold numberFilterFuncs matchesFilter isBackground
  cases f.label <;> cases f.category <;> cases f.ptype <;> cases f.algo <;> cases f.trackingUid <;>
    cases f.trackingId <;> cases ppv <;> simp [Bool.and_assoc, bne]

theorem trackingFilterFuncs_all (m : Mapping) (f : Filter) (d : Desc)
    (h : f.label = none ∧ f.trackingUid = none ∧ f.trackingId = none) :
    ((trackingFilterFuncs m f).all fun g => g d) = matchesFilter m f d := by
  unfold trackingFilterFuncs matchesFilter
  rw [h.1, h.2.1, h.2.2]
  cases f.category <;> cases f.ptype <;> cases f.algo <;> simp [Bool.and_assoc]

theorem nodup_eraseDups {α} [BEq α] [LawfulBEq α] (l : List α) : l.eraseDups.Nodup := by
  induction hn : l.length using Nat.strongRecOn generalizing l with
  | _ n ih =>
    cases l with
    | nil => simp
    | cons a t =>
      rw [List.eraseDups_cons, List.nodup_cons]
      constructor
      · intro hm
        have := (List.mem_eraseDups.mp hm)
        simp at this
      · have hlt : (t.filter fun b => !b == a).length < n := by
          have := List.length_filter_le (fun b => !b == a) t
          simp at hn; omega
        exact ih _ hlt _ rfl

/-! ### first-come de-duplication -/

/-- invariant of the loop, for any starting accumulator -/
theorem dedup_fold (m : Mapping) (codes acc : List PCode) :
    let r := codes.foldl (fun acc c => if acc.any (fun e => pydCodeEq m c e) then acc else acc ++ [c]) acc
    (∃ t, r = acc ++ t ∧ t.Sublist codes ∧
      (∀ c ∈ codes, ∃ e ∈ r, pydCodeEq m c e = true ∨ c ∈ t) ∧
      t.Pairwise (fun a b => pydCodeEq m b a = false) ∧ (∀ b ∈ t, ∀ a ∈ acc, pydCodeEq m b a = false)) := by
  induction codes generalizing acc with
  | nil => exact ⟨[], by simp⟩
  | cons c rest ih =>
    simp only [List.foldl_cons]
    by_cases hany : acc.any (fun e => pydCodeEq m c e) = true
    · simp only [hany, ↓reduceIte]
      obtain ⟨t, hr, hsub, hcov, hpw, hacc⟩ := ih acc
      refine ⟨t, hr, hsub.cons c, ?_, hpw, hacc⟩
      intro x hx
      rcases List.mem_cons.mp hx with rfl | hx
      · obtain ⟨e, he, hee⟩ := List.any_eq_true.mp hany
        exact ⟨e, by rw [hr]; exact List.mem_append_left _ he, Or.inl hee⟩
      · exact hcov x hx
    · simp only [hany, Bool.false_eq_true, ↓reduceIte]
      obtain ⟨t, hr, hsub, hcov, hpw, hacc⟩ := ih (acc ++ [c])
      refine ⟨c :: t, by rw [hr]; simp, hsub.cons₂ c, ?_, ?_, ?_⟩
      · intro x hx
        rcases List.mem_cons.mp hx with rfl | hx
        · exact ⟨x, by rw [hr]; simp, Or.inr (by simp)⟩
        · obtain ⟨e, he, hee⟩ := hcov x hx
          exact ⟨e, he, hee.imp id (fun h => List.mem_cons_of_mem _ h)⟩
      · rw [List.pairwise_cons]
        exact ⟨fun b hb => hacc b hb c (by simp), hpw⟩
      · intro b hb a ha
        rcases List.mem_cons.mp hb with rfl | hb
        · have := List.any_eq_false.mp (by simpa using hany) a ha
          simpa using this
        · exact hacc b hb a (List.mem_append_left _ ha)

theorem dedupCodes_spec (m : Mapping) (codes : List PCode) :
    (dedupCodes m codes).Sublist codes ∧
    (∀ c ∈ codes, ∃ e ∈ dedupCodes m codes, pydCodeEq m c e = true ∨ c = e) ∧
    (dedupCodes m codes).Pairwise (fun a b => pydCodeEq m b a = false) := by
  obtain ⟨t, hr, hsub, hcov, hpw, _⟩ := dedup_fold m codes []
  have hrt : dedupCodes m codes = t := by unfold dedupCodes; simpa using hr
  rw [hrt]
  refine ⟨hsub, ?_, hpw⟩
  intro c hc
  obtain ⟨e, he, hee⟩ := hcov c hc
  rcases hee with h | h
  · exact ⟨e, by rw [← hrt]; exact he, Or.inl h⟩
  · exact ⟨c, h, Or.inr rfl⟩

end HdVerif.SegMetaLemmas
