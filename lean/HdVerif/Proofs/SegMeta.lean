import HdVerif.Model.SegMeta
/-! C02 helper lemmas: segment metadata search. -/
namespace HdVerif.SegMetaLemmas
open HdVerif HdVerif.Gen HdVerif.SegMeta

theorem numberFilterFuncs_all (m : Mapping) (f : Filter) (ppv : Option Nat) (d : Desc) :
    ((numberFilterFuncs m f ppv).all fun g => g d) = (matchesFilter m f d && !isBackground ppv d) := by
  unfold numberFilterFuncs matchesFilter isBackground
  cases f.label <;> cases f.category <;> cases f.ptype <;> cases f.algo <;> cases f.trackingUid <;>
    cases f.trackingId <;> cases ppv <;> simp [Bool.and_assoc, bne]

theorem trackingFilterFuncs_all (m : Mapping) (f : Filter) (d : Desc)
    (h : f.label = none ∧ f.trackingUid = none ∧ f.trackingId = none) :
    ((trackingFilterFuncs m f).all fun g => g d) = matchesFilter m f d := by
  unfold trackingFilterFuncs matchesFilter
  rw [h.1, h.2.1, h.2.2]
  cases f.category <;> cases f.ptype <;> cases f.algo <;> simp [Bool.and_assoc]

theorem nodup_eraseDups {α} [BEq α] [LawfulBEq α] (l : List α) : l.eraseDups.Nodup := by
  induction hn : l.length using Nat.strongRecOn generalizing l with
  | _ n ih =>
    cases l with
    | nil => simp
    | cons a t =>
      rw [List.eraseDups_cons, List.nodup_cons]
      constructor
      · intro hm
        have := (List.mem_eraseDups.mp hm)
        simp at this
      · have hlt : (t.filter fun b => !b == a).length < n := by
          have := List.length_filter_le (fun b => !b == a) t
          simp at hn; omega
        exact ih _ hlt _ rfl

end HdVerif.SegMetaLemmas
