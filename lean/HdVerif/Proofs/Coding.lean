import HdVerif.Model.Coding
/-! Specification-level vocabulary and helper lemmas for C17. -/
namespace HdVerif.Coding
open HdVerif HdVerif.Gen

/-- the value of a code, read the way the standard says (whichever of the three attributes is present) -/
def specValue : Obj → Option String
  | .code c => c.value
  | .concept d => match DS.get d "CodeValue" with
    | some v => some v
    | none => match DS.get d "LongCodeValue" with
      | some v => some v
      | none => DS.get d "URNCodeValue"

def specScheme : Obj → Option String
  | .code c => c.scheme
  | .concept d => DS.get d "CodingSchemeDesignator"

def specVersion : Obj → Option String
  | .code c => c.version
  | .concept d => DS.get d "CodingSchemeVersion"

def specMeaning : Obj → Option String
  | .code c => c.meaning
  | .concept d => DS.get d "CodeMeaning"

/-- specification of pydicom's normalisation: a retired SRT value is replaced by its SCT successor, the
meaning is dropped (`retired` is `snomed_mapping["SRT"].get`) -/
def mapKey (retired : String → Option String) (value scheme version : Option String) :
    Option String × Option String × Option String :=
  match scheme, value with
  | some s, some v =>
    if s = "SRT" then
      match retired v with
      | some w => (some w, some "SCT", version)
      | none => (value, scheme, version)
    else (value, scheme, version)
  | _, _ => (value, scheme, version)

/-- normalised identity of a code; `mapping s v` is `snomed_mapping[s].get(v)` -/
def key (mapping : String → String → Option String) (o : Obj) : Option String × Option String × Option String :=
  mapKey (mapping "SRT") (specValue o) (specScheme o) (specVersion o)

/-- **pydicom's `Code.__eq__` as translated from its source compares the normalised keys** -/
theorem pydCodeEq_spec (mapping : String → String → Option String) (s o : PCode) :
    pydCodeEq mapping s o =
      decide (mapKey (mapping "SRT") s.value s.scheme s.version = mapKey (mapping "SRT") o.value o.scheme o.version) := by
  have side : ∀ (p : PCode),
      ((if ((p.scheme == some "SRT") && dictHas mapping "SRT" p.value) then
          ({ value := dictGet mapping "SRT" p.value, scheme := some "SCT", meaning := some "", version := p.version } : PCode)
        else ({ value := p.value, scheme := p.scheme, meaning := some "", version := p.version } : PCode)) : PCode) =
      { value := (mapKey (mapping "SRT") p.value p.scheme p.version).1,
        scheme := (mapKey (mapping "SRT") p.value p.scheme p.version).2.1, meaning := some "",
        version := (mapKey (mapping "SRT") p.value p.scheme p.version).2.2 } := by
    intro p
    obtain ⟨v, sc, m, ver⟩ := p
    cases sc with
    | none => cases v <;> simp [mapKey, dictHas]
    | some sc =>
      cases v with
      | none => simp [mapKey, dictHas]
      | some v =>
        by_cases hs : sc = "SRT"
        · subst hs
          cases hm : mapping "SRT" v <;> simp [mapKey, dictHas, dictGet, hm]
        · simp [mapKey, hs]
  unfold pydCodeEq
  simp only [side s, side o]
  generalize mapKey (mapping "SRT") s.value s.scheme s.version = ks
  generalize mapKey (mapping "SRT") o.value o.scheme o.version = ko
  obtain ⟨a1, a2, a3⟩ := ks
  obtain ⟨b1, b2, b3⟩ := ko
  by_cases h1 : a1 = b1 <;> by_cases h2 : a2 = b2 <;> by_cases h3 : a3 = b3 <;> simp [h1, h2, h3]

/-- what every object made by `Code(..)`, `CodedConcept(..)`, `from_dataset`, `from_code` satisfies -/
def Obj.wf : Obj → Prop
  | .code c => c.value.isSome ∧ c.scheme.isSome ∧ c.meaning.isSome
  | .concept d => countPresent d ["CodeValue", "LongCodeValue", "URNCodeValue"] = 1 ∧
      DS.has d "CodeMeaning" = true ∧ DS.has d "CodingSchemeDesignator" = true

instance (o : Obj) : Decidable o.wf := by
  cases o <;> simp only [Obj.wf] <;> exact inferInstance

/-- what `==` needs from a concept: the two attributes `CodedConcept.__eq__` reads unconditionally exist
(the value attributes and the version are read with a default) -/
def Obj.readable : Obj → Prop
  | .code _ => True
  | .concept d => DS.has d "CodeMeaning" = true ∧ DS.has d "CodingSchemeDesignator" = true

instance (o : Obj) : Decidable o.readable := by
  cases o <;> simp only [Obj.readable] <;> exact inferInstance

theorem wf_readable (o : Obj) (h : o.wf) : o.readable := by
  cases o with
  | code c => trivial
  | concept d => exact ⟨h.2.1, h.2.2⟩

theorem attr_scheme' (o : Obj) (h : o.readable) : o.attr "scheme_designator" = .ok (specScheme o) := by
  cases o with
  | code c => simp [Obj.attr, specScheme]
  | concept d =>
    obtain ⟨_, hs⟩ := h
    simp only [DS.has, Option.isSome_iff_exists] at hs
    obtain ⟨s, hs⟩ := hs
    simp [Obj.attr, prop, propertyAttr, List.lookup, specScheme, hs]

theorem attr_scheme (o : Obj) (h : o.wf) : o.attr "scheme_designator" = .ok (specScheme o) :=
  attr_scheme' o (wf_readable o h)

theorem attr_value (o : Obj) : o.attr "value" = .ok (specValue o) := by
  cases o with
  | code c => simp [Obj.attr, specValue]
  | concept d =>
    simp only [Obj.attr, prop, valueLookup, firstPresent, specValue, if_true]
    cases DS.get d "CodeValue" <;> cases DS.get d "LongCodeValue" <;> cases DS.get d "URNCodeValue" <;> rfl

theorem attr_version (o : Obj) : o.attr "scheme_version" = .ok (specVersion o) := by
  cases o with
  | code c => simp [Obj.attr, specVersion]
  | concept d =>
    simp [Obj.attr, prop, propertyAttr, List.lookup, specVersion]
    cases DS.get d "CodingSchemeVersion" <;> rfl

theorem attr_meaning' (o : Obj) (h : o.readable) : o.attr "meaning" = .ok (specMeaning o) := by
  cases o with
  | code c => simp [Obj.attr, specMeaning]
  | concept d =>
    obtain ⟨hm, _⟩ := h
    simp only [DS.has, Option.isSome_iff_exists] at hm
    obtain ⟨s, hm⟩ := hm
    simp [Obj.attr, prop, propertyAttr, specMeaning, hm]

theorem attr_meaning (o : Obj) (h : o.wf) : o.attr "meaning" = .ok (specMeaning o) :=
  attr_meaning' o (wf_readable o h)

/-- `Code.__eq__(self, other)` compares the normalised keys -/
theorem codeEq_key (retired : String → String → Option String) (c : Code) (o : Obj) (h : o.readable) :
    codeEq retired c o = .ok (decide (key retired (.code c) = key retired o)) := by
  simp only [codeEq, pydEqOtherReads, readAttrs, attr_scheme' o h, attr_value o, attr_version o, readField, List.lookup,
    pydCodeEq_spec]
  rfl

/-- the `this` that `CodedConcept.__eq__` builds carries the concept's own value, scheme and version -/
theorem thisOf_spec (d : DS) (h : (Obj.concept d).readable) :
    thisOf d = .ok ⟨specValue (.concept d), specScheme (.concept d), specMeaning (.concept d), specVersion (.concept d)⟩ := by
  have hv := attr_value (.concept d)
  have hs := attr_scheme' (.concept d) h
  have hm := attr_meaning' (.concept d) h
  have hver := attr_version (.concept d)
  simp only [Obj.attr] at hv hs hm hver
  simp only [thisOf, eqThisArgs, mapE, hv, hs, hm, hver, codeOfArgs]

/-- **equality is decided by the normalised key**, for every mix of representations -/
theorem objEq_key' (retired : String → String → Option String) (a b : Obj) (ha : a.readable) (hb : b.readable) :
    objEq retired a b = .ok (decide (key retired a = key retired b)) := by
  cases a with
  | code c => exact codeEq_key retired c b hb
  | concept d =>
    simp only [objEq, thisOf_spec d ha]
    rw [codeEq_key retired _ b hb]
    rfl

theorem objEq_key (retired : String → String → Option String) (a b : Obj) (ha : a.wf) (hb : b.wf) :
    objEq retired a b = .ok (decide (key retired a = key retired b)) :=
  objEq_key' retired a b (wf_readable a ha) (wf_readable b hb)

end HdVerif.Coding

namespace HdVerif.Coding
open HdVerif HdVerif.Gen

theorem wf_value_some (o : Obj) (h : o.wf) : ∃ v, specValue o = some v := by
  cases o with
  | code c =>
    obtain ⟨hv, _, _⟩ := h
    exact Option.isSome_iff_exists.mp hv
  | concept d =>
    obtain ⟨hc, _, _⟩ := h
    simp only [countPresent, DS.has, List.filter] at hc
    simp only [specValue]
    cases h1 : DS.get d "CodeValue" <;> cases h2 : DS.get d "LongCodeValue" <;> cases h3 : DS.get d "URNCodeValue" <;>
      simp [h1, h2, h3] at hc ⊢

theorem wf_scheme_some (o : Obj) (h : o.wf) : ∃ s, specScheme o = some s := by
  cases o with
  | code c => exact Option.isSome_iff_exists.mp h.2.1
  | concept d => exact Option.isSome_iff_exists.mp h.2.2

/-- the string that is hashed is scheme ++ value, whichever class -/
theorem hashInput_spec (o : Obj) (h : o.wf) (s v : String) (hs : specScheme o = some s) (hv : specValue o = some v) :
    hashInput o = .ok (s ++ v) := by
  cases o with
  | code c =>
    simp only [specScheme, specValue] at hs hv
    simp [hashInput, pydHashArgs, mapE, Obj.attr, concatAll, hs, hv]
  | concept d =>
    have h1 := attr_value (.concept d)
    have h2 := attr_scheme (.concept d) h
    simp only [Obj.attr] at h1 h2
    simp [hashInput, hashArgs, mapE, h1, h2, hs, hv, concatAll]

theorem lookup_filter_ne (d : DS) (k k' : String) (hne : k' ≠ k) :
    List.lookup k' (d.filter (fun e => e.1 != k)) = List.lookup k' d := by
  induction d with
  | nil => rfl
  | cons e rest ih =>
    obtain ⟨a, b⟩ := e
    by_cases ha : a = k
    · subst ha
      have : (k' == a) = false := by simpa using hne
      simp [List.filter, List.lookup, this, ih]
    · have : (a != k) = true := by simpa using ha
      simp only [List.filter, this, List.lookup]
      split <;> simp_all

theorem get_set (d : DS) (k v k' : String) :
    DS.get (DS.set d k v) k' = if k' = k then some v else DS.get d k' := by
  by_cases h : k' = k
  · subst h; simp [DS.get, DS.set]
  · have : (k' == k) = false := by simpa using h
    simp [DS.get, DS.set, List.lookup, this, h, lookup_filter_ne d k k' h]

end HdVerif.Coding

namespace HdVerif.Coding
open HdVerif HdVerif.Gen

/-! ### the constructor -/

theorem ctorValueAttr_spec (n ml : Nat) (a b b1 b2 b3 g4 b4 : Bool) :
    ctorValueAttr b1 b2 b3 g4 b4 (n : Int) a b (ml : Int) =
      if (b1 || b2 || b3 || (g4 && b4)) = true then .error .value
      else if ml > 64 then .error .value else .ok (if a || b then 2 else if n > 16 then 1 else 0) := by
  unfold ctorValueAttr
  grind (splits := 40)

theorem ctorArg_meaning (v s m : String) (ver : Option String) :
    ctorArg [some v, some s, some m, ver] "meaning" = some m := by
  simp [ctorArg, ctorParams, List.zip, List.zipWith, List.lookup]
theorem ctorArg_scheme (v s m : String) (ver : Option String) :
    ctorArg [some v, some s, some m, ver] "scheme_designator" = some s := by
  simp [ctorArg, ctorParams, List.zip, List.zipWith, List.lookup]
theorem ctorArg_version (v s m : String) (ver : Option String) :
    ctorArg [some v, some s, some m, ver] "scheme_version" = ver := by
  simp [ctorArg, ctorParams, List.zip, List.zipWith, List.lookup]

theorem filter_cons_ne (a b k : String) (rest : DS) (h : a ≠ k) :
    List.filter (fun e => e.1 != k) ((a, b) :: rest) = (a, b) :: List.filter (fun e => e.1 != k) rest := by
  have : (a != k) = true := by simpa using h
  simp [List.filter, this]

/-- URN (RFC 8141: the leading "urn" is case-insensitive) or URL, with the specification's OWN literals -/
def specIsUrn (v : String) : Bool :=
  "urn:".toList.isPrefixOf (v.toList.map Char.toLower) || hasInfix "://".toList v.toList

/-- the code's test (built from the regenerated literals) is the specification's -/
theorem looksLikeUrn_spec (v : String) : looksLikeUrn v = specIsUrn v := rfl

/-- which keyword the standard assigns: URN/URL form → URNCodeValue, otherwise by length -/
def stdKeyword (v : String) : String :=
  if specIsUrn v then "URNCodeValue" else if v.length ≤ 16 then "CodeValue" else "LongCodeValue"

/-- an argument the constructor must refuse: the DICOM value delimiter in any of the four strings -/
def anyBackslash (v s m : String) (ver : Option String) : Bool :=
  hasBackslash v || hasBackslash s || hasBackslash m || (ver.isSome && optHasBackslash ver)

/-- the dataset the constructor builds -/
def builtDS (kw v s m : String) : Option String → DS
  | none => [("CodingSchemeDesignator", s), ("CodeMeaning", m), (kw, v)]
  | some x => [("CodingSchemeVersion", x), ("CodingSchemeDesignator", s), ("CodeMeaning", m), (kw, v)]

theorem build_kw (kw v s m : String) (ver : Option String)
    (hkw : kw = "CodeValue" ∨ kw = "LongCodeValue" ∨ kw = "URNCodeValue") :
    (match applyFixed (ctorArg [some v, some s, some m, ver]) ctorFixedAssigns [(kw, v)] with
      | Except.error e => Except.error e
      | Except.ok d => Except.ok (applyOptional (ctorArg [some v, some s, some m, ver]) ctorOptionalAssigns d))
    = .ok (builtDS kw v s m ver) := by
  simp only [ctorFixedAssigns, ctorOptionalAssigns, applyFixed, applyOptional, ctorArg_meaning, ctorArg_scheme, ctorArg_version]
  rcases hkw with h | h | h <;> subst h <;> cases ver <;>
    simp (disch := decide) only [DS.set, filter_cons_ne, List.filter_nil, builtDS]

theorem stdKeyword_cases (v : String) :
    stdKeyword v = "CodeValue" ∨ stdKeyword v = "LongCodeValue" ∨ stdKeyword v = "URNCodeValue" := by
  unfold stdKeyword
  split
  · simp
  · split <;> simp

/-- the constructor, spelled out -/
theorem mkConcept_spec (v s m : String) (ver : Option String) :
    mkConcept v s m ver =
      if anyBackslash v s m ver = true then .error .value
      else if m.length > 64 then .error .value else .ok (builtDS (stdKeyword v) v s m ver) := by
  unfold mkConcept stdKeyword anyBackslash
  rw [ctorValueAttr_spec, ← looksLikeUrn_spec]
  unfold looksLikeUrn
  generalize prefixTest v = a
  generalize hasInfix urlMarker.toList v.toList = b
  by_cases hb : (hasBackslash v || hasBackslash s || hasBackslash m || (ver.isSome && optHasBackslash ver)) = true
  · simp [hb]
  · simp only [hb, Bool.false_eq_true, if_false]
    by_cases hm : m.length > 64
    · simp [hm]
    · simp only [hm, if_false]
      by_cases hu : (a || b) = true
      · simp only [hu, if_true]
        have : ¬ ((2 : Int) < 0) := by decide
        simp only [this, if_false]
        have : codeValueKeywords[(2 : Int).toNat]? = some "URNCodeValue" := by decide
        simp only [this]
        exact build_kw _ v s m ver (by simp)
      · simp only [hu, Bool.false_eq_true, if_false]
        by_cases hl : v.length > 16
        · have hl' : ¬ v.length ≤ 16 := by omega
          simp only [hl, hl', if_true, if_false]
          have : ¬ ((1 : Int) < 0) := by decide
          simp only [this, if_false]
          have : codeValueKeywords[(1 : Int).toNat]? = some "LongCodeValue" := by decide
          simp only [this]
          exact build_kw _ v s m ver (by simp)
        · have hl' : v.length ≤ 16 := by omega
          simp only [hl, hl', if_true, if_false]
          have : ¬ ((0 : Int) < 0) := by decide
          simp only [this, if_false]
          have : codeValueKeywords[(0 : Int).toNat]? = some "CodeValue" := by decide
          simp only [this]
          exact build_kw _ v s m ver (by simp)

end HdVerif.Coding

namespace HdVerif.Coding
open HdVerif HdVerif.Gen

/-! ### from_dataset -/

theorem fromDatasetDecision_spec (ref fresh : Int) (copy isDs h1 h2 h3 hm hs : Bool) (n : Nat) :
    fromDatasetDecision ref copy (n : Int) isDs fresh h1 h2 h3 hm hs =
      if isDs = false then .error .type
      else if n ≠ 1 ∨ hm = false ∨ hs = false then .error .attribute
      else .ok (if copy then fresh else ref) := by
  unfold fromDatasetDecision
  grind (splits := 40)

/-- a cell that `from_dataset` can turn into a coded concept: a pydicom dataset that is exactly one code -/
def acceptable (c : Cell) : Prop :=
  c.cls ≠ .notDataset ∧ countPresent c.ds ["CodeValue", "LongCodeValue", "URNCodeValue"] = 1 ∧
    DS.has c.ds "CodeMeaning" = true ∧ DS.has c.ds "CodingSchemeDesignator" = true

instance (c : Cell) : Decidable (acceptable c) := by unfold acceptable; exact inferInstance

theorem fromDataset_ok (h : Heap) (ref : Nat) (copy : Bool) (cell : Cell) (hc : h[ref]? = some cell)
    (hacc : acceptable cell) :
    fromDataset h ref copy = .ok (if copy then (h ++ [{ cls := .codedConcept, ds := cell.ds }], h.length)
                                  else (h.set ref { cell with cls := .codedConcept }, ref)) := by
  obtain ⟨h1, h2, h3, h4⟩ := hacc
  have hlt : ref < h.length := by
    rcases Nat.lt_or_ge ref h.length with hl | hl
    · exact hl
    · rw [List.getElem?_eq_none hl] at hc; cases hc
  have hcls : (cell.cls != Cls.notDataset) = true := by simpa using h1
  have hkw : countPresent cell.ds codeValueKeywords = 1 := h2
  unfold fromDataset
  simp only [hc, fromDatasetDecision_spec, hcls, hkw, h3, h4]
  cases copy
  · simp
  · have : ¬ ((h.length : Int) = (ref : Int)) := by omega
    simp [this]

theorem fromDataset_err (h : Heap) (ref : Nat) (copy : Bool) (cell : Cell) (hc : h[ref]? = some cell)
    (hn : ¬ acceptable cell) :
    fromDataset h ref copy = .error (if cell.cls = .notDataset then .type else .attribute) := by
  unfold fromDataset
  simp only [hc, fromDatasetDecision_spec]
  by_cases h1 : cell.cls = .notDataset
  · simp [h1]
  · have hcls : (cell.cls != Cls.notDataset) = true := by simpa using h1
    simp only [hcls, h1, if_false]
    have : countPresent cell.ds codeValueKeywords ≠ 1 ∨ DS.has cell.ds "CodeMeaning" = false ∨
        DS.has cell.ds "CodingSchemeDesignator" = false := by
      unfold acceptable at hn
      by_cases a : countPresent cell.ds codeValueKeywords = 1
      · by_cases b : DS.has cell.ds "CodeMeaning" = true
        · by_cases c : DS.has cell.ds "CodingSchemeDesignator" = true
          · exact absurd ⟨h1, a, b, c⟩ hn
          · right; right; simpa using c
        · right; left; simpa using b
      · left; exact a
    simp [this]

end HdVerif.Coding

namespace HdVerif.Coding
open HdVerif HdVerif.Gen

theorem lookup_cons_ne (a b k : String) (rest : DS) (h : k ≠ a) : List.lookup k ((a, b) :: rest) = List.lookup k rest := by
  have : (k == a) = false := by simpa using h
  simp [List.lookup, this]

theorem lookup_cons_eq (a b : String) (rest : DS) : List.lookup a ((a, b) :: rest) = some b := by
  simp [List.lookup]

/-- what the constructor builds is a well-formed concept -/
theorem builtDS_wf (kw v s m : String) (ver : Option String)
    (hkw : kw = "CodeValue" ∨ kw = "LongCodeValue" ∨ kw = "URNCodeValue") :
    (Obj.concept (builtDS kw v s m ver)).wf := by
  rcases hkw with h | h | h <;> subst h <;> cases ver <;>
    simp (disch := decide) [Obj.wf, countPresent, builtDS, DS.has, DS.get, lookup_cons_ne, List.filter]

end HdVerif.Coding

namespace HdVerif.Coding
open HdVerif HdVerif.Gen

/-! ### mutation through the dataset's attribute setters -/

theorem get_del (d : DS) (k k' : String) : DS.get (DS.del d k) k' = if k' = k then none else DS.get d k' := by
  by_cases h : k' = k
  · subst h
    simp only [DS.get, DS.del, if_true]
    induction d with
    | nil => rfl
    | cons e rest ih =>
      obtain ⟨a, b⟩ := e
      by_cases ha : a = k'
      · subst ha; simpa [List.filter] using ih
      · have h1 : (a != k') = true := by simpa using ha
        have h2 : (k' == a) = false := by simpa using (fun h => ha h.symm)
        simp [List.filter, h1, List.lookup, h2, ih]
  · simp [DS.get, DS.del, h, lookup_filter_ne d k k' h]

/-- the only mutations that can make `==` fail: deleting the meaning or the scheme designator -/
def Op.keepsReadable : Op → Prop
  | .set _ _ => True
  | .del k => k ≠ "CodeMeaning" ∧ k ≠ "CodingSchemeDesignator"

theorem applyOp_readable (d : DS) (op : Op) (h : (Obj.concept d).readable) (hop : op.keepsReadable) :
    (Obj.concept (applyOp d op)).readable := by
  obtain ⟨hm, hs⟩ := h
  simp only [DS.has] at hm hs
  cases op with
  | set k v =>
    simp only [applyOp, Obj.readable, DS.has, get_set]
    constructor
    · by_cases h1 : "CodeMeaning" = k <;> simp [h1, hm]
    · by_cases h1 : "CodingSchemeDesignator" = k <;> simp [h1, hs]
  | del k =>
    obtain ⟨h1, h2⟩ := hop
    simp only [applyOp, Obj.readable, DS.has, get_del]
    exact ⟨by simp [Ne.symm h1, hm], by simp [Ne.symm h2, hs]⟩

theorem applyOps_readable (ops : List Op) : ∀ (d : DS), (Obj.concept d).readable → (∀ op ∈ ops, op.keepsReadable) →
    (Obj.concept (applyOps d ops)).readable := by
  induction ops with
  | nil => intro d h _; exact h
  | cons op rest ih =>
    intro d h hall
    simp only [applyOps, List.foldl_cons]
    exact ih (applyOp d op) (applyOp_readable d op h (hall op (by simp))) (fun o ho => hall o (by simp [ho]))

end HdVerif.Coding

namespace HdVerif.Coding
open HdVerif HdVerif.Gen

/-- what acceptance by the constructor means -/
theorem mkConcept_ok (v s m : String) (ver : Option String) (d : DS) (hd : mkConcept v s m ver = .ok d) :
    anyBackslash v s m ver = false ∧ m.length ≤ 64 ∧ d = builtDS (stdKeyword v) v s m ver := by
  rw [mkConcept_spec] at hd
  by_cases hb : anyBackslash v s m ver = true
  · simp [hb] at hd
  · by_cases hm : m.length > 64
    · simp [hb, hm] at hd
    · simp only [hb, hm, if_false, Bool.false_eq_true] at hd
      refine ⟨by simpa using hb, by omega, ?_⟩
      cases hd; rfl

end HdVerif.Coding
