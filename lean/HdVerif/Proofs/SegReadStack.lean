import HdVerif.Proofs.SegRead
/-! C02 helper lemmas: the BINARY / FRACTIONAL branch (channel table join, stacking, combination loop). -/
namespace HdVerif.SegReadLemmas
open HdVerif HdVerif.Gen HdVerif.SegRead

/-! ### BINARY / FRACTIONAL, stacked -/

theorem length_foldl_set {α β} (l : List β) (tgt : β → Nat) (val : β → α) (acc : List α) :
    (l.foldl (fun a r => a.set (tgt r) (val r)) acc).length = acc.length := by
  induction l generalizing acc with
  | nil => rfl
  | cons b t ih => rw [List.foldl_cons, ih, List.length_set]

theorem foldl_set_same {α} (is : List Nat) (x : α) (acc : List α) (c : Nat) (hc : c < acc.length) :
    (is.foldl (fun a i => a.set i x) acc)[c]? = if c ∈ is then some x else acc[c]? := by
  induction is generalizing acc with
  | nil => simp
  | cons i t ih =>
    rw [List.foldl_cons, ih (acc.set i x) (by simpa using hc), List.getElem?_set]
    by_cases h1 : c ∈ t
    · simp [h1]
    · by_cases h2 : i = c
      · subst h2; simp [h1, hc]
      · have : ¬ c = i := fun h => h2 h.symm
        simp [h1, h2, this]

theorem mem_zip_range {α} (l : List α) (i : Nat) (s : α) :
    (i, s) ∈ (List.range l.length).zip l ↔ l[i]? = some s := by
  rw [List.mem_iff_getElem?]
  constructor
  · rintro ⟨j, hj⟩
    rw [List.getElem?_zip_eq_some] at hj
    obtain ⟨h1, h2⟩ := hj
    have hjl : j < l.length := by
      rcases List.getElem?_eq_some_iff.mp h2 with ⟨h, _⟩; exact h
    rw [List.getElem?_range hjl] at h1
    have : j = i := by simpa using h1
    subst this; exact h2
  · intro h
    have hil : i < l.length := by
      rcases List.getElem?_eq_some_iff.mp h with ⟨h', _⟩; exact h'
    refine ⟨i, ?_⟩
    rw [List.getElem?_zip_eq_some]
    exact ⟨by rw [List.getElem?_range hil], h⟩

/-- the rows one stored frame contributes to an uncombined read, as "set these channels to this frame" -/
theorem stack_inner (segs : List Nat) (g : SFrame → List Int) (f : SFrame) (acc : List (List Int)) (c : Nat)
    (hc : c < acc.length) :
    ((((chanTable segs none).filter (fun ch => ch.2 == f.seg)).map fun ch => (f, ch.1)).foldl
        (fun a r => a.set r.2 (g r.1)) acc)[c]? =
      if segs[c]? = some f.seg then some (g f) else acc[c]? := by
  rw [List.foldl_map]
  have := foldl_set_same (((chanTable segs none).filter (fun ch => ch.2 == f.seg)).map (·.1)) (g f) acc c hc
  rw [List.foldl_map] at this
  rw [this]
  have hm : c ∈ ((chanTable segs none).filter (fun ch => ch.2 == f.seg)).map (·.1) ↔ segs[c]? = some f.seg := by
    unfold chanTable
    simp only [List.mem_map, List.mem_filter]
    constructor
    · rintro ⟨⟨i, s⟩, ⟨hmem, hs⟩, rfl⟩
      have := (mem_zip_range segs i s).mp hmem
      simp only [beq_iff_eq] at hs
      subst hs; exact this
    · intro h
      exact ⟨(c, f.seg), ⟨(mem_zip_range segs c f.seg).mpr h, by simp⟩, rfl⟩
  by_cases h : segs[c]? = some f.seg
  · simp [h, hm.mpr h]
  · have : ¬ c ∈ ((chanTable segs none).filter (fun ch => ch.2 == f.seg)).map (·.1) := fun h' => h (hm.mp h')
    simp [h, this]

/-- uncombined read, one output frame, frames with pairwise different segment numbers -/
theorem stack_outer (segs : List Nat) (g : SFrame → List Int) (F : List SFrame)
    (hp : F.Pairwise (fun a b => a.seg ≠ b.seg)) (acc : List (List Int)) (c : Nat) (hc : c < acc.length)
    (s : Nat) (hs : segs[c]? = some s) :
    ((F.flatMap fun f => ((chanTable segs none).filter (fun ch => ch.2 == f.seg)).map fun ch => (f, ch.1)).foldl
        (fun a r => a.set r.2 (g r.1)) acc)[c]? =
      match F.find? (fun f => f.seg == s) with
      | some f => some (g f)
      | none => acc[c]? := by
  induction F generalizing acc with
  | nil => simp
  | cons f t ih =>
    rw [List.flatMap_cons, List.foldl_append]
    have hp' := List.pairwise_cons.mp hp
    rw [ih hp'.2 _ (by rw [length_foldl_set]; exact hc), stack_inner segs g f acc c hc, hs]
    by_cases hfs : f.seg = s
    · have hnone : t.find? (fun f => f.seg == s) = none := by
        rw [List.find?_eq_none]
        intro x hx
        have := hp'.1 x hx
        simp only [beq_iff_eq]
        intro h; exact this (by rw [hfs, h])
      simp [hnone, hfs]
    · have : ¬ s = f.seg := fun h => hfs h.symm
      simp [hfs, this]

theorem pairwise_seg_of_unique (st : Stored) (hnl : st.type ≠ .labelmap) (hu : framesUnique st = true) (k : Nat) :
    (st.frames.filter (fun f => f.key == k)).Pairwise (fun a b => a.seg ≠ b.seg) := by
  unfold framesUnique at hu
  simp only [hnl, ↓reduceIte, decide_eq_true_eq] at hu
  have h1 : st.frames.Pairwise (fun a b => (a.key, a.seg) ≠ (b.key, b.seg)) := List.pairwise_map.mp hu
  have h2 := List.Pairwise.filter (fun f => f.key == k) h1
  refine (List.pairwise_iff_forall_sublist.mpr ?_)
  intro a b hab
  have h3 := (List.pairwise_iff_forall_sublist.mp h2) hab
  have ha : a ∈ st.frames.filter (fun f => f.key == k) := hab.subset (by simp)
  have hb : b ∈ st.frames.filter (fun f => f.key == k) := hab.subset (by simp)
  have hak : a.key = k := by simpa using (List.mem_filter.mp ha).2
  have hbk : b.key = k := by simpa using (List.mem_filter.mp hb).2
  intro hs
  exact h3 (by rw [hak, hbk, hs])

theorem castFrame_zeros (d : DType) (n : Nat) : castFrame d ((List.replicate n 0).map Int.ofNat) = zeros n := by
  simp [castFrame, zeros, castVal_zero]

theorem stackRow_eq (st : Stored) (hnl : st.type ≠ .labelmap) (hu : framesUnique st = true) (d : DType)
    (segs : List Nat) (k : Nat) :
    stackRow d st.npix segs.length (joinRows st.frames (chanTable segs none) k) =
      segs.map fun s => castFrame d ((segPlane st k s).map Int.ofNat) := by
  apply List.ext_getElem?
  intro c
  unfold stackRow joinRows
  by_cases hc : c < segs.length
  · have hs : segs[c]? = some segs[c] := List.getElem?_eq_getElem hc
    rw [stack_outer segs (fun f => castFrame d (natFrame f)) _ (pairwise_seg_of_unique st hnl hu k)
      (List.replicate segs.length (zeros st.npix)) c (by simpa using hc) segs[c] hs]
    rw [List.getElem?_map, hs, List.find?_filter]
    unfold segPlane
    have : (fun a : SFrame => decide ((a.key == k) = true ∧ (a.seg == segs[c]) = true)) =
        (fun f => f.key == k && f.seg == segs[c]) := by
      funext a; simp only [Bool.decide_and, Bool.decide_eq_true]
    rw [this]
    simp only [Option.map_some]
    cases hf : st.frames.find? (fun f => f.key == k && f.seg == segs[c]) with
    | some f => rfl
    | none =>
      simp only [castFrame_zeros]
      rw [List.getElem?_replicate]; simp [hc]
  · rw [List.getElem?_eq_none (by rw [length_foldl_set]; simpa using hc),
      List.getElem?_eq_none (by simpa using hc)]


theorem stackDecision_eq (wr combine rescale : Bool) (dc : Int) (isFrac notFloat : Bool) :
    stackDecision wr combine rescale dc isFrac notFloat =
      if (wr && notFloat) = true then .error .value
      else if (combine && isFrac && !rescale) = true then .error .value
      else .ok (if wr then 8 else dc) := by
  unfold stackDecision
  cases wr <;> cases combine <;> cases rescale <;> cases isFrac <;> cases notFloat <;> simp

theorem segPlane_le (st : Stored) (wf : WfStack st) (k s p : Nat) (hp : p ∈ segPlane st k s) :
    p ≤ (if st.type = .fractional then st.mfv else 1) := by
  unfold segPlane at hp
  cases h : st.frames.find? (fun f => f.key == k && f.seg == s) with
  | some f =>
    rw [h] at hp
    exact wf.range f (List.mem_of_find?_eq_some h) p hp
  | none =>
    rw [h] at hp
    have := List.eq_of_mem_replicate hp
    omega

theorem castFrame_plane (st : Stored) (wf : WfStack st) (d : DType) (k s : Nat)
    (hd : ((if st.type = .fractional then st.mfv else 1 : Nat) : Int) ≤ d.maxVal) :
    castFrame d ((segPlane st k s).map Int.ofNat) = (segPlane st k s).map Int.ofNat := by
  apply castFrame_id
  intro v hv
  obtain ⟨p, hp, rfl⟩ := List.mem_map.mp hv
  have := segPlane_le st wf k s p hp
  refine ⟨by simp, ?_⟩
  have h2 : ((p : Nat) : Int) ≤ ((if st.type = .fractional then st.mfv else 1 : Nat) : Int) := by exact_mod_cast this
  exact Int.le_trans h2 hd



theorem joinRows_frame_mem (frames : List SFrame) (chan : List (Nat × Nat)) (k : Nat) (r : SFrame × Nat)
    (hr : r ∈ joinRows frames chan k) : r.1 ∈ frames := by
  unfold joinRows at hr
  obtain ⟨f, hf, hrf⟩ := List.mem_flatMap.mp hr
  obtain ⟨c, _, rfl⟩ := List.mem_map.mp hrf
  exact (List.mem_filter.mp hf).1

/-- the output range check of the frame transform passes on well-formed frames whose bound fits the dtype -/
theorem stack_range_ok (st : Stored) (wf : WfStack st) (d : DType) (chan : List (Nat × Nat)) (keys : List Nat)
    (hd : rangeCheckActive st.bitsStored d = true →
      ((if st.type = .fractional then st.mfv else 1 : Nat) : Int) ≤ d.maxVal) :
    (keys.all fun k => (joinRows st.frames chan k).all fun r => frameInRange st.bitsStored d r.1) = true := by
  rw [List.all_eq_true]; intro k _
  rw [List.all_eq_true]; intro r hr
  unfold frameInRange
  by_cases ha : rangeCheckActive st.bitsStored d = true
  · have hfm := joinRows_frame_mem _ _ _ _ hr
    have : (r.1.pix.all fun p => decide ((p : Int) ≤ d.maxVal)) = true := by
      rw [List.all_eq_true]; intro p hp
      have h1 := wf.range r.1 hfm p hp
      have h2 := hd ha
      have : ((p : Nat) : Int) ≤ ((if st.type = .fractional then st.mfv else 1 : Nat) : Int) := by exact_mod_cast h1
      simp; omega
    simp [this]
  · simp [ha]

theorem stackRead_stacked (st : Stored) (rq : Req) (d : DType) (wf : WfStack st) (hc : rq.combine = false)
    (hcap : ceiling st rq ≤ d.maxVal) (hfl : willRescale st rq = true → d.isFloat = true) :
    stackRead st rq d (willRescale st rq) =
      .ok (.stacked (if willRescale st rq then st.mfv else 1)
        (rq.keys.map fun k => rq.segs.map fun s => (segPlane st k s).map Int.ofNat)) := by
  unfold stackRead
  rw [stackDecision_eq]
  simp only [hc, Bool.false_and, Bool.false_eq_true, ↓reduceIte, remapValues, remapDup, bind, Except.bind]
  by_cases hw : willRescale st rq = true
  · -- FRACTIONAL, rescaled: frames read as uint8, divided by mfv in the float dtype
    have hfrac : (st.type == SegType.fractional) = true := by
      unfold willRescale at hw; simp only [Bool.and_eq_true] at hw; exact hw.1.2
    have hresc : rq.rescale = true := by
      unfold willRescale at hw; simp only [Bool.and_eq_true] at hw; exact hw.1.1
    have hty : st.type = .fractional := by simpa using hfrac
    obtain ⟨hm1, hm2⟩ := wf.mfv hty
    have hfloat := hfl hw
    simp only [hw, hfloat, Bool.not_true, Bool.and_false, Bool.false_eq_true, ↓reduceIte, hresc, hfrac, Bool.and_self]
    have h8 : DType.ofCode 8 = some .u8 := rfl
    have hrg : (!rq.keys.all fun k => (joinRows st.frames (chanTable rq.segs none) k).all
        fun r => frameInRange st.bitsStored .u8 r.1) = false := by
      rw [stack_range_ok st wf .u8 _ _ (by
        intro ha
        have hb := wf.bits
        unfold rangeCheckActive at ha
        simp [hb] at ha)]; rfl
    simp only [h8, hrg, Bool.false_eq_true, ↓reduceIte]
    have hrows : ∀ k, stackRow .u8 st.npix rq.segs.length (joinRows st.frames (chanTable rq.segs none) k) =
        rq.segs.map fun s => (segPlane st k s).map Int.ofNat := by
      intro k
      rw [stackRow_eq st wf.type wf.unique]
      apply List.map_congr_left
      intro s _
      apply castFrame_plane st wf
      simp only [hty, ↓reduceIte, DType.maxVal]; omega
    simp only [hrows]
    have hany : (List.map (fun k => List.map (fun s => List.map Int.ofNat (segPlane st k s)) rq.segs) rq.keys).any
        (fun fr => fr.any fun ch => ch.any fun v => decide (v > (st.mfv : Int))) = false := by
      rw [List.any_eq_false]
      intro fr hfr
      obtain ⟨k, _, rfl⟩ := List.mem_map.mp hfr
      rw [Bool.not_eq_true, List.any_eq_false]
      intro ch hch
      obtain ⟨s, _, rfl⟩ := List.mem_map.mp hch
      rw [Bool.not_eq_true, List.any_eq_false]
      intro v hv
      obtain ⟨p, hp, rfl⟩ := List.mem_map.mp hv
      have := segPlane_le st wf k s p hp
      simp only [hty, ↓reduceIte] at this
      have : ((p : Nat) : Int) ≤ (st.mfv : Int) := by exact_mod_cast this
      simp only [Int.ofNat_eq_natCast, decide_eq_true_eq]; omega
    have hm0 : ¬ st.mfv = 0 := by omega
    simp only [hany, Bool.false_eq_true, ↓reduceIte, hm0, pure, Except.pure]
    congr 2
    rw [List.map_map]
    apply List.map_congr_left
    intro k _
    simp only [Function.comp, List.map_map]
    apply List.map_congr_left
    intro s _
    simp only [Function.comp]
    cases d <;> simp [DType.isFloat] at hfloat <;> simp [castFrame, castVal]
  · -- BINARY, or FRACTIONAL returned as stored
    have hw' : willRescale st rq = false := by simpa using hw
    have hrf : (rq.rescale && st.type == SegType.fractional) = false := by
      unfold willRescale at hw'; simpa [hc] using hw'
    have hbound : ((if st.type = .fractional then st.mfv else 1 : Nat) : Int) ≤ d.maxVal := by
      unfold ceiling at hcap
      simp only [hc, Bool.false_eq_true, ↓reduceIte] at hcap
      by_cases hty : st.type = .fractional
      · have hfrac : (st.type == SegType.fractional) = true := by simpa using hty
        have hnr : rq.rescale = false := by
          cases h : rq.rescale
          · rfl
          · rw [h, hfrac] at hrf; simp at hrf
        simp only [hfrac, hnr, Bool.not_false, Bool.and_self, ↓reduceIte] at hcap
        simp only [hty, ↓reduceIte]; exact hcap
      · have hfrac : (st.type == SegType.fractional) = false := by simpa using hty
        simp only [hfrac, Bool.false_and, Bool.false_eq_true, ↓reduceIte] at hcap
        simp only [hty, ↓reduceIte]; exact_mod_cast hcap
    have hrg : (!rq.keys.all fun k => (joinRows st.frames (chanTable rq.segs none) k).all
        fun r => frameInRange st.bitsStored d r.1) = false := by
      rw [stack_range_ok st wf d _ _ (fun _ => hbound)]; rfl
    simp only [hw', Bool.false_and, Bool.false_eq_true, ↓reduceIte, ofCode_code, hrg, hrf, pure, Except.pure]
    congr 2
    apply List.map_congr_left
    intro k _
    rw [stackRow_eq st wf.type wf.unique]
    apply List.map_congr_left
    intro s _
    exact castFrame_plane st wf d k s hbound

end HdVerif.SegReadLemmas
