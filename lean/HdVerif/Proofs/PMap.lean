import HdVerif.Model.PMap
import HdVerif.Proofs.Bits
import HdVerif.Proofs.Codec
import Mathlib.Tactic.Ring
import Mathlib.Tactic.Linarith
import Mathlib.Tactic.Push
/-! Helper lemmas for C19: the loop nest of the parametric map constructor, cells and byte ranges, the
structure of `build`, the image pixel module block of `SCImage`. -/
namespace HdVerif.PMap
open HdVerif HdVerif.Gen HdVerif.Codec HdVerif.Bits

/-! ### the loop nest -/

theorem loopNest_length {α} (n m : Nat) (f : Nat → Nat → α) : (loopNest n m f).length = n * m := by
  unfold loopNest
  induction n with
  | zero => simp
  | succ n ih =>
    rw [List.range_succ, List.flatMap_append, List.length_append, ih]
    simp [Nat.succ_mul]

/-- the frame appended in iteration `(i, j)` of the loop nest is frame `i*m + j` -/
theorem loopNest_get {α} (n m : Nat) (f : Nat → Nat → α) (i j : Nat) (hi : i < n) (hj : j < m) :
    (loopNest n m f)[i * m + j]? = some (f i j) := by
  induction n with
  | zero => omega
  | succ n ih =>
    have hsplit : loopNest (n + 1) m f = loopNest n m f ++ (List.range m).map (fun j => f n j) := by
      unfold loopNest
      rw [List.range_succ, List.flatMap_append]
      simp
    rw [hsplit]
    by_cases hin : i < n
    · have hlt : i * m + j < (loopNest n m f).length := by
        rw [loopNest_length]
        calc i * m + j < i * m + m := by omega
          _ = (i + 1) * m := by ring
          _ ≤ n * m := Nat.mul_le_mul_right m (by omega)
      rw [List.getElem?_append_left hlt]
      exact ih hin
    · have hieq : i = n := by omega
      subst hieq
      have hge : (loopNest i m f).length ≤ i * m + j := by rw [loopNest_length]; omega
      rw [List.getElem?_append_right hge, loopNest_length]
      have : i * m + j - i * m = j := by omega
      rw [this]
      simp [hj]

/-- ... and conversely frame `f` was appended in iteration `(f / m, f % m)` -/
theorem loopNest_get_divmod {α} (n m : Nat) (g : Nat → Nat → α) (f : Nat) (hf : f < n * m) :
    (loopNest n m g)[f]? = some (g (f / m) (f % m)) := by
  have hm : 0 < m := by
    rcases Nat.eq_zero_or_pos m with h | h
    · subst h; simp at hf
    · exact h
  have h1 : f / m < n := by
    rw [Nat.div_lt_iff_lt_mul hm]; exact hf
  have h2 : f % m < m := Nat.mod_lt _ hm
  have := loopNest_get n m g (f / m) (f % m) h1 h2
  rwa [Nat.div_add_mod' f m] at this


theorem mem_loopNest {α} (n m : Nat) (f : Nat → Nat → α) (a : α) (h : a ∈ loopNest n m f) :
    ∃ i j, i < n ∧ j < m ∧ a = f i j := by
  unfold loopNest at h
  simp only [List.mem_flatMap, List.mem_range, List.mem_map] at h
  obtain ⟨i, hi, j, hj, rfl⟩ := h
  exact ⟨i, j, hi, hj, rfl⟩

/-! ### cells and byte ranges -/

/-- cutting the concatenation of `k`-byte cells into `k`-byte cells gives the cells back -/
theorem toCells_flatten (k : Nat) (cells : List Cell) (h : ∀ c ∈ cells, c.length = k) (tail : List Nat) :
    toCells k cells.length (cells.flatten ++ tail) = cells := by
  induction cells with
  | nil => rfl
  | cons c cs ih =>
    have hc : c.length = k := h c (by simp)
    simp only [List.length_cons, toCells, List.flatten_cons, List.append_assoc]
    rw [List.take_append_of_le_length (by omega), List.take_of_length_le (by omega),
        List.drop_append_of_le_length (by omega), List.drop_of_length_le (by omega), List.nil_append]
    rw [ih (fun d hd => h d (by simp [hd]))]

theorem plane_length (x : PMInput) (i j : Nat) : (plane x i j).length = x.r * x.c := by
  simp [plane]

/-- all cells of the array have the width of the dtype -/
def CellsWF (x : PMInput) : Prop := ∀ i k j, (x.cell i k j).length = x.itemsize

theorem plane_flatten_length (x : PMInput) (hw : CellsWF x) (i j : Nat) :
    (plane x i j).flatten.length = x.r * x.c * x.itemsize := by
  rw [flatten_length (plane x i j) x.itemsize, plane_length]
  intro c hc
  simp only [plane, List.mem_map, List.mem_range] at hc
  obtain ⟨k, _, rfl⟩ := hc
  exact hw i k j


/-! ### the structure of `build` -/

theorem build_ok (x : PMInput) (o : PMObject) (h : build x = .ok o) :
    ∃ t attr ba bs hb pr, admission x = .ok (t, attr, ba, bs, hb, pr) ∧ o.element = attr ∧ o.bitsAllocated = ba ∧
      o.bitsStored = bs ∧ o.highBit = hb ∧ o.pixelRepresentation = pr ∧ o.rows = x.r ∧ o.cols = x.c ∧
      o.itemsize = x.itemsize ∧ o.numberOfFrames = x.n * x.m ∧ o.frames = loopNest x.n x.m (plane x) ∧
      o.shared = (if x.m > 1 then none else some (x.maps 0)) ∧
      o.perFrame = loopNest x.n x.m (fun i j =>
        { position := x.pos i, dimensionIndex := dimensionIndex x i,
          mappings := if x.m > 1 then some (x.maps j) else none }) := by
  unfold build at h
  cases ha : admission x with
  | error e => rw [ha] at h; simp [bind, Except.bind] at h
  | ok v =>
    obtain ⟨t, attr, ba, bs, hb, pr⟩ := v
    rw [ha] at h
    simp only [bind, Except.bind] at h
    have := (Except.ok.inj h).symm
    subst this
    -- what the regenerated loop skeleton (T19l) amounts to: outer loop over the planes, inner over the channels, plane
    -- `(o, i)`, position of `o`, mappings of `i`, shared (list 0) iff at most one channel.  A change of the loop in
    -- `pm/sop.py` changes these definitions and breaks the lemmas here.
    have hloop : ∀ {α : Type} (f : Nat → Nat → α), pmFrameLoop x.n x.m f = loopNest x.n x.m f := fun _ => rfl
    have hplane : loopPlane x = plane x := rfl
    have hpos : ∀ o i, pmPositionIndex o i = o := fun _ _ => rfl
    have hmap : ∀ o i, pmMappingIndex o i = i := fun _ _ => rfl
    have hmulti : pmHasMultipleMappings x.m = decide (x.m > 1) := rfl
    have hshared : pmSharedMappingIndex = 0 := rfl
    refine ⟨t, attr, ba, bs, hb, pr, rfl, rfl, rfl, rfl, rfl, rfl, rfl, rfl, rfl, ?_, ?_, ?_, ?_⟩
    · simp only [hloop, hplane]; simp [loopNest_length]
    · simp only [hloop, hplane]
    · simp only [hmulti, hshared]; by_cases hm : x.m > 1 <;> simp [hm]
    · simp only [hloop, hpos, hmap, hmulti]; by_cases hm : x.m > 1 <;> simp [hm]

/-- **reading a stored frame of an integer map** -/
theorem readStoredFrame_build (x : PMInput) (o : PMObject) (h : build x = .ok o) (hel : o.element = "PixelData")
    (hw : CellsWF x) (f : Nat) (hf : f < x.n * x.m) :
    readStoredFrame o f = .ok (plane x (f / x.m) (f % x.m)) := by
  obtain ⟨t, attr, ba, bs, hb, pr, _, _, _, _, _, _, hr, hc, hi, hn, hfr, _, _⟩ := build_ok x o h
  unfold readStoredFrame
  have hel' : (o.element != "PixelData") = false := by simp [hel]
  rw [hel']
  simp only [Bool.false_eq_true, ↓reduceIte, hn, hf, hr, hc, hi, not_true_eq_false]
  unfold PMObject.pixelData
  rw [hfr]
  have hlen : ∀ g ∈ (loopNest x.n x.m (plane x)).map List.flatten, g.length = x.r * x.c * x.itemsize := by
    intro g hg
    simp only [List.mem_map] at hg
    obtain ⟨p, hp, rfl⟩ := hg
    obtain ⟨i, j, _, _, rfl⟩ := mem_loopNest _ _ _ _ hp
    exact plane_flatten_length x hw i j
  have hfl : f < ((loopNest x.n x.m (plane x)).map List.flatten).length := by
    rw [List.length_map, loopNest_length]; exact hf
  rw [flatten_drop_take _ _ hlen f hfl]
  have hget : ((loopNest x.n x.m (plane x)).map List.flatten)[f] = (plane x (f / x.m) (f % x.m)).flatten := by
    have h1 := loopNest_get_divmod x.n x.m (plane x) f hf
    have h2 : ((loopNest x.n x.m (plane x)).map List.flatten)[f]? = some (plane x (f / x.m) (f % x.m)).flatten := by
      rw [List.getElem?_map, h1]; rfl
    rw [List.getElem?_eq_getElem hfl] at h2
    exact Option.some.inj h2
  rw [hget]
  have hcells : ∀ c ∈ plane x (f / x.m) (f % x.m), c.length = x.itemsize := by
    intro c hc
    simp only [plane, List.mem_map, List.mem_range] at hc
    obtain ⟨k, _, rfl⟩ := hc
    exact hw _ _ _
  have := toCells_flatten x.itemsize (plane x (f / x.m) (f % x.m)) hcells []
  rw [List.append_nil, plane_length] at this
  rw [this]

/-- frames of a map stored in a float pixel data element cannot be read (as the code is) -/
theorem readStoredFrame_float (o : PMObject) (hel : o.element ≠ "PixelData") (f : Nat) (hf : f < o.numberOfFrames) :
    readStoredFrame o f = .error .attribute := by
  unfold readStoredFrame
  have : (o.element != "PixelData") = true := by simpa using hel
  rw [this]; simp [hf]

/-- the mapping list the reader finds for frame `f` -/
theorem attachedMappings_build (x : PMInput) (o : PMObject) (h : build x = .ok o) (f : Nat) (hf : f < x.n * x.m) :
    attachedMappings o f = .ok (x.maps (f % x.m)) := by
  obtain ⟨t, attr, ba, bs, hb, pr, _, _, _, _, _, _, _, _, _, _, _, hsh, hpf⟩ := build_ok x o h
  unfold attachedMappings
  by_cases hm : x.m > 1
  · rw [hsh, if_pos hm]
    simp only []
    rw [hpf, loopNest_get_divmod _ _ _ f hf]
    simp [hm]
  · rw [hsh, if_neg hm]
    simp only []
    have hm1 : x.m = 1 := by
      rcases Nat.eq_zero_or_pos x.m with h0 | h0
      · rw [h0] at hf; simp at hf
      · omega
    rw [hm1, Nat.mod_one]

/-! ### the translated admission logic of `ParametricMap` -/

theorem pmPixelDataType_spec (k nm s : String) (t : Int) :
    pmPixelDataType k nm s = .ok t ↔
      (k = "f" ∧ nm = "float32" ∧ t = 2) ∨ (k = "f" ∧ nm = "float64" ∧ t = 3) ∨
      (k = "u" ∧ (s = "uint8" ∨ s = "uint16") ∧ t = 1) := by
  unfold pmPixelDataType
  simp only []
  grind (splits := 40)

theorem pmBits_spec (t isz ba bs hb pr : Int) :
    pmBits t isz = .ok (ba, bs, hb, pr) ↔
      (t = 1 ∧ ba = isz * 8 ∧ bs = isz * 8 ∧ hb = isz * 8 - 1 ∧ pr = 0) ∨
      (t = 2 ∧ ba = 32 ∧ bs = -1 ∧ hb = -1 ∧ pr = -1) ∨ (t = 3 ∧ ba = 64 ∧ bs = -1 ∧ hb = -1 ∧ pr = -1) := by
  unfold pmBits
  simp only []
  grind (splits := 40)

theorem pmSyntaxAdmitted_spec (ts k : String) (r : Int) :
    pmSyntaxAdmitted ts k = .ok r ↔
      r = 0 ∧ (ts = "1.2.840.10008.1.2" ∨ ts = "1.2.840.10008.1.2.1" ∨
        (k = "u" ∧ (ts = "1.2.840.10008.1.2.4.90" ∨ ts = "1.2.840.10008.1.2.4.80" ∨ ts = "1.2.840.10008.1.2.5"))) := by
  unfold pmSyntaxAdmitted
  simp only []
  grind (splits := 40)

theorem lookup_attr (t : Int) (a : String) :
    pmPixelDataAttr.lookup t = some a ↔
      (t = 1 ∧ a = "PixelData") ∨ (t = 2 ∧ a = "FloatPixelData") ∨ (t = 3 ∧ a = "DoubleFloatPixelData") := by
  unfold pmPixelDataAttr
  simp only [List.lookup]
  by_cases h1 : t = 1
  · subst h1; simp [eq_comm]
  · by_cases h2 : t = 2
    · subst h2; simp [eq_comm]
    · by_cases h3 : t = 3
      · subst h3; simp [eq_comm]
      · have e1 : (t == 1) = false := by simpa using h1
        have e2 : (t == 2) = false := by simpa using h2
        have e3 : (t == 3) = false := by simpa using h3
        simp [e1, e2, e3, h1, h2, h3]


/-- what the constructor admits, and what it then writes: written from the docstring and PS3.3 C.7.6.3 / C.8.32 -/
structure Admitted (x : PMInput) (attr : String) (ba bs hb pr : Int) : Prop where
  transfer_syntax : x.ts = "1.2.840.10008.1.2" ∨ x.ts = "1.2.840.10008.1.2.1" ∨
    (x.dtypeKind = "u" ∧ (x.ts = "1.2.840.10008.1.2.4.90" ∨ x.ts = "1.2.840.10008.1.2.4.80" ∨ x.ts = "1.2.840.10008.1.2.5"))
  rank : x.ndim = 2 ∨ x.ndim = 3 ∨ x.ndim = 4
  mappings_nonempty : x.nMappingLists ≠ 0
  layout : x.ndim = 4 ↔ x.nested = true
  /-- Rows / Columns (VR US, not 0) can describe the planes -/
  shape : 1 ≤ x.r ∧ x.r ≤ 65535 ∧ 1 ≤ x.c ∧ x.c ≤ 65535
  mapping_count : x.nMappingLists = x.m
  positions : x.nPositions = x.n
  dtype :
    (x.dtypeKind = "u" ∧ (x.dtypeStr = "uint8" ∨ x.dtypeStr = "uint16") ∧ attr = "PixelData" ∧
      ba = (x.itemsize : Int) * 8 ∧ bs = (x.itemsize : Int) * 8 ∧ hb = (x.itemsize : Int) * 8 - 1 ∧ pr = 0) ∨
    (x.dtypeKind = "f" ∧ x.dtypeName = "float32" ∧ attr = "FloatPixelData" ∧ ba = 32 ∧ bs = -1 ∧ hb = -1 ∧ pr = -1) ∨
    (x.dtypeKind = "f" ∧ x.dtypeName = "float64" ∧ attr = "DoubleFloatPixelData" ∧ ba = 64 ∧ bs = -1 ∧ hb = -1 ∧ pr = -1)

theorem admission_sound (x : PMInput) (t : Int) (attr : String) (ba bs hb pr : Int)
    (h : admission x = .ok (t, attr, ba, bs, hb, pr)) : Admitted x attr ba bs hb pr := by
  unfold admission at h
  cases hs : pmSyntaxAdmitted x.ts x.dtypeKind with
  | error e => rw [hs] at h; simp [bind, Except.bind] at h
  | ok r0 =>
    rw [hs] at h
    simp only [bind, Except.bind] at h
    have hsyn := (pmSyntaxAdmitted_spec _ _ _).mp hs
    split at h
    · cases h
    · rename_i hrank
      split at h
      · cases h
      · rename_i hne
        split at h
        · cases h
        · rename_i hlay
          split at h
          · cases h
          · rename_i hshp
            split at h
            · cases h
            · rename_i hcnt
              split at h
              · cases h
              · rename_i hpos
                cases ht : pmPixelDataType x.dtypeKind x.dtypeName x.dtypeStr with
                | error e => rw [ht] at h; simp at h
                | ok t' =>
                  rw [ht] at h
                  simp only [] at h
                  have htype := (pmPixelDataType_spec _ _ _ _).mp ht
                  cases hl : pmPixelDataAttr.lookup t' with
                  | none => rw [hl] at h; simp at h
                  | some a =>
                    rw [hl] at h
                    simp only [] at h
                    have hattr := (lookup_attr _ _).mp hl
                    cases hb' : pmBits t' (x.itemsize : Int) with
                    | error e => rw [hb'] at h; simp at h
                    | ok v =>
                      obtain ⟨ba', bs', hb'', pr'⟩ := v
                      rw [hb'] at h
                      simp only [Except.ok.injEq, Prod.mk.injEq] at h
                      obtain ⟨rfl, rfl, rfl, rfl, rfl, rfl⟩ := h
                      have hbits := (pmBits_spec _ _ _ _ _ _).mp hb'
                      refine ⟨hsyn.2, by omega, hne, ?_, by omega, by omega, by omega, ?_⟩
                      · have hl' : (decide (x.ndim = 4) != x.nested) = false := by simpa using hlay
                        constructor
                        · intro h4; simpa [h4] using hl'
                        · intro hn; simpa [hn] using hl'
                      · rcases htype with ⟨hk, hn, rfl⟩ | ⟨hk, hn, rfl⟩ | ⟨hk, hn, rfl⟩ <;>
                          rcases hattr with ⟨h1, rfl⟩ | ⟨h1, rfl⟩ | ⟨h1, rfl⟩ <;> (try omega) <;>
                          rcases hbits with ⟨h2, rfl, rfl, rfl, rfl⟩ | ⟨h2, rfl, rfl, rfl, rfl⟩ | ⟨h2, rfl, rfl, rfl, rfl⟩ <;>
                          (try omega) <;> simp [hk, hn]


theorem admission_complete (x : PMInput) (attr : String) (ba bs hb pr : Int) (h : Admitted x attr ba bs hb pr) :
    ∃ t, admission x = .ok (t, attr, ba, bs, hb, pr) := by
  obtain ⟨hsyn, hrank, hne, hlay, hshp, hcnt, hpos, hdt⟩ := h
  have hs : pmSyntaxAdmitted x.ts x.dtypeKind = .ok 0 := (pmSyntaxAdmitted_spec _ _ _).mpr ⟨rfl, hsyn⟩
  have hl' : (decide (x.ndim = 4) != x.nested) = false := by
    by_cases h4 : x.ndim = 4
    · simp [h4, hlay.mp h4]
    · have : x.nested = false := by
        cases hn : x.nested with
        | false => rfl
        | true => exact absurd (hlay.mpr hn) h4
      simp [h4, this]
  have key : ∀ t, pmPixelDataType x.dtypeKind x.dtypeName x.dtypeStr = .ok t → pmPixelDataAttr.lookup t = some attr →
      pmBits t (x.itemsize : Int) = .ok (ba, bs, hb, pr) → admission x = .ok (t, attr, ba, bs, hb, pr) := by
    intro t ht hl hb'
    unfold admission
    rw [hs]
    simp only [bind, Except.bind]
    rw [if_neg (by omega), if_neg hne, hl']
    simp only [Bool.false_eq_true, ↓reduceIte]
    rw [if_neg (by omega), if_neg (by omega), if_neg (by omega), ht]
    simp only [hl, hb']
  rcases hdt with ⟨hk, hs8, rfl, rfl, rfl, rfl, rfl⟩ | ⟨hk, hn, rfl, rfl, rfl, rfl, rfl⟩ | ⟨hk, hn, rfl, rfl, rfl, rfl, rfl⟩
  · exact ⟨1, key 1 ((pmPixelDataType_spec _ _ _ _).mpr (Or.inr (Or.inr ⟨hk, hs8, rfl⟩)))
      ((lookup_attr _ _).mpr (Or.inl ⟨rfl, rfl⟩)) ((pmBits_spec _ _ _ _ _ _).mpr (Or.inl ⟨rfl, rfl, rfl, rfl, rfl⟩))⟩
  · exact ⟨2, key 2 ((pmPixelDataType_spec _ _ _ _).mpr (Or.inl ⟨hk, hn, rfl⟩))
      ((lookup_attr _ _).mpr (Or.inr (Or.inl ⟨rfl, rfl⟩))) ((pmBits_spec _ _ _ _ _ _).mpr (Or.inr (Or.inl ⟨rfl, rfl, rfl, rfl, rfl⟩)))⟩
  · exact ⟨3, key 3 ((pmPixelDataType_spec _ _ _ _).mpr (Or.inr (Or.inl ⟨hk, hn, rfl⟩)))
      ((lookup_attr _ _).mpr (Or.inr (Or.inr ⟨rfl, rfl⟩))) ((pmBits_spec _ _ _ _ _ _).mpr (Or.inr (Or.inr ⟨rfl, rfl, rfl, rfl, rfl⟩)))⟩

/-- the constructor either builds an object or raises -/
theorem build_iff_admission (x : PMInput) : (∃ o, build x = .ok o) ↔ ∃ v, admission x = .ok v := by
  unfold build
  constructor
  · rintro ⟨o, h⟩
    cases ha : admission x with
    | error e => rw [ha] at h; simp [bind, Except.bind] at h
    | ok v => exact ⟨v, rfl⟩
  · rintro ⟨⟨t, attr, ba, bs, hb, pr⟩, hv⟩
    rw [hv]
    exact ⟨_, rfl⟩


/-! ### the image pixel module block of `SCImage` -/

/-- which photometric interpretations `SCImage` takes for a colour array, by transfer syntax -/
def scColourPI (ts pi : String) : Prop :=
  if ts = "1.2.840.10008.1.2.4.50" then pi = "YBR_FULL_422"
  else if ts = "1.2.840.10008.1.2.4.91" then pi = "YBR_ICT"
  else if ts = "1.2.840.10008.1.2.4.90" then pi = "YBR_RCT"
  else pi = "RGB" ∨ pi = "YBR_FULL"

/-- the image pixel module `SCImage` writes, as a relation (docstring; **as the code is**: `bits_allocated = 12` is
    written as Bits Allocated 12 over 16-bit cells, which PS3.5 8.1.1 does not allow -- open finding
    C19-sc-bits-allocated-12) -/
structure SCAccepted (ba : Int) (pi ts dtypeStr : String) (ndim lastDim arrayMax : Int)
    (BA BS HB PR SPP PC : Int) : Prop where
  depth : (dtypeStr = "bool" ∧ ba = 1) ∨ (dtypeStr = "uint8" ∧ ba = 8) ∨ (dtypeStr = "uint16" ∧ (ba = 12 ∨ ba = 16))
  rle : ts = "1.2.840.10008.1.2.5" → ba % 8 = 0
  shape : (ndim = 3 ∧ lastDim = 3 ∧ ba = 8 ∧ dtypeStr = "uint8" ∧ scColourPI ts pi ∧ SPP = 3 ∧ PC = 0) ∨
          (ndim = 2 ∧ (pi = "MONOCHROME1" ∨ pi = "MONOCHROME2") ∧ SPP = 1 ∧ PC = -1)
  bits : BA = ba ∧ BS = ba ∧ HB = ba - 1 ∧ PR = 0

set_option maxRecDepth 8000

theorem scPixelModule_sound (ba : Int) (pi ts dtypeStr : String) (ndim lastDim arrayMax : Int) (v : Int × Int × Int × Int × Int × Int)
    (h : scPixelModule ba pi ts dtypeStr ndim lastDim arrayMax = .ok v) :
    SCAccepted ba pi ts dtypeStr ndim lastDim arrayMax v.1 v.2.1 v.2.2.1 v.2.2.2.1 v.2.2.2.2.1 v.2.2.2.2.2 := by
  unfold scPixelModule at h
  simp -zeta only [] at h
  extract_lets at h
  peel_chain h hc hv =>
    subst hv
    prep_leaf hc
    constructor <;> (try simp only [scColourPI]) <;> grind (splits := 40)

theorem scPixelModule_not_refused (ba : Int) (pi ts dtypeStr : String) (ndim lastDim arrayMax : Int) (BA BS HB PR SPP PC : Int)
    (e : ErrKind) (hs : SCAccepted ba pi ts dtypeStr ndim lastDim arrayMax BA BS HB PR SPP PC)
    (h : scPixelModule ba pi ts dtypeStr ndim lastDim arrayMax = .error e) : False := by
  obtain ⟨hd, hr, hsh, hb⟩ := hs
  unfold scColourPI at hsh
  unfold scPixelModule at h
  simp -zeta only [] at h
  extract_lets at h
  peel_chain_err h hc =>
    prep_leaf hc
    grind (splits := 40)
  prep_leaf h
  grind (splits := 40)


/-! ### a secondary capture decodes to the given array (via the C07 theorems) -/

theorem dtype_of_name (d : DType) :
    (d.name = "bool" ↔ d = .bool) ∧ (d.name = "uint8" ↔ d = .u8) ∧ (d.name = "uint16" ↔ d = .u16) := by
  cases d <;> simp [DType.name]

/-- unfolding `scBuild` -/
theorem scBuild_ok (c : CodecImpl) (ts pi : String) (ba : Int) (x : Frame) (o : SCObject) (h : scBuild c ts pi ba x = .ok o) :
    ∃ mod bytes, scPixelModule ba pi ts x.dtype.name x.ndim (match x.samples with | none => (x.cols : Int) | some s => s) x.max = .ok mod ∧
      encodeFrame c (scParams ts pi mod) x = .ok bytes ∧
      o = { bitsAllocated := mod.1, bitsStored := mod.2.1, highBit := mod.2.2.1, pixelRepresentation := mod.2.2.2.1,
            samplesPerPixel := mod.2.2.2.2.1, planarConfiguration := (scParams ts pi mod).planar,
            photometricInterpretation := pi, rows := x.rows, cols := x.cols, frameBytes := bytes } := by
  unfold scBuild at h
  simp only [bind, Except.bind] at h
  split at h
  · cases h
  · rename_i mod hmod
    split at h
    · cases h
    · rename_i bytes hbytes
      exact ⟨mod, bytes, hmod, hbytes, (Except.ok.inj h).symm⟩


/-- what an accepted secondary capture hands to `encode_frame`, in terms of the frame -/
theorem sc_request (ts pi : String) (ba : Int) (x : Frame) (mod : Int × Int × Int × Int × Int × Int)
    (hmod : scPixelModule ba pi ts x.dtype.name x.ndim (match x.samples with | none => (x.cols : Int) | some s => s) x.max = .ok mod) :
    (mod.2.2.2.2.1.toNat = x.spp) ∧ (scParams ts pi mod).pixelRepresentation = 0 ∧
    (scParams ts pi mod).bitsAllocated = ba ∧
    (scParams ts pi mod).bitsStored = ba ∧
    ((x.dtype = .bool ∧ ba = 1) ∨ (x.dtype = .u8 ∧ ba = 8) ∨ (x.dtype = .u16 ∧ (ba = 12 ∨ ba = 16))) ∧
    ((x.spp = 3 ∧ scColourPI ts pi) ∨ (x.spp = 1 ∧ (pi = "MONOCHROME1" ∨ pi = "MONOCHROME2"))) := by
  have hs := scPixelModule_sound _ _ _ _ _ _ _ _ hmod
  obtain ⟨hd, _, hsh, hb⟩ := hs
  obtain ⟨hn1, hn2, hn3⟩ := dtype_of_name x.dtype
  have hdt : (x.dtype = .bool ∧ ba = 1) ∨ (x.dtype = .u8 ∧ ba = 8) ∨ (x.dtype = .u16 ∧ (ba = 12 ∨ ba = 16)) := by
    rcases hd with ⟨h1, h2⟩ | ⟨h1, h2⟩ | ⟨h1, h2⟩
    · exact Or.inl ⟨hn1.mp h1, h2⟩
    · exact Or.inr (Or.inl ⟨hn2.mp h1, h2⟩)
    · exact Or.inr (Or.inr ⟨hn3.mp h1, h2⟩)
  have hspp : mod.2.2.2.2.1.toNat = x.spp ∧ ((x.spp = 3 ∧ scColourPI ts pi) ∨ (x.spp = 1 ∧ (pi = "MONOCHROME1" ∨ pi = "MONOCHROME2"))) := by
    unfold Frame.ndim at hsh
    unfold Frame.spp
    cases hsm : x.samples with
    | none =>
      rw [hsm] at hsh
      simp only [] at hsh
      rcases hsh with ⟨h3, _⟩ | ⟨_, hpi, hs1, _⟩
      · exact absurd h3 (by decide)
      · rw [hs1]; exact ⟨rfl, Or.inr ⟨rfl, hpi⟩⟩
    | some s =>
      rw [hsm] at hsh
      simp only [] at hsh
      rcases hsh with ⟨_, hl, _, _, hcol, hs3, _⟩ | ⟨h2, _⟩
      · have : s = 3 := by exact_mod_cast hl
        subst this
        rw [hs3]; exact ⟨rfl, Or.inl ⟨rfl, hcol⟩⟩
      · exact absurd h2 (by decide)
  refine ⟨hspp.1, ?_, ?_, ?_, hdt, hspp.2⟩
  · simp only [scParams]; exact hb.2.2.2
  · simp only [scParams]; exact hb.1
  · simp only [scParams]; exact hb.2.1

/-- **A natively stored secondary capture decodes in pydicom to the given array** (not for `bits_allocated = 12`,
    see `sc_twelve_undecodable`). -/
theorem sc_native_decodes (c : CodecImpl) (conv : List Int → List Int) (ts pi : String) (ba : Int) (x : Frame) (o : SCObject)
    (hwf : x.WF) (hts : ts ∈ nativeSyntaxes) (hpi : pi ≠ "YBR_FULL") (h12 : ba ≠ 12) (h : scBuild c ts pi ba x = .ok o) :
    scDecode c conv ts o = .ok x.data := by
  obtain ⟨mod, bytes, hmod, henc, rfl⟩ := scBuild_ok c ts pi ba x o h
  obtain ⟨hspp, hpr, hBA, hBS, hdt, hshape⟩ := sc_request ts pi ba x mod hmod
  unfold scDecode
  simp only [hspp]
  have hp : (⟨ts, mod.1, mod.2.1, pi, mod.2.2.2.1, (scParams ts pi mod).planar⟩ : Params) = scParams ts pi mod := rfl
  rw [hp]
  have htsp : (scParams ts pi mod).ts ∈ nativeSyntaxes := hts
  by_cases hb1 : ba = 1
  · have hba : (scParams ts pi mod).bitsAllocated = 1 := by rw [hBA, hb1]
    exact (Codec.native_bits_roundtrip c conv (scParams ts pi mod) x bytes hwf htsp hba henc).1
  · have hba : (scParams ts pi mod).bitsAllocated ≠ 1 := by rw [hBA]; exact hb1
    have hmul : (scParams ts pi mod).bitsAllocated % 8 = 0 := by
      rw [hBA]
      rcases hdt with ⟨_, hb⟩ | ⟨_, hb⟩ | ⟨_, hb | hb⟩ <;> omega
    have hnc : convertsColour (scParams ts pi mod).pi x.spp = false := by
      have : (scParams ts pi mod).pi = pi := rfl
      rw [this]
      unfold convertsColour
      rcases hshape with ⟨h3, hcol⟩ | ⟨h1, _⟩
      · have hnat : ts = "1.2.840.10008.1.2" ∨ ts = "1.2.840.10008.1.2.1" := by simpa [nativeSyntaxes] using hts
        unfold scColourPI at hcol
        have : pi = "RGB" := by
          rcases hnat with rfl | rfl <;> simp at hcol <;> rcases hcol with h | h
          · exact h
          · exact absurd h hpi
          · exact h
          · exact absurd h hpi
        subst this; simp
      · rw [h1]; simp
    have := (native_cells_decode c conv (scParams ts pi mod) x bytes hwf htsp hba hmul henc).2.1
    simpa [hnc] using this

/-- **As the code is**: a secondary capture built with `bits_allocated = 12` carries Bits Allocated 12; no decoder
    conforming to PS3.5 8.1.1 accepts the data set (pydicom raises). -/
theorem sc_twelve_undecodable (c : CodecImpl) (conv : List Int → List Int) (ts pi : String) (x : Frame) (o : SCObject)
    (hts : ts ∈ nativeSyntaxes) (h : scBuild c ts pi 12 x = .ok o) : scDecode c conv ts o = .error .value := by
  obtain ⟨mod, bytes, hmod, henc, rfl⟩ := scBuild_ok c ts pi 12 x o h
  obtain ⟨hspp, hpr, hBA, hBS, hdt, hshape⟩ := sc_request ts pi 12 x mod hmod
  have hs := scPixelModule_sound _ _ _ _ _ _ _ _ hmod
  unfold scDecode
  simp only [hspp]
  have hp : (⟨ts, mod.1, mod.2.1, pi, mod.2.2.2.1, (scParams ts pi mod).planar⟩ : Params) = scParams ts pi mod := rfl
  rw [hp]
  -- decode side: route 2 (native, not 1 bit), then pydicom refuses the bits allocated
  have hspp1 : x.spp = 1 := by
    rcases hshape with ⟨h3, _⟩ | ⟨h1, _⟩
    · exfalso
      rcases hs.shape with ⟨_, _, h8, _⟩ | ⟨h2, _⟩
      · exact absurd h8 (by decide)
      · have := hs.shape
        unfold Frame.spp at h3; unfold Frame.ndim at h2
        cases hsm : x.samples <;> simp [hsm] at h3 h2
    · exact h1
  have hmono : pi = "MONOCHROME1" ∨ pi = "MONOCHROME2" := by
    rcases hshape with ⟨h3, _⟩ | ⟨_, hm⟩
    · omega
    · exact hm
  have hroute : decodeFrameRoute (isEncapsulated (scParams ts pi mod).ts) (scParams ts pi mod).bitsAllocated (x.spp : Int)
      (scParams ts pi mod).pi (scParams ts pi mod).pixelRepresentation (scParams ts pi mod).planar = .ok 2 := by
    have henc' : isEncapsulated (scParams ts pi mod).ts = false := isEncapsulated_native _ hts
    rw [henc', hBA, hpr, hspp1]
    have hpi' : (scParams ts pi mod).pi = pi := rfl
    rw [hpi']
    have := decodeRoute_pydicom false 12 ((1 : Nat) : Int) pi 0 (scParams ts pi mod).planar (Or.inr (by decide)) (Or.inl rfl)
      (by unfold knownPI monoPI; rcases hmono with h | h <;> simp [h]) (by intro h; simp at h)
    simpa using this
  unfold decodeFrame
  rw [hroute]
  simp only [bind, Except.bind]
  have h21 : ¬ ((2 : Int) = 1) := by decide
  simp only [h21, ↓reduceIte]
  exact pydicomNative_refuses_allocated conv _ _ _ _ _ (by rw [hBA]; decide)

/-- the same through a codec that is lossless on `codecRegion` (RLE, JPEG-LS: a secondary capture stores as many bits as
    it allocates, so RLE requests lie inside the region) -/
theorem sc_encapsulated_decodes (c : CodecImpl) (hc : c.LosslessOn codecRegion) (conv : List Int → List Int) (ts pi : String)
    (ba : Int) (x : Frame) (o : SCObject) (hts : ts = rle ∨ ts = jpegLs) (hnc : convertsColour pi x.spp = false)
    (h : scBuild c ts pi ba x = .ok o) : scDecode c conv ts o = .ok x.data := by
  obtain ⟨mod, bytes, hmod, henc, rfl⟩ := scBuild_ok c ts pi ba x o h
  obtain ⟨hspp, _, hBA, hBS, _, _⟩ := sc_request ts pi ba x mod hmod
  unfold scDecode
  simp only [hspp]
  have hp : (⟨ts, mod.1, mod.2.1, pi, mod.2.2.2.1, (scParams ts pi mod).planar⟩ : Params) = scParams ts pi mod := rfl
  rw [hp]
  have hD : codecRegion (scParams ts pi mod) := by
    have hts' : (scParams ts pi mod).ts = ts := rfl
    rcases hts with h | h
    · exact Or.inl ⟨by rw [hts', h], by rw [hBA, hBS]; omega⟩
    · exact Or.inr (by rw [hts', h])
  have henc' : isEncapsulated (scParams ts pi mod).ts = true := by
    have hts' : (scParams ts pi mod).ts = ts := rfl
    rw [hts']; rcases hts with h | h <;> rw [h] <;> decide
  have := encapsulated_decode c codecRegion hc conv (scParams ts pi mod) x bytes henc' hD henc
  have hpi : (scParams ts pi mod).pi = pi := rfl
  rw [hpi, hnc] at this
  simpa using this

/-- a secondary capture outside the specification is refused before anything is encoded -/
theorem scBuild_refused (c : CodecImpl) (ts pi : String) (ba : Int) (x : Frame)
    (h : ¬ ∃ BA BS HB PR SPP PC, SCAccepted ba pi ts x.dtype.name x.ndim
        (match x.samples with | none => (x.cols : Int) | some s => s) x.max BA BS HB PR SPP PC) :
    ∃ e, scBuild c ts pi ba x = .error e := by
  cases hb : scBuild c ts pi ba x with
  | error e => exact ⟨e, rfl⟩
  | ok o =>
    exfalso
    obtain ⟨mod, _, hmod, _, _⟩ := scBuild_ok c ts pi ba x o hb
    exact h ⟨_, _, _, _, _, _, scPixelModule_sound _ _ _ _ _ _ _ _ hmod⟩

/-! ### reading with the real-world value mapping -/

theorem readReal_build (x : PMInput) (o : PMObject) (h : build x = .ok o) (hel : o.element = "PixelData")
    (hw : CellsWF x) (f : Nat) (hf : f < x.n * x.m) (sel : Selector) :
    readReal o f sel =
      (select (x.maps (f % x.m)) sel).bind (fun mp => applyMapping mp ((plane x (f / x.m) (f % x.m)).map cellValue)) := by
  unfold readReal
  rw [readStoredFrame_build x o h hel hw f hf, attachedMappings_build x o h f hf]
  rfl

/-- what was selected is one of the mappings -/
theorem select_mem (ms : List Mapping) (sel : Selector) (mp : Mapping) (h : select ms sel = .ok mp) : mp ∈ ms := by
  cases sel with
  | index k =>
    simp only [select] at h
    by_cases h1 : 0 ≤ k ∧ k < (ms.length : Int)
    · rw [if_pos h1] at h
      cases hg : ms[k.toNat]? with
      | none => rw [hg] at h; cases h
      | some m => rw [hg] at h; cases h; exact List.mem_of_getElem? hg
    · rw [if_neg h1] at h
      by_cases h2 : -(ms.length : Int) ≤ k ∧ k < 0
      · rw [if_pos h2] at h
        cases hg : ms[(k + (ms.length : Int)).toNat]? with
        | none => rw [hg] at h; cases h
        | some m => rw [hg] at h; cases h; exact List.mem_of_getElem? hg
      · rw [if_neg h2] at h; cases h
  | label s =>
    simp only [select] at h
    cases hg : ms.find? (fun m => m.label == s) with
    | none => rw [hg] at h; cases h
    | some m => rw [hg] at h; cases h; exact List.mem_of_find?_eq_some hg
  | unit u =>
    simp only [select] at h
    cases hg : ms.find? (fun m => m.unit == u) with
    | none => rw [hg] at h; cases h
    | some m => rw [hg] at h; cases h; exact List.mem_of_find?_eq_some hg

/-! ### encapsulated maps -/

theorem mapM_ok_getElem {α β : Type} (f : α → Except ErrKind β) (l : List α) (r : List β) (h : l.mapM f = .ok r)
    (k : Nat) (a : α) (ha : l[k]? = some a) : ∃ b, r[k]? = some b ∧ f a = .ok b := by
  induction l generalizing r k with
  | nil => simp at ha
  | cons x xs ih =>
    rw [List.mapM_cons] at h
    cases hx : f x with
    | error e => rw [hx] at h; simp [bind, Except.bind] at h
    | ok y =>
      rw [hx] at h
      cases hxs : xs.mapM f with
      | error e => rw [hxs] at h; simp [bind, Except.bind] at h
      | ok ys =>
        rw [hxs] at h
        simp only [bind, Except.bind, pure, Except.pure] at h
        have := (Except.ok.inj h).symm; subst this
        cases k with
        | zero =>
          simp only [List.getElem?_cons_zero, Option.some.injEq] at ha
          subst ha
          exact ⟨y, by simp, hx⟩
        | succ k =>
          simp only [List.getElem?_cons_succ] at ha ⊢
          exact ih ys hxs k ha

/-- **reading a frame of an encapsulated map** (RLE / JPEG-LS; the codec lossless on `codecRegion`): item `f` decodes to the
    unsigned values of plane `f / m`, channel `f mod m` -/
theorem readStoredFrameEncapsulated_build (c : CodecImpl) (hc : c.LosslessOn codecRegion) (conv : List Int → List Int)
    (x : PMInput) (e : PMEncapsulated) (h : buildEncapsulated c x = .ok e) (hts : x.ts = rle ∨ x.ts = jpegLs)
    (f : Nat) (hf : f < x.n * x.m) :
    readStoredFrameEncapsulated c conv x.ts e f = .ok ((plane x (f / x.m) (f % x.m)).map cellValue) := by
  unfold buildEncapsulated at h
  cases hb : build x with
  | error err => rw [hb] at h; simp [bind, Except.bind] at h
  | ok o =>
    rw [hb] at h
    simp only [bind, Except.bind] at h
    cases hdt : DType.ofName x.dtypeStr with
    | none => rw [hdt] at h; cases h
    | some dt =>
      rw [hdt] at h
      simp only [] at h
      cases hit : (pmFrameLoop x.n x.m (planeFrame x dt)).mapM (encodeFrame c (pmParams x.ts o)) with
      | error err => rw [hit] at h; cases h
      | ok items =>
        rw [hit] at h
        have := (Except.ok.inj h).symm; subst this
        obtain ⟨t, attr, ba, bs, hb', pr, hadm, hel, hba, hbs, _, hpr, hr, hcl, _, _, _, _, _⟩ := build_ok x o hb
        have hA := admission_sound x t attr ba bs hb' pr hadm
        -- the frame of iteration f
        have hloop : pmFrameLoop x.n x.m (planeFrame x dt) = loopNest x.n x.m (planeFrame x dt) := rfl
        have hget := loopNest_get_divmod x.n x.m (planeFrame x dt) f hf
        rw [← hloop] at hget
        obtain ⟨b, hbk, henc⟩ := mapM_ok_getElem _ _ _ hit f _ hget
        unfold readStoredFrameEncapsulated
        simp only [hbk]
        -- the request lies in the region: an encapsulated map is unsigned and stores as many bits as it allocates
        have hu : ba = (x.itemsize : Int) * 8 ∧ bs = (x.itemsize : Int) * 8 := by
          rcases hA.dtype with ⟨_, _, _, h1, h2, _⟩ | ⟨hk, _⟩ | ⟨hk, _⟩
          · exact ⟨h1, h2⟩
          · exfalso
            rcases hA.transfer_syntax with h0 | h0 | ⟨hku, _⟩
            · rcases hts with h1 | h1 <;> rw [h1] at h0 <;> revert h0 <;> decide
            · rcases hts with h1 | h1 <;> rw [h1] at h0 <;> revert h0 <;> decide
            · rw [hk] at hku; revert hku; decide
          · exfalso
            rcases hA.transfer_syntax with h0 | h0 | ⟨hku, _⟩
            · rcases hts with h1 | h1 <;> rw [h1] at h0 <;> revert h0 <;> decide
            · rcases hts with h1 | h1 <;> rw [h1] at h0 <;> revert h0 <;> decide
            · rw [hk] at hku; revert hku; decide
        have hD : codecRegion (pmParams x.ts o) := by
          rcases hts with h1 | h1
          · refine Or.inl ⟨h1, ?_⟩
            show o.bitsAllocated - 8 < o.bitsStored
            rw [hba, hbs, hu.1, hu.2]; omega
          · exact Or.inr h1
        have henc' : isEncapsulated (pmParams x.ts o).ts = true := by
          show isEncapsulated x.ts = true
          rcases hts with h1 | h1 <;> rw [h1] <;> decide
        have hdec := encapsulated_decode c codecRegion hc conv (pmParams x.ts o) (planeFrame x dt (f / x.m) (f % x.m)) b
          henc' hD henc
        have hrows : (planeFrame x dt (f / x.m) (f % x.m)).rows = o.rows := by rw [hr]; rfl
        have hcols : (planeFrame x dt (f / x.m) (f % x.m)).cols = o.cols := by rw [hcl]; rfl
        have hspp : (planeFrame x dt (f / x.m) (f % x.m)).spp = 1 := rfl
        rw [hrows, hcols, hspp] at hdec
        rw [hdec]
        have hconv : convertsColour (pmParams x.ts o).pi 1 = false := by
          show convertsColour "MONOCHROME2" 1 = false
          decide
        rw [hconv]
        rfl

/-- refusal of the constructor, from the admission logic -/
theorem build_refused (x : PMInput) (h : ¬ ∃ attr ba bs hb pr, Admitted x attr ba bs hb pr) : ∃ e, build x = .error e := by
  cases hb : build x with
  | error e => exact ⟨e, rfl⟩
  | ok o =>
    exfalso
    obtain ⟨⟨t, attr, ba, bs, hb', pr⟩, hv⟩ := (build_iff_admission x).mp ⟨o, hb⟩
    exact h ⟨attr, ba, bs, hb', pr, admission_sound x t attr ba bs hb' pr hv⟩

/-! ### dimension index = rank among the distinct values -/

theorem lexLt_irrefl (a : List Rat) : lexLt a a = false := by
  induction a with
  | nil => rfl
  | cons x xs ih => simp [lexLt, ih]

theorem lexLt_trans (a b c : List Rat) (h1 : lexLt a b = true) (h2 : lexLt b c = true) : lexLt a c = true := by
  induction a generalizing b c with
  | nil =>
    cases b with
    | nil => simp [lexLt] at h1
    | cons y ys =>
      cases c with
      | nil => simp [lexLt] at h2
      | cons z zs => simp [lexLt]
  | cons x xs ih =>
    cases b with
    | nil => simp [lexLt] at h1
    | cons y ys =>
      cases c with
      | nil => simp [lexLt] at h2
      | cons z zs =>
        simp only [lexLt] at h1 h2 ⊢
        by_cases hxy : x < y
        · by_cases hyz : y < z
          · have : x < z := lt_trans hxy hyz
            simp [this]
          · by_cases hzy : z < y
            · simp [hyz, hzy] at h2
            · have : y = z := le_antisymm (not_lt.mp hzy) (not_lt.mp hyz)
              subst this; simp [hxy]
        · by_cases hyx : y < x
          · simp [hxy, hyx] at h1
          · have hxy' : x = y := le_antisymm (not_lt.mp hyx) (not_lt.mp hxy)
            subst hxy'
            simp only [hxy, ↓reduceIte] at h1
            by_cases hxz : x < z
            · simp [hxz]
            · by_cases hzx : z < x
              · simp [hxz, hzx] at h2
              · simp only [hxz, hzx, ↓reduceIte] at h2 ⊢
                exact ih ys zs h1 h2


theorem filter_length_lt_of_subset {α} (l : List α) (p q : α → Bool) (hpq : ∀ a, p a = true → q a = true)
    (w : α) (hw : w ∈ l) (hwq : q w = true) (hwp : p w = false) :
    (l.filter p).length < (l.filter q).length := by
  induction l with
  | nil => simp at hw
  | cons a l ih =>
    simp only [List.filter_cons]
    by_cases hpa : p a = true
    · have hqa := hpq a hpa
      simp only [hpa, hqa, ↓reduceIte, List.length_cons]
      have hne : w ≠ a := by intro e; subst e; rw [hwp] at hpa; cases hpa
      have hw' : w ∈ l := by
        simp only [List.mem_cons] at hw
        rcases hw with rfl | hw
        · exact absurd rfl hne
        · exact hw
      have := ih hw'
      omega
    · simp only [hpa, Bool.false_eq_true, ↓reduceIte]
      have hle : (l.filter p).length ≤ (l.filter q).length := by
        clear ih hw
        induction l with
        | nil => simp
        | cons b l ih2 =>
          simp only [List.filter_cons]
          by_cases hpb : p b = true
          · simp [hpb, hpq b hpb]; exact ih2
          · by_cases hqb : q b = true
            · simp [hpb, hqb]; omega
            · simp [hpb, hqb]; exact ih2
      by_cases hqa : q a = true
      · simp only [hqa, ↓reduceIte, List.length_cons]; omega
      · simp only [hqa, Bool.false_eq_true, ↓reduceIte]
        have hne : w ≠ a := by intro e; subst e; exact hqa hwq
        have hw' : w ∈ l := by
          simp only [List.mem_cons] at hw
          rcases hw with rfl | hw
          · exact absurd rfl hne
          · exact hw
        exact ih hw'

/-- the rank is strictly monotone in the value: a smaller value (lexicographically) gets a smaller index -/
theorem rankIn_lt (vs : List (List Rat)) (u v : List Rat) (hu : u ∈ vs) (h : lexLt u v = true) :
    rankIn vs u < rankIn vs v := by
  unfold rankIn
  have := filter_length_lt_of_subset vs.eraseDups (fun q => lexLt q u) (fun q => lexLt q v)
    (fun a ha => lexLt_trans a u v ha h) u (List.mem_eraseDups.mpr hu) h (lexLt_irrefl u)
  omega

/-- ranks start at 1 and do not exceed the number of distinct values -/
theorem rankIn_bounds (vs : List (List Rat)) (v : List Rat) (hv : v ∈ vs) :
    1 ≤ rankIn vs v ∧ rankIn vs v ≤ vs.eraseDups.length := by
  unfold rankIn
  constructor
  · omega
  · have := filter_length_lt_of_subset vs.eraseDups (fun q => lexLt q v) (fun _ => true) (fun _ _ => rfl) v
      (List.mem_eraseDups.mpr hv) rfl (lexLt_irrefl v)
    simp only [List.filter_true] at this
    omega


/-- the values of indexed attribute `d` over all planes -/
def attributeValues (x : PMInput) (d : Nat) : List (List Rat) := (List.range x.n).filterMap (fun k => (x.pos k)[d]?)

theorem dimensionIndex_get (x : PMInput) (a d : Nat) (u : List Rat) (hu : (x.pos a)[d]? = some u) :
    (dimensionIndex x a)[d]? = some (rankIn (attributeValues x d) u) := by
  unfold dimensionIndex attributeValues
  have hd : d < (x.pos a).length := by
    by_contra hc
    rw [List.getElem?_eq_none (by omega)] at hu; cases hu
  rw [List.getElem?_map, List.getElem?_range hd]
  simp only [Option.map_some, hu]

theorem mem_attributeValues (x : PMInput) (a d : Nat) (ha : a < x.n) (u : List Rat) (hu : (x.pos a)[d]? = some u) :
    u ∈ attributeValues x d := by
  unfold attributeValues
  simp only [List.mem_filterMap, List.mem_range]
  exact ⟨a, ha, hu⟩


/-! ### real-world value mappings: constructor rules, totality on the mapped range -/

theorem rwvmInit_iff (lut slope icpt : Option Int) (isf : Bool) (first last r : Int) :
    rwvmInit lut slope icpt isf first last = .ok r ↔
      (r = 1 ∧ ∃ n, lut = some n ∧ slope = none ∧ icpt = none ∧ isf = false ∧ n = last - first + 1) ∨
      (r = 2 ∧ lut = none ∧ slope.isSome = true ∧ icpt.isSome = true) := by
  unfold rwvmInit
  cases lut <;> cases slope <;> cases icpt <;> simp <;> grind

/-- a well-formed look-up table mapping defines a value for every stored value of its range -/
theorem lut_defined_in_range (mp : Mapping) (f l : Int) (hl : mp.isLut = true) (hf : mp.first = (f : Rat))
    (hlen : (mp.lut.length : Int) = l - f + 1) (v : Int) (hv : f ≤ v ∧ v ≤ l) :
    ∃ y, mp.lut[(v - f).toNat]? = some y ∧ applyMapping mp [v] = .ok [y] := by
  have hidx : (v - f).toNat < mp.lut.length := by omega
  refine ⟨mp.lut[(v - f).toNat], List.getElem?_eq_getElem hidx, ?_⟩
  unfold applyMapping
  rw [if_pos hl]
  simp only [List.mapM_cons, List.mapM_nil, hf]
  have e : ((v : Rat) - (f : Rat)) = (((v - f : Int)) : Rat) := by push_cast; rfl
  rw [e]
  have hnn : ¬ ((((v - f : Int)) : Rat) < 0 ∨ (((v - f : Int)) : Rat).den ≠ 1) := by
    push Not
    constructor
    · have : (0 : Int) ≤ v - f := by omega
      exact_mod_cast this
    · exact Rat.den_intCast _
  simp only [hnn, ↓reduceIte, Rat.num_intCast, List.getElem?_eq_getElem hidx]
  rfl

/-- a linear mapping maps every stored value of its range -/
theorem linear_defined_in_range (mp : Mapping) (hl : mp.isLut = false) (v : Int)
    (hv : mp.first ≤ (v : Rat) ∧ (v : Rat) ≤ mp.last) :
    applyMapping mp [v] = .ok [(v : Rat) * mp.slope + mp.intercept] := by
  unfold applyMapping
  have h1 : ¬ (mp.isLut = true) := by simp [hl]
  rw [if_neg h1]
  have : ([v].any fun (w : Int) => decide ((w : Rat) < mp.first ∨ mp.last < (w : Rat))) = false := by
    simp only [List.any_cons, List.any_nil, Bool.or_false, decide_eq_false_iff_not]
    push Not
    exact ⟨hv.1, hv.2⟩
  rw [this]
  rfl

end HdVerif.PMap
