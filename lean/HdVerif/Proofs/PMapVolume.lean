import HdVerif.Proofs.PMapRead
import HdVerif.Model.PMapVolume
/-! C19: the volume `get_volume` returns for a (single-channel, native, integer) parametric map holds, in the slice the stack
assembly (C11's `Stack.assembleFrames`) assigns to a frame, exactly the stored plane of that frame. -/
namespace HdVerif.PMap
open HdVerif HdVerif.Gen HdVerif.Bits HdVerif.Codec HdVerif.FrameAccess HdVerif.FrameAccessLemmas

/-- every frame the loop of `_get_pixels_by_frame` fetches is the stored plane -- cached or not -/
theorem volumeFrame_build (x : PMInput) (o : PMObject) (h : build x = .ok o) (hel : o.element = "PixelData") (hw : CellsWF x)
    (hpos : 0 < x.r * x.c * x.itemsize) (cached : Bool) (f : Nat) (hf : f < x.n * x.m) :
    volumeFrame o cached (f : Int) = .ok (plane x (f / x.m) (f % x.m)) := by
  have hel' : (o.element != "PixelData") = false := by simp [hel]
  unfold volumeFrame
  cases cached with
  | false =>
    simp only [Bool.false_eq_true, ↓reduceIte, hel', pixelsRawArgs]
    have e : ((f : Int) + 1) = frameKey f false := by unfold frameKey; simp
    rw [e]
    exact storedUncached_build singleSkel (Or.inl rfl) .memory x o h hel hw hpos f false hf
  | true =>
    simp only [↓reduceIte, hel', Bool.false_eq_true]
    obtain ⟨_, _, _, _, _, _, _, _, _, _, _, _, _, _, _, _, hfr, _, _⟩ := build_ok x o h
    have hlen : o.frames.length = x.n * x.m := by rw [hfr, loopNest_length]
    have hfl : f < o.frames.length := by rw [hlen]; exact hf
    have hg := loopNest_get_divmod x.n x.m (plane x) f hf
    rw [← hfr] at hg
    cases hfs : o.frames with
    | nil => rw [hfs] at hfl; simp at hfl
    | cons w rest =>
      simp only []
      by_cases h1 : (w :: rest).length = 1
      · rw [if_pos h1]
        have hf0 : f = 0 := by rw [hfs] at hfl; omega
        subst hf0
        simp only [pixelsSingleGuard, Nat.cast_zero, beq_self_eq_true, ↓reduceIte]
        rw [hfs] at hg
        simp only [List.getElem?_cons_zero, Option.some.injEq] at hg
        rw [hg]
      · rw [if_neg h1]
        simp only [pixelsCacheIndex]
        unfold pyIndex
        have hnn : ¬ ((f : Int) < 0) := by omega
        simp only [hnn, ↓reduceIte, Int.toNat_natCast]
        rw [← hfs, hg]

/-- `mapM` over frames that all succeed -/
theorem mapM_all_ok {α β} (g : α → Except ErrKind β) (v : α → β) (l : List α) (h : ∀ a ∈ l, g a = .ok (v a)) :
    l.mapM g = .ok (l.map v) := by
  induction l with
  | nil => rfl
  | cons a as ih =>
    rw [List.mapM_cons, h a (by simp), ih (fun b hb => h b (by simp [hb]))]
    rfl

/-- placing frame `i` into slice `vp[i]` of an array of `n` slices: slice `vp[i]` holds frame `i`, the other slices are blank -/
theorem placement_spec {β} (vp : List Int) (n : Int) (fr : List β) (hvl : vp.length = fr.length) (hvn : vp.Nodup)
    (hvr : ∀ v ∈ vp, 0 ≤ v ∧ v < n) :
    ((List.range n.toNat).map (fun (s : Nat) => (vp.idxOf? (s : Int)).bind (fun f => fr[f]?))).length = n.toNat ∧
    (∀ i (hi : i < fr.length), ∃ v, vp[i]? = some v ∧
      ((List.range n.toNat).map (fun (s : Nat) => (vp.idxOf? (s : Int)).bind (fun f => fr[f]?)))[v.toNat]? = some (some fr[i])) ∧
    (∀ s, s < n.toNat → (s : Int) ∉ vp →
      ((List.range n.toNat).map (fun (s : Nat) => (vp.idxOf? (s : Int)).bind (fun f => fr[f]?)))[s]? = some none) := by
  refine ⟨by simp, ?_, ?_⟩
  · intro i hi
    have hil : i < vp.length := by rw [hvl]; exact hi
    refine ⟨vp[i], List.getElem?_eq_getElem hil, ?_⟩
    obtain ⟨h0, hlt⟩ := hvr vp[i] (List.getElem_mem hil)
    have hs : vp[i].toNat < n.toNat := by omega
    rw [List.getElem?_map, List.getElem?_range hs]
    simp only [Option.map_some, Option.some.injEq]
    have hcast : ((vp[i].toNat : Nat) : Int) = vp[i] := Int.toNat_of_nonneg h0
    rw [hcast]
    have hidx : vp.idxOf? vp[i] = some i := by
      rw [List.idxOf?_eq_some_iff]
      refine ⟨hil, rfl, ?_⟩
      intro j hj heq
      have hjl : j < vp.length := by omega
      have := (List.Nodup.getElem_inj_iff hvn (hi := hjl) (hj := hil)).mp heq
      omega
    rw [hidx]
    simp [hi]
  · intro s hs hnot
    rw [List.getElem?_map, List.getElem?_range hs]
    simp only [Option.map_some, Option.some.injEq]
    have : vp.idxOf? (s : Int) = none := by
      rw [List.idxOf?_eq_none_iff]; exact hnot
    rw [this]; rfl

/-- **The voxels of the volume are the stored pixels**: for a single-channel map whose planes have distinct positions, whatever
the stack assembly (`Stack.assembleFrames`, C11) decides -- spacing `sp`, origin, `n` slices, frame `i` to slice `vp[i]` --
`get_volume` returns an array of `n` slices in which slice `vp[i]` holds exactly the cells of plane `i` (pixel `(r, c)` of the
slice = item `r * columns + c` of `pixel_array[i]`), from the cache or not, and every slice no frame is assigned to is blank. -/
theorem getVolume_build (x : PMInput) (o : PMObject) (h : build x = .ok o) (hel : o.element = "PixelData") (hw : CellsWF x)
    (hpos : 0 < x.r * x.c * x.itemsize) (cached : Bool) (ori : List Rat) (hint rtol atol : Option Rat) (am : Bool)
    (hm : x.m = 1) (hnd : (positionRows x).Nodup) (sp : Rat) (origin : List Rat) (n : Int) (vp : List Int)
    (ha : Stack.assembleFrames (positionRows x) ori hint rtol atol am = .ok (sp, origin, n, vp))
    (hvl : vp.length = x.n) (hvn : vp.Nodup) (hvr : ∀ v ∈ vp, 0 ≤ v ∧ v < n) :
    ∃ slices, getVolume x o cached ori hint rtol atol am = .ok (sp, origin, slices) ∧ slices.length = n.toNat ∧
      (∀ i (hi : i < x.n), ∃ v, vp[i]? = some v ∧ slices[v.toNat]? = some (some (plane x i 0))) ∧
      (∀ s, s < n.toNat → (s : Int) ∉ vp → slices[s]? = some none) := by
  have hframes : (List.range x.n).mapM (fun (f : Nat) => volumeFrame o cached (f : Int)) =
      .ok ((List.range x.n).map (fun f => plane x f 0)) := by
    apply mapM_all_ok
    intro f hf
    have hf' : f < x.n * x.m := by rw [hm, Nat.mul_one]; exact List.mem_range.mp hf
    have := volumeFrame_build x o h hel hw hpos cached f hf'
    rw [hm, Nat.div_one, Nat.mod_one] at this
    exact this
  refine ⟨(List.range n.toNat).map (fun (s : Nat) => (vp.idxOf? (s : Int)).bind
      (fun f => ((List.range x.n).map (fun f => plane x f 0))[f]?)), ?_, ?_, ?_, ?_⟩
  · unfold getVolume
    rw [if_neg (by simp [hm, hnd]), ha]
    simp only [hframes]
  · simp
  · intro i hi
    have hil : i < vp.length := by rw [hvl]; exact hi
    refine ⟨vp[i], List.getElem?_eq_getElem hil, ?_⟩
    obtain ⟨h0, hlt⟩ := hvr vp[i] (List.getElem_mem hil)
    have hs : vp[i].toNat < n.toNat := by omega
    rw [List.getElem?_map, List.getElem?_range hs]
    simp only [Option.map_some, Option.some.injEq]
    have hcast : ((vp[i].toNat : Nat) : Int) = vp[i] := Int.toNat_of_nonneg h0
    rw [hcast]
    have hidx : vp.idxOf? vp[i] = some i := by
      rw [List.idxOf?_eq_some_iff]
      refine ⟨hil, rfl, ?_⟩
      intro j hj heq
      have hjl : j < vp.length := by omega
      have := (List.Nodup.getElem_inj_iff hvn (hi := hjl) (hj := hil)).mp heq
      omega
    rw [hidx]
    simp [hi]
  · intro s hs hnot
    rw [List.getElem?_map, List.getElem?_range hs]
    simp only [Option.map_some, Option.some.injEq]
    have : vp.idxOf? (s : Int) = none := by
      rw [List.idxOf?_eq_none_iff]; exact hnot
    rw [this]; rfl

/-- **... and with the real-world transform every voxel is the stored pixel under the mapping selected from the mappings of its own
frame** (single channel: the shared mappings `x.maps 0`): slice `vp[i]` holds `applyMapping mp` of the values of plane `i`; if the
selection fails or one plane has a value outside the mapping's range the whole call is refused. -/
theorem getVolumeReal_build (x : PMInput) (o : PMObject) (h : build x = .ok o) (hel : o.element = "PixelData") (hw : CellsWF x)
    (hpos : 0 < x.r * x.c * x.itemsize) (cached : Bool) (ori : List Rat) (hint rtol atol : Option Rat) (am : Bool) (sel : Selector)
    (hm : x.m = 1) (hnd : (positionRows x).Nodup) (sp : Rat) (origin : List Rat) (n : Int) (vp : List Int)
    (ha : Stack.assembleFrames (positionRows x) ori hint rtol atol am = .ok (sp, origin, n, vp))
    (hvl : vp.length = x.n) (hvn : vp.Nodup) (hvr : ∀ v ∈ vp, 0 ≤ v ∧ v < n)
    (vals : Nat → List Rat)
    (hmap : ∀ i, i < x.n → (select (x.maps 0) sel).bind (fun mp => applyMapping mp ((plane x i 0).map cellValue)) = .ok (vals i)) :
    ∃ slices, getVolumeReal x o cached ori hint rtol atol am sel = .ok (sp, origin, slices) ∧ slices.length = n.toNat ∧
      (∀ i (hi : i < x.n), ∃ v, vp[i]? = some v ∧ slices[v.toNat]? = some (some (vals i))) ∧
      (∀ s, s < n.toNat → (s : Int) ∉ vp → slices[s]? = some none) := by
  have hframes : (List.range x.n).mapM (fun (f : Nat) => (do
        let cells ← volumeFrame o cached (f : Int)
        let ms ← attachedMappings o f
        let mp ← select ms sel
        applyMapping mp (cells.map cellValue) : Except ErrKind (List Rat))) = .ok ((List.range x.n).map vals) := by
    apply mapM_all_ok
    intro f hf
    have hfn : f < x.n := List.mem_range.mp hf
    have hf' : f < x.n * x.m := by rw [hm, Nat.mul_one]; exact hfn
    have h1 := volumeFrame_build x o h hel hw hpos cached f hf'
    rw [hm, Nat.div_one, Nat.mod_one] at h1
    have h2 := attachedMappings_build x o h f hf'
    rw [hm, Nat.mod_one] at h2
    simp only [h1, h2, bind, Except.bind]
    have := hmap f hfn
    simp only [bind, Except.bind] at this
    exact this
  obtain ⟨p1, p2, p3⟩ := placement_spec vp n ((List.range x.n).map vals) (by simp [hvl]) hvn hvr
  refine ⟨_, ?_, p1, ?_, p3⟩
  · unfold getVolumeReal
    rw [if_neg (by simp [hm, hnd]), ha]
    simp only [hframes]
  · intro i hi
    obtain ⟨v, hv1, hv2⟩ := p2 i (by simp [hi])
    refine ⟨v, hv1, ?_⟩
    rw [hv2]; simp [hi]

/-- a map with several channels (several frames share every position) or with planes at equal positions: `get_volume` refuses -/
theorem getVolume_refuses_shared_positions (x : PMInput) (o : PMObject) (cached : Bool) (ori : List Rat) (hint rtol atol : Option Rat)
    (am : Bool) (hbad : x.m ≠ 1 ∨ ¬ (positionRows x).Nodup) :
    getVolume x o cached ori hint rtol atol am = .error .runtime := by
  unfold getVolume; rw [if_pos hbad]

end HdVerif.PMap
