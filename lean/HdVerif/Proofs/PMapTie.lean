import HdVerif.Proofs.PMap
import HdVerif.Generated.T19t
import HdVerif.Generated.T19q
import HdVerif.Generated.T19f
/-! C19: hand-written parts of `Model/PMap.lean` use exactly the expressions of the current source (regenerated as
`Generated/T19t.lean` from `pm/sop.py` and `Generated/T19q.lean` from `pixels.py` on every run): the rank / count guards of the
constructor, the base and the match taken for a Dimension Index Value, the subscript / attribute / order of the real-world value
map selector. -/
namespace HdVerif.PMap
open HdVerif HdVerif.Gen HdVerif.Codec

/-- `admission`, written with the regenerated rank sets and count axes only -/
def admissionGen (x : PMInput) : Except ErrKind (Int × String × Int × Int × Int × Int) := do
  let _ ← pmSyntaxAdmitted x.ts x.dtypeKind
  let shape := [x.n, x.r, x.c, x.m]        -- the array after its normalisation to four dimensions
  if ¬ (x.ndim ∈ pmFlatRanks ∨ x.ndim = pmNestedRank) then .error .value
  else if x.nMappingLists = 0 then .error .type
  else if decide (x.ndim = pmNestedRank) != x.nested then .error .type
  else if ¬ (pmShapeRangeAxes.all (fun a => match shape[a]? with
      | some d => decide (pmShapeRangeLo ≤ d ∧ d ≤ pmShapeRangeHi) | none => false) = true) then .error .value
  else if some x.nMappingLists ≠ shape[pmMappingCountAxis]? then .error .value
  else if some x.nPositions ≠ shape[pmPositionCountAxis]? then .error .value
  else
    let t ← pmPixelDataType x.dtypeKind x.dtypeName x.dtypeStr
    match pmPixelDataAttr.lookup t with
    | none => .error .key
    | some attr =>
      let (ba, bs, hb, pr) ← pmBits t x.itemsize
      .ok (t, attr, ba, bs, hb, pr)

/-- **bridge, constructor guards**: the hand-written `admission` is the one written with the regenerated expressions -/
theorem admission_tie (x : PMInput) : admission x = admissionGen x := by
  unfold admission admissionGen
  have h1 : (x.ndim ≠ 2 ∧ x.ndim ≠ 3 ∧ x.ndim ≠ 4) ↔ ¬ (x.ndim ∈ pmFlatRanks ∨ x.ndim = pmNestedRank) := by
    simp only [pmFlatRanks, pmNestedRank, List.mem_cons, List.not_mem_nil, or_false]
    omega
  have h2 : decide (x.ndim = 4) = decide (x.ndim = pmNestedRank) := rfl
  have h3 : (x.nMappingLists ≠ x.m) ↔ (some x.nMappingLists ≠ [x.n, x.r, x.c, x.m][pmMappingCountAxis]?) := by
    simp [pmMappingCountAxis]
  have h4 : (x.nPositions ≠ x.n) ↔ (some x.nPositions ≠ [x.n, x.r, x.c, x.m][pmPositionCountAxis]?) := by
    simp [pmPositionCountAxis]
  have h5 : (¬ (1 ≤ x.r ∧ x.r ≤ 65535 ∧ 1 ≤ x.c ∧ x.c ≤ 65535)) ↔
      ¬ (pmShapeRangeAxes.all (fun a => match [x.n, x.r, x.c, x.m][a]? with
        | some d => decide (pmShapeRangeLo ≤ d ∧ d ≤ pmShapeRangeHi) | none => false) = true) := by
    have e : (pmShapeRangeAxes.all (fun a => match [x.n, x.r, x.c, x.m][a]? with
        | some d => decide (pmShapeRangeLo ≤ d ∧ d ≤ pmShapeRangeHi) | none => false) = true) ↔
        (1 ≤ x.r ∧ x.r ≤ 65535 ∧ 1 ≤ x.c ∧ x.c ≤ 65535) := by
      show ((decide (pmShapeRangeLo ≤ x.r ∧ x.r ≤ pmShapeRangeHi) &&
          (decide (pmShapeRangeLo ≤ x.c ∧ x.c ≤ pmShapeRangeHi) && true)) = true) ↔ _
      rw [Bool.and_true, Bool.and_eq_true, decide_eq_true_eq, decide_eq_true_eq, and_assoc]
      exact Iff.rfl
    rw [e]
  simp only [h1, h2, h3, h4, h5]
  cases pmSyntaxAdmitted x.ts x.dtypeKind with
  | error e => rfl
  | ok r0 =>
    simp only [bind, Except.bind]
    split_ifs <;> rfl

/-- **bridge, Dimension Index Value**: the model's rank is the regenerated base plus the 0-based position of the plane's value among
    the sorted distinct values (= the number of distinct values smaller than it); the regenerated match is the first one -/
theorem rankIn_tie (vs : List (List Rat)) (v : List Rat) :
    rankIn vs v = pmDimIndexBase + (vs.eraseDups.filter (fun q => lexLt q v)).length ∧ pmDimIndexMatch = 0 := by
  refine ⟨?_, rfl⟩
  unfold rankIn pmDimIndexBase
  rfl

/-- **bridge, selector**: an integer selector subscripts the sequence with the regenerated expression; a string is compared with
    the regenerated attribute (`LUTLabel`, the model's `label`) and the FIRST match is taken; integers are tested before strings
    before codes (the model's three constructors) -/
theorem select_tie (ms : List Mapping) (k : Int) (s : String) :
    select ms (.index k) = select ms (.index (rwvmSelectSubscript k)) ∧
    rwvmSelectStringAttribute = "LUTLabel" ∧
    select ms (.label s) = (match ms.find? (fun m => m.label == s) with | some m => .ok m | none => .error .index) ∧
    rwvmSelectKinds = ["int", "str", "code"] := by
  refine ⟨?_, rfl, rfl, rfl⟩
  have : rwvmSelectSubscript k = k := by unfold rwvmSelectSubscript; omega
  rw [this]

/-- **bridge, read entry points**: the model's `readReal o f sel` gives the mapping search the caller's selector and the frame's own
    index.  On the regenerated forwarding table of `image.py`: every call that is handed the selector / the real-world flag is handed
    the caller's own (no row passes anything else, none omits them); `get_frame` builds its transform for `frame_index`, which is the
    standardised (`as_index`-aware) index; `get_frames` and `_get_pixels_by_frame` build the per-frame transform for the loop's
    `frame_index`; `get_volume` reaches the transform through `_get_pixels_by_frame`. -/
theorem read_forwarding_tie :
    (∀ r ∈ pmReadForwarding, (r.2.2.1 = "real_world_value_map_selector" ∨ r.2.2.1 = "apply_real_world_transform") → r.2.2.2 = r.2.2.1) ∧
    ("get_frame", "_CombinedPixelTransform#0", "frame_index", "frame_index") ∈ pmReadForwarding ∧
    ("get_frame", "local", "frame_index", "self._standardize_frame_index(frame_number, as_index)") ∈ pmReadForwarding ∧
    ("get_frames", "_CombinedPixelTransform#1", "frame_index", "frame_index") ∈ pmReadForwarding ∧
    ("_get_pixels_by_frame", "_CombinedPixelTransform#1", "frame_index", "frame_index") ∈ pmReadForwarding ∧
    ("get_volume", "_get_pixels_by_frame#0", "real_world_value_map_selector", "real_world_value_map_selector") ∈ pmReadForwarding ∧
    (pmReadForwarding.filter (fun r => r.2.2.1 == "real_world_value_map_selector")).length = 6 := by
  decide

end HdVerif.PMap
