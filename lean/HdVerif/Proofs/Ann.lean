import HdVerif.Model.Ann
/-! Helper lemmas for C18: list facts behind flatten / reshape / split, the translated plans. -/
namespace HdVerif.Ann
open HdVerif HdVerif.Gen

/-! ### reshape -/

theorem length_flatten_uniform {β : Type} (d : Nat) (rows : List (List β)) (h : ∀ r ∈ rows, r.length = d) :
    rows.flatten.length = rows.length * d := by
  induction rows with
  | nil => simp
  | cons r rs ih =>
    have hr : r.length = d := h r (by simp)
    have hrs : ∀ x ∈ rs, x.length = d := fun x hx => h x (by simp [hx])
    simp [List.flatten_cons, ih hrs, hr, Nat.succ_mul, Nat.add_comm]

theorem chunkN_flatten {β : Type} (d : Nat) (rows : List (List β)) (h : ∀ r ∈ rows, r.length = d) :
    chunkN d rows.length rows.flatten = rows := by
  induction rows with
  | nil => simp [chunkN]
  | cons r rs ih =>
    have hr : r.length = d := h r (by simp)
    have hrs : ∀ x ∈ rs, x.length = d := fun x hx => h x (by simp [hx])
    simp only [List.length_cons, chunkN, List.flatten_cons]
    rw [← hr, List.take_left', List.drop_left', hr, ih hrs]
    · rfl
    · rfl

theorem reshapeRows_flatten {β : Type} (d : Nat) (hd : 0 < d) (rows : List (List β)) (h : ∀ r ∈ rows, r.length = d) :
    reshapeRows d rows.flatten = .ok rows := by
  unfold reshapeRows
  have hl := length_flatten_uniform d rows h
  have h0 : d ≠ 0 := by omega
  simp only [h0, if_false, hl, Nat.mul_mod_left, ne_eq, not_true_eq_false, Nat.mul_div_cancel _ hd]
  rw [chunkN_flatten d rows h]

/-! ### shared z -/

theorem take2_append_z {α : Type} (z : α) (rows : List (Row α)) (h3 : ∀ r ∈ rows, r.length = 3) (hz : ∀ r ∈ rows, r[2]? = some z) :
    (rows.map (fun r => r.take 2)).map (fun r => r ++ [z]) = rows := by
  induction rows with
  | nil => rfl
  | cons r rs ih =>
    have hr := h3 r (by simp)
    have hzr := hz r (by simp)
    simp only [List.map_cons]
    rw [ih (fun x hx => h3 x (by simp [hx])) (fun x hx => hz x (by simp [hx]))]
    congr 1
    match r, hr, hzr with
    | [a, b, c], _, hc =>
      simp at hc
      simp [hc]

theorem distinct_eq_nil {α : Type} [DecidableEq α] (l : List α) : distinct l = [] ↔ l = [] := by
  induction l with
  | nil => simp [distinct]
  | cons a as ih =>
    simp only [distinct]
    split
    · rename_i hm
      constructor
      · intro h; rw [ih] at h; subst h; simp at hm
      · intro h; cases h
    · simp

/-- `len(np.unique(z)) == 1` iff all values are equal (to the first) -/
theorem distinct_length_one {α : Type} [DecidableEq α] (l : List α) :
    (distinct l).length = 1 ↔ ∃ z, l.head? = some z ∧ ∀ x ∈ l, x = z := by
  induction l with
  | nil => simp [distinct]
  | cons a as ih =>
    simp only [distinct]
    split
    · rename_i hm
      rw [ih]
      constructor
      · rintro ⟨z, hz, hall⟩
        have : a = z := hall a hm
        exact ⟨a, rfl, by intro x hx; rcases List.mem_cons.mp hx with h | h; exact h; rw [this]; exact hall x h⟩
      · rintro ⟨z, hz, hall⟩
        simp at hz; subst hz
        cases as with
        | nil => simp at hm
        | cons b bs =>
          exact ⟨b, rfl, fun x hx => by rw [hall x (by simp [hx]), hall b (by simp)]⟩
    · rename_i hm
      simp only [List.length_cons, Nat.add_eq_right, List.length_eq_zero_iff, distinct_eq_nil]
      constructor
      · intro h; subst h; exact ⟨a, rfl, by simp⟩
      · rintro ⟨z, hz, hall⟩
        simp at hz; subst hz
        cases as with
        | nil => rfl
        | cons b bs =>
          exfalso; apply hm
          rw [← hall b (by simp)]; simp

end HdVerif.Ann

namespace HdVerif.Ann
open HdVerif HdVerif.Gen

/-! ### split -/

/-- row offsets at which the annotations start, counting from `p` -/
def startsFrom {β : Type} : Nat → List (List β) → List Nat
  | _, [] => []
  | p, a :: rest => p :: startsFrom (p + a.length) rest

/-- cutting the concatenation at the starts of all annotations but the first gives the annotations back -/
theorem splitCuts_flatten {β : Type} (rest : List (List β)) : ∀ (pre a : List β),
    splitCuts (pre ++ (a :: rest).flatten) pre.length (startsFrom (pre.length + a.length) rest) = a :: rest := by
  induction rest with
  | nil =>
    intro pre a
    simp [startsFrom, splitCuts]
  | cons b rs ih =>
    intro pre a
    simp only [startsFrom, splitCuts]
    have e : pre ++ (a :: b :: rs).flatten = (pre ++ a) ++ (b :: rs).flatten := by simp
    have hl : (pre ++ a).length = pre.length + a.length := by simp
    congr 1
    · rw [e, ← hl, List.take_left' rfl]
      exact List.drop_left' rfl
    · rw [e, ← hl]
      exact ih (pre ++ a) b

theorem splitCuts_flatten0 {β : Type} (a : List β) (rest : List (List β)) :
    splitCuts (a :: rest).flatten 0 (startsFrom a.length rest) = a :: rest := by
  have := splitCuts_flatten rest [] a
  simpa using this

/-- equal sections: annotations of `k` rows each -/
theorem equalSplit_flatten {β : Type} (k : Nat) (anns : List (List β)) (hne : anns ≠ [])
    (h : ∀ a ∈ anns, a.length = k) : equalSplit (anns.length : Int) anns.flatten = .ok anns := by
  unfold equalSplit
  have hl := length_flatten_uniform k anns h
  have hpos : 0 < anns.length := List.length_pos_iff.mpr hne
  have h1 : ¬ ((anns.length : Int) ≤ 0) := by omega
  simp only [h1, if_false, Int.toNat_natCast, hl, Nat.mul_mod_right, ne_eq, not_true_eq_false,
    Nat.mul_div_cancel_left _ hpos]
  rw [chunkN_flatten k anns h]

/-! ### index list -/

theorem mapE_ok_map {β γ : Type} (f : β → γ) (l : List β) : mapE (fun x => (Except.ok (f x) : Except ErrKind γ)) l = .ok (l.map f) := by
  induction l with
  | nil => rfl
  | cons a as ih => simp [mapE, ih]

theorem mapE_congr {β γ : Type} (f g : β → Except ErrKind γ) (l : List β) (h : ∀ x ∈ l, f x = g x) : mapE f l = mapE g l := by
  induction l with
  | nil => rfl
  | cons a as ih =>
    simp only [mapE]
    rw [h a (by simp), ih (fun x hx => h x (by simp [hx]))]

/-- entries of the index list: `base + p·sd` for the annotation that starts at row `p` -/
theorem indexList_starts {β : Type} (sd : Nat) (anns : List (List β)) : ∀ p : Nat,
    indexListFrom (1 + (p : Int) * sd) (anns.map (fun a => (a.length : Int) * sd)) =
      (startsFrom p anns).map (fun (s : Nat) => 1 + (s : Int) * sd) := by
  induction anns with
  | nil => intro p; rfl
  | cons a rest ih =>
    intro p
    simp only [List.map_cons, indexListFrom, startsFrom]
    congr 1
    have : (1 + (p : Int) * sd + (a.length : Int) * sd) = 1 + ((p + a.length : Nat) : Int) * sd := by
      push_cast
      rw [Int.add_mul]; omega
    rw [this]
    exact ih (p + a.length)

theorem splitIndex_start (sd : Nat) (hsd : 0 < sd) (s : Nat) : splitIndex (1 + (s : Int) * sd) (sd : Int) = .ok (s : Int) := by
  unfold splitIndex
  have h0 : (0 : Int) ≤ (sd : Int) := by omega
  have hne : (sd : Int) ≠ 0 := by omega
  rw [Int.fdiv_eq_ediv_of_nonneg _ h0]
  have : (1 + (s : Int) * sd - 1) = (s : Int) * sd := by omega
  rw [this, Int.mul_ediv_cancel _ hne]

theorem indexListGuard_spec (b1 b2 b3 b4 b5 : Bool) :
    indexListGuard b1 b2 b3 b4 b5 = if (b1 || b2 || b3 || b4 || b5) = true then .error .value else .ok 0 := by
  unfold indexListGuard
  cases b1 <;> cases b2 <;> cases b3 <;> cases b4 <;> cases b5 <;> rfl

theorem starts_ge {β : Type} (anns : List (List β)) : ∀ p, ∀ s ∈ startsFrom p anns, p ≤ s := by
  induction anns with
  | nil => intro p s hs; cases hs
  | cons a rest ih =>
    intro p s hs
    simp only [startsFrom, List.mem_cons] at hs
    rcases hs with rfl | hs
    · exact Nat.le_refl _
    · have := ih (p + a.length) s hs; omega

theorem starts_lt_total {β : Type} (anns : List (List β)) (hpos : ∀ a ∈ anns, 0 < a.length) :
    ∀ p, ∀ s ∈ startsFrom p anns, s < p + anns.flatten.length := by
  induction anns with
  | nil => intro p s hs; cases hs
  | cons a rest ih =>
    intro p s hs
    have ha := hpos a (by simp)
    simp only [startsFrom, List.mem_cons] at hs
    simp only [List.flatten_cons, List.length_append]
    rcases hs with rfl | hs
    · omega
    · have := ih (fun x hx => hpos x (by simp [hx])) (p + a.length) s hs; omega

theorem starts_increasing {β : Type} (sd : Nat) (hsd : 0 < sd) (anns : List (List β)) (hpos : ∀ a ∈ anns, 0 < a.length) :
    ∀ p, anyNotIncreasing ((startsFrom p anns).map (fun (s : Nat) => (s : Int) * sd)) = false := by
  induction anns with
  | nil => intro p; rfl
  | cons a rest ih =>
    intro p
    have ha := hpos a (by simp)
    cases rest with
    | nil => rfl
    | cons b rest' =>
      have hrec := ih (fun x hx => hpos x (by simp [hx])) (p + a.length)
      simp only [startsFrom, List.map_cons] at hrec ⊢
      unfold anyNotIncreasing
      rw [hrec]
      have h1 : ((p + a.length : Nat) : Int) * (sd : Int) - (p : Int) * (sd : Int) = (a.length : Int) * (sd : Int) := by
        push_cast; rw [Int.add_mul]; omega
      have h2 : 0 < (a.length : Int) * (sd : Int) := Int.mul_pos (by omega) (by omega)
      have : ¬ (((p + a.length : Nat) : Int) * (sd : Int) - (p : Int) * (sd : Int) ≤ 0) := by rw [h1]; omega
      simp only [this, decide_false, Bool.false_or]

theorem checkIndexList_starts {β : Type} (sd : Nat) (hsd : 0 < sd) (a : List β) (rest : List (List β))
    (hpos : ∀ x ∈ a :: rest, 0 < x.length) :
    ∃ z, checkIndexList (sd : Int) (((a :: rest).flatten.length : Nat) : Int)
      ((startsFrom 0 (a :: rest)).map (fun (s : Nat) => 1 + (s : Int) * sd)) = .ok z := by
  have hz : mapE pointIndexZero ((startsFrom 0 (a :: rest)).map (fun (s : Nat) => 1 + (s : Int) * sd)) =
      .ok ((startsFrom 0 (a :: rest)).map (fun (s : Nat) => (s : Int) * sd)) := by
    generalize startsFrom 0 (a :: rest) = l
    induction l with
    | nil => rfl
    | cons x xs ih =>
      simp only [List.map_cons, mapE, pointIndexZero, ih]
      congr 2
      omega
  refine ⟨(startsFrom 0 (a :: rest)).map (fun (s : Nat) => (s : Int) * sd), ?_⟩
  have h1 : ((startsFrom 0 (a :: rest)).map (fun (s : Nat) => (s : Int) * sd)).isEmpty = false := by
    simp [startsFrom]
  have h2 : headNotZero ((startsFrom 0 (a :: rest)).map (fun (s : Nat) => (s : Int) * sd)) = false := by
    simp [startsFrom, headNotZero]
  have h3 := starts_increasing sd hsd (a :: rest) hpos 0
  have h4 : ((startsFrom 0 (a :: rest)).map (fun (s : Nat) => (s : Int) * sd)).any
      (fun i => decide (Int.fmod i (sd : Int) ≠ 0)) = false := by
    simp only [List.any_eq_false, List.mem_map, decide_eq_true_eq, ne_eq, Decidable.not_not]
    rintro i ⟨s, _, rfl⟩
    rw [Int.fmod_eq_emod_of_nonneg _ (by omega)]
    exact Int.mul_emod_left _ _
  have h5 : lastBeyond ((startsFrom 0 (a :: rest)).map (fun (s : Nat) => (s : Int) * sd))
      ((((a :: rest).flatten.length : Nat) : Int) * (sd : Int)) = false := by
    unfold lastBeyond
    cases hl : ((startsFrom 0 (a :: rest)).map (fun (s : Nat) => (s : Int) * sd)).getLast? with
    | none => rfl
    | some l =>
      have hmem := List.mem_of_getLast? hl
      simp only [List.mem_map] at hmem
      obtain ⟨s, hs, rfl⟩ := hmem
      have := starts_lt_total (a :: rest) hpos 0 s hs
      simp only [Nat.zero_add] at this
      have hlt : (s : Int) * (sd : Int) < (((a :: rest).flatten.length : Nat) : Int) * (sd : Int) :=
        Int.mul_lt_mul_of_pos_right (by omega) (by omega)
      simp only [ge_iff_le, decide_eq_false_iff_not, Int.not_le]
      exact hlt
  unfold checkIndexList
  simp only [hz, indexListTotal]
  generalize (startsFrom 0 (a :: rest)).map (fun (s : Nat) => (s : Int) * sd) = zl at h1 h2 h3 h4 h5 ⊢
  rw [h1, h2, h3, h4, h5, indexListGuard_spec]
  rfl

/-- the cuts recovered from the stored index list are the starts of all annotations but the first
(and the list passes the validation) -/
theorem cutsOf_indexList {β : Type} (sd : Nat) (hsd : 0 < sd) (a : List β) (rest : List (List β))
    (hpos : ∀ x ∈ a :: rest, 0 < x.length) :
    cutsOf (sd : Int) (((a :: rest).flatten.length : Nat) : Int)
      (indexListFrom indexListBase ((a :: rest).map (fun x => (x.length : Int) * sd))) =
      .ok (startsFrom a.length rest) := by
  have h := indexList_starts sd (a :: rest) 0
  simp only [Int.natCast_zero, Int.zero_mul, Int.add_zero] at h
  have hb : indexListBase = 1 := rfl
  obtain ⟨z, hz⟩ := checkIndexList_starts sd hsd a rest hpos
  unfold cutsOf
  rw [hb, h, hz]
  have h2 : mapE (fun i => splitIndex i (sd : Int)) ((startsFrom 0 (a :: rest)).map (fun (s : Nat) => 1 + (s : Int) * sd)) =
      .ok ((startsFrom 0 (a :: rest)).map (fun (s : Nat) => (s : Int))) := by
    generalize startsFrom 0 (a :: rest) = l
    induction l with
    | nil => rfl
    | cons x xs ih => simp [mapE, splitIndex_start sd hsd, ih]
  simp only [h2]
  have hd : splitDropFirst = 1 := rfl
  simp only [hd, startsFrom, List.map_cons, List.drop_succ_cons, List.drop_zero, Nat.zero_add]
  generalize startsFrom a.length rest = l
  induction l with
  | nil => rfl
  | cons x xs ih =>
    have : ¬ ((x : Int) < 0) := by omega
    simp [mapE, this, ih]

end HdVerif.Ann

namespace HdVerif.Ann
open HdVerif HdVerif.Gen

/-! ### the translated plans, characterised -/

theorem pointCountCheck_spec (gt : String) (n : Int) (feq : Bool) :
    pointCountCheck gt n feq =
      if ((gt = "POINT" ∧ n = 1) ∨ (gt = "RECTANGLE" ∧ n = 4) ∨ (gt = "ELLIPSE" ∧ n = 4) ∨
       (gt = "POLYLINE" ∧ 2 ≤ n) ∨ (gt = "POLYGON" ∧ 3 ≤ n ∧ feq = false)) then .ok 0 else .error .value := by
  unfold pointCountCheck
  by_cases h1 : gt = "POINT"
  · subst h1; simp
  by_cases h2 : gt = "RECTANGLE"
  · subst h2; simp
  by_cases h3 : gt = "ELLIPSE"
  · subst h3; simp
  by_cases h4 : gt = "POLYLINE"
  · subst h4; simp; split <;> simp_all <;> omega
  by_cases h5 : gt = "POLYGON"
  · subst h5; simp; cases feq <;> simp <;> split <;> simp_all <;> omega
  simp [h1, h2, h3, h4, h5]

theorem encodePlan_spec (c : Nat) (fin dbl : Bool) (nu : Nat) :
    encodePlan 2 (c : Int) fin (nu : Int) dbl =
      if (c = 2 ∨ c = 3) ∧ fin = true then
        .ok (if c = 3 then 3 else 2, if c = 3 ∧ nu ≠ 1 then 3 else 2, if c = 3 ∧ nu ≠ 1 then 3 else 2,
             decide (c = 3 ∧ nu = 1), dbl)
      else .error .value := by
  unfold encodePlan
  grind (splits := 40)

theorem decodePlan_spec (ct : Int) (gt : String) (hz : Bool) (n : Int) :
    decodePlan ct gt hz n =
      if gt = "RECTANGLE" ∨ gt = "ELLIPSE" then .ok (if hz then 2 else if ct = 2 then 2 else 3, 0, Int.fdiv n 4)
      else if gt = "POINT" then .ok (if hz then 2 else if ct = 2 then 2 else 3, 0, n)
      else if gt = "POLYLINE" ∨ gt = "POLYGON" then .ok (if hz then 2 else if ct = 2 then 2 else 3, 1, 0)
      else .error .value := by
  unfold decodePlan
  by_cases h2 : gt = "RECTANGLE"
  · subst h2; cases hz <;> simp
  by_cases h3 : gt = "ELLIPSE"
  · subst h3; cases hz <;> simp
  by_cases h1 : gt = "POINT"
  · subst h1; cases hz <;> simp
  by_cases h4 : gt = "POLYLINE"
  · subst h4; cases hz <;> simp
  by_cases h5 : gt = "POLYGON"
  · subst h5; cases hz <;> simp
  simp [h1, h2, h3, h4, h5]

end HdVerif.Ann

namespace HdVerif.Ann
open HdVerif HdVerif.Gen

/-! ### valid input -/

/-- the per-type rule on the number of points (and the open-polygon rule) -/
def countOk {α : Type} [DecidableEq α] (gt : String) (a : Annot α) : Prop :=
  (gt = "POINT" ∧ a.length = 1) ∨ (gt = "RECTANGLE" ∧ a.length = 4) ∨ (gt = "ELLIPSE" ∧ a.length = 4) ∨
  (gt = "POLYLINE" ∧ 2 ≤ a.length) ∨ (gt = "POLYGON" ∧ 3 ≤ a.length ∧ firstEqLast a = false)

instance {α : Type} [DecidableEq α] (gt : String) (a : Annot α) : Decidable (countOk gt a) := by
  unfold countOk; exact inferInstance

theorem pointCountCheck_countOk {α : Type} [DecidableEq α] (gt : String) (a : Annot α) :
    pointCountCheck gt (a.length : Int) (firstEqLast a) = if countOk gt a then .ok 0 else .error .value := by
  rw [pointCountCheck_spec]
  unfold countOk
  have e1 : ((a.length : Int) = 1) = (a.length = 1) := by apply propext; omega
  have e4 : ((a.length : Int) = 4) = (a.length = 4) := by apply propext; omega
  have e2 : ((2 : Int) ≤ (a.length : Int)) = (2 ≤ a.length) := by apply propext; omega
  have e3 : ((3 : Int) ≤ (a.length : Int)) = (3 ≤ a.length) := by apply propext; omega
  simp only [e1, e2, e3, e4]

theorem countOk_pos {α : Type} [DecidableEq α] (gt : String) (a : Annot α) (h : countOk gt a) : 0 < a.length := by
  unfold countOk at h; omega

theorem mapE_all_ok {β γ : Type} (f : β → Except ErrKind γ) (g : β → γ) (l : List β) (h : ∀ x ∈ l, f x = .ok (g x)) :
    mapE f l = .ok (l.map g) := by
  rw [mapE_congr f (fun x => .ok (g x)) l h, mapE_ok_map]

theorem mapE_error_of_mem {β γ : Type} (f : β → Except ErrKind γ) (e : ErrKind) (l : List β)
    (hall : ∀ x ∈ l, f x = .error e ∨ ∃ y, f x = .ok y) (x : β) (hx : x ∈ l) (hf : f x = .error e) :
    mapE f l = .error e := by
  induction l with
  | nil => cases hx
  | cons a as ih =>
    simp only [mapE]
    rcases hall a (by simp) with ha | ⟨y, ha⟩
    · simp [ha]
    · simp only [ha]
      rcases List.mem_cons.mp hx with h | h
      · subst h; rw [hf] at ha; cases ha
      · rw [ih (fun z hz => hall z (by simp [hz])) h]

end HdVerif.Ann

namespace HdVerif.Ann
open HdVerif HdVerif.Gen

/-- the constructor's cast applied to every cell -/
def castG {α : Type} (cast : α → α) (gd : GData α) : GData α := gd.map (fun a => a.map (fun r => r.map cast))

/-- well-formed construction input: at least one annotation, point counts per type, open polygons,
one width `c ∈ {2, 3}` for all rows, finite cells -/
structure Valid {α : Type} [DecidableEq α] (gt : String) (finite : α → Bool) (cast : α → α) (gd : GData α) (c : Nat) : Prop where
  nonempty : gd ≠ []
  counts : ∀ a ∈ gd, countOk gt a
  width : ∀ a ∈ gd, ∀ r ∈ a, r.length = c
  dims : c = 2 ∨ c = 3
  fin : ∀ a ∈ gd, ∀ r ∈ a, ∀ x ∈ r, finite (cast x) = true

theorem castG_flatten {α : Type} (cast : α → α) (gd : GData α) :
    gd.flatten.map (fun r => r.map cast) = (castG cast gd).flatten := by
  simp [castG, List.map_flatten]

theorem castG_width {α : Type} (cast : α → α) (gd : GData α) (c : Nat) (h : ∀ a ∈ gd, ∀ r ∈ a, r.length = c) :
    ∀ a ∈ castG cast gd, ∀ r ∈ a, r.length = c := by
  intro a ha r hr
  simp only [castG, List.mem_map] at ha
  obtain ⟨a0, ha0, rfl⟩ := ha
  simp only [List.mem_map] at hr
  obtain ⟨r0, hr0, rfl⟩ := hr
  simpa using h a0 ha0 r0 hr0

theorem rows_width {α : Type} (cast : α → α) (gd : GData α) (c : Nat) (h : ∀ a ∈ gd, ∀ r ∈ a, r.length = c) :
    ∀ r ∈ (castG cast gd).flatten, r.length = c := by
  intro r hr
  obtain ⟨a, ha, hra⟩ := List.mem_flatten.mp hr
  exact castG_width cast gd c h a ha r hra

/-- valid input has a first row -/
theorem valid_head {α : Type} [DecidableEq α] (gt : String) (finite : α → Bool) (cast : α → α) (gd : GData α) (c : Nat)
    (v : Valid gt finite cast gd c) : ∃ r0, (castG cast gd).flatten.head? = some r0 ∧ r0.length = c := by
  match gd, v.nonempty with
  | a :: gs, _ =>
    have hp := countOk_pos gt a (v.counts a (by simp))
    match a, hp with
    | r :: rs, _ =>
      refine ⟨r.map cast, by simp [castG], ?_⟩
      simpa using v.width (r :: rs) (by simp) r (by simp)


end HdVerif.Ann

namespace HdVerif.Ann
open HdVerif HdVerif.Gen

/-! ### shared z on rows of width 3 -/

theorem zColumn_of_width3 {α : Type} (rows : List (Row α)) (h : ∀ r ∈ rows, r.length = 3) :
    ∀ r ∈ rows, ∃ z, r[2]? = some z ∧ z ∈ zColumn rows := by
  intro r hr
  have h3 := h r hr
  have : 2 < r.length := by omega
  refine ⟨r[2], by simp [List.getElem?_eq_getElem this], ?_⟩
  simp only [zColumn, List.mem_filterMap]
  exact ⟨r, hr, by simp [List.getElem?_eq_getElem this]⟩

theorem zColumn_head {α : Type} (r0 : Row α) (rows : List (Row α)) (z : α) (h : r0[2]? = some z) :
    (zColumn (r0 :: rows)).head? = some z := by
  simp [zColumn, h]

/-- `len(np.unique(z)) == 1` on rows of width 3: every row carries the z of the first row -/
theorem shared_z_rows {α : Type} [DecidableEq α] (rows : List (Row α)) (h3 : ∀ r ∈ rows, r.length = 3)
    (hd : (distinct (zColumn rows)).length = 1) :
    ∃ z, (zColumn rows).head? = some z ∧ ∀ r ∈ rows, r[2]? = some z := by
  obtain ⟨z, hz, hall⟩ := (distinct_length_one _).mp hd
  refine ⟨z, hz, ?_⟩
  intro r hr
  obtain ⟨w, hw, hmem⟩ := zColumn_of_width3 rows h3 r hr
  rw [hw, hall w hmem]

theorem take_width {α : Type} (c : Nat) (rows : List (Row α)) (h : ∀ r ∈ rows, r.length = c) :
    rows.map (fun r => r.take c) = rows := by
  induction rows with
  | nil => rfl
  | cons r rs ih =>
    simp only [List.map_cons]
    rw [ih (fun x hx => h x (by simp [hx])), ← h r (by simp), List.take_length]

theorem take2_width {α : Type} (rows : List (Row α)) (h : ∀ r ∈ rows, r.length = 3) :
    ∀ r ∈ rows.map (fun r => r.take 2), r.length = 2 := by
  intro r hr
  simp only [List.mem_map] at hr
  obtain ⟨r0, hr0, rfl⟩ := hr
  simp [h r0 hr0]


end HdVerif.Ann

namespace HdVerif.Ann
open HdVerif HdVerif.Gen

/-! ### decoding the stored layout -/

/-- layout without shared z: all `c` columns stored -/
theorem storedRows_plain {α : Type} (c : Nat) (hc : 0 < c) (rows : List (Row α)) (hw : ∀ r ∈ rows, r.length = c)
    (dbl : Bool) (il : Option (List Int)) (n : Nat) :
    storedRows c { coords := (rows.map (fun r => r.take c)).flatten, double := dbl, commonZ := none, indexList := il, numAnn := n }
      = .ok rows := by
  simp only [storedRows, take_width c rows hw, reshapeRows_flatten c hc rows hw]

/-- layout with shared z: two columns stored, the z column re-attached -/
theorem storedRows_shared {α : Type} (rows : List (Row α)) (hw : ∀ r ∈ rows, r.length = 3) (z : α)
    (hz : ∀ r ∈ rows, r[2]? = some z) (dbl : Bool) (il : Option (List Int)) (n : Nat) :
    storedRows 2 { coords := (rows.map (fun r => r.take 2)).flatten, double := dbl, commonZ := some z, indexList := il, numAnn := n }
      = .ok rows := by
  simp only [storedRows, reshapeRows_flatten 2 (by omega) _ (take2_width rows hw), take2_append_z z rows hw hz]

/-- fixed number `k` of points per annotation, `sections = N / k`… for RECTANGLE / ELLIPSE -/
theorem splitRows_four {α : Type} (gt : String) (hgt : gt = "RECTANGLE" ∨ gt = "ELLIPSE") (e : Enc α) (ct stored : Int)
    (G : GData α) (hne : G ≠ []) (h4 : ∀ a ∈ G, a.length = 4) :
    splitRows gt e ct stored G.flatten = .ok G := by
  unfold splitRows
  rw [decodePlan_spec]
  simp only [hgt, if_true]
  have hl := length_flatten_uniform 4 G h4
  have : Int.fdiv (G.flatten.length : Int) 4 = (G.length : Int) := by
    rw [hl, Int.fdiv_eq_ediv_of_nonneg _ (by omega)]
    push_cast
    omega
  simp only [this]
  exact equalSplit_flatten 4 G hne h4

theorem splitRows_point {α : Type} (e : Enc α) (ct stored : Int)
    (G : GData α) (hne : G ≠ []) (h1 : ∀ a ∈ G, a.length = 1) :
    splitRows "POINT" e ct stored G.flatten = .ok G := by
  unfold splitRows
  rw [decodePlan_spec]
  have hl := length_flatten_uniform 1 G h1
  simp only [hl, Nat.mul_one]
  simp
  exact equalSplit_flatten 1 G hne h1

theorem splitRows_poly {α : Type} (gt : String) (hgt : gt = "POLYLINE" ∨ gt = "POLYGON") (e : Enc α) (ct : Int) (sd : Nat)
    (hsd : 0 < sd) (G : GData α) (hne : G ≠ []) (hpos : ∀ a ∈ G, 0 < a.length)
    (hil : e.indexList = some (indexListFrom indexListBase (G.map (fun a => (a.length : Int) * sd)))) :
    splitRows gt e ct (sd : Int) G.flatten = .ok G := by
  unfold splitRows
  rw [decodePlan_spec]
  have h1 : ¬ (gt = "RECTANGLE" ∨ gt = "ELLIPSE") := by rcases hgt with h | h <;> subst h <;> decide
  have h2 : ¬ (gt = "POINT") := by rcases hgt with h | h <;> subst h <;> decide
  simp only [h1, h2, hgt, if_true, if_false, hil]
  match G, hne, hpos with
  | a :: rest, _, hpos =>
    rw [cutsOf_indexList sd hsd a rest hpos]
    simp only [show ¬ ((1 : Int) = 0) by decide, if_false]
    rw [splitCuts_flatten0]

end HdVerif.Ann

namespace HdVerif.Ann
open HdVerif HdVerif.Gen

/-! ### what the constructor writes -/

/-- the stored dimensionality the constructor chooses: 3 only for 3-D points with varying z -/
def storedDim (c : Nat) (shared : Bool) : Nat := if c = 3 ∧ shared = false then 3 else 2

/-- do all (cast) points of the group share one z? -/
def sharedZ {α : Type} [DecidableEq α] (cast : α → α) (gd : GData α) (c : Nat) : Bool :=
  decide (c = 3 ∧ (distinct (zColumn (castG cast gd).flatten)).length = 1)

/-- what the constructor writes for valid input -/
def expectedEnc {α : Type} [DecidableEq α] (gt : String) (dbl : Bool) (cast : α → α) (gd : GData α) (c : Nat) : Enc α :=
  let rows := (castG cast gd).flatten
  let shared := sharedZ cast gd c
  { coords := (rows.map (fun r => r.take (storedDim c shared))).flatten,
    double := dbl,
    commonZ := if shared then (zColumn rows).head? else none,
    indexList := if gt = "POLYGON" ∨ gt = "POLYLINE" then
        some (indexListFrom indexListBase (gd.map (fun a => (a.length : Int) * (storedDim c shared : Nat)))) else none,
    numAnn := gd.length }

theorem valid_gt {α : Type} [DecidableEq α] (gt : String) (finite : α → Bool) (cast : α → α) (gd : GData α) (c : Nat)
    (v : Valid gt finite cast gd c) :
    gt = "POINT" ∨ gt = "RECTANGLE" ∨ gt = "ELLIPSE" ∨ gt = "POLYLINE" ∨ gt = "POLYGON" := by
  match gd, v.nonempty with
  | a :: gs, _ =>
    have := v.counts a (by simp)
    unfold countOk at this
    rcases this with h | h | h | h | h
    · exact Or.inl h.1
    · exact Or.inr (Or.inl h.1)
    · exact Or.inr (Or.inr (Or.inl h.1))
    · exact Or.inr (Or.inr (Or.inr (Or.inl h.1)))
    · exact Or.inr (Or.inr (Or.inr (Or.inr h.1)))

theorem finish_spec {α : Type} [DecidableEq α] (gt : String) (finite : α → Bool) (cast : α → α) (gd : GData α) (c : Nat)
    (v : Valid gt finite cast gd c) (dbl : Bool) :
    finish gt gd (castG cast gd).flatten
      (if c = 3 then 3 else 2, if c = 3 ∧ (distinct (zColumn (castG cast gd).flatten)).length ≠ 1 then 3 else 2,
       if c = 3 ∧ (distinct (zColumn (castG cast gd).flatten)).length ≠ 1 then 3 else 2,
       decide (c = 3 ∧ (distinct (zColumn (castG cast gd).flatten)).length = 1), dbl)
    = .ok (expectedEnc gt dbl cast gd c, if c = 3 then 3 else 2) := by
  have hw := rows_width cast gd c v.width
  have hspan : ∀ (dim : Int), mapE (fun (a : Annot α) => indexSpan dim (a.length : Int)) gd =
      .ok (gd.map (fun a => (a.length : Int) * dim)) := by
    intro dim
    exact mapE_all_ok _ _ gd (fun a _ => rfl)
  have hgt := valid_gt gt finite cast gd c v
  have hcont : (gt ∈ indexListTypes) ↔ (gt = "POLYGON" ∨ gt = "POLYLINE") := by
    simp [indexListTypes]
  unfold finish expectedEnc sharedZ storedDim
  by_cases hs : c = 3 ∧ (distinct (zColumn (castG cast gd).flatten)).length = 1
  · -- shared z
    obtain ⟨hc3, hd⟩ := hs
    subst hc3
    obtain ⟨z, hzh, _⟩ := shared_z_rows _ hw hd
    have h2 := hspan 2
    by_cases hp : gt = "POLYGON" ∨ gt = "POLYLINE"
    · simp [hp, h2, hd, hzh, hcont]
    · simp [hp, hd, hzh, hcont]
  · have hs' : ¬ (c = 3 ∧ (distinct (zColumn (castG cast gd).flatten)).length = 1) := hs
    rcases v.dims with hc | hc
    · subst hc
      have h2 := hspan 2
      by_cases hp : gt = "POLYGON" ∨ gt = "POLYLINE"
      · simp [hp, h2, hcont]
      · simp [hp, hcont]
    · subst hc
      have hne : (distinct (zColumn (castG cast gd).flatten)).length ≠ 1 := fun h => hs ⟨rfl, h⟩
      have h3 := hspan 3
      by_cases hp : gt = "POLYGON" ∨ gt = "POLYLINE"
      · simp [hp, h3, hcont, hne]
      · simp [hp, hcont, hne]

end HdVerif.Ann

namespace HdVerif.Ann
open HdVerif HdVerif.Gen

/-- the constructor on valid input: accepted, and exactly these attributes are written -/
theorem encode_valid {α : Type} [DecidableEq α] (gt : String) (finite : α → Bool) (dbl : Bool) (cast : α → α)
    (gd : GData α) (c : Nat) (v : Valid gt finite cast gd c) :
    encode gt finite dbl cast gd = .ok (expectedEnc gt dbl cast gd c, if c = 3 then 3 else 2) := by
  have hcheck : mapE (fun a => pointCountCheck gt (a.length : Int) (firstEqLast a)) gd = .ok (gd.map (fun _ => (0 : Int))) :=
    mapE_all_ok _ _ gd (fun a ha => by rw [pointCountCheck_countOk]; simp [v.counts a ha])
  obtain ⟨r0, hhead, hr0⟩ := valid_head gt finite cast gd c v
  have hw := rows_width cast gd c v.width
  have huni : uniformWidth c (castG cast gd).flatten = true := by
    simp only [uniformWidth, List.all_eq_true, beq_iff_eq]
    exact hw
  have hfin : (castG cast gd).flatten.all (fun r => r.all finite) = true := by
    simp only [List.all_eq_true]
    intro r hr x hx
    obtain ⟨a, ha, hra⟩ := List.mem_flatten.mp hr
    simp only [castG, List.mem_map] at ha
    obtain ⟨a0, ha0, rfl⟩ := ha
    simp only [List.mem_map] at hra
    obtain ⟨r1, hr1, rfl⟩ := hra
    simp only [List.mem_map] at hx
    obtain ⟨x0, hx0, rfl⟩ := hx
    exact v.fin a0 ha0 r1 hr1 x0 hx0
  unfold encode
  simp only [hcheck, castG_flatten, hhead, hr0, huni, hfin, Bool.not_true, Bool.false_eq_true, if_false]
  rw [encodePlan_spec]
  have hd : (c = 2 ∨ c = 3) ∧ true = true := ⟨v.dims, rfl⟩
  simp only [hd]
  exact finish_spec gt finite cast gd c v dbl


end HdVerif.Ann

namespace HdVerif.Ann
open HdVerif HdVerif.Gen

/-! ### round trip -/

theorem castG_lengths {α : Type} (cast : α → α) (gd : GData α) (sd : Int) :
    (castG cast gd).map (fun a => (a.length : Int) * sd) = gd.map (fun a => (a.length : Int) * sd) := by
  simp [castG, List.map_map, Function.comp_def]

theorem castG_ne_nil {α : Type} (cast : α → α) (gd : GData α) (h : gd ≠ []) : castG cast gd ≠ [] := by
  simpa [castG] using h

theorem castG_length_of {α : Type} (cast : α → α) (gd : GData α) (k : Nat) (h : ∀ a ∈ gd, a.length = k) :
    ∀ a ∈ castG cast gd, a.length = k := by
  intro a ha
  simp only [castG, List.mem_map] at ha
  obtain ⟨a0, ha0, rfl⟩ := ha
  simpa using h a0 ha0

/-- splitting the recovered point array gives the annotations back, whatever the graphic type -/
theorem splitRows_valid {α : Type} [DecidableEq α] (gt : String) (finite : α → Bool) (cast : α → α) (gd : GData α) (c : Nat)
    (v : Valid gt finite cast gd c) (e : Enc α) (ct : Int) (sd : Nat) (hsd : 0 < sd)
    (hil : (gt = "POLYGON" ∨ gt = "POLYLINE") →
      e.indexList = some (indexListFrom indexListBase (gd.map (fun a => (a.length : Int) * sd)))) :
    splitRows gt e ct (sd : Int) (castG cast gd).flatten = .ok (castG cast gd) := by
  have hne := castG_ne_nil cast gd v.nonempty
  have hposG : ∀ a ∈ castG cast gd, 0 < a.length := by
    intro a ha
    simp only [castG, List.mem_map] at ha
    obtain ⟨a0, ha0, rfl⟩ := ha
    simpa using countOk_pos gt a0 (v.counts a0 ha0)
  rcases valid_gt gt finite cast gd c v with h | h | h | h | h
  · subst h
    refine splitRows_point e ct _ _ hne (castG_length_of cast gd 1 ?_)
    intro a ha
    have := v.counts a ha
    simp [countOk] at this
    exact this
  · subst h
    refine splitRows_four _ (Or.inl rfl) e ct _ _ hne (castG_length_of cast gd 4 ?_)
    intro a ha
    have := v.counts a ha
    simp [countOk] at this
    exact this
  · subst h
    refine splitRows_four _ (Or.inr rfl) e ct _ _ hne (castG_length_of cast gd 4 ?_)
    intro a ha
    have := v.counts a ha
    simp [countOk] at this
    exact this
  · subst h
    refine splitRows_poly _ (Or.inl rfl) e ct sd hsd _ hne hposG ?_
    rw [castG_lengths]
    exact hil (Or.inr rfl)
  · subst h
    refine splitRows_poly _ (Or.inr rfl) e ct sd hsd _ hne hposG ?_
    rw [castG_lengths]
    exact hil (Or.inl rfl)

/-- **parsing what the constructor wrote returns the (cast) input** -/
theorem decode_expected {α : Type} [DecidableEq α] (gt : String) (finite : α → Bool) (dbl : Bool) (cast : α → α)
    (gd : GData α) (c : Nat) (v : Valid gt finite cast gd c) :
    decode gt (expectedEnc gt dbl cast gd c) (if c = 3 then 3 else 2) = .ok (castG cast gd) := by
  have hw := rows_width cast gd c v.width
  have hgt := valid_gt gt finite cast gd c v
  have hplan : ∀ (hz : Bool) (ct n : Int), ∃ m s, decodePlan ct gt hz n = .ok (if hz then 2 else if ct = 2 then 2 else 3, m, s) := by
    intro hz ct n
    rw [decodePlan_spec]
    rcases hgt with h | h | h | h | h <;> subst h <;> simp
  unfold decode
  by_cases hs : c = 3 ∧ (distinct (zColumn (castG cast gd).flatten)).length = 1
  · obtain ⟨hc3, hd⟩ := hs
    subst hc3
    obtain ⟨z, hzh, hzall⟩ := shared_z_rows _ hw hd
    have hsh : sharedZ cast gd 3 = true := by simp [sharedZ, hd]
    have hcz : (expectedEnc gt dbl cast gd 3).commonZ = some z := by simp [expectedEnc, hsh, hzh]
    obtain ⟨m, s, hp⟩ := hplan true 3 0
    simp only [hcz, Option.isSome_some, hp, if_true]
    have hrows : storedRows (2 : Int).toNat (expectedEnc gt dbl cast gd 3) = .ok (castG cast gd).flatten := by
      have := storedRows_shared (castG cast gd).flatten hw z hzall dbl (expectedEnc gt dbl cast gd 3).indexList gd.length
      simpa [expectedEnc, hsh, hzh, storedDim] using this
    simp only [show ¬ ((2 : Int) ≤ 0) by decide, if_false, hrows]
    refine splitRows_valid gt finite cast gd 3 v _ _ 2 (by omega) ?_
    intro hpoly
    simp [expectedEnc, hpoly, hsh, storedDim]
  · have hsh : sharedZ cast gd c = false := by simp [sharedZ, hs]
    have hcz : (expectedEnc gt dbl cast gd c).commonZ = none := by simp [expectedEnc, hsh]
    rcases v.dims with hc | hc
    · subst hc
      obtain ⟨m, s, hp⟩ := hplan false 2 0
      simp only [hcz, Option.isSome_none, hp, show ¬ ((2 : Nat) = 3) by decide, if_false, if_true]
      have hrows : storedRows (2 : Int).toNat (expectedEnc gt dbl cast gd 2) = .ok (castG cast gd).flatten := by
        have := storedRows_plain 2 (by omega) (castG cast gd).flatten hw dbl (expectedEnc gt dbl cast gd 2).indexList gd.length
        simpa [expectedEnc, hsh, storedDim] using this
      simp only [Bool.false_eq_true, if_false, show ¬ ((2 : Int) ≤ 0) by decide, hrows]
      refine splitRows_valid gt finite cast gd 2 v _ _ 2 (by omega) ?_
      intro hpoly
      simp [expectedEnc, hpoly, hsh, storedDim]
    · subst hc
      obtain ⟨m, s, hp⟩ := hplan false 3 0
      simp only [hcz, Option.isSome_none, hp, if_true]
      have hrows : storedRows (3 : Int).toNat (expectedEnc gt dbl cast gd 3) = .ok (castG cast gd).flatten := by
        have := storedRows_plain 3 (by omega) (castG cast gd).flatten hw dbl (expectedEnc gt dbl cast gd 3).indexList gd.length
        simpa [expectedEnc, hsh, storedDim] using this
      simp only [Bool.false_eq_true, if_false, show ¬ ((3 : Int) = 2) by decide, show ¬ ((3 : Int) ≤ 0) by decide, hrows]
      refine splitRows_valid gt finite cast gd 3 v _ _ 3 (by omega) ?_
      intro hpoly
      simp [expectedEnc, hpoly, hsh, storedDim]


end HdVerif.Ann

namespace HdVerif.Ann
open HdVerif HdVerif.Gen

/-! ### measurements -/

theorem positions_length {β : Type} (vals : List (Option β)) : ∀ p, (positions p vals).length = (vals.filterMap id).length := by
  induction vals with
  | nil => intro p; rfl
  | cons v rest ih =>
    intro p
    cases v with
    | none => simp [positions, ih]
    | some x => simp [positions, ih]

theorem positions_all_some {β : Type} (vals : List (Option β)) (h : vals.any Option.isNone = false) :
    ∀ p, positions p vals = List.range' p vals.length := by
  induction vals with
  | nil => intro p; rfl
  | cons v rest ih =>
    intro p
    cases v with
    | none => simp at h
    | some x =>
      have hr : rest.any Option.isNone = false := by simpa using h
      simp [positions, ih hr, List.range'_succ]

theorem filterMap_all_some {β : Type} (vals : List (Option β)) (h : vals.any Option.isNone = false) :
    (vals.filterMap id).map some = vals := by
  induction vals with
  | nil => rfl
  | cons v rest ih =>
    cases v with
    | none => simp at h
    | some x =>
      have hr : rest.any Option.isNone = false := by simpa using h
      simp [ih hr]

/-- sequential assignment at the positions of the present entries rebuilds the vector -/
theorem assignAll_positions {β : Type} (f : β → β) (rest : List (Option β)) : ∀ (done : List (Option β)),
    assignAll (done.length + rest.length)
      (((positions done.length rest).map (fun (i : Nat) => (i : Int))).zip ((rest.filterMap id).map f))
      (done ++ List.replicate rest.length none) = .ok (done ++ rest.map (Option.map f)) := by
  induction rest with
  | nil => intro done; simp [positions, assignAll]
  | cons v r ih =>
    intro done
    cases v with
    | none =>
      have := ih (done ++ [none])
      simp only [List.length_append, List.length_cons, List.length_nil, Nat.zero_add, List.append_assoc, List.cons_append,
        List.nil_append] at this
      simp only [positions, List.filterMap_cons, id, List.length_cons, List.replicate_succ, List.map_cons, Option.map_none]
      have e : done.length + (r.length + 1) = done.length + 1 + r.length := by omega
      rw [e]
      exact this
    | some x =>
      have := ih (done ++ [some (f x)])
      simp only [List.length_append, List.length_cons, List.length_nil, Nat.zero_add, List.append_assoc, List.cons_append,
        List.nil_append] at this
      simp only [positions, List.filterMap_cons, id, List.length_cons, List.replicate_succ, List.map_cons, List.zip_cons_cons,
        assignAll, Option.map_some]
      have h1 : ¬ (((done.length : Nat) : Int) ≥ ((done.length + (r.length + 1) : Nat) : Int) ∨
          ((done.length : Nat) : Int) < -((done.length + (r.length + 1) : Nat) : Int)) := by omega
      have h2 : ¬ (((done.length : Nat) : Int) < 0) := by omega
      simp only [h1, h2, if_false, Int.toNat_natCast]
      have hset : (done ++ none :: List.replicate r.length none).set done.length (some (f x)) =
          done ++ some (f x) :: List.replicate r.length none := by
        rw [List.set_append_right _ _ (Nat.le_refl _)]
        simp
      rw [hset]
      have e : done.length + (r.length + 1) = done.length + 1 + r.length := by omega
      rw [e]
      exact this


end HdVerif.Ann

namespace HdVerif.Ann
open HdVerif HdVerif.Gen

theorem measIndexGuard_spec (has : Bool) (nIdx n nStored : Int) :
    measIndexGuard has nIdx n nStored =
      if nStored ≠ (if has then nIdx else n) then .error .index else .ok (if has then nIdx else n) := by
  unfold measIndexGuard
  cases has <;> simp <;> split <;> simp_all

theorem filterMap_length_all_some {β : Type} (vals : List (Option β)) (h : vals.any Option.isNone = false) :
    (vals.filterMap id).length = vals.length := by
  have := congrArg List.length (filterMap_all_some vals h)
  simpa using this

/-- **sparse measurements round-trip for every NaN pattern** -/
theorem getValues_encodeMeas {β : Type} (cast32 : β → β) (vals : List (Option β)) :
    getValues (encodeMeas cast32 vals) vals.length = .ok (vals.map (Option.map cast32)) := by
  have hb : measIndexBase = 1 := rfl
  have key := assignAll_positions cast32 vals []
  simp only [List.length_nil, Nat.zero_add, List.nil_append] at key
  unfold getValues encodeMeas
  cases hany : vals.any Option.isNone
  · -- no NaN: no index list
    simp only [Bool.false_eq_true, if_false, Option.isSome_none, Option.getD_none, List.length_nil, measIndexGuard_spec,
      List.length_map, filterMap_length_all_some vals hany]
    simp only [ne_eq, not_true_eq_false, if_false]
    have : List.range vals.length = positions 0 vals := by
      rw [positions_all_some vals hany 0, List.range_eq_range']
    rw [this]
    exact key
  · simp only [if_true, Option.isSome_some, Option.getD_some, List.length_map, measIndexGuard_spec, positions_length vals 0]
    simp only [ne_eq, not_true_eq_false, if_false, List.map_map]
    have : ((fun i => i - measIndexBase) ∘ fun (i : Nat) => (i : Int) + measIndexBase) = fun (i : Nat) => (i : Int) := by
      funext i; simp [hb]
    rw [this]
    exact key

/-- AnnotationIndexList is written iff some value is absent -/
theorem indexList_iff_nan {β : Type} (cast32 : β → β) (vals : List (Option β)) :
    (encodeMeas cast32 vals).indices.isSome = vals.any Option.isNone := by
  unfold encodeMeas
  cases vals.any Option.isNone <;> simp


end HdVerif.Ann

namespace HdVerif.Ann
open HdVerif HdVerif.Gen

/-! ### acceptance implies validity -/

theorem mapE_ok_forall {β γ : Type} (f : β → Except ErrKind γ) (l : List β) (ys : List γ) (h : mapE f l = .ok ys) :
    ∀ x ∈ l, ∃ y, f x = .ok y := by
  induction l generalizing ys with
  | nil => intro x hx; cases hx
  | cons a as ih =>
    intro x hx
    simp only [mapE] at h
    cases hfa : f a with
    | error e => simp [hfa] at h
    | ok b =>
      simp only [hfa] at h
      cases hrest : mapE f as with
      | error e => simp [hrest] at h
      | ok bs =>
        rcases List.mem_cons.mp hx with rfl | hm
        · exact ⟨b, hfa⟩
        · exact ih bs hrest x hm

/-- **whatever the constructor accepts is valid input** (so every kind of malformed input is refused) -/
theorem encode_ok_valid {α : Type} [DecidableEq α] (gt : String) (finite : α → Bool) (dbl : Bool) (cast : α → α)
    (gd : GData α) (r : Enc α × Int) (h : encode gt finite dbl cast gd = .ok r) :
    ∃ c, Valid gt finite cast gd c := by
  unfold encode at h
  generalize hrows : gd.flatten.map (fun r => r.map cast) = rows at h
  cases hcheck : mapE (fun a => pointCountCheck gt (a.length : Int) (firstEqLast a)) gd with
  | error e => simp [hcheck] at h
  | ok zs =>
    simp only [hcheck] at h
    have hcounts : ∀ a ∈ gd, countOk gt a := by
      intro a ha
      obtain ⟨y, hy⟩ := mapE_ok_forall _ gd zs hcheck a ha
      rw [pointCountCheck_countOk] at hy
      by_cases hc : countOk gt a
      · exact hc
      · simp [hc] at hy
    cases hhead : rows.head? with
    | none => simp [hhead] at h
    | some r0 =>
      simp only [hhead] at h
      by_cases huni : uniformWidth r0.length rows = true
      · simp only [huni, Bool.not_true, Bool.false_eq_true, if_false] at h
        cases hplan : encodePlan 2 (r0.length : Int) (rows.all (fun r => r.all finite))
            ((distinct (zColumn rows)).length : Int) dbl with
        | error e => simp [hplan] at h
        | ok plan =>
          rw [encodePlan_spec] at hplan
          split at hplan
          · rename_i hcond
            obtain ⟨hdims, hfin⟩ := hcond
            have hmemrows : ∀ a ∈ gd, ∀ r ∈ a, r.map cast ∈ rows := by
              intro a ha r hr
              rw [← hrows]
              exact List.mem_map.mpr ⟨r, List.mem_flatten.mpr ⟨a, ha, hr⟩, rfl⟩
            refine ⟨r0.length, ?_, hcounts, ?_, hdims, ?_⟩
            · intro hnil; subst hnil; subst hrows; simp at hhead
            · intro a ha r hr
              simp only [uniformWidth, List.all_eq_true, beq_iff_eq] at huni
              simpa using huni _ (hmemrows a ha r hr)
            · intro a ha r hr x hx
              simp only [List.all_eq_true] at hfin
              exact hfin _ (hmemrows a ha r hr) (cast x) (List.mem_map.mpr ⟨x, hx, rfl⟩)
          · cases hplan
      · simp [huni] at h


end HdVerif.Ann

namespace HdVerif.Ann
open HdVerif HdVerif.Gen

/-! ### group lookup -/

/-- a criterion that is not given matches everything; a given one matches by equality -/
def optOk {γ : Type} [DecidableEq γ] (crit : Option γ) (val : γ) : Bool :=
  match crit with
  | none => true
  | some c => decide (val = c)

/-- declarative meaning of the search criteria -/
def matchesSpec (g : GroupInfo) (f : Filter) : Bool :=
  optOk f.category g.category && optOk f.ptype g.ptype && optOk f.label g.label && optOk f.gtype g.gtype &&
  optOk f.algType g.algType &&
  (match g.alg with
   | some (name, version, family) => optOk f.algName name && optOk f.algVersion version && optOk f.algFamily family
   | none => f.algName.isNone && f.algVersion.isNone && f.algFamily.isNone)

/-- the translated loop body, as a formula -/
theorem groupFilterDecision_spec (h1 e1 h2 e2 h3 e3 h4 e4 h5 e5 hn en hf ef hv ev ha : Bool) :
    groupFilterDecision h1 e1 h2 e2 h3 e3 h4 e4 h5 e5 hn en hf ef hv ev ha =
      .ok ((!h1 || e1) && (!h2 || e2) && (!h3 || e3) && (!h4 || e4) && (!h5 || e5) &&
           (if ha then (!hn || en) && (!hv || ev) && (!hf || ef) else !(hn || hv || hf))) := by
  unfold groupFilterDecision
  cases h1 <;> cases h2 <;> cases h3 <;> cases h4 <;> cases h5 <;> cases ha <;> cases hn <;> cases hv <;> cases hf <;>
    simp [Bool.and_assoc]

theorem optOk_flags {γ : Type} [DecidableEq γ] (crit : Option γ) (val : γ) :
    (!crit.isSome || decide (crit = some val)) = optOk crit val := by
  cases crit with
  | none => simp [optOk]
  | some c => simp [optOk, eq_comm]

theorem selected_spec (g : GroupInfo) (f : Filter) : selected g f = .ok (matchesSpec g f) := by
  unfold selected matchesSpec
  rw [groupFilterDecision_spec]
  simp only [optOk_flags]
  cases hg : g.alg with
  | none =>
    cases f.algName <;> cases f.algVersion <;> cases f.algFamily <;> simp
  | some a =>
    obtain ⟨name, version, family⟩ := a
    simp only [Option.isSome_some, if_true, optOk_flags]

theorem filterE_ok {β : Type} (p : β → Except ErrKind Bool) (q : β → Bool) (l : List β) (h : ∀ x, p x = .ok (q x)) :
    filterE p l = .ok (l.filter q) := by
  induction l with
  | nil => rfl
  | cons a as ih =>
    simp only [filterE, h a, ih, List.filter_cons]

theorem getGroups_spec (gs : List GroupInfo) (f : Filter) : getGroups gs f = .ok (gs.filter (fun g => matchesSpec g f)) := by
  unfold getGroups
  exact filterE_ok _ _ gs (fun g => selected_spec g f)

theorem groupLookupDecision_spec (number uid : Option Int) (n : Int) :
    groupLookupDecision number uid n =
      if number.isNone ∧ uid.isNone then .error .type
      else if n = 0 ∨ n > 1 then .error .value
      else .ok (if number.isSome then 1 else 2) := by
  unfold groupLookupDecision
  cases number <;> cases uid <;> simp <;> grind

theorem getGroup_none (gs : List GroupInfo) : getGroup gs none none = .error .type := by
  simp [getGroup, groupLookupDecision_spec]

theorem getGroup_by_number (gs : List GroupInfo) (k : Int) (uid : Option String) :
    getGroup gs (some k) uid =
      match gs.filter (fun g => g.number = k) with
      | [g] => .ok g
      | _ => .error .value := by
  have hf : (gs.filter (fun g => some g.number == some k)) = gs.filter (fun g => g.number = k) := by
    congr 1
  simp only [getGroup, groupLookupDecision_spec, Option.isNone_some, Bool.false_eq_true, false_and, if_false,
    Option.isSome_some, if_true, hf]
  simp only [show ¬ ((1 : Int) = 0 ∨ (1 : Int) > 1) by decide, if_false]
  generalize gs.filter (fun g => g.number = k) = items
  match items with
  | [] => simp
  | [x] => simp
  | _ :: _ :: l =>
    have : ((l.length : Int) + 1 + 1 = 0 ∨ 1 < (l.length : Int) + 1 + 1) := by omega
    simp [this]

theorem getGroup_by_uid (gs : List GroupInfo) (u : String) :
    getGroup gs none (some u) =
      match gs.filter (fun g => g.uid = u) with
      | [g] => .ok g
      | _ => .error .value := by
  have hf : (gs.filter (fun g => some g.uid == some u)) = gs.filter (fun g => g.uid = u) := by
    congr 1
  simp only [getGroup, groupLookupDecision_spec, Option.map_some, Option.isNone_none, Option.isNone_some, Bool.false_eq_true,
    and_false, if_false, Option.isSome_none, hf]
  simp only [show ¬ ((1 : Int) = 0 ∨ (1 : Int) > 1) by decide, if_false, show ¬ ((2 : Int) = 1) by decide]
  generalize gs.filter (fun g => g.uid = u) = items
  match items with
  | [] => simp
  | [x] => simp
  | _ :: _ :: l =>
    have : ((l.length : Int) + 1 + 1 = 0 ∨ 1 < (l.length : Int) + 1 + 1) := by omega
    simp [this]


theorem coordIndex_spec (k : Int) : coordIndex k = if k < 1 then .error .value else .ok (k - 1) := by
  unfold coordIndex
  by_cases h : k < 1 <;> simp [h]

end HdVerif.Ann

namespace HdVerif.Ann
open HdVerif HdVerif.Gen

/-! ### numbered groups, measurement matrix -/

/-- groups numbered `off+1, off+2, …` in order (what the SOP class constructor enforces with `off = 0`) -/
def numberedFrom (off : Int) (gs : List GroupInfo) : Prop :=
  ∀ i (h : i < gs.length), gs[i].number = off + (i : Int) + 1

theorem numberedFrom_tail (off : Int) (g : GroupInfo) (rest : List GroupInfo) (h : numberedFrom off (g :: rest)) :
    numberedFrom (off + 1) rest := by
  intro i hi
  have := h (i + 1) (by simp; omega)
  simp only [List.getElem_cons_succ] at this
  rw [this]; push_cast; omega

theorem filter_number_none (gs : List GroupInfo) : ∀ (off target : Int), numberedFrom off gs → target ≤ off →
    gs.filter (fun g => g.number = target) = [] := by
  induction gs with
  | nil => intro _ _ _ _; rfl
  | cons g rest ih =>
    intro off target h ht
    have hg : g.number = off + 1 := by
      have := h 0 (by simp)
      simp only [List.getElem_cons_zero] at this
      rw [this]; simp
    have hne : ¬ (g.number = target) := by omega
    simp only [List.filter_cons, hne, decide_false, Bool.false_eq_true, if_false]
    exact ih (off + 1) target (numberedFrom_tail off g rest h) (by omega)

theorem filter_number_unique (gs : List GroupInfo) : ∀ (off : Int) (k : Nat) (hk : k < gs.length), numberedFrom off gs →
    gs.filter (fun g => g.number = off + (k : Int) + 1) = [gs[k]] := by
  induction gs with
  | nil => intro _ k hk; simp at hk
  | cons g rest ih =>
    intro off k hk h
    have hg : g.number = off + 1 := by
      have := h 0 (by simp)
      simp only [List.getElem_cons_zero] at this
      rw [this]; simp
    cases k with
    | zero =>
      have hm : g.number = off + ((0 : Nat) : Int) + 1 := by simpa using hg
      simp only [List.filter_cons, hm, decide_true, if_true, List.getElem_cons_zero]
      rw [filter_number_none rest (off + 1) _ (numberedFrom_tail off g rest h) (by simp)]
    | succ k' =>
      have hne : ¬ (g.number = off + ((k' + 1 : Nat) : Int) + 1) := by rw [hg]; push_cast; omega
      simp only [List.filter_cons, hne, decide_false, Bool.false_eq_true, if_false, List.getElem_cons_succ]
      have := ih (off + 1) k' (by simpa using hk) (numberedFrom_tail off g rest h)
      have e : off + 1 + (k' : Int) + 1 = off + ((k' + 1 : Nat) : Int) + 1 := by push_cast; omega
      rw [e] at this
      exact this

/-- measurement vectors of matching names, in order, each read back -/
theorem getMeasurements_spec {β κ : Type} (same : κ → κ → Bool) (cast32 : β → β) (items : List (κ × List (Option β))) (n : Nat)
    (hn : ∀ it ∈ items, it.2.length = n) (name : Option κ) :
    getMeasurements same (items.map (fun it => (it.1, encodeMeas cast32 it.2))) n name =
      .ok ((items.filter (fun it => nameMatches same name it.1)).map (fun it => it.2.map (Option.map cast32))) := by
  unfold getMeasurements
  rw [List.filter_map]
  have hcomp : ((fun (it : κ × MeasEnc β) => nameMatches same name it.1) ∘
      fun (it : κ × List (Option β)) => (it.1, encodeMeas cast32 it.2)) = (fun it => nameMatches same name it.1) := by
    funext it; rfl
  rw [hcomp]
  generalize hsel : items.filter (fun it => nameMatches same name it.1) = sel
  have hsel_n : ∀ it ∈ sel, it.2.length = n := by
    intro it hit
    rw [← hsel] at hit
    exact hn it (List.mem_filter.mp hit).1
  clear hsel
  induction sel with
  | nil => rfl
  | cons it rest ih =>
    have h1 := hsel_n it (by simp)
    have hv := getValues_encodeMeas cast32 it.2
    rw [h1] at hv
    simp only [List.map_cons, mapE, hv]
    have := ih (fun x hx => hsel_n x (by simp [hx]))
    simp only [this]


end HdVerif.Ann

namespace HdVerif.Ann
open HdVerif HdVerif.Gen

/-! ### refusals are ValueErrors -/

theorem mapE_error_kind {β γ : Type} (f : β → Except ErrKind γ) (k : ErrKind) (l : List β)
    (hall : ∀ x ∈ l, ∀ e, f x = .error e → e = k) (e : ErrKind) (h : mapE f l = .error e) : e = k := by
  induction l with
  | nil => simp [mapE] at h
  | cons a as ih =>
    simp only [mapE] at h
    cases hfa : f a with
    | error e' =>
      simp only [hfa] at h
      cases h
      exact hall a (by simp) _ hfa
    | ok b =>
      simp only [hfa] at h
      cases hrest : mapE f as with
      | error e' =>
        simp only [hrest] at h
        cases h
        exact ih (fun x hx => hall x (by simp [hx])) hrest
      | ok bs => simp [hrest] at h

/-- once the guards have passed, writing the attributes cannot fail -/
theorem finish_ok {α : Type} [DecidableEq α] (gt : String) (gd : GData α) (rows : List (Row α))
    (c : Nat) (hdims : c = 2 ∨ c = 3) (dbl : Bool) :
    ∃ r, finish gt gd rows
      (if c = 3 then 3 else 2, if c = 3 ∧ (distinct (zColumn rows)).length ≠ 1 then 3 else 2,
       if c = 3 ∧ (distinct (zColumn rows)).length ≠ 1 then 3 else 2,
       decide (c = 3 ∧ (distinct (zColumn rows)).length = 1), dbl) = .ok r := by
  have hspan : ∀ (dim : Int), mapE (fun (a : Annot α) => indexSpan dim (a.length : Int)) gd =
      .ok (gd.map (fun a => (a.length : Int) * dim)) := fun dim => mapE_all_ok _ _ gd (fun a _ => rfl)
  unfold finish
  by_cases hs : c = 3 ∧ (distinct (zColumn rows)).length = 1
  · obtain ⟨hc3, hd⟩ := hs
    subst hc3
    obtain ⟨z, hz, _⟩ := (distinct_length_one _).mp hd
    by_cases hp : gt ∈ indexListTypes
    · simp [hd, hz, hp, hspan]
    · simp [hd, hz, hp]
  · rcases hdims with hc | hc
    · subst hc
      by_cases hp : gt ∈ indexListTypes
      · simp [hp, hspan]
      · simp [hp]
    · subst hc
      have hne : (distinct (zColumn rows)).length ≠ 1 := fun h => hs ⟨rfl, h⟩
      by_cases hp : gt ∈ indexListTypes
      · simp [hp, hspan, hne]
      · simp [hp, hne]

/-- **every refusal of the constructor is a ValueError** -/
theorem encode_error_value {α : Type} [DecidableEq α] (gt : String) (finite : α → Bool) (dbl : Bool) (cast : α → α)
    (gd : GData α) (e : ErrKind) (h : encode gt finite dbl cast gd = .error e) : e = .value := by
  unfold encode at h
  generalize hrows : gd.flatten.map (fun r => r.map cast) = rows at h
  cases hcheck : mapE (fun a => pointCountCheck gt (a.length : Int) (firstEqLast a)) gd with
  | error e' =>
    simp only [hcheck] at h
    cases h
    refine mapE_error_kind _ .value gd ?_ _ hcheck
    intro a _ e hx
    rw [pointCountCheck_countOk] at hx
    by_cases hc : countOk gt a
    · simp [hc] at hx
    · simp only [hc, if_false] at hx
      cases hx; rfl
  | ok zs =>
    simp only [hcheck] at h
    cases hhead : rows.head? with
    | none => simp only [hhead] at h; cases h; rfl
    | some r0 =>
      simp only [hhead] at h
      by_cases huni : uniformWidth r0.length rows = true
      · simp only [huni, Bool.not_true, Bool.false_eq_true, if_false] at h
        rw [encodePlan_spec] at h
        by_cases hcond : (r0.length = 2 ∨ r0.length = 3) ∧ (rows.all fun r => List.all r finite) = true
        · simp only [hcond, and_self, if_true] at h
          obtain ⟨r, hr⟩ := finish_ok gt gd rows r0.length hcond.1 dbl
          simp only [hr] at h
          cases h
        · simp only [hcond, if_false] at h
          cases h; rfl
      · simp only [huni, Bool.not_false, if_true] at h
        cases h; rfl


end HdVerif.Ann

namespace HdVerif.Ann
open HdVerif HdVerif.Gen

/-! ### dtype acceptance, rank guard, corrupted index lists -/

theorem dtypePlan_spec (kind : String) (itemsize : Int) :
    dtypePlan kind itemsize =
      if kind = "u" ∨ kind = "i" then .ok true
      else if kind ≠ "f" ∨ itemsize > 8 then .error .value
      else .ok (decide (itemsize < 4)) := by
  unfold dtypePlan
  by_cases h1 : kind = "u"
  · subst h1; simp
  by_cases h2 : kind = "i"
  · subst h2; simp
  by_cases h3 : kind = "f"
  · subst h3
    by_cases h4 : itemsize > 8 <;> by_cases h5 : itemsize < 4 <;> simp [h4, h5] <;> omega
  · simp [h1, h2, h3]

theorem encodePlan_ndim (ndim c : Int) (fin dbl : Bool) (nu : Int) (h : ndim ≠ 2) :
    encodePlan ndim c fin nu dbl = .error .value := by
  unfold encodePlan
  simp [h]

theorem checkIndexList_invalid (stored nRows : Int) (il : List Int)
    (h : ((il.map (fun i => i - 1)).isEmpty || headNotZero (il.map (fun i => i - 1)) || anyNotIncreasing (il.map (fun i => i - 1)) ||
      (il.map (fun i => i - 1)).any (fun i => decide (Int.fmod i stored ≠ 0)) ||
      lastBeyond (il.map (fun i => i - 1)) (nRows * stored)) = true) :
    checkIndexList stored nRows il = .error .value := by
  have hz : mapE pointIndexZero il = .ok (il.map (fun i => i - 1)) := mapE_all_ok _ _ il (fun i _ => rfl)
  unfold checkIndexList
  simp only [hz, indexListTotal, indexListGuard_spec, h, if_true]


end HdVerif.Ann

namespace HdVerif.Ann
open HdVerif HdVerif.Gen

/-! ### call histories -/

/-- the guard on the requested coordinate type, spelled out -/
theorem coordTypeGuard_spec (ct : Int) (kn : Option Int) (hz : Bool) :
    coordTypeGuard ct kn hz =
      if (match kn with
          | some t => decide (ct ≠ t)
          | none => false) || (hz && decide (ct ≠ 3)) then .error .value else .ok 0 := by
  unfold coordTypeGuard
  cases kn <;> grind (splits := 40)

/-- states a parsed group can be in while it is being read: nothing decoded yet, or the decoded data cached
under its coordinate type `ct`; `kn` is the coordinate type handed down by its instance (if any) -/
def ReadState {α : Type} (gt : String) (enc : Enc α) (kn : Option Int) (ct : Int) (G : GData α) (g : Group α) : Prop :=
  g.gtype = gt ∧ g.enc = enc ∧ g.known = kn ∧ (g.cache = none ∨ g.cache = some (ct, G))

theorem getGraphicDataS_state {α : Type} (gt : String) (enc : Enc α) (kn : Option Int) (ct : Int) (G : GData α)
    (hguard : coordTypeGuard ct kn enc.commonZ.isSome = .ok 0)
    (hdec : decode gt enc ct = .ok G) (g : Group α) (h : ReadState gt enc kn ct G g) :
    ∃ g', getGraphicDataS g ct = .ok (G, g') ∧ ReadState gt enc kn ct G g' := by
  obtain ⟨h1, h2, hk, h3⟩ := h
  rcases h3 with hc | hc
  · refine ⟨{ g with cache := some (ct, G) }, ?_, h1, h2, hk, Or.inr rfl⟩
    simp [getGraphicDataS, hc, h1, h2, hk, hdec, hguard]
  · exact ⟨g, by simp [getGraphicDataS, hc], h1, h2, hk, Or.inr hc⟩

/-- a coordinate type the guard refuses is refused in every read state, and the state stays what it was -/
theorem getGraphicDataS_refused {α : Type} (gt : String) (enc : Enc α) (kn : Option Int) (ct c : Int) (G : GData α)
    (hc : c ≠ ct) (hwrong : coordTypeGuard c kn enc.commonZ.isSome = .error .value)
    (g : Group α) (h : ReadState gt enc kn ct G g) : getGraphicDataS g c = .error .value := by
  obtain ⟨h1, h2, hk, h3⟩ := h
  rcases h3 with hn | hs
  · simp [getGraphicDataS, hn, h2, hk, hwrong]
  · have : ¬ (ct = c) := fun x => hc x.symm
    simp [getGraphicDataS, hs, this]

/-- one access: with the group's own coordinate type the answer does not depend on the state; with a type the
guard refuses the access is refused whatever the state; either way the state stays a read state -/
theorem accessS_state {α : Type} (gt : String) (enc : Enc α) (kn : Option Int) (ct : Int) (G : GData α)
    (hguard : coordTypeGuard ct kn enc.commonZ.isSome = .ok 0)
    (hdec : decode gt enc ct = .ok G) (g : Group α) (h : ReadState gt enc kn ct G g) (a : Access)
    (hct : a.ct = ct ∨ coordTypeGuard a.ct kn enc.commonZ.isSome = .error .value) :
    (accessS g a).1 = (accessS { gtype := gt, enc := enc, cache := none, known := kn } a).1 ∧
    ReadState gt enc kn ct G (accessS g a).2 := by
  have hfresh : ReadState gt enc kn ct G { gtype := gt, enc := enc, cache := none, known := kn } := ⟨rfl, rfl, rfl, Or.inl rfl⟩
  by_cases hown : a.ct = ct
  · obtain ⟨g', hg', hs'⟩ := getGraphicDataS_state gt enc kn ct G hguard hdec g h
    obtain ⟨g0, hg0, _⟩ := getGraphicDataS_state gt enc kn ct G hguard hdec _ hfresh
    cases a with
    | whole c =>
      simp only [Access.ct] at hown; subst hown
      simp [accessS, hg', hg0, hs']
    | nth k c =>
      simp only [Access.ct] at hown; subst hown
      simp only [accessS]
      cases hci : coordIndex k with
      | error e => exact ⟨rfl, h⟩
      | ok i =>
        simp only [hg', hg0]
        by_cases hi : i < 0
        · simp [hi, hs']
        · simp only [hi, if_false]
          cases G[i.toNat]? <;> simp [hs']
  · have hw : coordTypeGuard a.ct kn enc.commonZ.isSome = .error .value := by
      rcases hct with hh | hh
      · exact absurd hh hown
      · exact hh
    have r1 := getGraphicDataS_refused gt enc kn ct a.ct G hown hw g h
    have r0 := getGraphicDataS_refused gt enc kn ct a.ct G hown hw _ hfresh
    cases a with
    | whole c =>
      simp only [Access.ct] at r1 r0
      simp [accessS, r1, r0, h]
    | nth k c =>
      simp only [Access.ct] at r1 r0
      simp only [accessS]
      cases hci : coordIndex k with
      | error e => exact ⟨rfl, h⟩
      | ok i => simp [r1, r0, h]

/-- **the answers of any sequence of accesses — each with the group's own coordinate type or with a type the guard
refuses — are those of the same accesses made one by one on a freshly parsed object** -/
theorem runHistory_independent {α : Type} (gt : String) (enc : Enc α) (kn : Option Int) (ct : Int) (G : GData α)
    (hguard : coordTypeGuard ct kn enc.commonZ.isSome = .ok 0)
    (hdec : decode gt enc ct = .ok G) (accs : List Access) :
    (∀ a ∈ accs, a.ct = ct ∨ coordTypeGuard a.ct kn enc.commonZ.isSome = .error .value) →
    ∀ (g : Group α), ReadState gt enc kn ct G g →
    runHistory g accs = accs.map (fun a => (accessS { gtype := gt, enc := enc, cache := none, known := kn } a).1) := by
  induction accs with
  | nil => intro _ g _; rfl
  | cons a rest ih =>
    intro hall g h
    obtain ⟨h1, h2⟩ := accessS_state gt enc kn ct G hguard hdec g h a (hall a (by simp))
    simp only [runHistory, List.map_cons, h1, ih (fun x hx => hall x (by simp [hx])) _ h2]

/-- a group that knows its coordinate type refuses every other one -/
theorem guard_known_refuses (t c : Int) (hz : Bool) (h : c ≠ t) : coordTypeGuard c (some t) hz = .error .value := by
  rw [coordTypeGuard_spec]
  simp [h]

/-- a stored CommonZCoordinateValue refuses everything but '3D' -/
theorem guard_commonZ_refuses (kn : Option Int) (c : Int) (h : c ≠ 3) : coordTypeGuard c kn true = .error .value := by
  rw [coordTypeGuard_spec]
  simp [h]

/-- the own type passes when nothing known contradicts it -/
theorem guard_own_passes (ct : Int) (kn : Option Int) (hz : Bool) (hk : kn = none ∨ kn = some ct) (h3 : hz = true → ct = 3) :
    coordTypeGuard ct kn hz = .ok 0 := by
  rw [coordTypeGuard_spec]
  rcases hk with rfl | rfl <;> cases hz <;> simp_all

end HdVerif.Ann

namespace HdVerif.Ann
open HdVerif HdVerif.Gen

/-- no group carries a number above the last one -/
theorem filter_number_above (gs : List GroupInfo) : ∀ (off target : Int), numberedFrom off gs → off + (gs.length : Int) < target →
    gs.filter (fun g => g.number = target) = [] := by
  induction gs with
  | nil => intro _ _ _ _; rfl
  | cons g rest ih =>
    intro off target h ht
    have hg : g.number = off + 1 := by
      have := h 0 (by simp)
      simp only [List.getElem_cons_zero] at this
      rw [this]; simp
    simp only [List.length_cons] at ht
    have hne : ¬ (g.number = target) := by push_cast at ht; omega
    simp only [List.filter_cons, hne, decide_false, Bool.false_eq_true, if_false]
    exact ih (off + 1) target (numberedFrom_tail off g rest h) (by push_cast at ht ⊢; omega)

end HdVerif.Ann

namespace HdVerif.Ann
open HdVerif HdVerif.Gen

/-- the constructor writes CommonZCoordinateValue for 3-D data only -/
theorem expectedEnc_commonZ_c3 {α : Type} [DecidableEq α] (gt : String) (dbl : Bool) (cast : α → α) (gd : GData α) (c : Nat)
    (h : (expectedEnc gt dbl cast gd c).commonZ.isSome = true) : c = 3 := by
  simp only [expectedEnc] at h
  by_cases hs : sharedZ cast gd c = true
  · simp only [sharedZ, decide_eq_true_eq] at hs
    exact hs.1
  · simp [hs] at h

/-- on what the constructor writes, the group's own coordinate type passes the guard whether or not the instance
handed it down -/
theorem guard_expected {α : Type} [DecidableEq α] (gt : String) (dbl : Bool) (cast : α → α) (gd : GData α) (c : Nat)
    (kn : Option Int) (hk : kn = none ∨ kn = some (if c = 3 then 3 else 2)) :
    coordTypeGuard (if c = 3 then 3 else 2) kn (expectedEnc gt dbl cast gd c).commonZ.isSome = .ok 0 := by
  apply guard_own_passes _ _ _ hk
  intro h
  simp [expectedEnc_commonZ_c3 gt dbl cast gd c h]

end HdVerif.Ann

namespace HdVerif.Ann
open HdVerif HdVerif.Gen

/-- the accesses of an interleaved history that go to group `i` -/
def projAcc (i : Nat) (accs : List (Nat × Access)) : List Access :=
  accs.filterMap (fun p => if p.1 = i then some p.2 else none)

/-- the answers of an interleaved history that came from group `i` -/
def projAns {α : Type} (i : Nat) (rs : List (Nat × Except ErrKind (Obs α))) : List (Except ErrKind (Obs α)) :=
  rs.filterMap (fun p => if p.1 = i then some p.2 else none)

/-- **the groups of an instance do not interfere**: what group `i` answers within any interleaved history on the
instance is what it answers to its own accesses alone -/
theorem runInst_proj {α : Type} (i : Nat) (accs : List (Nat × Access)) : ∀ (gs : List (Group α)) (g : Group α),
    gs[i]? = some g → projAns i (runInst gs accs) = runHistory g (projAcc i accs) := by
  induction accs with
  | nil => intro gs g _; rfl
  | cons p rest ih =>
    intro gs g hg
    obtain ⟨j, a⟩ := p
    have hlt : i < gs.length := by
      rcases Nat.lt_or_ge i gs.length with hl | hl
      · exact hl
      · rw [List.getElem?_eq_none hl] at hg; cases hg
    by_cases hj : j = i
    · subst hj
      have hs : stepInst gs j a = ((accessS g a).1, gs.set j (accessS g a).2) := by simp [stepInst, hg]
      have hg' : (gs.set j (accessS g a).2)[j]? = some (accessS g a).2 := by simp [hlt]
      simp only [runInst, projAns, projAcc, List.filterMap_cons, if_true, runHistory, hs]
      have := ih (gs.set j (accessS g a).2) (accessS g a).2 hg'
      simp only [projAns, projAcc] at this
      rw [this]
    · have hg' : (stepInst gs j a).2[i]? = some g := by
        unfold stepInst
        split
        · exact hg
        · simp only
          rw [List.getElem?_set_ne hj]; exact hg
      simp only [runInst, projAns, projAcc, List.filterMap_cons, hj, if_false]
      have := ih (stepInst gs j a).2 g hg'
      simp only [projAns, projAcc] at this
      exact this

end HdVerif.Ann
