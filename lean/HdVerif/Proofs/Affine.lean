import HdVerif.Model.Affine
import Mathlib.Tactic.Ring
import Mathlib.Tactic.Linarith
import Mathlib.Tactic.FieldSimp
import Mathlib.Tactic.LinearCombination
import Mathlib.Tactic.Positivity
/-! Helper lemmas for C10: 3×3 algebra over ℚ (adjugate inverse, composition of affines), evaluation
of the model's constructors on well-formed planes, the frame built by `create_rotation_matrix` for
each of the eight index conventions. -/
namespace HdVerif.Affine

/-! ## vector / matrix algebra -/

@[simp] theorem V3.smul_one (v : V3) : V3.smul 1 v = v := by
  cases v; simp [V3.smul]

@[simp] theorem V3.smul_neg_one (v : V3) : V3.smul (-1) v = v.neg := by
  cases v; simp [V3.smul, V3.neg]

theorem M3.mulVec_add (m : M3) (a b : V3) : m.mulVec (a.add b) = (m.mulVec a).add (m.mulVec b) := by
  obtain ⟨⟨a1, a2, a3⟩, ⟨b1, b2, b3⟩, ⟨c1, c2, c3⟩⟩ := m
  cases a; cases b
  simp only [M3.mulVec, V3.smul, V3.add, V3.mk.injEq]
  refine ⟨?_, ?_, ?_⟩ <;> ring

theorem M3.mulVec_neg (m : M3) (a : V3) : m.mulVec a.neg = (m.mulVec a).neg := by
  obtain ⟨⟨a1, a2, a3⟩, ⟨b1, b2, b3⟩, ⟨c1, c2, c3⟩⟩ := m
  cases a
  simp only [M3.mulVec, V3.smul, V3.add, V3.neg, V3.mk.injEq]
  refine ⟨?_, ?_, ?_⟩ <;> ring

theorem M3.mul_mulVec (a b : M3) (v : V3) : (a.mul b).mulVec v = a.mulVec (b.mulVec v) := by
  obtain ⟨⟨a1, a2, a3⟩, ⟨b1, b2, b3⟩, ⟨c1, c2, c3⟩⟩ := a
  obtain ⟨⟨d1, d2, d3⟩, ⟨e1, e2, e3⟩, ⟨f1, f2, f3⟩⟩ := b
  cases v
  simp only [M3.mul, M3.mulVec, V3.smul, V3.add, V3.mk.injEq]
  refine ⟨?_, ?_, ?_⟩ <;> ring

@[simp] theorem M3.id_mulVec (v : V3) : M3.id.mulVec v = v := by
  cases v; simp [M3.id, M3.mulVec, V3.smul, V3.add]

theorem V3.add_assoc' (a b c : V3) : (a.add b).add c = a.add (b.add c) := by
  cases a; cases b; cases c; simp only [V3.add, V3.mk.injEq]; refine ⟨?_, ?_, ?_⟩ <;> ring

theorem V3.add_neg_cancel' (a b : V3) : (a.add b).add b.neg = a := by
  cases a; cases b; simp only [V3.add, V3.neg, V3.mk.injEq]; refine ⟨?_, ?_, ?_⟩ <;> ring

/-- the 4×4 product acts as the composition -/
theorem Aff.comp_apply (a b : Aff) (v : V3) : (a.comp b).apply v = a.apply (b.apply v) := by
  simp only [Aff.comp, Aff.apply, M3.mul_mulVec, M3.mulVec_add, V3.add_assoc']

@[simp] theorem Aff.shift_apply (t v : V3) : (Aff.shift t).apply v = v.add t := by
  simp [Aff.shift, Aff.apply]

theorem M3.inv_ok {m mi : M3} (h : m.inv = .ok mi) : m.det ≠ 0 ∧
    mi = M3.ofRows (V3.smul (1 / m.det) (m.c1.cross m.c2)) (V3.smul (1 / m.det) (m.c2.cross m.c0))
                   (V3.smul (1 / m.det) (m.c0.cross m.c1)) := by
  unfold M3.inv at h
  by_cases hd : m.det = 0
  · simp [hd] at h
  · simp only [hd, if_false, Except.ok.injEq] at h
    exact ⟨hd, h.symm⟩

theorem M3.inv_of_det_ne_zero {m : M3} (h : m.det ≠ 0) : ∃ mi, m.inv = .ok mi := by
  unfold M3.inv; simp [h]

theorem M3.inv_singular {m : M3} (h : m.det = 0) : m.inv = .error .other := by
  unfold M3.inv; simp [h]

/-- adjugate / determinant is a LEFT inverse -/
theorem M3.inv_mulVec_left {m mi : M3} (h : m.inv = .ok mi) (v : V3) : mi.mulVec (m.mulVec v) = v := by
  obtain ⟨hd, rfl⟩ := M3.inv_ok h
  clear h
  obtain ⟨⟨a, b, c⟩, ⟨d, e, f⟩, ⟨g, k, l⟩⟩ := m
  obtain ⟨x, y, z⟩ := v
  simp only [M3.det, V3.dot, V3.cross] at hd
  simp only [M3.mulVec, M3.ofRows, V3.smul, V3.add, V3.cross, M3.det, V3.dot, V3.mk.injEq]
  generalize hD : a * (e * l - f * k) + b * (f * g - d * l) + c * (d * k - e * g) = D at hd ⊢
  refine ⟨?_, ?_, ?_⟩ <;> field_simp <;> rw [← hD] <;> ring

/-- adjugate / determinant is a RIGHT inverse -/
theorem M3.inv_mulVec_right {m mi : M3} (h : m.inv = .ok mi) (v : V3) : m.mulVec (mi.mulVec v) = v := by
  obtain ⟨hd, rfl⟩ := M3.inv_ok h
  clear h
  obtain ⟨⟨a, b, c⟩, ⟨d, e, f⟩, ⟨g, k, l⟩⟩ := m
  obtain ⟨x, y, z⟩ := v
  simp only [M3.det, V3.dot, V3.cross] at hd
  simp only [M3.mulVec, M3.ofRows, V3.smul, V3.add, V3.cross, M3.det, V3.dot, V3.mk.injEq]
  generalize hD : a * (e * l - f * k) + b * (f * g - d * l) + c * (d * k - e * g) = D at hd ⊢
  refine ⟨?_, ?_, ?_⟩ <;> field_simp <;> rw [← hD] <;> ring

/-- the affine `x ↦ M⁻¹ x − M⁻¹ t` undoes `x ↦ M x + t` -/
theorem Aff.inv_apply_left {m mi : M3} (h : m.inv = .ok mi) (t v : V3) :
    (Aff.mk mi (mi.mulVec t).neg).apply ((Aff.mk m t).apply v) = v := by
  simp only [Aff.apply, M3.mulVec_add, M3.inv_mulVec_left h, V3.add_neg_cancel']

theorem Aff.inv_apply_right {m mi : M3} (h : m.inv = .ok mi) (t v : V3) :
    (Aff.mk m t).apply ((Aff.mk mi (mi.mulVec t).neg).apply v) = v := by
  simp only [Aff.apply, M3.mulVec_add, M3.inv_mulVec_right h, M3.mulVec_neg]
  cases v; cases t; simp only [V3.add, V3.neg, V3.mk.injEq]; refine ⟨?_, ?_, ?_⟩ <;> ring

/-! ## sums of squares over ℚ -/

theorem V3.dot_self_eq_zero {v : V3} (h : v.dot v = 0) : v = V3.zero := by
  obtain ⟨x, y, z⟩ := v
  simp only [V3.dot] at h
  have hx : x = 0 := by nlinarith [mul_self_nonneg x, mul_self_nonneg y, mul_self_nonneg z]
  have hy : y = 0 := by nlinarith [mul_self_nonneg x, mul_self_nonneg y, mul_self_nonneg z]
  have hz : z = 0 := by nlinarith [mul_self_nonneg x, mul_self_nonneg y, mul_self_nonneg z]
  simp [V3.zero, hx, hy, hz]

theorem V3.dot_self_ne_zero {v : V3} (h : v ≠ V3.zero) : v.dot v ≠ 0 :=
  fun h0 => h (V3.dot_self_eq_zero h0)

/-! ## frames: what `create_rotation_matrix` assembles -/

/-- the matrix `create_rotation_matrix` assembles from two in-plane axes with their spacings:
normal `v0 × v1` (right-handed) or `v1 × v0`, placed last or first. -/
def frame (slicesFirst rightHanded : Bool) (v0 v1 : V3) (s0 s1 sbs : Rat) : M3 :=
  let n := if rightHanded then v0.cross v1 else v1.cross v0
  if slicesFirst then ⟨V3.smul sbs n, V3.smul s0 v0, V3.smul s1 v1⟩
  else ⟨V3.smul s0 v0, V3.smul s1 v1, V3.smul sbs n⟩

/-- determinant of a frame, for ANY two axes: `± s0 s1 sbs ‖v0 × v1‖²` -/
theorem frame_det (sf rh : Bool) (v0 v1 : V3) (s0 s1 sbs : Rat) :
    (frame sf rh v0 v1 s0 s1 sbs).det
      = (if rh then 1 else -1) * (s0 * s1 * sbs * ((v0.cross v1).dot (v0.cross v1))) := by
  obtain ⟨a, b, c⟩ := v0
  obtain ⟨d, e, f⟩ := v1
  cases sf <;> cases rh <;> simp only [frame, M3.det, V3.dot, V3.cross, V3.smul, if_true, if_false, Bool.false_eq_true] <;> ring

/-- Lagrange: `‖v0 × v1‖² = ‖v0‖²‖v1‖² − (v0·v1)²` -/
theorem V3.cross_dot_self (v0 v1 : V3) :
    (v0.cross v1).dot (v0.cross v1) = v0.dot v0 * v1.dot v1 - v0.dot v1 * v0.dot v1 := by
  obtain ⟨a, b, c⟩ := v0
  obtain ⟨d, e, f⟩ := v1
  simp only [V3.dot, V3.cross]; ring

/-- orthonormal pair of in-plane axes -/
structure OrthoPair (v0 v1 : V3) : Prop where
  n0 : v0.dot v0 = 1
  n1 : v1.dot v1 = 1
  o01 : v0.dot v1 = 0

/-- the three columns of a frame over an orthonormal pair are mutually orthogonal, have squared lengths
`s0² s1² sbs²` (in-plane axes keep their direction), and the determinant is `± s0 s1 sbs`. -/
theorem frame_orthogonal {v0 v1 : V3} (h : OrthoPair v0 v1) (sf rh : Bool) (s0 s1 sbs : Rat) :
    let m := frame sf rh v0 v1 s0 s1 sbs
    m.c0.dot m.c1 = 0 ∧ m.c0.dot m.c2 = 0 ∧ m.c1.dot m.c2 = 0 := by
  obtain ⟨a, b, c⟩ := v0
  obtain ⟨d, e, f⟩ := v1
  obtain ⟨_, _, h01⟩ := h
  simp only [V3.dot] at h01
  cases sf <;> cases rh <;>
    simp only [frame, V3.dot, V3.cross, V3.smul, if_true, if_false, Bool.false_eq_true] <;>
    refine ⟨?_, ?_, ?_⟩ <;> first
      | (linear_combination (s0 * s1) * h01)
      | ring

theorem frame_det_ortho {v0 v1 : V3} (h : OrthoPair v0 v1) (sf rh : Bool) (s0 s1 sbs : Rat) :
    (frame sf rh v0 v1 s0 s1 sbs).det = (if rh then 1 else -1) * (s0 * s1 * sbs) := by
  rw [frame_det, V3.cross_dot_self, h.n0, h.n1, h.o01]; ring

/-- squared length of the slice axis of a frame over an orthonormal pair -/
theorem frame_normal_len {v0 v1 : V3} (h : OrthoPair v0 v1) (rh : Bool) (sbs : Rat) :
    let n := if rh then v0.cross v1 else v1.cross v0
    (V3.smul sbs n).dot (V3.smul sbs n) = sbs * sbs := by
  have key : (v0.cross v1).dot (v0.cross v1) = 1 := by
    rw [V3.cross_dot_self, h.n0, h.n1, h.o01]; ring
  have key' : (v1.cross v0).dot (v1.cross v0) = 1 := by
    rw [← key]; obtain ⟨a, b, c⟩ := v0; obtain ⟨d, e, f⟩ := v1; simp only [V3.dot, V3.cross]; ring
  have sm : ∀ n : V3, (V3.smul sbs n).dot (V3.smul sbs n) = sbs * sbs * n.dot n := by
    intro n; cases n; simp only [V3.dot, V3.smul]; ring
  cases rh <;> simp only [if_true, if_false, Bool.false_eq_true, sm, key, key'] <;> ring

theorem smul_len (s : Rat) (v : V3) (h : v.dot v = 1) : (V3.smul s v).dot (V3.smul s v) = s * s := by
  have : (V3.smul s v).dot (V3.smul s v) = s * s * v.dot v := by
    cases v; simp only [V3.dot, V3.smul]; ring
  rw [this, h]; ring

/-! ## the eight index conventions: meaning of the letters (specification side)

`R`/`L`: along the rows to the right / left (± row cosines, spaced by the spacing between COLUMNS),
`D`/`U`: down / up the columns (± column cosines, spaced by the spacing between ROWS). -/

def axisVec (o : Ori) (d : Char) : V3 :=
  if d = 'R' then o.row else if d = 'L' then o.row.neg else if d = 'D' then o.col else o.col.neg

def axisSpacing (sr sc : Rat) (d : Char) : Rat := if d = 'R' ∨ d = 'L' then sc else sr

theorem mem_validConventions {cv : Char × Char} (h : cv ∈ validConventions) :
    cv = ('R', 'D') ∨ cv = ('D', 'R') ∨ cv = ('L', 'D') ∨ cv = ('D', 'L') ∨
    cv = ('R', 'U') ∨ cv = ('U', 'R') ∨ cv = ('L', 'U') ∨ cv = ('U', 'L') := by
  simpa [validConventions] using h

theorem normConvention_valid {cv : Char × Char} (h : cv ∈ validConventions) :
    normConvention [cv.1, cv.2] = .ok cv := by
  rcases mem_validConventions h with rfl | rfl | rfl | rfl | rfl | rfl | rfl | rfl <;> decide

/-- what is accepted is one of the eight -/
theorem normConvention_ok {c : List Char} {cv : Char × Char} (h : normConvention c = .ok cv) :
    c = [cv.1, cv.2] ∧ cv ∈ validConventions := by
  unfold normConvention at h
  match c, h with
  | [a, b], h =>
    by_cases hm : (Gen.pixelIndexDirections.contains a && Gen.pixelIndexDirections.contains b) = true
    · simp only [hm, if_true] at h
      simp only [Bool.and_eq_true, List.contains_iff_mem, Gen.pixelIndexDirections, List.mem_cons,
        List.not_mem_nil, or_false] at hm
      obtain ⟨ha, hb⟩ := hm
      rcases ha with rfl | rfl | rfl | rfl <;> rcases hb with rfl | rfl | rfl | rfl <;>
        (split at h
         · rename_i hc
           cases h
           first
             | (exfalso; revert hc; decide)
             | decide
         · cases h)
    · simp only [hm] at h
      exact absurd h (by simp)

/-! ## evaluation of the constructors on well-formed input -/

theorem lookup_R : Gen.rotationAxisTable.lookup 'R' = some (1, true, true) := by decide
theorem lookup_L : Gen.rotationAxisTable.lookup 'L' = some (-1, true, true) := by decide
theorem lookup_D : Gen.rotationAxisTable.lookup 'D' = some (1, false, false) := by decide
theorem lookup_U : Gen.rotationAxisTable.lookup 'U' = some (-1, false, false) := by decide

/-- `create_rotation_matrix` on well-formed input is the frame over the axes the letters denote -/
theorem createRotation_eval (o : Ori) {cv : Char × Char} (hcv : cv ∈ validConventions) (sf rh : Bool)
    (sr sc sbs : Rat) (hr : 0 < sr) (hc : 0 < sc) :
    createRotation o [cv.1, cv.2] sf rh (.seq [sr, sc]) sbs
      = .ok (frame sf rh (axisVec o cv.1) (axisVec o cv.2) (axisSpacing sr sc cv.1) (axisSpacing sr sc cv.2) sbs) := by
  have hn := normConvention_valid hcv
  rcases mem_validConventions hcv with rfl | rfl | rfl | rfl | rfl | rfl | rfl | rfl <;>
    cases sf <;> cases rh <;>
    simp [createRotation, hn, axisOf, lookup_R, lookup_L, lookup_D, lookup_U, bind, Except.bind, pure, Except.pure,
      not_le.mpr hr, not_le.mpr hc, crossOrdered, Gen.rotationCrossOrder, Gen.slicesFirstPutsNormalFirst,
      frame, axisVec, axisSpacing]

/-- a scalar pixel spacing is the same as the pair `[s, s]` -/
theorem createRotation_scalar (o : Ori) (conv : List Char) (sf rh : Bool) (s sbs : Rat) :
    createRotation o conv sf rh (.scalar s) sbs = createRotation o conv sf rh (.seq [s, s]) sbs := by
  simp [createRotation]

structure Plane where
  pos : V3
  o : Ori
  sr : Rat
  sc : Rat

namespace Plane
def posL (P : Plane) : List Rat := [P.pos.x, P.pos.y, P.pos.z]
def oriL (P : Plane) : List Rat := [P.o.row.x, P.o.row.y, P.o.row.z, P.o.col.x, P.o.col.y, P.o.col.z]
def ps (P : Plane) : Spacing := .seq [P.sr, P.sc]
def nrm (P : Plane) : V3 := P.o.row.cross P.o.col
/-- the pixel → reference affine (DICOM PS3.3 C.7.6.2.1-1 with a slice axis of length `sbs`) -/
def fwd (P : Plane) (sbs : Rat) : Aff :=
  ⟨⟨V3.smul P.sc P.o.row, V3.smul P.sr P.o.col, V3.smul sbs P.nrm⟩, P.pos⟩
/-- well-formed: positive pixel spacings, row and column directions not parallel -/
structure Valid (P : Plane) : Prop where
  hr : 0 < P.sr
  hc : 0 < P.sc
  hn : P.nrm ≠ V3.zero
end Plane

theorem ofList_posL (P : Plane) : V3.ofList P.posL = some P.pos := by
  cases P; rename_i pos _ _ _; cases pos; rfl

theorem ofList_oriL (P : Plane) : Ori.ofList P.oriL = some P.o := by
  obtain ⟨_, ⟨⟨_, _, _⟩, ⟨_, _, _⟩⟩, _, _⟩ := P; rfl

theorem RD_valid : ('R', 'D') ∈ validConventions := by decide
theorem DR_valid : ('D', 'R') ∈ validConventions := by decide

theorem fwd_eq_frame (P : Plane) (sbs : Rat) :
    (P.fwd sbs).m = frame false true (axisVec P.o 'R') (axisVec P.o 'D') (axisSpacing P.sr P.sc 'R')
      (axisSpacing P.sr P.sc 'D') sbs := by
  simp [Plane.fwd, frame, axisVec, axisSpacing, Plane.nrm]

theorem affineFromAttributes_eval (P : Plane) (hr : 0 < P.sr) (hc : 0 < P.sc) {cv : Char × Char}
    (hcv : cv = ('R', 'D') ∨ cv = ('D', 'R')) (sf rh : Bool) (sbs : Rat) :
    affineFromAttributes P.posL P.oriL P.ps sbs [cv.1, cv.2] sf rh
      = .ok ⟨frame sf rh (axisVec P.o cv.1) (axisVec P.o cv.2) (axisSpacing P.sr P.sc cv.1)
              (axisSpacing P.sr P.sc cv.2) sbs, P.pos⟩ := by
  have hv : cv ∈ validConventions := by rcases hcv with rfl | rfl <;> decide
  have hn := normConvention_valid hv
  have hrot := createRotation_eval P.o hv sf rh P.sr P.sc sbs hr hc
  unfold affineFromAttributes
  rw [ofList_posL, ofList_oriL]
  simp only [Plane.ps] at hrot ⊢
  rcases hcv with rfl | rfl <;>
    simp [hn, hrot, bind, Except.bind, pure, Except.pure]

theorem pixToRefAffine_eval (P : Plane) (hr : 0 < P.sr) (hc : 0 < P.sc) :
    pixToRefAffine P.posL P.oriL P.ps = .ok (P.fwd 1) := by
  unfold pixToRefAffine
  have := affineFromAttributes_eval P hr hc (cv := ('R', 'D')) (Or.inl rfl) false true 1
  simp only at this
  rw [this, ← fwd_eq_frame]; rfl

theorem fwd_det (P : Plane) (sbs : Rat) :
    (P.fwd sbs).m.det = P.sc * P.sr * sbs * (P.nrm.dot P.nrm) := by
  rw [fwd_eq_frame, frame_det]; simp [axisVec, axisSpacing, Plane.nrm]

theorem fwd_det_ne_zero (P : Plane) (h : P.Valid) {sbs : Rat} (hs : sbs ≠ 0) : (P.fwd sbs).m.det ≠ 0 := by
  rw [fwd_det]
  have := V3.dot_self_ne_zero h.hn
  have h1 := ne_of_gt h.hr
  have h2 := ne_of_gt h.hc
  positivity

theorem invAffine_eval (P : Plane) (h : P.Valid) {sbs : Rat} (hs : sbs ≠ 0) :
    ∃ mi, (P.fwd sbs).m.inv = .ok mi ∧
      invAffineFromAttributes P.posL P.oriL P.ps sbs = .ok ⟨mi, (mi.mulVec P.pos).neg⟩ := by
  obtain ⟨mi, hmi⟩ := M3.inv_of_det_ne_zero (fwd_det_ne_zero P h hs)
  refine ⟨mi, hmi, ?_⟩
  have hrot := createRotation_eval P.o RD_valid false true P.sr P.sc sbs h.hr h.hc
  rw [← fwd_eq_frame] at hrot
  unfold invAffineFromAttributes
  rw [ofList_posL, ofList_oriL]
  simp only [Plane.ps] at hrot ⊢
  simp [hrot, hmi, bind, Except.bind, pure, Except.pure]

/-! ## decomposition of the two-plane constructors -/

theorem pixToPixAffine_ok {posF oriF : List Rat} {psF : Spacing} {posT oriT : List Rat} {psT : Spacing} {a : Aff}
    (h : pixToPixAffine posF oriF psF posT oriT psT = .ok a) :
    ∃ p2r r2p, affineFromAttributes posF oriF psF 1 ['R', 'D'] false true = .ok p2r ∧
      invAffineFromAttributes posT oriT psT 1 = .ok r2p ∧ a = r2p.comp p2r := by
  unfold pixToPixAffine at h
  cases h1 : V3.ofList posF with
  | none => simp [h1, bind, Except.bind] at h
  | some pf =>
  cases h2 : V3.ofList posT with
  | none => simp [h1, h2, bind, Except.bind, pure, Except.pure] at h
  | some pt =>
  cases h3 : Ori.ofList oriF with
  | none => simp [h1, h2, h3, bind, Except.bind, pure, Except.pure] at h
  | some of' =>
  cases h4 : Ori.ofList oriT with
  | none => simp [h1, h2, h3, h4, bind, Except.bind, pure, Except.pure] at h
  | some ot =>
  cases h5 : areCoplanar pf of' pt ot with
  | error e => simp [h1, h2, h3, h4, h5, bind, Except.bind, pure, Except.pure] at h
  | ok cop =>
  cases cop with
  | false => simp [h1, h2, h3, h4, h5, bind, Except.bind, pure, Except.pure] at h
  | true =>
  cases h6 : affineFromAttributes posF oriF psF 1 ['R', 'D'] false true with
  | error e => simp [h1, h2, h3, h4, h5, h6, bind, Except.bind, pure, Except.pure] at h
  | ok p2r =>
  cases h7 : invAffineFromAttributes posT oriT psT 1 with
  | error e => simp [h1, h2, h3, h4, h5, h6, h7, bind, Except.bind, pure, Except.pure] at h
  | ok r2p =>
    simp [h1, h2, h3, h4, h5, h6, h7, bind, Except.bind, pure, Except.pure] at h
    exact ⟨p2r, r2p, rfl, rfl, h.symm⟩

/-! ## patient orientations -/

/-- the 48 orientations: all triples of enum letters that `_normalize_patient_orientation` accepts -/
def allOrientations : List (List Char) :=
  (Gen.bipedValues.flatMap fun a => Gen.bipedValues.flatMap fun b => Gen.bipedValues.map fun c => [a, b, c]).filter
    (fun l => match normOrientation l with | .ok _ => true | .error _ => false)

theorem allOrientations_length : allOrientations.length = 48 := by decide

theorem normOrientation_ok {c l : List Char} (h : normOrientation c = .ok l) : l = c ∧ c ∈ allOrientations := by
  have hl : l = c := by
    unfold normOrientation at h
    split at h
    · split at h
      · split at h
        · cases h; rfl
        · cases h
      · cases h
    · cases h
  subst hl
  refine ⟨rfl, ?_⟩
  unfold allOrientations
  rw [List.mem_filter]
  refine ⟨?_, by rw [h]⟩
  unfold normOrientation at h
  split at h
  · rename_i a b d
    split at h
    · rename_i hall
      simp only [List.all_cons, List.all_nil, Bool.and_true, Bool.and_eq_true, List.contains_iff_mem] at hall
      simp only [List.mem_flatMap, List.mem_map]
      exact ⟨a, hall.1, b, hall.2.1, d, hall.2.2, rfl⟩
    · cases h
  · cases h

/-- DICOM patient coordinate system (LPS): the unit vector each letter points along (specification) -/
def letterVec (d : Char) : V3 :=
  if d = 'L' then ⟨1, 0, 0⟩ else if d = 'R' then ⟨-1, 0, 0⟩ else if d = 'P' then ⟨0, 1, 0⟩
  else if d = 'A' then ⟨0, -1, 0⟩ else if d = 'H' then ⟨0, 0, 1⟩ else ⟨0, 0, -1⟩

theorem dirVector_spec : ∀ d ∈ Gen.bipedValues, dirVector d = .ok (letterVec d) := by decide

theorem rabs_of_pos {x : Rat} (h : 0 < x) : rabs x = x := by
  unfold rabs; simp [not_lt.mpr (le_of_lt h)]
theorem rabs_neg_of_pos {x : Rat} (h : 0 < x) : rabs (-x) = x := by
  unfold rabs; simp [h]
@[simp] theorem rabs_zero : rabs 0 = 0 := by unfold rabs; simp

/-- index of the anatomical axis of a letter: L/R → x, P/A → y, H/F → z -/
def axisIdx (d : Char) : Nat := if d = 'L' ∨ d = 'R' then 0 else if d = 'P' ∨ d = 'A' then 1 else 2

theorem mem_biped {d : Char} (h : d ∈ Gen.bipedValues) :
    d = 'A' ∨ d = 'P' ∨ d = 'R' ∨ d = 'L' ∨ d = 'H' ∨ d = 'F' := by
  simpa [Gen.bipedValues] using h

theorem chooseAxis_letter {d : Char} (hd : d ∈ Gen.bipedValues) {t : Rat} (ht : 0 < t) (used : List Nat)
    (hu : ¬ axisIdx d ∈ used) : chooseAxis (V3.smul t (letterVec d)) used = axisIdx d := by
  have h1 : ¬ (0 ≤ -t) := by linarith
  have h2 : -t ≤ 0 := by linarith
  rcases mem_biped hd with rfl | rfl | rfl | rfl | rfl | rfl <;>
    simp [axisIdx] at hu <;>
    simp [chooseAxis, letterVec, V3.smul, argsortKeys, insertByKey, rabs_of_pos ht, rabs_neg_of_pos ht, h1, h2,
      List.filter, hu, axisIdx]

theorem letterFor_letter {d : Char} (hd : d ∈ Gen.bipedValues) {t : Rat} (ht : 0 < t) :
    letterFor (V3.smul t (letterVec d)) (axisIdx d) = .ok d := by
  have h1 : ¬ (0 < -t) := by linarith
  rcases mem_biped hd with rfl | rfl | rfl | rfl | rfl | rfl <;>
    simp [letterFor, letterVec, V3.smul, V3.get, axisIdx, ht, h1, Gen.posDirections, Gen.negDirections]

theorem letterVec_dot : ∀ a ∈ Gen.bipedValues, ∀ b ∈ Gen.bipedValues, axisIdx a ≠ axisIdx b →
    (letterVec a).dot (letterVec b) = 0 := by decide +kernel

theorem smul_dot_smul (t u : Rat) (a b : V3) : (V3.smul t a).dot (V3.smul u b) = t * u * a.dot b := by
  cases a; cases b; simp only [V3.smul, V3.dot]; ring

theorem isClose_zero : isClose 0 0 npRtol eqTol = true := by decide +kernel

theorem closest_of_letters {a b c : Char} (ha : a ∈ Gen.bipedValues) (hb : b ∈ Gen.bipedValues)
    (hc : c ∈ Gen.bipedValues) (hab : axisIdx a ≠ axisIdx b) (hac : axisIdx a ≠ axisIdx c)
    (hbc : axisIdx b ≠ axisIdx c) (s : V3) (h0 : 0 < s.x) (h1 : 0 < s.y) (h2 : 0 < s.z) :
    closestOrientation ⟨V3.smul s.x (letterVec a), V3.smul s.y (letterVec b), V3.smul s.z (letterVec c)⟩
      = .ok [a, b, c] := by
  have o1 : isOrthogonal ⟨V3.smul s.x (letterVec a), V3.smul s.y (letterVec b), V3.smul s.z (letterVec c)⟩ false = true := by
    simp only [isOrthogonal, smul_dot_smul, letterVec_dot a ha b hb hab, letterVec_dot a ha c hc hac,
      letterVec_dot b hb c hc hbc, mul_zero, isClose_zero]
    rfl
  unfold closestOrientation
  simp only [o1, Bool.not_true, Bool.false_eq_true, if_false]
  rw [chooseAxis_letter ha h0 [] (by simp)]
  rw [chooseAxis_letter hb h1 [axisIdx a] (by simp [Ne.symm hab])]
  rw [chooseAxis_letter hc h2 [axisIdx a, axisIdx b] (by simp [Ne.symm hac, Ne.symm hbc])]
  simp only [letterFor_letter ha h0, letterFor_letter hb h1, letterFor_letter hc h2, bind, Except.bind, pure, Except.pure]

def distinctAxes : List Char → Bool
  | [a, b, c] => axisIdx a != axisIdx b && axisIdx a != axisIdx c && axisIdx b != axisIdx c
  | _ => false

theorem allOrientations_distinct : ∀ o ∈ allOrientations, distinctAxes o = true := by decide +kernel

theorem allOrientations_spec {o : List Char} (h : o ∈ allOrientations) :
    ∃ a b c, o = [a, b, c] ∧ a ∈ Gen.bipedValues ∧ b ∈ Gen.bipedValues ∧ c ∈ Gen.bipedValues ∧
      axisIdx a ≠ axisIdx b ∧ axisIdx a ≠ axisIdx c ∧ axisIdx b ≠ axisIdx c ∧ normOrientation o = .ok o := by
  have hd := allOrientations_distinct o h
  unfold allOrientations at h
  rw [List.mem_filter] at h
  obtain ⟨hm, hn⟩ := h
  simp only [List.mem_flatMap, List.mem_map] at hm
  obtain ⟨a, ha, b, hb, c, hc, rfl⟩ := hm
  simp only [distinctAxes, Bool.and_eq_true, bne_iff_ne, ne_eq] at hd
  refine ⟨a, b, c, rfl, ha, hb, hc, hd.1.1, hd.1.2, hd.2, ?_⟩
  cases hq : normOrientation [a, b, c] with
  | error e => rw [hq] at hn; cases hn
  | ok l => rw [(normOrientation_ok hq).1]

theorem rotationForOrientation_eval {a b c : Char} (ha : a ∈ Gen.bipedValues) (hb : b ∈ Gen.bipedValues)
    (hc : c ∈ Gen.bipedValues) (hn : normOrientation [a, b, c] = .ok [a, b, c]) (s : V3) :
    rotationForOrientation [a, b, c] s
      = .ok ⟨V3.smul s.x (letterVec a), V3.smul s.y (letterVec b), V3.smul s.z (letterVec c)⟩ := by
  simp only [rotationForOrientation, hn, dirVector_spec a ha, dirVector_spec b hb, dirVector_spec c hc, bind,
    Except.bind, pure, Except.pure]

/-! ## change of reference convention -/

/-- integer version of `letterVec` (the decision over all 48 × 48 pairs is made on integers) -/
def letterVecI (d : Char) : Int × Int × Int :=
  if d = 'L' then (1, 0, 0) else if d = 'R' then (-1, 0, 0) else if d = 'P' then (0, 1, 0)
  else if d = 'A' then (0, -1, 0) else if d = 'H' then (0, 0, 1) else (0, 0, -1)

def dotI (a b : Int × Int × Int) : Int := a.1 * b.1 + a.2.1 * b.2.1 + a.2.2 * b.2.2

theorem letterVec_cast (d : Char) : letterVec d = vecOfInts (letterVecI d) := by
  unfold letterVec letterVecI vecOfInts
  split_ifs <;> simp

theorem dot_cast (a b : Int × Int × Int) : (vecOfInts a).dot (vecOfInts b) = ((dotI a b : Int) : Rat) := by
  simp only [vecOfInts, V3.dot, dotI]; push_cast; ring

/-- row `j` of the specification matrix `Tᵀ F`: the projections of the source letters onto target letter `j` -/
def coefRowI (f t : List Char) (j : Nat) : Int × Int × Int :=
  let tj := letterVecI (t.getD j 'L')
  (dotI tj (letterVecI (f.getD 0 'L')), dotI tj (letterVecI (f.getD 1 'L')), dotI tj (letterVecI (f.getD 2 'L')))

def coefRow (f t : List Char) (j : Nat) : V3 :=
  let tj := letterVec (t.getD j 'L')
  ⟨tj.dot (letterVec (f.getD 0 'L')), tj.dot (letterVec (f.getD 1 'L')), tj.dot (letterVec (f.getD 2 'L'))⟩

theorem coefRow_cast (f t : List Char) (j : Nat) : coefRow f t j = vecOfInts (coefRowI f t j) := by
  simp only [coefRow, coefRowI, letterVec_cast, dot_cast]
  rfl

/-- row `j` of the matrix a plan realises: `± e_{perm j}` -/
def planRowI (flips : List Bool) (perm : List Nat) (j : Nat) : Int × Int × Int :=
  let p := perm.getD j 0
  let s : Int := if (match p with | 0 => flips.getD 0 false | 1 => flips.getD 1 false | _ => flips.getD 2 false) then -1 else 1
  match p with | 0 => (s, 0, 0) | 1 => (0, s, 0) | _ => (0, 0, s)

def planMatches (f t : List Char) : Bool :=
  match conventionPlan f t with
  | .ok (fl, pm) => fl.length == 3 && pm.length == 3 &&
      (coefRowI f t 0 == planRowI fl pm 0) && (coefRowI f t 1 == planRowI fl pm 1) && (coefRowI f t 2 == planRowI fl pm 2)
  | .error _ => false

/-- for all 48 × 48 pairs of conventions the code's flip / permutation plan is the specification matrix -/
theorem conventionPlan_matches : ∀ f ∈ allOrientations, ∀ t ∈ allOrientations, planMatches f t = true := by
  decide +kernel


theorem planMatches_spec {f t : List Char} (h : planMatches f t = true) :
    ∃ f0 f1 f2 p0 p1 p2, conventionPlan f t = .ok ([f0, f1, f2], [p0, p1, p2]) ∧
      ∀ j, j < 3 → coefRowI f t j = planRowI [f0, f1, f2] [p0, p1, p2] j := by
  unfold planMatches at h
  cases hc : conventionPlan f t with
  | error e => simp [hc] at h
  | ok pl =>
    obtain ⟨fl, pm⟩ := pl
    simp only [hc, Bool.and_eq_true, beq_iff_eq] at h
    obtain ⟨⟨⟨⟨hl, hp⟩, h0⟩, h1⟩, h2⟩ := h
    match fl, pm, hl, hp with
    | [f0, f1, f2], [p0, p1, p2], _, _ =>
      refine ⟨f0, f1, f2, p0, p1, p2, rfl, ?_⟩
      intro j hj
      rcases j with _ | _ | _ | j
      · exact h0
      · exact h1
      · exact h2
      · omega

/-- the arithmetic part realises the plan's matrix: coordinate `j` of the transformed affine is
`± coordinate perm j` of the original, for every point -/
theorem applyPlan_row (a : Aff) (f0 f1 f2 : Bool) (p0 p1 p2 : Nat) (x : V3) :
    ∃ r, applyPlan a [f0, f1, f2] [p0, p1, p2] = .ok r ∧
      (r.apply x).x = (vecOfInts (planRowI [f0, f1, f2] [p0, p1, p2] 0)).dot (a.apply x) ∧
      (r.apply x).y = (vecOfInts (planRowI [f0, f1, f2] [p0, p1, p2] 1)).dot (a.apply x) ∧
      (r.apply x).z = (vecOfInts (planRowI [f0, f1, f2] [p0, p1, p2] 2)).dot (a.apply x) := by
  obtain ⟨⟨⟨a1, a2, a3⟩, ⟨b1, b2, b3⟩, ⟨c1, c2, c3⟩⟩, ⟨t1, t2, t3⟩⟩ := a
  obtain ⟨x1, x2, x3⟩ := x
  refine ⟨_, rfl, ?_, ?_, ?_⟩
  · rcases p0 with _ | _ | p0 <;> cases f0 <;> cases f1 <;> cases f2 <;>
      simp [planRowI, vecOfInts, flipSign, Aff.apply, M3.mulVec, M3.ofRows, M3.row, V3.get,
        V3.smul, V3.add, V3.dot] <;> ring
  · rcases p1 with _ | _ | p1 <;> cases f0 <;> cases f1 <;> cases f2 <;>
      simp [planRowI, vecOfInts, flipSign, Aff.apply, M3.mulVec, M3.ofRows, M3.row, V3.get,
        V3.smul, V3.add, V3.dot] <;> ring
  · rcases p2 with _ | _ | p2 <;> cases f0 <;> cases f1 <;> cases f2 <;>
      simp [planRowI, vecOfInts, flipSign, Aff.apply, M3.mulVec, M3.ofRows, M3.row, V3.get,
        V3.smul, V3.add, V3.dot] <;> ring

/-! ## coplanarity test, image-to-image decomposition, components -/

theorem nlookup_R : Gen.normalAxisTable.lookup 'R' = some (1, true) := by decide
theorem nlookup_D : Gen.normalAxisTable.lookup 'D' = some (1, false) := by decide

theorem normalVector_RD (o : Ori) : normalVector o ('R', 'D') true = .ok (o.row.cross o.col) := by
  simp [normalVector, normalAxisOf, nlookup_R, nlookup_D, crossOrdered, Gen.normalCrossOrder, bind, Except.bind,
    pure, Except.pure]

/-- `_are_images_coplanar` says no when the normals are not parallel or the planes are apart -/
theorem areCoplanar_false (P Q : Plane)
    (h : eqTol < 1 - rabs (P.nrm.dot Q.nrm) ∨ eqTol ≤ rabs (P.pos.dot P.nrm - Q.pos.dot P.nrm)) :
    areCoplanar P.pos P.o Q.pos Q.o = .ok false := by
  simp only [areCoplanar, normalVector_RD, bind, Except.bind, pure, Except.pure, Gen.coplanarDistance]
  simp only [Plane.nrm] at h
  by_cases hc : 1 - rabs ((P.o.row.cross P.o.col).dot (Q.o.row.cross Q.o.col)) > eqTol
  · simp [hc]
  · rcases h with h | h
    · exact absurd h hc
    · simp [hc, not_lt.mpr h]

/-- … and yes when the normals are parallel and the offsets along the normal agree, within `1e-5` -/
theorem areCoplanar_true (P Q : Plane)
    (h1 : 1 - rabs (P.nrm.dot Q.nrm) ≤ eqTol) (h2 : rabs (P.pos.dot P.nrm - Q.pos.dot P.nrm) < eqTol) :
    areCoplanar P.pos P.o Q.pos Q.o = .ok true := by
  simp only [areCoplanar, normalVector_RD, bind, Except.bind, pure, Except.pure, Gen.coplanarDistance]
  simp only [Plane.nrm] at h1 h2
  simp [not_lt.mpr h1, h2]

theorem imgToImgAffine_ok {posF oriF : List Rat} {psF : Spacing} {posT oriT : List Rat} {psT : Spacing} {a : Aff}
    (h : imgToImgAffine posF oriF psF posT oriT psT = .ok a) :
    ∃ p2r r2p, affineFromAttributes posF oriF psF 1 ['R', 'D'] false true = .ok p2r ∧
      invAffineFromAttributes posT oriT psT 1 = .ok r2p ∧
      a = (((Aff.shift (vecOfTriple Gen.pixToImCorrection)).comp r2p).comp p2r).comp
            (Aff.shift (vecOfTriple Gen.imToPixCorrection)) := by
  unfold imgToImgAffine at h
  cases h1 : V3.ofList posF with
  | none => simp [h1, bind, Except.bind] at h
  | some pf =>
  cases h2 : V3.ofList posT with
  | none => simp [h1, h2, bind, Except.bind, pure, Except.pure] at h
  | some pt =>
  cases h3 : Ori.ofList oriF with
  | none => simp [h1, h2, h3, bind, Except.bind, pure, Except.pure] at h
  | some of' =>
  cases h4 : Ori.ofList oriT with
  | none => simp [h1, h2, h3, h4, bind, Except.bind, pure, Except.pure] at h
  | some ot =>
  cases h5 : areCoplanar pf of' pt ot with
  | error e => simp [h1, h2, h3, h4, h5, bind, Except.bind, pure, Except.pure] at h
  | ok cop =>
  cases cop with
  | false => simp [h1, h2, h3, h4, h5, bind, Except.bind, pure, Except.pure] at h
  | true =>
  cases h7 : invAffineFromAttributes posT oriT psT 1 with
  | error e => simp [h1, h2, h3, h4, h5, h7, bind, Except.bind, pure, Except.pure] at h
  | ok r2p =>
  cases h6 : affineFromAttributes posF oriF psF 1 ['R', 'D'] false true with
  | error e => simp [h1, h2, h3, h4, h5, h6, h7, bind, Except.bind, pure, Except.pure] at h
  | ok p2r =>
    simp [h1, h2, h3, h4, h5, h6, h7, bind, Except.bind, pure, Except.pure] at h
    exact ⟨p2r, r2p, rfl, rfl, h.symm⟩

/-- both two-plane constructors refuse when the coplanarity test fails -/
theorem twoPlane_refused (P Q : Plane) (psF psT : Spacing)
    (h : areCoplanar P.pos P.o Q.pos Q.o = .ok false) :
    pixToPixAffine P.posL P.oriL psF Q.posL Q.oriL psT = .error .value ∧
    imgToImgAffine P.posL P.oriL psF Q.posL Q.oriL psT = .error .value := by
  unfold pixToPixAffine imgToImgAffine
  simp [ofList_posL, ofList_oriL, h, bind, Except.bind, pure, Except.pure]

theorem isClose_one : isClose 1 1 npRtol eqTol = true := by decide +kernel

/-- flattened row-major 3×3 list of a matrix (the `direction` argument) -/
def M3.flat (m : M3) : List Rat :=
  [m.c0.x, m.c1.x, m.c2.x, m.c0.y, m.c1.y, m.c2.y, m.c0.z, m.c1.z, m.c2.z]

/-- exactly orthonormal columns -/
structure Orthonormal (m : M3) : Prop where
  n0 : m.c0.dot m.c0 = 1
  n1 : m.c1.dot m.c1 = 1
  n2 : m.c2.dot m.c2 = 1
  o01 : m.c0.dot m.c1 = 0
  o02 : m.c0.dot m.c2 = 0
  o12 : m.c1.dot m.c2 = 0

theorem isOrthogonal_of_orthonormal {m : M3} (h : Orthonormal m) (u : Bool) : isOrthogonal m u = true := by
  simp [isOrthogonal, h.n0, h.n1, h.n2, h.o01, h.o02, h.o12, isClose_one, isClose_zero]

def scaleCols (s : V3) (d : M3) : M3 := ⟨V3.smul s.x d.c0, V3.smul s.y d.c1, V3.smul s.z d.c2⟩

theorem ofRows_flat (d : M3) :
    M3.ofRows ⟨d.c0.x, d.c1.x, d.c2.x⟩ ⟨d.c0.y, d.c1.y, d.c2.y⟩ ⟨d.c0.z, d.c1.z, d.c2.z⟩ = d := by
  obtain ⟨⟨_, _, _⟩, ⟨_, _, _⟩, ⟨_, _, _⟩⟩ := d; rfl

/-- `create_affine_matrix_from_components` with a direction matrix and a position -/
theorem fromComponents_direction_position (s : V3) (h0 : 0 < s.x) (h1 : 0 < s.y) (h2 : 0 < s.z) (d : M3)
    (hd : Orthonormal d) (p : V3) (shape : Option (List Int)) :
    affineFromComponents (.seq [s.x, s.y, s.z]) (some [p.x, p.y, p.z]) none (some d.flat) none shape
      = .ok ⟨scaleCols s d, p⟩ := by
  simp [affineFromComponents, M3.flat, ofRows_flat, isOrthogonal_of_orthonormal hd, not_le.mpr h0, not_le.mpr h1,
    not_le.mpr h2, V3.ofList, scaleCols, bind, Except.bind, pure, Except.pure]

/-- … with a direction matrix and the position of the array centre -/
theorem fromComponents_direction_center (s : V3) (h0 : 0 < s.x) (h1 : 0 < s.y) (h2 : 0 < s.z) (d : M3)
    (hd : Orthonormal d) (c : V3) (n0 n1 n2 : Int) :
    affineFromComponents (.seq [s.x, s.y, s.z]) none (some [c.x, c.y, c.z]) (some d.flat) none (some [n0, n1, n2])
      = .ok ⟨scaleCols s d, c.sub ((scaleCols s d).mulVec ⟨((n0 : Rat) - 1) / 2, ((n1 : Rat) - 1) / 2, ((n2 : Rat) - 1) / 2⟩)⟩ := by
  simp [affineFromComponents, M3.flat, ofRows_flat, isOrthogonal_of_orthonormal hd, not_le.mpr h0, not_le.mpr h1,
    not_le.mpr h2, V3.ofList, scaleCols, bind, Except.bind, pure, Except.pure]

/-- a scalar spacing is the triple `[s, s, s]` (the repaired behaviour) -/
theorem fromComponents_scalar (s : Rat) (position center direction : Option (List Rat)) (orient : Option (List Char))
    (shape : Option (List Int)) :
    affineFromComponents (.scalar s) position center direction orient shape
      = affineFromComponents (.seq [s, s, s]) position center direction orient shape := by
  simp [affineFromComponents]

/-- … with patient-orientation letters instead of a direction matrix -/
theorem fromComponents_letters_position {o : List Char} (ho : o ∈ allOrientations) (s : V3) (h0 : 0 < s.x)
    (h1 : 0 < s.y) (h2 : 0 < s.z) (p : V3) (shape : Option (List Int)) :
    ∃ a b c, o = [a, b, c] ∧
      affineFromComponents (.seq [s.x, s.y, s.z]) (some [p.x, p.y, p.z]) none none (some o) shape
        = .ok ⟨⟨V3.smul s.x (letterVec a), V3.smul s.y (letterVec b), V3.smul s.z (letterVec c)⟩, p⟩ := by
  obtain ⟨a, b, c, rfl, ha, hb, hc, _, _, _, hn⟩ := allOrientations_spec ho
  refine ⟨a, b, c, rfl, ?_⟩
  simp [affineFromComponents, rotationForOrientation_eval ha hb hc hn, not_le.mpr h0, not_le.mpr h1,
    not_le.mpr h2, V3.ofList, bind, Except.bind, pure, Except.pure]

/-- rounding an integer-valued rational changes nothing -/
theorem roundHalfEven_intCast (z : Int) : roundHalfEven (z : Rat) = z := by
  unfold roundHalfEven
  simp only [Rat.floor_intCast, sub_self]
  norm_num

/-- in every valid convention the two in-plane axes are an orthonormal pair (given orthonormal cosines) -/
theorem axis_orthoPair (o : Ori) (ho : OrthoPair o.row o.col) {cv : Char × Char} (hcv : cv ∈ validConventions) :
    OrthoPair (axisVec o cv.1) (axisVec o cv.2) := by
  obtain ⟨h0, h1, h01⟩ := ho
  obtain ⟨⟨a, b, c⟩, ⟨d, e, f⟩⟩ := o
  simp only [V3.dot] at h0 h1 h01
  rcases mem_validConventions hcv with rfl | rfl | rfl | rfl | rfl | rfl | rfl | rfl <;>
    refine ⟨?_, ?_, ?_⟩ <;> simp [axisVec, V3.dot, V3.neg] <;> linarith

theorem cross_dot_left (a b : V3) : (a.cross b).dot a = 0 := by
  cases a; cases b; simp only [V3.cross, V3.dot]; ring
theorem cross_dot_right (a b : V3) : (a.cross b).dot b = 0 := by
  cases a; cases b; simp only [V3.cross, V3.dot]; ring

/-- the normal component of a point produced by the forward affine -/
theorem nrm_dot_fwd (P : Plane) (sbs : Rat) (p : V3) :
    P.nrm.dot ((P.fwd sbs).apply p) = P.nrm.dot P.pos + p.z * sbs * P.nrm.dot P.nrm := by
  have h1 := cross_dot_left P.o.row P.o.col
  have h2 := cross_dot_right P.o.row P.o.col
  obtain ⟨⟨px, py, pz⟩, ⟨⟨a1, a2, a3⟩, ⟨b1, b2, b3⟩⟩, sr, sc⟩ := P
  obtain ⟨x, y, z⟩ := p
  simp only [Plane.nrm, V3.cross, V3.dot] at h1 h2 ⊢
  simp only [Plane.fwd, Aff.apply, M3.mulVec, V3.smul, V3.add, Plane.nrm, V3.cross, V3.dot]
  linear_combination (x * sc) * h1 + (y * sr) * h2

/-! ## closest orientation of an arbitrary matrix -/

theorem argsortKeys3 (a b c : Rat) :
    argsortKeys [(0, a), (1, b), (2, c)] ∈ [[0, 1, 2], [0, 2, 1], [1, 0, 2], [1, 2, 0], [2, 0, 1], [2, 1, 0]] := by
  simp only [argsortKeys, List.foldr, insertByKey]
  by_cases h1 : b ≤ c <;> by_cases h2 : a ≤ b <;> by_cases h3 : a ≤ c <;>
    simp [insertByKey, h1, h2, h3]
theorem chooseAxis_nil (v : V3) : chooseAxis v [] < 3 := by
  unfold chooseAxis
  have h := argsortKeys3 (-rabs v.x) (-rabs v.y) (-rabs v.z)
  simp only [List.mem_cons, List.not_mem_nil, or_false] at h
  rcases h with h | h | h | h | h | h <;> simp [h]
theorem chooseAxis_one (v : V3) (i0 : Nat) (h0 : i0 < 3) : chooseAxis v [i0] < 3 ∧ chooseAxis v [i0] ≠ i0 := by
  unfold chooseAxis
  have h := argsortKeys3 (-rabs v.x) (-rabs v.y) (-rabs v.z)
  simp only [List.mem_cons, List.not_mem_nil, or_false] at h
  obtain rfl | rfl | rfl : i0 = 0 ∨ i0 = 1 ∨ i0 = 2 := by omega
  all_goals (rcases h with h | h | h | h | h | h <;> simp [h, List.filter])
theorem chooseAxis_two (v : V3) (i0 i1 : Nat) (h0 : i0 < 3) (h1 : i1 < 3) (hne : i0 ≠ i1) :
    chooseAxis v [i0, i1] < 3 ∧ chooseAxis v [i0, i1] ≠ i0 ∧ chooseAxis v [i0, i1] ≠ i1 := by
  unfold chooseAxis
  have h := argsortKeys3 (-rabs v.x) (-rabs v.y) (-rabs v.z)
  simp only [List.mem_cons, List.not_mem_nil, or_false] at h
  obtain rfl | rfl | rfl : i0 = 0 ∨ i0 = 1 ∨ i0 = 2 := by omega
  all_goals (obtain rfl | rfl | rfl : i1 = 0 ∨ i1 = 1 ∨ i1 = 2 := by omega)
  all_goals first
    | exact absurd rfl hne
    | (rcases h with h | h | h | h | h | h <;> simp [h, List.filter])

/-- the letter chosen for reference axis `i` is the positive or the negative letter of that axis, and its LPS
unit vector has a non-negative component of the column along it -/
theorem letterFor_spec (v : V3) (i : Nat) (hi : i < 3) :
    ∃ c, letterFor v i = .ok c ∧ (Gen.posDirections[i]? = some c ∨ Gen.negDirections[i]? = some c) ∧
      0 ≤ (letterVec c).dot v := by
  obtain ⟨x, y, z⟩ := v
  obtain rfl | rfl | rfl : i = 0 ∨ i = 1 ∨ i = 2 := by omega
  · by_cases h : x > 0
    · exact ⟨'L', by simp [letterFor, V3.get, h, Gen.posDirections], by simp [Gen.posDirections],
        by simp [letterVec, V3.dot]; linarith⟩
    · exact ⟨'R', by simp [letterFor, V3.get, h, Gen.negDirections], by simp [Gen.negDirections],
        by simp [letterVec, V3.dot]; linarith⟩
  · by_cases h : y > 0
    · exact ⟨'P', by simp [letterFor, V3.get, h, Gen.posDirections], by simp [Gen.posDirections],
        by simp [letterVec, V3.dot]; linarith⟩
    · exact ⟨'A', by simp [letterFor, V3.get, h, Gen.negDirections], by simp [Gen.negDirections],
        by simp [letterVec, V3.dot]; linarith⟩
  · by_cases h : z > 0
    · exact ⟨'H', by simp [letterFor, V3.get, h, Gen.posDirections], by simp [Gen.posDirections],
        by simp [letterVec, V3.dot]; linarith⟩
    · exact ⟨'F', by simp [letterFor, V3.get, h, Gen.negDirections], by simp [Gen.negDirections],
        by simp [letterVec, V3.dot]; linarith⟩

end HdVerif.Affine
