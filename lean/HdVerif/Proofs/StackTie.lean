import HdVerif.Proofs.Stack
import HdVerif.Generated.TC11v
import HdVerif.Generated.TC11a
import Mathlib.Data.List.Dedup
/-! Bridges between the hand-written slice-stack model (`Model/Stack.lean`) and the source.

The arithmetic of `get_volume_positions` and the index choices of the two assembly routes are written by hand in the model.
`translate/targets_C11.py` (targets TC11v, TC11a) extracts the expressions the source uses now; here every hand-written
definition is shown EQUAL to a twin (`…Src`) in which each of those expressions is the regenerated one.  A change of the source
expression changes the regenerated definition, and the bridge (an obligation of C11) no longer holds. -/
namespace HdVerif.Stack
open HdVerif HdVerif.Affine

/-! ## no-gaps route of `get_volume_positions` -/

/-- `spacingRegular` with the source's expressions: mean spacing `Gen.meanSpacing`, the hint is compared with
`Gen.hintCompared spacing`. -/
def spacingRegularSrc (dSorted : List Rat) (rk : List Nat) (hint : Option Rat) (rtol atol : Rat) :
    Except ErrKind (Rat × Bool × List Int) :=
  match dSorted.head?, dSorted.getLast? with
  | some lo, some hi => do
    let s ← Gen.meanSpacing lo hi (dSorted.length : Int)
    let reg := (diffs dSorted).all fun x => isClose x s rtol atol
    match hint with
    | some h => do
      let c ← Gen.hintCompared s
      if !isClose c h rtol atol then .error .runtime else .ok (s, reg, rk.map Int.ofNat)
    | none => .ok (s, reg, rk.map Int.ofNat)
  | _, _ => .error .index

theorem spacingRegular_uses_source (ds : List Rat) (rk : List Nat) (hint : Option Rat) (rtol atol : Rat) :
    spacingRegular ds rk hint rtol atol = spacingRegularSrc ds rk hint rtol atol := by
  unfold spacingRegular spacingRegularSrc
  cases h0 : ds.head? with
  | none => rfl
  | some lo =>
    cases h1 : ds.getLast? with
    | none => rfl
    | some hi =>
      have hs : Gen.meanSpacing lo hi (ds.length : Int) = .ok ((hi - lo) / ((ds.length : Rat) - 1)) := by
        simp only [Gen.meanSpacing]; congr 2; push_cast; ring
      cases hint with
      | none => simp only [hs, bind, Except.bind]
      | some h => simp only [hs, bind, Except.bind, Gen.hintCompared, rabs]; rfl

/-! ## gaps route -/

/-- one step of the refinement loop with the source's expressions -/
def refineStepSrc (s D : Rat) : Except ErrKind Rat := do
  let q ← Gen.gapRefineRatio D s
  let n := roundHalfEven q
  let g ← Gen.gapRefineGuard n
  if g then Gen.gapRefined D n else pure s

/-- the loop `for distance in origin_distances_sorted[1:] - origin_distances_sorted[0]` -/
def refineSpacingSrc (s : Rat) : List Rat → Except ErrKind Rat
  | [] => pure s
  | D :: ds => do
    let s' ← refineStepSrc s D
    refineSpacingSrc s' ds

/-- `estimateSpacing` with the source's expressions -/
def estimateSpacingSrc (dSorted : List Rat) : Except ErrKind (Option Rat) :=
  match minList (diffs dSorted) with
  | some m => if isClose m 0 npRtol Gen.gapZeroAtol then pure none
              else do
                let s ← refineSpacingSrc m (dSorted.tail.map fun x => x - dSorted.headD 0)
                pure (some s)
  | none => .error .value

/-- `spacingMissing` with the source's expressions: estimate `estimateSpacingSrc` (zero test with `Gen.gapZeroAtol`, refinement
loop with `Gen.gapRefineRatio`, `Gen.gapRefineGuard`, `Gen.gapRefined`), multiples `Gen.gapMultiple`,
tolerances `Gen.gapRtol` / `Gen.gapAtol`, the distinct-index test `Gen.gapIndicesCollide` (`len(np.unique(indices)) < len(indices)`;
`np.unique` of a one-dimensional integer array = `List.dedup` up to order, only its length is used). -/
def spacingMissingSrc (d dSorted : List Rat) (hint : Option Rat) (rtol atol : Rat) :
    Except ErrKind (Option (Rat × Bool × List Int)) := do
  let sp ← (match hint with
    | some h => pure (some h)
    | none => estimateSpacingSrc dSorted : Except ErrKind (Option Rat))
  match sp, minList d with
  | some s, some dmin => do
    let mult ← d.mapM fun x => Gen.gapMultiple x dmin s
    let rounded := mult.map roundHalfEven
    let rt ← Gen.gapRtol
    let at' ← Gen.gapAtol rtol atol s
    let collide ← Gen.gapIndicesCollide (rounded.dedup.length : Int) (rounded.length : Int)
    let reg := ((mult.zip rounded).all fun mr => isClose mr.1 (mr.2 : Rat) rt at') && !collide
    pure (some (s, reg, rounded))
  | _, _ => pure none

/-- `len(np.unique(x)) < len(x)` says that `x` has a repeated entry -/
theorem dedup_length_lt_iff (l : List Int) : (decide ((l.dedup.length : Int) < (l.length : Int))) = !decide l.Nodup := by
  by_cases h : l.Nodup
  · have : l.dedup = l := List.dedup_eq_self.mpr h
    simp [this, h]
  · have hne : l.dedup ≠ l := fun e => h (List.dedup_eq_self.mp e)
    have hlt : l.dedup.length < l.length := by
      rcases Nat.lt_or_ge l.dedup.length l.length with hl | hl
      · exact hl
      · exact absurd ((List.dedup_sublist l).eq_of_length_le hl) hne
    have : (l.dedup.length : Int) < (l.length : Int) := by exact_mod_cast hlt
    simp [this, h]

theorem gapZeroAtol_eq : Gen.gapZeroAtol = eqTol := by decide +kernel

theorem refineSpacingSrc_eq : ∀ (ds : List Rat) (s : Rat), refineSpacingSrc s ds = .ok (refineSpacing s ds) := by
  intro ds
  induction ds with
  | nil => intro s; rfl
  | cons D ds ih =>
    intro s
    have hstep : refineStepSrc s D
        = .ok (if 0 < roundHalfEven (D / s) then D / ((roundHalfEven (D / s) : Int) : Rat) else s) := by
      simp only [refineStepSrc, Gen.gapRefineRatio, Gen.gapRefineGuard, Gen.gapRefined, bind, Except.bind, pure, Except.pure,
        gt_iff_lt, decide_eq_true_eq]
      split <;> rfl
    rw [refineSpacing_cons, ← ih]
    simp only [refineSpacingSrc, hstep, bind, Except.bind]

theorem estimateSpacing_uses_source (ds : List Rat) : estimateSpacing ds = estimateSpacingSrc ds := by
  unfold estimateSpacing estimateSpacingSrc
  rw [gapZeroAtol_eq]
  cases minList (diffs ds) with
  | none => rfl
  | some m =>
    simp only [refineSpacingSrc_eq, bind, Except.bind, pure, Except.pure]

theorem spacingMissing_uses_source (d ds : List Rat) (hint : Option Rat) (rtol atol : Rat) :
    spacingMissing d ds hint rtol atol = spacingMissingSrc d ds hint rtol atol := by
  unfold spacingMissing spacingMissingSrc
  rw [estimateSpacing_uses_source]
  congr 1
  funext sp
  cases sp with
  | none => rfl
  | some s =>
    cases hm : minList d with
    | none => rfl
    | some dmin =>
      have hmul : d.mapM (fun x => Gen.gapMultiple x dmin s) = .ok (d.map fun x => (x - dmin) / s) :=
        mapM_ok_of_forall _ _ d (fun a _ => rfl)
      simp only [hmul, bind, Except.bind, Gen.gapRtol, Gen.gapAtol, Gen.gapIndicesCollide, dedup_length_lt_iff, Bool.not_not, rabs, pure,
        Except.pure]
      congr 7
      norm_num

/-! ## what follows both routes: handedness refusal, returned spacing; the single-position case -/

/-- `examine` with the source's expressions -/
def examineSrc (nrm : V3) (u : List V3) (sorted allowMissing : Bool) (hint : Option Rat) (rtol atol : Rat)
    (enforce : Bool) : Except ErrKind (Option (Rat × List Int)) := do
  let d := u.map nrm.dot
  let rk : List Nat := if sorted then ranks d else List.range d.length
  let dSorted := if sorted then sortRat d else d
  let r ← (if allowMissing then spacingMissingSrc d dSorted hint rtol atol
           else (spacingRegularSrc dSorted rk hint rtol atol).map some)
  match r with
  | none => pure none
  | some (sp, regular, inv) => do
    let refuse ← Gen.handednessRefuses sp
    if regular && enforce && refuse then pure none
    else
      match atRank u rk 0, atRank u rk (u.length - 1) with
      | some p1, some p2 => do
        let out ← Gen.returnedSpacing sp
        if regular && isPerpendicular nrm (p2.sub p1) then pure (some (out, inv)) else pure none
      | _, _ => .error .index

theorem examine_uses_source (nrm : V3) (u : List V3) (sorted allowMissing : Bool) (hint : Option Rat) (rtol atol : Rat)
    (enforce : Bool) :
    examine nrm u sorted allowMissing hint rtol atol enforce = examineSrc nrm u sorted allowMissing hint rtol atol enforce := by
  unfold examine examineSrc
  simp only [spacingMissing_uses_source, spacingRegular_uses_source]
  congr 1
  funext r
  cases r with
  | none => rfl
  | some t =>
    obtain ⟨sp, regular, inv⟩ := t
    have h0 : ((0 : Rat) / 1) = 0 := by norm_num
    simp only [Gen.handednessRefuses, Gen.returnedSpacing, bind, Except.bind, rabs, h0]
    split <;> rfl

/-- a single (unique) position: the model's `hint.getD 1` is the source's `1.0 if spacing_hint is None else spacing_hint` -/
theorem single_position_uses_source (hint : Option Rat) :
    (match hint with | none => Gen.singlePositionSpacing | some h => .ok h) = .ok (hint.getD 1) := by
  cases hint with
  | none => simp only [Gen.singlePositionSpacing, Option.getD_none]; congr 1; norm_num
  | some h => rfl

/-! ## assembly -/

/-- `assembleFrames` with the source's expressions: number of slices `Gen.stackedSlices (max …)`, origin = first frame
whose volume position is `Gen.stackedOriginPosition`. -/
def assembleFramesSrc (rows : List (List Rat)) (ori : List Rat) (hint rtol atol : Option Rat) (allowMissing : Bool) :
    Except ErrKind (Rat × List Rat × Int × List Int) := do
  let r ← getVolumePositions rows ori
    { rtol := rtol, atol := atol, allowDuplicate := true, allowMissing := allowMissing, hint := hint }
  match r with
  | none => .error .runtime
  | some (sp, vp) => do
    let o ← Gen.stackedOriginPosition
    match maxList vp, vp.idxOf? o with
    | some m, some k =>
      match rows[k]? with
      | some origin => do
        let n ← Gen.stackedSlices m
        pure (sp, origin, n, vp)
      | none => .error .index
    | _, _ => .error .value

theorem assembleFrames_uses_source (rows : List (List Rat)) (ori : List Rat) (hint rtol atol : Option Rat) (allowMissing : Bool) :
    assembleFrames rows ori hint rtol atol allowMissing = assembleFramesSrc rows ori hint rtol atol allowMissing := by
  unfold assembleFrames assembleFramesSrc
  rfl

/-- Python subscript `l[i]` (negative indices count from the end) -/
def pyIndex {α} (l : List α) (i : Int) : Option α :=
  if i < 0 then (if 0 ≤ (l.length : Int) + i then l[((l.length : Int) + i).toNat]? else none) else l[i.toNat]?

/-- `assembleSeries` with the source's choices: the position of the volume is read from the dataset at index
`Gen.seriesFirstIndex` of the slice order (`Gen.seriesFirstFromSorted`) -- or of the given order, if the source said so --,
a single dataset without `SpacingBetweenSlices` gets `Gen.seriesSingleSpacing`. -/
def assembleSeriesSrc {α} (items : List (List Rat × α)) (sbs : List (Option Rat)) (ori : List Rat) (rtol atol : Option Rat) :
    Except ErrKind (Rat × List Rat × List α) := do
  if items.length = 0 then .error .index
  else if items.length = 1 then
    match items with
    | x :: _ => do
      let dflt ← Gen.seriesSingleSpacing
      pure ((sbs.head?.join).getD dflt, x.1, [x.2])
    | [] => .error .index
  else do
    let r ← getVolumePositions (items.map (·.1)) ori { rtol := rtol, atol := atol, hint := commonHint sbs }
    match r with
    | none => .error .value
    | some (sp, vp) => do
      let order ← seriesOrder items vp
      let i ← Gen.seriesFirstIndex
      match pyIndex (if Gen.seriesFirstFromSorted then order else items) i with
      | some first => pure (sp, first.1, order.map (·.2))
      | none => .error .index

theorem assembleSeries_uses_source {α} (items : List (List Rat × α)) (sbs : List (Option Rat)) (ori : List Rat)
    (rtol atol : Option Rat) :
    assembleSeries items sbs ori rtol atol = assembleSeriesSrc items sbs ori rtol atol := by
  unfold assembleSeries assembleSeriesSrc
  have h1 : ((1 : Rat) / 1) = 1 := by norm_num
  by_cases hl0 : items.length = 0
  · simp only [hl0, if_true]
  · by_cases hl1 : items.length = 1
    · simp only [hl1, if_true, Gen.seriesSingleSpacing, bind, Except.bind, h1]
      cases items <;> rfl
    · simp only [hl0, hl1, if_false]
      congr 1
      funext r
      cases r with
      | none => rfl
      | some t =>
        obtain ⟨sp, vp⟩ := t
        simp only [bind, Except.bind]
        cases seriesOrder items vp with
        | error e => rfl
        | ok order =>
          simp only [Gen.seriesFirstIndex, Gen.seriesFirstFromSorted, if_true, pyIndex]
          cases order <;> rfl

/-! ## option handling -/

/-- `normaliseOpts` with the source's option handling: the three leading if-statements of `get_volume_positions`, in the source's
order (`Gen.optionFlags`, `Gen.optionHint` when a hint is given, `Gen.optionTolerances`) -/
def normaliseOptsSrc (o : Opts) : Except ErrKind (Option Rat × Rat × Rat) := do
  let _ ← Gen.optionFlags o.sort o.allowDuplicate o.allowMissing
  let hint ← (match o.hint with
    | none => pure none
    | some h => (Gen.optionHint h).map some : Except ErrKind (Option Rat))
  let (rtol, atol) ← Gen.optionTolerances o.rtol o.atol
  pure (hint, rtol, atol)

theorem defaultRtol_eq : defaultRtol = 1 / 100 := by decide +kernel

theorem normaliseOpts_uses_source (o : Opts) : normaliseOpts o = normaliseOptsSrc o := by
  obtain ⟨rtol, atol, sort, miss, dup, hint, conv, rh, enf⟩ := o
  unfold normaliseOpts normaliseOptsSrc Gen.optionFlags Gen.optionHint Gen.optionTolerances
  simp only [defaultRtol_eq]
  cases sort <;> cases dup <;> cases miss <;> cases hint <;> cases rtol <;> cases atol <;>
    simp [bind, Except.bind, pure, Except.pure, Except.map] <;>
    (split_ifs <;> simp_all)

end HdVerif.Stack
