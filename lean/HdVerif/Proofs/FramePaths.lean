import HdVerif.Model.FramePaths
import HdVerif.Proofs.FrameAccess
/-! C05: lemmas for `Model/FramePaths.lean` - the slice specification for arbitrary pixel data, the frame loops of
`get_frames` / `_get_pixels_by_frame` against `get_stored_frame`, the whole array of a lazily read image, histories. -/
namespace HdVerif.FramePathsLemmas
open HdVerif HdVerif.Bits HdVerif.Gen HdVerif.FrameAccess HdVerif.FrameAccessLemmas HdVerif.FramePaths

/-- for ANY pixel data: unpacking the minimal byte range of frame `i` and cutting at the bit offset gives bits
    `i*n .. (i+1)*n` of the unpacked pixel data -/
theorem extract_slice_nat (pd : List Nat) (n i : Nat) :
    pySlice (unpack (pySlice pd ((i * n) / 8) (((i + 1) * n + 7) / 8))) ((i * n) % 8) ((i * n) % 8 + n)
      = pySlice (unpack pd) (i * n) ((i + 1) * n) := by
  simp only [pySlice]
  rw [unpack_take, unpack_drop]
  have h4 : (i+1) * n = i * n + n := Nat.succ_mul i n
  generalize hA : i * n = A at *
  generalize hB : (i + 1) * n = B at *
  generalize hbits : unpack pd = bits at *
  have h1 : 8 * (A / 8) + A % 8 = A := Nat.div_add_mod A 8
  rw [List.drop_take, List.drop_drop, List.take_take, h1]
  have : min (A % 8 + n - A % 8) (8 * ((B + 7) / 8 - A / 8) - A % 8) = n := by omega
  rw [this]
  congr 1
  omega

theorem sliceBits_length (pd : List Nat) (N i : Nat) (h : (i + 1) * N ≤ 8 * pd.length) : (sliceBits pd N i).length = N := by
  unfold sliceBits pySlice
  have := unpack_length pd
  have h4 : (i+1) * N = i * N + N := Nat.succ_mul i N
  simp only [List.length_take, List.length_drop]
  omega

/-- **in-memory 1-bit frame of ARBITRARY pixel data = its slice of the unpacked bits** -/
theorem mem_frame_slice (pd : List Nat) (rows cols : Nat) (n i : Nat) (hi : i < n)
    (h : (i + 1) * (rows * cols) ≤ 8 * pd.length) :
    memFrameBits pd rows cols 1 n ((i : Int) + 1) false = .ok (sliceBits pd (rows * cols) i) := by
  have h1 : stdFrameIndex ((i : Int) + 1) false n = .ok (i : Int) := by
    rw [stdFrameIndex_ok_iff]; simp; omega
  unfold memFrameBits Skel.frameBits Skel.index
  simp only [singleSkel, singleStdArgs, singleRawArgs, singleDecodeIndex, bind, Except.bind]
  rw [h1]
  simp only []
  unfold memRaw decodeBits
  simp only [bind, Except.bind]
  rw [rawFrameRange_bit (i : Int) ((rows * cols : Nat) : Int) rows cols (by push_cast; rfl) (by omega)]
  simp only [bitSlice_eq]
  have ea : ((i : Int) * ((rows * cols : Nat) : Int)) / 8 = ((i * (rows * cols) / 8 : Nat) : Int) := by
    push_cast; rfl
  have eb : (((i : Int) + 1) * ((rows * cols : Nat) : Int) + 7) / 8 = (((i + 1) * (rows * cols) + 7) / 8 : Nat) := by
    push_cast; rfl
  have ec : ((i : Int) * ((rows : Int) * (cols : Int) * 1)) % 8 = ((i * (rows * cols) % 8 : Nat) : Int) := by
    push_cast; simp
  have ed : ((i * (rows * cols) % 8 : Nat) : Int) + (rows : Int) * (cols : Int) * 1
      = ((i * (rows * cols) % 8 + rows * cols : Nat) : Int) := by
    push_cast; simp
  rw [ea, eb, slice_nat]
  simp only [ec]
  simp only [ed, slice_nat]
  rw [extract_slice_nat pd (rows * cols) i]
  have hl := sliceBits_length pd (rows * cols) i h
  unfold sliceBits at hl
  have : (((pySlice (unpack pd) (i * (rows * cols)) ((i + 1) * (rows * cols))).length : Nat) : Int) = (rows : Int) * (cols : Int) := by
    rw [hl]; push_cast; rfl
  simp [this, sliceBits]

/-- whenever the in-memory path answers a 1-bit frame, the lazy path (offset table entry, read length, guard) answers
    the same - for arbitrary pixel data -/
theorem lazy_of_mem (pd : List Nat) (rows cols : Nat) (hn : 0 < rows * cols) (n i : Nat) (hi : i < n) (x : List Bool)
    (hm : memFrameBits pd rows cols 1 n ((i : Int) + 1) false = .ok x) :
    lazyFrameBits pd rows cols 1 n ((i : Int) + 1) false = .ok x := by
  have h1 : stdFrameIndex ((i : Int) + 1) false n = .ok (i : Int) := by
    rw [stdFrameIndex_ok_iff]; simp; omega
  have h2 : lazyIndexGuard (i : Int) n = .ok (i : Int) := by
    rw [lazyIndexGuard_ok_iff]; omega
  unfold memFrameBits Skel.frameBits Skel.index at hm
  simp only [singleSkel, singleStdArgs, singleRawArgs, singleDecodeIndex, bind, Except.bind] at hm
  rw [h1] at hm
  simp only [] at hm
  unfold memRaw at hm
  simp only [bind, Except.bind] at hm
  rw [rawFrameRange_bit (i : Int) ((rows * cols : Nat) : Int) rows cols (by push_cast; rfl) (by omega)] at hm
  dsimp only at hm
  unfold lazyFrameBits Skel.frameBits Skel.index
  simp only [singleSkel, singleStdArgs, singleRawArgs, singleDecodeIndex, bind, Except.bind]
  rw [h1]
  simp only []
  unfold lazyRaw
  simp only [bind, Except.bind, h2]
  have hb : lazyBytesPerFrame ((rows : Int) * cols * 1) 1 "MONOCHROME2" rows cols
      = .ok (Int.fdiv ((rows : Int) * cols * 1) 8 + (if (decide (Int.fmod ((rows : Int) * cols * 1) 8 > 0)) then 1 else 0)) := by
    unfold lazyBytesPerFrame; simp
  rw [hb]
  simp only [↓reduceIte, lazyOffsetBit_eq]
  unfold lazyReadLength
  simp only [fdiv_pos _ 8 (by omega), show ((1:Int) == 1) = true by decide, ↓reduceIte]
  have e1 : (i : Int) * ((rows : Int) * cols * 1) = (i : Int) * ((rows * cols : Nat) : Int) := by push_cast; ring
  have e2 : ((i : Int) + 1) * ((rows : Int) * cols * 1) = ((i : Int) + 1) * ((rows * cols : Nat) : Int) := by push_cast; ring
  rw [e1, e2]
  have e3 : ∀ a b : Int, a + (b - a) = b := by intros; omega
  rw [e3]
  cases hs : slice pd ((i : Int) * ((rows * cols : Nat) : Int) / 8)
      ((((i : Int) + 1) * ((rows * cols : Nat) : Int) + 7) / 8) with
  | error e => rw [hs] at hm; simp at hm
  | ok raw =>
    rw [hs] at hm
    simp only at hm ⊢
    by_cases hz : raw.length = 0
    · exfalso
      have : raw = [] := List.length_eq_zero_iff.mp hz
      subst this
      unfold decodeBits at hm
      simp only [bitSlice_eq, bind, Except.bind, unpack, List.flatMap_nil] at hm
      unfold slice pySlice at hm
      split at hm
      · simp at hm
      · rename_i v heq
        have hv : v = [] := by
          split at heq
          · simp at heq
          · simp at heq; exact heq
        subst hv
        split at hm
        · rename_i hc
          have : (0 : Int) < (rows : Int) * (cols : Int) := by exact_mod_cast hn
          simp only [List.length_nil, Int.natCast_zero] at hc; omega
        · simp at hm
    · simp only [hz, ↓reduceIte]; exact hm

/-- an index that `_standardize_frame_index` returned is accepted again as the 1-based number `idx + 1` -/
theorem std_again (k n idx : Int) (ai : Bool) (h : stdFrameIndex k ai n = .ok idx) :
    stdFrameIndex (idx + 1) false n = .ok idx ∧ 0 ≤ idx ∧ idx < n := by
  obtain ⟨h0, h1, _⟩ := (stdFrameIndex_ok_iff k n ai idx).mp h
  refine ⟨?_, h0, h1⟩
  rw [stdFrameIndex_ok_iff]; simp; omega

/-- **`get_frames` fetches a frame exactly as `get_stored_frame` does** (raw bytes and decode index), in memory and
    lazily, for every image, number and convention -/
theorem getFramesFetch_eq (lazy : Bool) (m l : Int → Except ErrKind (List Nat)) (n k : Int) (ai : Bool) :
    getFramesFetch lazy m l n k ai = Skel.fetch singleSkel lazy m l n k ai := by
  unfold getFramesFetch Skel.fetch Skel.index LoopSkel.fetch
  simp only [singleSkel, framesSkel, singleStdArgs, singleRawArgs, singleDecodeIndex, framesLazyArg, framesRawArgs,
    framesDecodeIndex, rawLazyArg, bind, Except.bind, pure, Except.pure]
  cases h : stdFrameIndex k ai n with
  | error e => rfl
  | ok idx =>
    obtain ⟨h2, _, _⟩ := std_again k n idx ai h
    simp only [h2]

/-- **the loop behind `get_volume` / `get_total_pixel_matrix` fetches frame_index `idx` as `get_stored_frame(idx + 1)`** -/
theorem pixelsFetch_eq (lazy : Bool) (m l : Int → Except ErrKind (List Nat)) (n idx : Int) (h0 : 0 ≤ idx) (h1 : idx < n) :
    pixelsSkel.fetch lazy m l n idx = Skel.fetch singleSkel lazy m l n (idx + 1) false := by
  have h : stdFrameIndex (idx + 1) false n = .ok idx := by
    rw [stdFrameIndex_ok_iff]; simp; omega
  unfold Skel.fetch Skel.index LoopSkel.fetch
  simp only [singleSkel, pixelsSkel, singleStdArgs, singleRawArgs, singleDecodeIndex, pixelsLazyArg, pixelsRawArgs,
    pixelsDecodeIndex, rawLazyArg, bind, Except.bind, pure, Except.pure, h]

/-- outside the image the loop's own fetch is refused as well (`get_raw_frame` / the reader's guard) -/
theorem pixelsFetch_refused (lazy : Bool) (pd : List Nat) (rows cols samples bits n idx : Int) (pi : String)
    (h : idx < 0 ∨ n ≤ idx) :
    ∃ e, pixelsSkel.fetch lazy (memRaw pd rows cols samples bits pi) (lazyRaw pd rows cols samples bits n pi) n idx = .error e := by
  unfold LoopSkel.fetch
  simp only [pixelsSkel, pixelsLazyArg, pixelsRawArgs, bind, Except.bind]
  cases lazy
  · have : stdFrameIndex (idx + 1) false n = .error .index := by
      unfold stdFrameIndex; grind (splits := 40)
    simp [this]
  · have : lazyIndexGuard idx n = .error .value := by
      unfold lazyIndexGuard; grind (splits := 40)
    simp [lazyRaw, this, bind, Except.bind]

/-- the cached branch of the loops hands out the same element as the cached branch of `get_stored_frame` -/
theorem loopCached_eq {α} (sk : LoopSkel) (hsk : sk = framesSkel ∨ sk = pixelsSkel) (frames : List α) (whole : α)
    (k : Int) (ai : Bool) :
    (do let idx ← stdFrameIndex k ai frames.length; sk.cached frames whole idx) = singleSkel.cached frames whole k ai := by
  unfold Skel.cached Skel.index LoopSkel.cached
  rcases hsk with rfl | rfl
  all_goals
    simp only [singleSkel, framesSkel, pixelsSkel, singleStdArgs, singleCacheIndex, framesCacheIndex, pixelsCacheIndex,
      bind, Except.bind, pure, Except.pure]
    cases h : stdFrameIndex k ai frames.length with
    | error e => rfl
    | ok idx =>
      obtain ⟨_, h0, h1⟩ := std_again k _ idx ai h
      simp only []
      by_cases hn : (frames.length : Int) = 1
      · have : idx = 0 := by omega
        subst this
        simp [hn, framesSingleGuard, pixelsSingleGuard]
      · simp [hn]

/-- `mapM` answers `out` when every element is answered with the element of `out` at its position -/
theorem mapM_of_pointwise {α β} (f : α → Except ErrKind β) (l : List α) (out : List β) (hl : out.length = l.length)
    (h : ∀ j (hj : j < l.length), f l[j] = .ok (out[j]'(by omega))) : l.mapM f = .ok out := by
  induction l generalizing out with
  | nil =>
    have : out = [] := List.length_eq_zero_iff.mp (by simpa using hl)
    subst this; rfl
  | cons a l ih =>
    cases out with
    | nil => simp at hl
    | cons b out =>
      rw [List.mapM_cons]
      have h0 := h 0 (by simp)
      simp only [List.getElem_cons_zero] at h0
      have ih' := ih out (by simpa using hl) (fun j hj => by
        have := h (j + 1) (by simp; omega)
        simpa using this)
      simp [bind, Except.bind, h0, ih', pure, Except.pure]

/-- **the whole array of a lazily read 1-bit image (first `pixel_array` access) is the list of all slices** -/
theorem lazyWhole_slices (pd : List Nat) (rows cols : Nat) (hN : 0 < rows * cols) (n : Nat) (hn : 0 < n)
    (h : n * (rows * cols) ≤ 8 * pd.length) :
    lazyWholeBits pd rows cols 1 n = .ok ((List.range n).map (sliceBits pd (rows * cols))) := by
  have hall : ∀ i, i < n → lazyFrameBits pd rows cols 1 n ((i : Int) + 1) false = .ok (sliceBits pd (rows * cols) i) := by
    intro i hi
    apply lazy_of_mem pd rows cols hN n i hi
    apply mem_frame_slice pd rows cols n i hi
    have : (i + 1) * (rows * cols) ≤ n * (rows * cols) := Nat.mul_le_mul_right _ hi
    omega
  unfold lazyWholeBits
  by_cases h1 : (n : Int) = 1
  · have hn1 : n = 1 := by omega
    subst hn1
    have := hall 0 (by omega)
    simp only [Int.natCast_zero, Int.zero_add, Nat.cast_one] at this
    simp only [Nat.cast_one, ↓reduceIte, pixelArrayLazySingleNumber, bind, Except.bind, pure, Except.pure, this]
    rfl
  · simp only [h1, ↓reduceIte, batchDefaultRange, Bool.false_eq_true, Bool.not_false, bind, Except.bind]
    have hb : ∀ k : Int, batchSkel.frameBits (lazyRaw pd rows cols 1 1 n "MONOCHROME2") rows cols 1 n k false
        = lazyFrameBits pd rows cols 1 n k false := by
      intro k
      unfold lazyFrameBits Skel.frameBits Skel.index
      simp only [batchSkel, singleSkel, batchStdArgs, singleStdArgs, batchRawArgs, singleRawArgs, batchDecodeIndex, singleDecodeIndex]
    simp only [hb]
    have hr : pyRange 1 ((n : Int) + 1) = (List.range n).map (fun (i : Nat) => (i : Int) + 1) := by
      unfold pyRange
      have : ((n : Int) + 1 - 1).toNat = n := by omega
      rw [this]
      apply List.map_congr_left
      intro a _; omega
    rw [hr]
    rw [mapM_of_pointwise _ _ ((List.range n).map (sliceBits pd (rows * cols))) (by simp)
      (by intro j hj; simp at hj; simp [hall j hj])]
    have : ((List.range n).map (sliceBits pd (rows * cols))).isEmpty = false := by
      cases n with
      | zero => omega
      | succ m => simp [List.range_succ]
    simp [this]

/-! ### histories -/

/-- the cached array, if any, is the decode of the pixel data it remembers -/
def Inv {α} (all : List Nat → Except ErrKind (List α)) (s : Img α) : Prop :=
  ∀ src fr, s.cache = some (src, fr) → all src = .ok fr

theorem revalidate_spec {α} (all : List Nat → Except ErrKind (List α)) (s : Img α) (hinv : Inv all s) :
    (∀ e, all s.pd = .error e → revalidate all s = .error e) ∧
    (∀ fr, all s.pd = .ok fr → ∃ s', revalidate all s = .ok (s', fr) ∧ s'.pd = s.pd ∧ Inv all s') := by
  constructor
  · intro e he
    unfold revalidate
    cases hc : s.cache with
    | none => simp [he]
    | some p =>
      obtain ⟨src, fr⟩ := p
      by_cases h : src = s.pd
      · have := hinv src fr hc; rw [h, he] at this; cases this
      · simp [h, he]
  · intro fr hfr
    unfold revalidate
    cases hc : s.cache with
    | none =>
      refine ⟨{ s with cache := some (s.pd, fr) }, by simp [hfr], rfl, ?_⟩
      intro src fr' h; simp at h; obtain ⟨rfl, rfl⟩ := h; exact hfr
    | some p =>
      obtain ⟨src, fr0⟩ := p
      by_cases h : src = s.pd
      · have h0 := hinv src fr0 hc
        rw [h, hfr] at h0
        injection h0 with h0
        subst h0
        exact ⟨s, by simp [h], rfl, hinv⟩
      · refine ⟨{ s with cache := some (s.pd, fr) }, by simp [h, hfr], rfl, ?_⟩
        intro src' fr' h'; simp at h'; obtain ⟨rfl, rfl⟩ := h'; exact hfr

theorem revalidate_inv {α} (all : List Nat → Except ErrKind (List α)) (s s' : Img α) (fr : List α) (hinv : Inv all s)
    (h : revalidate all s = .ok (s', fr)) : Inv all s' ∧ s'.pd = s.pd ∧ all s.pd = .ok fr := by
  cases ha : all s.pd with
  | error e => rw [(revalidate_spec all s hinv).1 e ha] at h; cases h
  | ok fr' =>
    obtain ⟨s2, h2, hpd, hi⟩ := (revalidate_spec all s hinv).2 fr' ha
    rw [h2] at h
    injection h with h
    have h3 : s2 = s' := congrArg Prod.fst h
    have h4 : fr' = fr := congrArg Prod.snd h
    subst h3 h4
    exact ⟨hi, hpd, rfl⟩

theorem fetchStep_inv {α} (one : List Nat → Int → Bool → Except ErrKind α) (all : List Nat → Except ErrKind (List α)) (n : Int)
    (sk : Skel) (s : Img α) (k : Int) (ai : Bool) (hinv : Inv all s) :
    Inv all (fetchStep one all n sk s k ai).1 ∧ (fetchStep one all n sk s k ai).1.pd = s.pd := by
  unfold fetchStep
  cases hc : s.cache with
  | none => exact ⟨hinv, rfl⟩
  | some p =>
    simp only []
    cases sk.index n k ai with
    | error e => exact ⟨hinv, rfl⟩
    | ok idx =>
      simp only []
      cases hr : revalidate all s with
      | error e => exact ⟨hinv, rfl⟩
      | ok r =>
        obtain ⟨s', fr⟩ := r
        obtain ⟨hi, hpd, _⟩ := revalidate_inv all s s' fr hinv hr
        cases fr <;> exact ⟨hi, hpd⟩

/-- **the cache invariant survives every operation** (fetch single / batch, refused fetch, whole array, PixelData replaced) -/
theorem step_inv {α} (one : List Nat → Int → Bool → Except ErrKind α) (all : List Nat → Except ErrKind (List α)) (n : Int)
    (s : Img α) (op : Op) (hinv : Inv all s) : Inv all (step one all n s op) := by
  cases op with
  | fetch k ai => exact (fetchStep_inv one all n singleSkel s k ai hinv).1
  | fetchVia b k ai => exact (fetchStep_inv one all n _ s k ai hinv).1
  | whole =>
    unfold step
    cases hr : revalidate all s with
    | error e => exact hinv
    | ok r => obtain ⟨s', fr⟩ := r; exact (revalidate_inv all s s' fr hinv hr).1
  | replace pd => intro src fr h; exact hinv src fr h
  | scribble i =>
    -- the caller's write cannot reach the cache: the cached branches hand out copies (regenerated constants)
    have : step one all n s (.scribble i) = s := by simp [step, singleCachedIsCopy, batchCachedIsCopy]
    rw [this]; exact hinv

theorem run_inv {α} (one : List Nat → Int → Bool → Except ErrKind α) (all : List Nat → Except ErrKind (List α)) (n : Int)
    (s : Img α) (ops : List Op) (hinv : Inv all s) : Inv all (run one all n s ops) := by
  induction ops generalizing s with
  | nil => exact hinv
  | cons op ops ih => exact ih _ (step_inv one all n s op hinv)

/-- nothing but a replacement changes the pixel data the object holds -/
theorem step_pd {α} (one : List Nat → Int → Bool → Except ErrKind α) (all : List Nat → Except ErrKind (List α)) (n : Int)
    (s : Img α) (op : Op) (hinv : Inv all s) (hop : ∀ q, op ≠ .replace q) : (step one all n s op).pd = s.pd := by
  cases op with
  | fetch k ai => exact (fetchStep_inv one all n singleSkel s k ai hinv).2
  | fetchVia b k ai => exact (fetchStep_inv one all n _ s k ai hinv).2
  | whole =>
    unfold step
    cases hr : revalidate all s with
    | error e => rfl
    | ok r => obtain ⟨s', fr⟩ := r; exact (revalidate_inv all s s' fr hinv hr).2.1
  | replace q => exact absurd rfl (hop q)
  | scribble i => simp [step, singleCachedIsCopy, batchCachedIsCopy]

theorem run_pd {α} (one : List Nat → Int → Bool → Except ErrKind α) (all : List Nat → Except ErrKind (List α)) (n : Int)
    (s : Img α) (ops : List Op) (hinv : Inv all s) (hop : ∀ op ∈ ops, ∀ q, op ≠ .replace q) : (run one all n s ops).pd = s.pd := by
  induction ops generalizing s with
  | nil => rfl
  | cons op ops ih =>
    have h1 := step_pd one all n s op hinv (hop op (by simp))
    have h2 := ih (step one all n s op) (step_inv one all n s op hinv) (fun o ho => hop o (by simp [ho]))
    simp only [run, List.foldl_cons] at h2 ⊢
    rw [h2, h1]

/-! ### the reader behind a lazily read image -/

theorem rrun_append (sc : Bool) (s : RState) (a b : List ROp) :
    rrun sc s (a ++ b) = ((rrun sc (rrun sc s a).1 b).1, (rrun sc s a).2 ++ (rrun sc (rrun sc s a).1 b).2) := by
  induction a generalizing s with
  | nil => simp [rrun]
  | cons op ops ih => simp [rrun, ih, List.append_assoc]

/-- a nested single read leaves a reader that is entered once as it was, and finds the file open -/
theorem nested_single (sc : Bool) : rrun sc ⟨1, true⟩ singleOps = (⟨1, true⟩, [true]) := by
  cases sc <;> decide

theorem nested_reads (sc : Bool) (k : Nat) (via : Bool) :
    rrun sc ⟨1, true⟩ (List.replicate k (if via then singleOps else [.read])).flatten = (⟨1, true⟩, List.replicate k true) := by
  induction k with
  | zero => rfl
  | succ k ih =>
    rw [List.replicate_succ, List.flatten_cons, rrun_append]
    have h1 : rrun sc ⟨1, true⟩ (if via then singleOps else [.read]) = (⟨1, true⟩, [true]) := by
      cases via
      · cases sc <;> decide
      · exact nested_single sc
    rw [h1, ih]
    simp [List.replicate_succ]

/-- one call of a method of a lazily read image: from the rest state back to the rest state, every read with the file open -/
theorem call_from_rest (sc : Bool) (c : LazyCall) :
    rrun sc (restState sc) c.ops = (restState sc, List.replicate c.reads true) := by
  cases c with
  | single => cases sc <;> decide
  | batch k via =>
    have henter : rstep sc (restState sc) .enter = (⟨1, true⟩, []) := by cases sc <;> decide
    have hexit : rrun sc ⟨1, true⟩ [.exit] = (restState sc, []) := by cases sc <;> decide
    simp only [LazyCall.ops, LazyCall.reads]
    show rrun sc (restState sc) (ROp.enter :: ((List.replicate k (if via then singleOps else [.read])).flatten ++ [.exit])) = _
    rw [rrun]
    simp only [henter, List.nil_append]
    rw [rrun_append, nested_reads, hexit]
    simp

theorem runCalls_spec (sc : Bool) (calls : List LazyCall) :
    runCalls sc calls = (restState sc, List.replicate (calls.map LazyCall.reads).sum true) := by
  unfold runCalls
  induction calls with
  | nil => rfl
  | cons c cs ih =>
    rw [List.map_cons, List.flatten_cons, rrun_append, call_from_rest, ih]
    simp [List.replicate_append_replicate]

end HdVerif.FramePathsLemmas
