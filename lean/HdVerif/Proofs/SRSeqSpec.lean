import HdVerif.Proofs.SRContentSeq
import HdVerif.Model.SRSeqSpec
/-! Refinement of the list machine `Model/SRSeqSpec.lean` by the model of `ContentSequence` (C14). -/
namespace HdVerif.SRSeqSpecLemmas
open HdVerif HdVerif.SRContentSeq HdVerif.SRContentSeqLemmas HdVerif.SRSeqSpec

theorem ruleOk_iff (r sr : Bool) (it : Item) : ruleOk r sr it = true ↔ relOk r sr it := by
  unfold ruleOk relOk
  cases r <;> cases sr <;> cases it.rel <;> simp

theorem ruleOk_false_iff (r sr : Bool) (it : Item) : ruleOk r sr it = false ↔ ¬ relOk r sr it := by
  rw [← ruleOk_iff]; simp

theorem all_ruleOk_iff (r sr : Bool) (xs : List Item) : xs.all (ruleOk r sr) = true ↔ ∀ x ∈ xs, relOk r sr x := by
  rw [List.all_eq_true]
  exact ⟨fun h x hx => (ruleOk_iff r sr x).mp (h x hx), fun h x hx => (ruleOk_iff r sr x).mpr (h x hx)⟩

/-- `extend`, accepted or stopped half-way, is the list machine's `specExtend` -/
theorem extend_spec {s : Seq} (h : WF s) (xs : List Item) :
    ((extend s xs).1.items, (extend s xs).2) = specExtend s.isRoot s.isSr s.items xs := by
  induction xs generalizing s with
  | nil => simp [extend, specExtend]
  | cons x xs ih =>
    cases hx : ruleOk s.isRoot s.isSr x with
    | true =>
      have hr := (ruleOk_iff _ _ _).mp hx
      have ha := append_accepts h x hr
      have hw := append_wf h x
      rw [ha] at hw
      have := ih hw.1
      unfold extend
      rw [ha]
      simp only at this ⊢
      rw [this]
      simp [specExtend, hx]
    | false =>
      have hr := (ruleOk_false_iff _ _ _).mp hx
      unfold extend
      rw [append_refuses h x hr]
      simp [specExtend, hx]

theorem checkAll_setitem_err {s : Seq} {xs : List Item} {e : ErrKind} (h : checkAll (setitemCheck s) xs = .error e) :
    e = .attribute := by
  induction xs with
  | nil => simp [checkAll] at h
  | cons x xs ih =>
    unfold checkAll at h
    cases hc : setitemCheck s x with
    | error e' =>
      rw [hc] at h
      simp only [Except.error.injEq] at h
      subst h
      exact setitemCheck_err x e' hc
    | ok u => rw [hc] at h; exact ih h

theorem checkAll_setitem_all {s : Seq} (hf : FlagsOk s) (xs : List Item) :
    (∃ u, checkAll (setitemCheck s) xs = .ok u) ↔ xs.all (ruleOk s.isRoot s.isSr) = true := by
  rw [all_ruleOk_iff]
  constructor
  · rintro ⟨u, hu⟩ x hx
    cases u
    exact (setitemCheck_ok_iff hf x).mp (checkAll_ok.mp hu x hx)
  · intro hx
    exact ⟨(), checkAll_ok.mpr (fun x hm => (setitemCheck_ok_iff hf x).mpr (hx x hm))⟩

/-- the `is_item = false` arm of the four regenerated decision trees: TypeError whatever the flags -/
theorem other_refused (r sr b : Bool) :
    otherRefusal (Gen.csAppendCheck r sr false b) = some .type ∧
    otherRefusal (Gen.csInsertCheck r sr false b) = some .type ∧
    otherRefusal (Gen.csSetitemCheck r sr false b) = some .type ∧
    (∀ c, Gen.csCtorCheck r sr false b c = .error .type) := by
  cases r <;> cases sr <;> cases b <;> refine ⟨rfl, rfl, rfl, fun c => ?_⟩ <;> cases c <;> rfl

/-- **One step of the model is one step of the list machine** (well-formed state: index consistent, rule obeyed) -/
theorem step_refines {s : Seq} (h : WF s) (op : Op) :
    SpecStep s.isRoot s.isSr s.items op (step s op).1.items (step s op).2 := by
  cases op with
  | append x =>
    apply SpecStep.det
    simp only [step, specFn]
    cases hx : ruleOk s.isRoot s.isSr x with
    | true => rw [append_accepts h x ((ruleOk_iff _ _ _).mp hx)]; simp
    | false => rw [append_refuses h x ((ruleOk_false_iff _ _ _).mp hx)]; simp
  | extend xs =>
    apply SpecStep.det
    simp only [step, specFn]
    rw [← extend_spec h xs]
  | iadd xs =>
    apply SpecStep.det
    simp only [step, specFn]
    rw [← extend_spec h xs]
  | extendSelf =>
    apply SpecStep.det
    simp only [step, specFn]
    rw [← extend_spec h s.items]
  | insert pos x =>
    apply SpecStep.det
    simp only [step, specFn]
    cases hx : ruleOk s.isRoot s.isSr x with
    | true =>
      have := insert_accepts s pos x ((ruleOk_iff _ _ _).mp hx)
      simp only [if_true]
      rw [← this.2, ← this.1]
    | false => rw [insert_refuses s pos x ((ruleOk_false_iff _ _ _).mp hx)]; simp
  | insertBad x =>
    apply SpecStep.det
    simp only [step, specFn, insertBad]
    cases hx : ruleOk s.isRoot s.isSr x with
    | true => rw [(insertCheck_ok_iff s x).mpr ((ruleOk_iff _ _ _).mp hx)]; simp
    | false =>
      cases hc : insertCheck s x with
      | error e => rw [insertCheck_err x e hc]; simp
      | ok u => exact absurd ((insertCheck_ok_iff s x).mp hc) ((ruleOk_false_iff _ _ _).mp hx)
  | setItem i x =>
    apply SpecStep.det
    simp only [step, specFn]
    cases hx : ruleOk s.isRoot s.isSr x with
    | true =>
      have hr := (ruleOk_iff _ _ _).mp hx
      cases hk : normIdx s.items.length i with
      | ok k =>
        obtain ⟨s', h1, h2, _, _⟩ := setItem_accepts h i x k hr hk
        rw [h1]; simp [h2]
      | error e =>
        unfold setItem
        rw [(setitemCheck_ok_iff h.flags x).mpr hr, hk]; simp
    | false => rw [setItem_refuses h i x ((ruleOk_false_iff _ _ _).mp hx)]; simp
  | setSlice a b c xs =>
    apply SpecStep.det
    simp only [step, specFn]
    cases hx : xs.all (ruleOk s.isRoot s.isSr) with
    | true =>
      have hr := (all_ruleOk_iff _ _ _).mp hx
      obtain ⟨u, hu⟩ := (checkAll_setitem_all h.flags xs).mpr hx
      cases hsel : resolveSlice s.items.length a b c with
      | error e => unfold setSlice; simp [hu, hsel]
      | ok sel =>
        cases hset : setSel s.items xs sel with
        | error e => unfold setSlice; simp [hu, hsel, hset]
        | ok l' =>
          obtain ⟨s', h1, h2, _, _⟩ := setSlice_accepts h a b c xs sel l' hr hsel hset
          rw [h1]; simp [h2, hset]
    | false =>
      cases hc : checkAll (setitemCheck s) xs with
      | error e =>
        unfold setSlice
        rw [hc, checkAll_setitem_err hc]; simp
      | ok u =>
        have := (checkAll_setitem_all h.flags xs).mp ⟨u, hc⟩
        rw [hx] at this; cases this
  | delItem i =>
    apply SpecStep.det
    simp only [step, specFn]
    cases hk : normIdx s.items.length i with
    | ok k =>
      obtain ⟨s', h1, h2, _, _⟩ := delItem_accepts h i k hk
      rw [h1]; simp [h2]
    | error e => unfold delItem; rw [hk]
  | delSlice a b c =>
    apply SpecStep.det
    simp only [step, specFn]
    cases hsel : resolveSlice s.items.length a b c with
    | ok sel =>
      obtain ⟨s', h1, h2, _, _⟩ := delSlice_accepts h a b c sel hsel
      rw [h1]; simp [h2]
    | error e => unfold delSlice; rw [hsel]
  | pop i =>
    apply SpecStep.det
    simp only [step, specFn, pop]
    cases hk : normIdx s.items.length (i.getD (-1)) with
    | ok k =>
      obtain ⟨s', h1, h2, _, _⟩ := delItem_accepts h (i.getD (-1)) k hk
      rw [h1]; simp [h2]
    | error e => unfold delItem; rw [hk]
  | remove x =>
    apply SpecStep.det
    simp only [step, specFn]
    cases hx : s.items.any (fun y => y.eqv x) with
    | true =>
      obtain ⟨s', h1, h2, _⟩ := remove_spec h x hx
      rw [h1]; simp [h2]
    | false =>
      have hi := index_spec h.inv x
      rw [hx] at hi
      unfold remove
      rw [hi]; simp
  | reverse =>
    apply SpecStep.det
    simp only [step, specFn]
    obtain ⟨s', h1, h2, _⟩ := reverse_spec h
    rw [h1]; simp [h2]
  | clear =>
    apply SpecStep.det
    simp only [step, specFn]
    obtain ⟨s', h1, h2, _⟩ := clear_spec h
    rw [h1]; simp [h2]
  | intoFind n =>
    obtain ⟨r, h1, _, h3, _, _⟩ := find_spec h n
    simp only [step, h1, intoRes]
    exact SpecStep.find h3
  | intoNodes =>
    apply SpecStep.det
    obtain ⟨r, h1, h2, _, _⟩ := getNodes_spec h
    simp only [step, specFn, h1, intoRes, h2]
  | appendOther =>
    apply SpecStep.det
    simp only [step, specFn, appendOther, (other_refused s.isRoot s.isSr false).1]
  | extendOther pre =>
    apply SpecStep.det
    simp only [step, specFn, extendOther]
    have he := extend_spec h pre
    have hw := extend_wf h pre
    cases hs : extend s pre with
    | mk s1 e =>
      rw [hs] at he hw
      simp only at he
      rw [← he]
      cases e with
      | none => simp [appendOther, (other_refused s1.isRoot s1.isSr false).1]
      | some e => simp
  | insertOther =>
    apply SpecStep.det
    simp only [step, specFn, insertOther, (other_refused s.isRoot s.isSr false).2.1]
  | setOther pre =>
    apply SpecStep.det
    simp only [step, specFn, setOther]
    cases hx : pre.all (ruleOk s.isRoot s.isSr) with
    | true =>
      obtain ⟨u, hu⟩ := (checkAll_setitem_all h.flags pre).mpr hx
      rw [hu]; simp [(other_refused s.isRoot s.isSr false).2.2.1]
    | false =>
      cases hc : checkAll (setitemCheck s) pre with
      | error e => rw [checkAll_setitem_err hc]; simp
      | ok u =>
        have := (checkAll_setitem_all h.flags pre).mp ⟨u, hc⟩
        rw [hx] at this; cases this

/-- **Whole histories**: the list after any history is a list the specification machine can reach by the same
history (induction over the history; flags never change) -/
theorem run_refines {s : Seq} (h : WF s) (ops : List Op) :
    SpecRun s.isRoot s.isSr s.items ops (run s ops).items := by
  induction ops generalizing s with
  | nil => exact SpecRun.nil
  | cons op ops ih =>
    have h1 := step_wf h op
    have h2 := ih h1.1
    rw [h1.2.1, h1.2.2] at h2
    exact SpecRun.cons (step_refines h op) h2

/-- the operations that may leave a partial effect when refused: the `extend` family (items before the offender stay) -/
def partialOk : Op → Bool
  | .extend _ => true
  | .iadd _ => true
  | .extendSelf => true
  | .extendOther _ => true
  | _ => false

/-- **No partial update**: every other operation, when refused on a well-formed sequence, leaves list AND index
exactly as they were -/
theorem refused_leaves_state {s : Seq} (h : WF s) (op : Op) (hop : partialOk op = false)
    (he : (step s op).2 ≠ none) : (step s op).1 = s := by
  cases op with
  | append x =>
    by_cases hr : relOk s.isRoot s.isSr x
    · simp only [step, append_accepts h x hr] at he; exact absurd rfl he
    · simp only [step, append_refuses h x hr]
  | extend xs => cases hop
  | iadd xs => cases hop
  | extendSelf => cases hop
  | extendOther pre => cases hop
  | insert pos x =>
    by_cases hr : relOk s.isRoot s.isSr x
    · simp only [step] at he; exact absurd (insert_accepts s pos x hr).1 he
    · simp only [step, insert_refuses s pos x hr]
  | insertBad x =>
    simp only [step, insertBad]
    cases insertCheck s x <;> rfl
  | setItem i x =>
    by_cases hr : relOk s.isRoot s.isSr x
    · cases hk : normIdx s.items.length i with
      | ok k =>
        obtain ⟨s', h1, _⟩ := setItem_accepts h i x k hr hk
        simp only [step, h1] at he; exact absurd rfl he
      | error e =>
        simp only [step, setItem, (setitemCheck_ok_iff h.flags x).mpr hr, hk]
    · simp only [step, setItem_refuses h i x hr]
  | setSlice a b c xs =>
    simp only [step] at he ⊢
    cases hc : checkAll (setitemCheck s) xs with
    | error e => unfold setSlice; rw [hc]
    | ok u =>
      cases hsel : resolveSlice s.items.length a b c with
      | error e => unfold setSlice; rw [hc, hsel]
      | ok sel =>
        cases hset : setSel s.items xs sel with
        | error e => unfold setSlice; simp only [hc, hsel, hset]
        | ok l' =>
          obtain ⟨s', h1, _⟩ := setSlice_accepts h a b c xs sel l'
            (fun x hx => (setitemCheck_ok_iff h.flags x).mp (checkAll_ok.mp hc x hx)) hsel hset
          rw [h1] at he; exact absurd rfl he
  | delItem i =>
    simp only [step] at he ⊢
    cases hk : normIdx s.items.length i with
    | ok k =>
      obtain ⟨s', h1, _⟩ := delItem_accepts h i k hk
      rw [h1] at he; exact absurd rfl he
    | error e => unfold delItem; rw [hk]
  | delSlice a b c =>
    simp only [step] at he ⊢
    cases hsel : resolveSlice s.items.length a b c with
    | ok sel =>
      obtain ⟨s', h1, _⟩ := delSlice_accepts h a b c sel hsel
      rw [h1] at he; exact absurd rfl he
    | error e => unfold delSlice; rw [hsel]
  | pop i =>
    simp only [step, pop] at he ⊢
    cases hk : normIdx s.items.length (i.getD (-1)) with
    | ok k =>
      obtain ⟨s', h1, _⟩ := delItem_accepts h (i.getD (-1)) k hk
      rw [h1] at he; exact absurd rfl he
    | error e => unfold delItem; rw [hk]
  | remove x =>
    simp only [step] at he ⊢
    cases hx : s.items.any (fun y => y.eqv x) with
    | true =>
      obtain ⟨s', h1, _⟩ := remove_spec h x hx
      rw [h1] at he; exact absurd rfl he
    | false =>
      have hi := index_spec h.inv x
      rw [hx] at hi
      unfold remove
      rw [hi]; simp
  | reverse =>
    obtain ⟨s', h1, _⟩ := reverse_spec h
    simp only [step, h1] at he; exact absurd rfl he
  | clear =>
    obtain ⟨s', h1, _⟩ := clear_spec h
    simp only [step, h1] at he; exact absurd rfl he
  | intoFind n =>
    obtain ⟨r, h1, _⟩ := find_spec h n
    simp only [step, h1, intoRes] at he; exact absurd rfl he
  | intoNodes =>
    obtain ⟨r, h1, _⟩ := getNodes_spec h
    simp only [step, h1, intoRes] at he; exact absurd rfl he
  | appendOther => rfl
  | insertOther => rfl
  | setOther pre =>
    simp only [step, setOther]
    cases checkAll (setitemCheck s) pre <;> rfl

end HdVerif.SRSeqSpecLemmas
