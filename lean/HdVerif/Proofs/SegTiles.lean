import HdVerif.Proofs.SegFrames
/-! Helper lemmas for C01, part 3: masks given as a total pixel matrix (`tile_pixel_array=True`).  The tiles are gathered
from the matrix by position (`tileIdx`); the property's expectation is computed pixel by pixel, so it commutes with any
gathering that fills gaps with background. -/
namespace HdVerif.SegEncodeLemmas
open HdVerif HdVerif.Gen HdVerif.SegEncode

/-! ## positions in a list built as rows of equal length -/

theorem length_flatMap_range_map {β} (n m : Nat) (f : Nat → Nat → β) :
    ((List.range n).flatMap fun a => (List.range m).map (f a)).length = n * m := by
  induction n with
  | zero => simp
  | succ n ih =>
    rw [List.range_succ, List.flatMap_append, List.length_append, ih]
    simp [Nat.succ_mul]

theorem getElem?_flatMap_range_map {β} (n m : Nat) (f : Nat → Nat → β) (i j : Nat) (hi : i < n) (hj : j < m) :
    ((List.range n).flatMap fun a => (List.range m).map (f a))[i * m + j]? = some (f i j) := by
  induction n with
  | zero => omega
  | succ n ih =>
    rw [List.range_succ, List.flatMap_append]
    by_cases h : i < n
    · rw [List.getElem?_append_left]
      · exact ih h
      · rw [length_flatMap_range_map]
        calc i * m + j < i * m + m := by omega
          _ = (i + 1) * m := by rw [Nat.succ_mul]
          _ ≤ n * m := Nat.mul_le_mul_right m h
    · have hin : i = n := by omega
      subst hin
      rw [List.getElem?_append_right (by rw [length_flatMap_range_map]; omega), length_flatMap_range_map]
      simp [hj]

/-! ## the tile grid -/

theorem tileIdx_getElem? (R C tr tc k l a b : Nat) (ha : a < tr) (hb : b < tc) :
    (tileIdx R C tr tc k l)[a * tc + b]? =
      some (if k * tr + a < R ∧ l * tc + b < C then some ((k * tr + a) * C + (l * tc + b)) else none) := by
  unfold tileIdx
  exact getElem?_flatMap_range_map tr tc _ a b ha hb

theorem tilesOf_getElem? {α} (z : α) (R C tr tc : Nat) (px : List α) (k l : Nat) (hk : k < tilesAlong R tr)
    (hl : l < tilesAlong C tc) :
    (tilesOf z R C tr tc px)[k * tilesAlong C tc + l]? = some (gatherL z px (tileIdx R C tr tc k l)) := by
  unfold tilesOf
  exact getElem?_flatMap_range_map _ _ _ k l hk hl

theorem tilesOf_length {α} (z : α) (R C tr tc : Nat) (px : List α) :
    (tilesOf z R C tr tc px).length = tilesAlong R tr * tilesAlong C tc := by
  unfold tilesOf
  exact length_flatMap_range_map _ _ _

theorem div_lt_tilesAlong (n t r : Nat) (ht : 1 ≤ t) (hr : r < n) : r / t < tilesAlong n t := by
  unfold tilesAlong
  rw [Nat.div_lt_iff_lt_mul (by omega)]
  have h1 : (n + t - 1) / t * t + (n + t - 1) % t = n + t - 1 := Nat.div_add_mod' _ _
  have h2 : (n + t - 1) % t < t := Nat.mod_lt _ (by omega)
  omega

/-- the pixel at (r, c) of the matrix sits in tile (r / tr, c / tc) at (r % tr, c % tc) -/
theorem tileIdx_covers (R C tr tc r c : Nat) (htr : 1 ≤ tr) (htc : 1 ≤ tc) (hr : r < R) (hc : c < C) :
    (tileIdx R C tr tc (r / tr) (c / tc))[(r % tr) * tc + c % tc]? = some (some (r * C + c)) := by
  rw [tileIdx_getElem? R C tr tc _ _ _ _ (Nat.mod_lt _ (by omega)) (Nat.mod_lt _ (by omega))]
  have e1 : r / tr * tr + r % tr = r := Nat.div_add_mod' r tr
  have e2 : c / tc * tc + c % tc = c := Nat.div_add_mod' c tc
  rw [e1, e2]
  simp [hr, hc]

theorem gatherL_getElem? {α} (z : α) (px : List α) (idx : List (Option Nat)) (i : Nat) (o : Option Nat)
    (h : idx[i]? = some o) :
    (gatherL z px idx)[i]? = some (pick z px o) := by
  unfold gatherL
  rw [List.getElem?_map, h]
  rfl

/-! ## the expectation commutes with gathering -/

/-- a plane re-sampled by position, background where there is no position -/
def gatherPlane (idx : List (Option Nat)) : Plane → Plane
  | .intLabel px => .intLabel (gatherL 0 px idx)
  | .fltLabel px => .fltLabel (gatherL 0 px idx)
  | .intStack px => .intStack (gatherL (zeroLike 0 px) px idx)
  | .fltStack px => .fltStack (gatherL (zeroLike 0 px) px idx)

theorem pick_map {α β} (f : α → β) (z : α) (px : List α) (o : Option Nat) :
    pick (f z) (px.map f) o = f (pick z px o) := by
  cases o with
  | none => rfl
  | some i => simp [pick, List.getD_eq_getElem?_getD, List.getElem?_map]

theorem gatherL_map {α β} (f : α → β) (z : α) (z' : β) (hz : f z = z') (px : List α) (idx : List (Option Nat)) :
    (gatherL z px idx).map f = gatherL z' (px.map f) idx := by
  subst hz
  unfold gatherL
  rw [List.map_map]
  apply List.map_congr_left
  intro o _
  exact (pick_map f z px o).symm

theorem mapO_spec {α β} (f : α → Option β) (l : List α) (r : List β) (h : mapO f l = some r) :
    r.length = l.length ∧ ∀ i (hi : i < l.length) (hr : i < r.length), f l[i] = some r[i] := by
  induction l generalizing r with
  | nil => simp only [mapO, Option.some.injEq] at h; subst h; simp
  | cons a t ih =>
    simp only [mapO] at h
    cases hfa : f a with
    | none => rw [hfa] at h; simp at h
    | some b =>
      cases ht : mapO f t with
      | none => rw [hfa, ht] at h; simp at h
      | some bs =>
        rw [hfa, ht] at h
        simp only [Option.some.injEq] at h
        subst h
        obtain ⟨hl, hall⟩ := ih bs ht
        refine ⟨by simp [hl], ?_⟩
        intro i hi hr
        cases i with
        | zero => simpa using hfa
        | succ i => simpa using hall i (by simpa using hi) (by simpa using hr)

theorem mapO_map_of {α β γ} (f : β → Option γ) (g : α → β) (h : α → γ) (l : List α) (hfg : ∀ a ∈ l, f (g a) = some (h a)) :
    mapO f (l.map g) = some (l.map h) := by
  induction l with
  | nil => rfl
  | cons a t ih =>
    simp only [List.map_cons, mapO, hfg a (by simp), ih (fun b hb => hfg b (List.mem_cons_of_mem _ hb))]

/-- channel `j` of a gathered stack is the gathered channel `j` -/
theorem chanO_gather {α} (z0 : α) (j : Nat) (px : List (List α)) (a : List α) (hne : px ≠ []) (h : chanO j px = some a)
    (idx : List (Option Nat)) :
    chanO j (gatherL (zeroLike z0 px) px idx) = some (gatherL z0 a idx) := by
  obtain ⟨hl, hall⟩ := mapO_spec _ px a h
  have hz : (zeroLike z0 px)[j]? = some z0 := by
    unfold zeroLike
    obtain ⟨p0, t, rfl⟩ := List.exists_cons_of_ne_nil hne
    have := hall 0 (by simp) (by rw [hl]; simp)
    simp only [List.getElem_cons_zero] at this
    simp only [List.headD_cons, List.getElem?_map]
    cases h0 : p0[j]? with
    | none => rw [h0] at this; cases this
    | some v => rfl
  unfold chanO gatherL
  apply mapO_map_of
  intro o _
  cases o with
  | none => simpa [pick] using hz
  | some i =>
    simp only [pick, List.getD_eq_getElem?_getD]
    by_cases hi : i < px.length
    · have hi' : i < a.length := by omega
      rw [List.getElem?_eq_getElem hi, List.getElem?_eq_getElem hi']
      simpa using hall i hi hi'
    · have h1 : px[i]? = none := List.getElem?_eq_none (by omega)
      have h2 : a[i]? = none := List.getElem?_eq_none (by omega)
      rw [h1, h2]
      simpa using hz

/-- a stacked plane has at least one pixel (so that the number of channels is known) -/
def stackNonEmpty : Plane → Prop
  | .intStack px => px ≠ []
  | .fltStack px => px ≠ []
  | _ => True

/-- **the property's expectation is computed pixel by pixel**: re-sampling the mask plane by position (background where
    there is none) re-samples the expectation the same way -/
theorem expectedPlane_gather (t : SegType) (mfv j s : Nat) (hs1 : 1 ≤ s) (idx : List (Option Nat)) (pl : Plane)
    (hne : stackNonEmpty pl)
    (e : List Nat) (he : expectedPlane t mfv j s pl = some e) :
    expectedPlane t mfv j s (gatherPlane idx pl) = some (gatherL 0 e idx) := by
  cases pl with
  | intLabel px =>
    simp only [expectedPlane, Option.some.injEq] at he
    subst he
    simp only [gatherPlane, expectedPlane, Option.some.injEq]
    apply gatherL_map
    have : ¬ (0 = s) := by omega
    simp [this]
  | fltLabel px =>
    simp only [gatherPlane, expectedPlane]
    simp only [expectedPlane] at he
    by_cases ht : t = .fractional
    · simp only [ht, ↓reduceIte, Option.some.injEq] at he ⊢
      subst he
      apply gatherL_map
      simp [quantise_zero]
    · simp only [ht, ↓reduceIte, Option.some.injEq] at he ⊢
      subst he
      apply gatherL_map
      simp
  | intStack px =>
    simp only [gatherPlane, expectedPlane]
    simp only [expectedPlane] at he
    cases ha : chanO j px with
    | none => rw [ha] at he; cases he
    | some a =>
      rw [ha] at he
      simp only [Option.map_some, Option.some.injEq] at he
      subst he
      rw [chanO_gather 0 j px a hne ha idx]
      simp only [Option.map_some, Option.some.injEq]
      apply gatherL_map
      simp
  | fltStack px =>
    simp only [gatherPlane, expectedPlane]
    simp only [expectedPlane] at he
    cases ha : chanO j px with
    | none => rw [ha] at he; split at he <;> cases he
    | some a =>
      rw [ha] at he
      rw [chanO_gather 0 j px a hne ha idx]
      by_cases ht : t = .fractional
      · simp only [ht, ↓reduceIte, Option.map_some, Option.some.injEq] at he ⊢
        subst he
        apply gatherL_map
        simp [quantise_zero]
      · simp only [ht, ↓reduceIte, Option.map_some, Option.some.injEq] at he ⊢
        subst he
        apply gatherL_map
        simp

/-! ## the tiles are planes of the mask the frame loop works on -/

theorem tileMask_numPlanes (R C tr tc : Nat) (m : Mask) :
    (tileMask R C tr tc m).numPlanes = tilesAlong R tr * tilesAlong C tc := by
  cases m <;> simp [tileMask, Mask.numPlanes, tilesOf_length]

theorem tiled_plane (R C tr tc : Nat) (m : Mask) (hnp : m.numPlanes = 1) (k l : Nat) (hk : k < tilesAlong R tr)
    (hl : l < tilesAlong C tc) :
    (tileMask R C tr tc m).plane? (k * tilesAlong C tc + l) = (m.plane? 0).map (gatherPlane (tileIdx R C tr tc k l)) := by
  cases m with
  | intLabel ps =>
    obtain ⟨p0, rfl⟩ := List.length_eq_one_iff.mp hnp
    simp [tileMask, Mask.plane?, tilesOf_getElem? _ R C tr tc _ k l hk hl, gatherPlane]
  | fltLabel ps =>
    obtain ⟨p0, rfl⟩ := List.length_eq_one_iff.mp hnp
    simp [tileMask, Mask.plane?, tilesOf_getElem? _ R C tr tc _ k l hk hl, gatherPlane]
  | intStack ps =>
    obtain ⟨p0, rfl⟩ := List.length_eq_one_iff.mp hnp
    simp [tileMask, Mask.plane?, tilesOf_getElem? _ R C tr tc _ k l hk hl, gatherPlane]
  | fltStack ps =>
    obtain ⟨p0, rfl⟩ := List.length_eq_one_iff.mp hnp
    simp [tileMask, Mask.plane?, tilesOf_getElem? _ R C tr tc _ k l hk hl, gatherPlane]

theorem plane_stack_ne_nil (m : Mask) (hsz : ∀ sz ∈ m.planeSizes, sz ≠ 0) (p : Nat) (pl : Plane) (h : m.plane? p = some pl) :
    stackNonEmpty pl := by
  cases m with
  | intLabel ps => obtain ⟨px, _, rfl⟩ := plane_intLabel ps p pl h; trivial
  | fltLabel ps => obtain ⟨px, _, rfl⟩ := plane_fltLabel ps p pl h; trivial
  | intStack ps =>
    obtain ⟨px, hq, rfl⟩ := plane_intStack ps p pl h
    intro hc
    exact hsz px.length (List.mem_map.mpr ⟨px, List.mem_of_getElem? hq, rfl⟩) (by simp [hc])
  | fltStack ps =>
    obtain ⟨px, hq, rfl⟩ := plane_fltStack ps p pl h
    intro hc
    exact hsz px.length (List.mem_map.mpr ⟨px, List.mem_of_getElem? hq, rfl⟩) (by simp [hc])

/-- **a mask handed over as a total pixel matrix survives**: pixel (r, c) of the matrix, looked up in the frame of the tile
    that covers it, reads back as the property's expectation for that pixel -/
theorem tiled_roundtrip (codec : Option Codec) (hcodec : ∀ c, codec = some c → ∀ x, c.dec (c.enc x) = x)
    (R C tr tc : Nat) (htr : 1 ≤ tr) (htc : 1 ≤ tc) (t : SegType) (segs : List Nat) (mfv : Nat) (omt : Bool) (m : Mask)
    (arr : Mask) (ov : Overlap) (hcm : castMask segs t m = .ok (arr, ov))
    (o : SegObj) (hb : buildTiled codec R C tr tc t segs mfv omt m = .ok o) :
    ∃ mpl out, m.plane? 0 = some mpl ∧
      readBySource codec o (List.range (tilesAlong R tr * tilesAlong C tc)) .assertEmpty = .ok out ∧
      ∀ j (hj : j < segs.length), ∃ e, expectedPlane t mfv j segs[j] mpl = some e ∧
        ∀ r c, r < R → c < C →
          ((out[(r / tr) * tilesAlong C tc + c / tc]?.bind (·[j]?)).bind (·[(r % tr) * tc + c % tc]?))
            = some (e.getD (r * C + c) 0) := by
  unfold buildTiled at hb
  split at hb
  · cases hb
  rename_i hnp
  have hnp1 : m.numPlanes = 1 := by simpa using hnp
  split at hb
  · cases hb
  have hcs : checkSegs t segs = .ok () := by
    obtain ⟨_, _, _, _, _, hca, _⟩ := build_inv _ _ _ _ _ _ _ _ _ _ hb
    exact (checkArgs_inv _ _ _ _ _ hca).1
  have hs := checkSegs_ok t segs hcs
  obtain ⟨hrel, _, hsz0⟩ := castMask_rel segs t m arr ov hs hcm
  obtain ⟨mpl, hmpl⟩ := plane?_of_lt m 0 (by omega)
  have hN := tileMask_numPlanes R C tr tc m
  obtain ⟨out, hout, hlen, hall⟩ := roundtrip_main codec hcodec tr tc t segs mfv omt _ (tileMask R C tr tc m)
    (fun p hp => List.mem_range.mpr hp) (fun p hp => List.mem_range.mp hp) List.nodup_range
    (List.range (tileMask R C tr tc m).numPlanes) (fun p hp => List.mem_range.mp hp) o hb
  rw [hN] at hout hlen hall
  refine ⟨mpl, out, hmpl, hout, ?_⟩
  intro j hj
  obtain ⟨e, he, _, _⟩ := cell_specU segs t mfv m arr hs hrel j hj 0 mpl hmpl
  refine ⟨e, he, ?_⟩
  intro r c hr hc
  have hk := div_lt_tilesAlong R tr r htr hr
  have hl := div_lt_tilesAlong C tc c htc hc
  have hi : r / tr * tilesAlong C tc + c / tc < tilesAlong R tr * tilesAlong C tc := by
    calc r / tr * tilesAlong C tc + c / tc < r / tr * tilesAlong C tc + tilesAlong C tc := by omega
      _ = (r / tr + 1) * tilesAlong C tc := by rw [Nat.succ_mul]
      _ ≤ tilesAlong R tr * tilesAlong C tc := Nat.mul_le_mul_right _ hk
  have hi' : r / tr * tilesAlong C tc + c / tc < (List.range (tilesAlong R tr * tilesAlong C tc)).length := by simpa using hi
  have ho : r / tr * tilesAlong C tc + c / tc < out.length := by rw [hlen]; exact hi'
  obtain ⟨hlj, hrow⟩ := hall _ hi' ho
  have hj' : j < out[r / tr * tilesAlong C tc + c / tc].length := by rw [hlj]; exact hj
  obtain ⟨mpl', hmpl', hexp⟩ := hrow j hj hj'
  simp only [List.getElem_range] at hmpl'
  rw [tiled_plane R C tr tc m hnp1 _ _ hk hl, hmpl] at hmpl'
  simp only [Option.map_some, Option.some.injEq] at hmpl'
  subst hmpl'
  rw [expectedPlane_gather t mfv j segs[j] (hs.pos _ (List.getElem_mem hj)) _ mpl
    (plane_stack_ne_nil m hsz0 0 mpl hmpl) e he] at hexp
  simp only [Option.some.injEq] at hexp
  rw [List.getElem?_eq_getElem ho]
  simp only [Option.bind_some, List.getElem?_eq_getElem hj', ← hexp]
  rw [gatherL_getElem? 0 e _ _ _ (tileIdx_covers R C tr tc r c htr htc hr hc)]
  rfl

end HdVerif.SegEncodeLemmas
