import HdVerif.Model.VR
/-! Helper lemmas for C20: the regular-expression fragment (characterisation of `repGo` and of the pattern shapes used by `valuerep.py`). -/
namespace HdVerif.VR

theorem repGo_iff (k : Cls) (cont : List Char → Bool) :
    ∀ (s : List Char) (lo : Nat) (hi : Option Nat),
      repGo k cont lo hi s = true ↔
        ∃ n, lo ≤ n ∧ (∀ h, hi = some h → n ≤ h) ∧ n ≤ s.length ∧ (∀ c ∈ s.take n, k.mem c = true) ∧
          cont (s.drop n) = true := by
  intro s
  induction s with
  | nil =>
    intro lo hi
    simp only [repGo, Bool.and_eq_true, beq_iff_eq]
    constructor
    · rintro ⟨h0, hc⟩
      exact ⟨0, by omega, by intro h _; omega, by simp, by simp, by simpa using hc⟩
    · rintro ⟨n, h1, _, h3, _, h5⟩
      have : n = 0 := by simpa using h3
      subst this
      exact ⟨by omega, by simpa using h5⟩
  | cons c t ih =>
    intro lo hi
    simp only [repGo, Bool.or_eq_true, Bool.and_eq_true, beq_iff_eq, bne_iff_ne, ne_eq, ih]
    constructor
    · rintro (⟨h0, hc⟩ | ⟨⟨hh, hm⟩, n, h1, h2, h3, h4, h5⟩)
      · exact ⟨0, by omega, by intro h _; omega, by simp, by simp, by simpa using hc⟩
      · refine ⟨n + 1, by omega, ?_, by simp; omega, ?_, by simpa using h5⟩
        · intro h hh'
          subst hh'
          have := h2 (h - 1) (by simp)
          have : h ≠ 0 := by intro e; apply hh; rw [e]
          omega
        · intro d hd
          simp only [List.take_succ_cons, List.mem_cons] at hd
          rcases hd with rfl | hd
          · exact hm
          · exact h4 d hd
    · rintro ⟨n, h1, h2, h3, h4, h5⟩
      cases n with
      | zero => left; exact ⟨by omega, by simpa using h5⟩
      | succ m =>
        right
        refine ⟨⟨?_, ?_⟩, m, by omega, ?_, by simp at h3; omega, ?_, by simpa using h5⟩
        · intro e
          have := h2 0 e
          omega
        · exact h4 c (by simp)
        · intro h hh
          cases hi with
          | none => simp at hh
          | some x =>
            simp at hh
            have := h2 x rfl
            omega
        · intro d hd
          exact h4 d (by simp [hd])

/-- `[k]{lo,hi}\Z` -/
theorem reMatch_rep_eos (k : Cls) (lo hi : Nat) (s : List Char) :
    reMatch [.rep k lo (some hi), .eos] s = true ↔ lo ≤ s.length ∧ s.length ≤ hi ∧ ∀ c ∈ s, k.mem c = true := by
  simp only [reMatch, matchFrom, repGo_iff, Bool.and_eq_true, beq_iff_eq, and_true]
  constructor
  · rintro ⟨n, h1, h2, h3, h4, h5⟩
    have hn : n = s.length := by
      have := List.length_drop (i := n) (l := s)
      rw [h5] at this; simp at this; omega
    subst hn
    refine ⟨h1, h2 hi rfl, ?_⟩
    simpa using h4
  · rintro ⟨h1, h2, h3⟩
    exact ⟨s.length, h1, by intro h e; cases e; exact h2, by omega, by simpa using h3, by simp⟩

/-- `[k]{1}.*` (anything that follows a first character of class `k`; `.*` can always match the empty string) -/
theorem reMatch_first (k d : Cls) (s : List Char) :
    reMatch [.rep k 1 (some 1), .rep d 0 none] s = true ↔ ∃ c t, s = c :: t ∧ k.mem c = true := by
  simp only [reMatch, matchFrom, repGo_iff]
  constructor
  · rintro ⟨n, h1, h2, h3, h4, _⟩
    have hn : n = 1 := by have := h2 1 rfl; omega
    subst hn
    cases s with
    | nil => simp at h3
    | cons c t => exact ⟨c, t, rfl, h4 c (by simp)⟩
  · rintro ⟨c, t, rfl, hc⟩
    refine ⟨1, by omega, by intro h e; cases e; omega, by simp, by simpa using hc, 0, by omega, ?_⟩
    simp

/-- `re.search('[k]', s)` -/
theorem reSearch_single (k : Cls) (s : List Char) :
    reSearch [.rep k 1 (some 1)] s = true ↔ ∃ c ∈ s, k.mem c = true := by
  induction s with
  | nil => simp [reSearch, matchFrom, repGo]
  | cons c t ih =>
    simp only [reSearch, Bool.or_eq_true, ih, matchFrom, repGo]
    simp
    cases t <;> simp [repGo]

/-- `.*[k]$` on a string without newline: the last character is of class `k` -/
theorem reMatch_last (d k : Cls) (s : List Char) (hd : ∀ c ∈ s, d.mem c = true) (hs : ∀ c ∈ s, c.toNat ≠ 10) :
    reMatch [.rep d 0 none, .rep k 1 (some 1), .eol] s = true ↔ ∃ c, s.getLast? = some c ∧ k.mem c = true := by
  simp only [reMatch, matchFrom, repGo_iff, Bool.and_eq_true, Bool.or_eq_true, beq_iff_eq, and_true]
  constructor
  · rintro ⟨n, _, _, h3, _, m, m1, m2, m3, m4, m5⟩
    have hm : m = 1 := by have := m2 1 rfl; omega
    subst hm
    rw [List.drop_drop] at m5
    have hnl : (s.drop (n + 1)) = [] := by
      rcases m5 with h | h
      · exact h
      · exfalso
        have : '\n' ∈ s.drop (n + 1) := by rw [h]; simp
        exact hs _ (List.mem_of_mem_drop this) (by decide)
    have hlen : n + 1 = s.length := by
      have := List.length_drop (i := n + 1) (l := s)
      rw [hnl] at this; simp at this
      simp at m3; omega
    have hn : n < s.length := by omega
    refine ⟨s[n], ?_, ?_⟩
    · rw [List.getLast?_eq_getElem?]
      have : s.length - 1 = n := by omega
      rw [this]; simp [hn]
    · have e : s.drop n = s[n] :: s.drop (n + 1) := List.drop_eq_getElem_cons hn
      have h2 : s[n] ∈ List.take 1 (s[n] :: s.drop (n + 1)) := by rw [List.take_succ_cons]; exact List.mem_cons_self
      rw [← e] at h2
      exact m4 _ h2
  · rintro ⟨c, hc, hk⟩
    obtain ⟨ys, rfl⟩ := List.getLast?_eq_some_iff.mp hc
    refine ⟨ys.length, Nat.zero_le _, ?_, ?_, ?_, 1, Nat.le_refl _, ?_, ?_, ?_, ?_⟩
    · intro h e; cases e
    · simp
    · intro x hx; apply hd; simp at hx; simp [hx]
    · intro h e; cases e; omega
    · simp
    · simp [hk]
    · left; simp



/-- `[k]*$` on a string of class-`k` characters -/
theorem reMatch_star_eol (k : Cls) (s : List Char) (h : ∀ c ∈ s, k.mem c = true) :
    reMatch [.rep k 0 none, .eol] s = true := by
  simp only [reMatch, matchFrom, repGo_iff, Bool.and_eq_true, Bool.or_eq_true, beq_iff_eq, and_true]
  refine ⟨s.length, Nat.zero_le _, ?_, Nat.le_refl _, ?_, ?_⟩
  · intro h e; cases e
  · intro c hc; exact h c (List.mem_of_mem_take hc)
  · left; simp

/-! ## membership by code point -/

theorem contains_code (s : List Char) (n : Nat) (hn : (Char.ofNat n).toNat = n) :
    s.contains (Char.ofNat n) = true ↔ ∃ c ∈ s, c.toNat = n := by
  rw [List.contains_iff_mem]
  constructor
  · intro h; exact ⟨_, h, hn⟩
  · rintro ⟨c, hc, e⟩
    have : c = Char.ofNat n := by rw [← e, Char.ofNat_toNat]
    rw [← this]; exact hc


/-! ## UIDs: splitting at dots and decimal rendering -/

theorem splitDot_ne_nil (s : List Char) : splitDot s ≠ [] := by
  cases s with
  | nil => simp [splitDot]
  | cons c t =>
    simp only [splitDot]
    split
    · simp
    · split <;> simp

/-- a string without dots is its own single component -/
theorem splitDot_no_dot (s : List Char) (h : ∀ c ∈ s, c ≠ '.') : splitDot s = [s] := by
  induction s with
  | nil => rfl
  | cons c t ih =>
    have hc : c ≠ '.' := h c (by simp)
    have := ih (fun d hd => h d (by simp [hd]))
    simp [splitDot, hc, this]

/-- Python: `(a + '.' + b).split('.') == a.split('.') + b.split('.')` -/
theorem splitDot_append_dot (a b : List Char) : splitDot (a ++ '.' :: b) = splitDot a ++ splitDot b := by
  induction a with
  | nil => simp [splitDot]
  | cons c t ih =>
    simp only [List.cons_append, splitDot]
    split
    · simp [ih]
    · rw [ih]
      have := splitDot_ne_nil t
      cases h : splitDot t with
      | nil => exact absurd h this
      | cons x r => simp

theorem toDigits_head_zero (n : Nat) : (Nat.toDigits 10 n).head? = some '0' → n = 0 := by
  induction n using Nat.strongRecOn with
  | _ n ih =>
    intro h
    by_cases hn : n < 10
    · rw [Nat.toDigits_of_lt_base hn] at h
      simp at h
      exact h
    · exfalso
      have hd : 0 < n / 10 := by omega
      rw [Nat.toDigits_of_base_le (by omega) (by omega)] at h
      have hne := Nat.toDigits_ne_nil (n := n / 10) (b := 10)
      cases hq : Nat.toDigits 10 (n / 10) with
      | nil => exact hne hq
      | cons x r =>
        rw [hq] at h
        simp at h
        have := ih (n / 10) (by omega) (by rw [hq]; simp [h])
        omega

theorem toDigits_compOk (n : Nat) : compOk (Nat.toDigits 10 n) := by
  refine ⟨Nat.toDigits_ne_nil, ?_, ?_⟩
  · intro c hc; exact Nat.isDigit_of_mem_toDigits (by omega) (by omega) hc
  · intro h
    have := toDigits_head_zero n h
    subst this
    rfl

theorem toDigits_no_dot (n : Nat) : ∀ c ∈ Nat.toDigits 10 n, c ≠ '.' := by
  intro c hc e
  have := Nat.isDigit_of_mem_toDigits (b := 10) (by omega) (by omega) hc
  subst e
  revert this; decide

/-- rendering a number below `10^k` after a prefix `p0 ++ "."` whose components are valid gives a valid UID
as soon as the lengths add up to at most 64 -/
theorem render_valid (p0 : List Char) (k n : Nat) (hk : 0 < k) (hp : ∀ comp ∈ splitDot p0, compOk comp)
    (hlen : p0.length + 1 + k ≤ 64) (hn : n < 10 ^ k) :
    validUID (p0 ++ '.' :: Nat.toDigits 10 n) := by
  constructor
  · have := (Nat.length_toDigits_le_iff (b := 10) (n := n) (k := k) (by omega) hk).mpr hn
    simp; omega
  · rw [splitDot_append_dot, splitDot_no_dot _ (toDigits_no_dot n)]
    intro comp hc
    simp at hc
    rcases hc with hc | rfl
    · exact hp comp hc
    · exact toDigits_compOk n


/-! ## decimal rendering is injective (uniqueness of generated identifiers up to the random draw) -/

/-- value of a list of decimal digit characters (Horner) -/
def fromDigits (l : List Char) : Nat := l.foldl (fun acc c => 10 * acc + (c.toNat - 48)) 0

theorem fromDigits_append_single (l : List Char) (c : Char) :
    fromDigits (l ++ [c]) = 10 * fromDigits l + (c.toNat - 48) := by
  simp [fromDigits, List.foldl_append]

theorem fromDigits_toDigits (n : Nat) : fromDigits (Nat.toDigits 10 n) = n := by
  induction n using Nat.strongRecOn with
  | _ n ih =>
    by_cases hn : n < 10
    · rw [Nat.toDigits_of_lt_base hn]
      simp [fromDigits, Nat.toNat_digitChar_sub_48_of_lt_ten hn]
    · rw [Nat.toDigits_of_base_le (by omega) (by omega), fromDigits_append_single, ih (n / 10) (by omega),
        Nat.toNat_digitChar_sub_48_of_lt_ten (Nat.mod_lt _ (by omega))]
      omega

/-- decimal rendering is injective -/
theorem toDigits_injective {n m : Nat} (h : Nat.toDigits 10 n = Nat.toDigits 10 m) : n = m := by
  have := congrArg fromDigits h
  rwa [fromDigits_toDigits, fromDigits_toDigits] at this

theorem renderUid_injective (p : String) {n m : Nat} (h : renderUid p n = renderUid p m) : n = m := by
  unfold renderUid at h
  exact toDigits_injective (List.append_cancel_left h)

end HdVerif.VR
