import HdVerif.Model.Offsets
/-! Lemmas about the offset-table bookkeeping (core Lean only). -/
namespace HdVerif.Offsets

/-- byte offsets of the fragments of a stream starting at `pos` -/
def offsetsFrom : Nat → List Frag → List Nat
  | _, [] => []
  | pos, f :: fs => pos :: offsetsFrom (pos + 8 + f.length) fs

/-- offsets of the fragments that start with a JPEG / J2K start marker -/
def markedFrom : Nat → List Frag → List Nat
  | _, [] => []
  | pos, f :: fs => if isStart f then pos :: markedFrom (pos + 8 + f.length) fs else markedFrom (pos + 8 + f.length) fs

def streamSize : List Frag → Nat
  | [] => 0
  | f :: fs => 8 + f.length + streamSize fs

/-- byte offsets of the first fragment of every frame -/
def frameOffsetsFrom : Nat → List (List Frag) → List Nat
  | _, [] => []
  | pos, fr :: frs => pos :: frameOffsetsFrom (pos + streamSize fr) frs

def WellFormed (fs : List Frag) : Prop := ∀ f ∈ fs, f.length % 2 = 0 ∧ f.length ≠ 0

theorem botLoop_spec (fs : List Frag) (hw : WellFormed fs) (pos : Nat) (a b : List Nat) :
    botLoop fs pos (a, b) = .ok (a ++ offsetsFrom pos fs, b ++ markedFrom pos fs) := by
  induction fs generalizing pos a b with
  | nil => simp [botLoop, offsetsFrom, markedFrom]
  | cons f fs ih =>
    have hf := hw f (by simp)
    have hw' : WellFormed fs := fun g hg => hw g (by simp [hg])
    unfold botLoop
    have h1 : ¬ f.length % 2 = 1 := by omega
    simp only [h1, hf.2, ↓reduceIte]
    rw [ih hw']
    by_cases hs : isStart f <;> simp [offsetsFrom, markedFrom, hs]

theorem offsetsFrom_length (pos : Nat) (fs : List Frag) : (offsetsFrom pos fs).length = fs.length := by
  induction fs generalizing pos with
  | nil => rfl
  | cons f fs ih => simp [offsetsFrom, ih]

theorem markedFrom_length_le (pos : Nat) (fs : List Frag) : (markedFrom pos fs).length ≤ fs.length := by
  induction fs generalizing pos with
  | nil => simp [markedFrom]
  | cons f fs ih =>
    unfold markedFrom
    split
    · simp; exact ih _
    · have := ih (pos + 8 + f.length); simp; omega

/-- if as many fragments carry a start marker as there are fragments, the two lists coincide -/
theorem marked_eq_offsets_of_length (pos : Nat) (fs : List Frag)
    (h : (markedFrom pos fs).length = fs.length) : markedFrom pos fs = offsetsFrom pos fs := by
  induction fs generalizing pos with
  | nil => rfl
  | cons f fs ih =>
    unfold markedFrom at h ⊢
    unfold offsetsFrom
    split at h
    · rename_i hs
      simp only [hs, ↓reduceIte]
      simp at h
      rw [ih _ h]
    · have := markedFrom_length_le (pos + 8 + f.length) fs
      simp at h; omega

theorem streamSize_append (a b : List Frag) : streamSize (a ++ b) = streamSize a + streamSize b := by
  induction a with
  | nil => simp [streamSize]
  | cons f fs ih => simp [streamSize, ih]; omega

theorem offsetsFrom_append (pos : Nat) (a b : List Frag) :
    offsetsFrom pos (a ++ b) = offsetsFrom pos a ++ offsetsFrom (pos + streamSize a) b := by
  induction a generalizing pos with
  | nil => simp [offsetsFrom, streamSize]
  | cons f fs ih =>
    simp only [List.cons_append, offsetsFrom, streamSize, ih]
    congr 3; omega

theorem markedFrom_append (pos : Nat) (a b : List Frag) :
    markedFrom pos (a ++ b) = markedFrom pos a ++ markedFrom (pos + streamSize a) b := by
  induction a generalizing pos with
  | nil => simp [markedFrom, streamSize]
  | cons f fs ih =>
    simp only [List.cons_append, markedFrom, streamSize, ih]
    have : pos + 8 + f.length + streamSize fs = pos + (8 + f.length + streamSize fs) := by omega
    split <;> simp [this]

/-- one fragment per frame: fragment offsets are the frame offsets -/
theorem offsets_singletons (pos : Nat) (frames : List (List Frag)) (h : ∀ fr ∈ frames, ∃ f, fr = [f]) :
    offsetsFrom pos frames.flatten = frameOffsetsFrom pos frames := by
  induction frames generalizing pos with
  | nil => rfl
  | cons fr frs ih =>
    obtain ⟨f, rfl⟩ := h fr (by simp)
    simp only [List.flatten_cons, List.singleton_append, offsetsFrom, frameOffsetsFrom, streamSize]
    rw [ih _ (fun g hg => h g (by simp [hg]))]
    congr 2; omega

/-- marker-delimited frames: the first fragment of each frame (and no other) starts with a marker -/
def MarkerDelimited (frames : List (List Frag)) : Prop :=
  ∀ fr ∈ frames, ∃ f rest, fr = f :: rest ∧ isStart f = true ∧ ∀ r ∈ rest, isStart r = false

theorem markedFrom_unmarked (pos : Nat) (fs : List Frag) (h : ∀ r ∈ fs, isStart r = false) :
    markedFrom pos fs = [] := by
  induction fs generalizing pos with
  | nil => rfl
  | cons f fs ih =>
    unfold markedFrom
    simp [h f (by simp), ih _ (fun r hr => h r (by simp [hr]))]

theorem marked_frames (pos : Nat) (frames : List (List Frag)) (h : MarkerDelimited frames) :
    markedFrom pos frames.flatten = frameOffsetsFrom pos frames := by
  induction frames generalizing pos with
  | nil => rfl
  | cons fr frs ih =>
    obtain ⟨f, rest, rfl, hs, hr⟩ := h fr (by simp)
    simp only [List.flatten_cons, markedFrom_append, frameOffsetsFrom]
    rw [ih _ (fun g hg => h g (by simp [hg]))]
    simp only [markedFrom, hs, ↓reduceIte, List.cons_append]
    rw [markedFrom_unmarked _ rest hr]
    simp

theorem frameOffsetsFrom_length (pos : Nat) (frames : List (List Frag)) :
    (frameOffsetsFrom pos frames).length = frames.length := by
  induction frames generalizing pos with
  | nil => rfl
  | cons f fs ih => simp [frameOffsetsFrom, ih]

/-! ### the fragment walk -/

theorem frameOffsets_getElem (pos : Nat) (frames : List (List Frag)) (i : Nat) (hi : i < frames.length) :
    (frameOffsetsFrom pos frames)[i]? = some (pos + streamSize (frames.take i).flatten) := by
  induction frames generalizing pos i with
  | nil => simp at hi
  | cons fr frs ih =>
    cases i with
    | zero => simp [frameOffsetsFrom, streamSize]
    | succ i =>
      simp only [frameOffsetsFrom, List.getElem?_cons_succ, List.take_succ_cons, List.flatten_cons, streamSize_append]
      rw [ih _ i (by simpa using hi)]
      congr 1; omega

theorem seekFrag_append (a b : List Frag) (pos : Nat) :
    seekFrag (a ++ b) pos (pos + streamSize a) = .ok b ∨ (streamSize a = 0 ∧ a ≠ []) := by
  induction a generalizing pos with
  | nil => left; unfold seekFrag; simp [streamSize]
  | cons f fs ih =>
    left
    unfold seekFrag
    have h1 : ¬ pos = pos + streamSize (f :: fs) := by simp [streamSize]
    have h2 : pos < pos + streamSize (f :: fs) := by simp [streamSize]; omega
    simp only [h1, ↓reduceIte, List.cons_append, h2]
    have e : pos + streamSize (f :: fs) = (pos + 8 + f.length) + streamSize fs := by simp [streamSize]; omega
    rw [e]
    rcases ih (pos + 8 + f.length) with h | ⟨h0, hne⟩
    · exact h
    · exfalso
      cases fs with
      | nil => exact hne rfl
      | cons g gs => simp [streamSize] at h0

theorem seekFrag_ok (a b : List Frag) (pos : Nat) : seekFrag (a ++ b) pos (pos + streamSize a) = .ok b := by
  rcases seekFrag_append a b pos with h | ⟨h0, hne⟩
  · exact h
  · exfalso
    cases a with
    | nil => exact hne rfl
    | cons g gs => simp [streamSize] at h0

/-- reading with the stop offset at the end of `a` returns exactly `a` -/
theorem readLoop_exact (a b : List Frag) (n : Nat) (acc : List Frag) (hb : True) :
    readLoop (a ++ b) (n : Int) ((n + streamSize a : Nat) : Int) acc = acc ++ a
      ∨ (a = [] ∧ readLoop (a ++ b) (n : Int) ((n + streamSize a : Nat) : Int) acc = acc) := by
  induction a generalizing n acc with
  | nil =>
    right
    refine ⟨rfl, ?_⟩
    simp only [List.nil_append, streamSize, Nat.add_zero]
    cases b with
    | nil => simp [readLoop]
    | cons g gs => simp [readLoop]
  | cons f fs ih =>
    left
    simp only [List.cons_append]
    unfold readLoop
    have h1 : ¬ ((n : Int) = ((n + streamSize (f :: fs) : Nat) : Int)) := by
      simp [streamSize]; omega
    simp only [h1, ↓reduceIte]
    have e1 : (n : Int) + 4 + 4 + (f.length : Int) = ((n + 8 + f.length : Nat) : Int) := by push_cast; omega
    have e2 : n + streamSize (f :: fs) = (n + 8 + f.length) + streamSize fs := by simp [streamSize]; omega
    rw [e1, e2]
    rcases ih (n + 8 + f.length) (acc ++ [f]) with h | ⟨hn, h⟩
    · rw [h]; simp
    · subst hn; rw [h]

theorem readLoop_all (a : List Frag) (n : Int) (hn : 0 ≤ n) (acc : List Frag) :
    readLoop a n (-1) acc = acc ++ a := by
  induction a generalizing n acc with
  | nil => simp [readLoop]
  | cons f fs ih =>
    unfold readLoop
    have h1 : ¬ n = -1 := by omega
    simp only [h1, ↓reduceIte]
    rw [ih _ (by omega)]
    simp

end HdVerif.Offsets
