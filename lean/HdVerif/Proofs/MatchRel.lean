import HdVerif.Proofs.Match
/-! C09 (round 2): `geometry_equal` as a relation (reflexive; symmetric for `tol=None` and under a purely absolute
criterion, NOT symmetric in general because `np.allclose` scales its relative term by the second argument; not
transitive), and the index transformer in both directions (mutually inverse; integral on targets whose voxels sit on
voxels of the source). -/
namespace HdVerif.Match
open HdVerif HdVerif.Gen

/-! ## reflexivity -/

theorem entryWithin_refl (t a : Rat) : EntryWithin t a a := Or.inr rfl

theorem vecWithin_refl (t : Rat) (v : V3) : VecWithin t v v :=
  ⟨entryWithin_refl t _, entryWithin_refl t _, entryWithin_refl t _⟩

theorem affineWithin_refl (g : Geom) (tol : Option Rat) : AffineWithin g g tol := by
  cases tol with
  | none => exact ⟨fun _ => rfl, rfl⟩
  | some t => exact ⟨fun a => vecWithin_refl t _, vecWithin_refl t _⟩

theorem noForConflict_refl (g : Geom) : NoForConflict g g := by
  intro u v hu hv
  rw [hu] at hv
  exact Option.some.inj hv

theorem geometryEqual_refl' (g : Geom) (tol : Option Rat) : geometryEqual g g tol = .ok true :=
  (geometryEqual_true_iff g g tol).mpr ⟨fun _ => rfl, rfl, noForConflict_refl g, affineWithin_refl g tol⟩

/-! ## symmetry -/

theorem noForConflict_symm {g h : Geom} (n : NoForConflict g h) : NoForConflict h g :=
  fun u v hu hv => (n v u hv hu).symm

theorem affineWithin_none_symm {g h : Geom} (a : AffineWithin g h none) : AffineWithin h g none :=
  ⟨fun x => (a.1 x).symm, a.2.symm⟩

theorem result_eq_of_iff {x y : Except ErrKind Bool} (hx : ∃ b, x = .ok b) (hy : ∃ b, y = .ok b)
    (h : x = .ok true ↔ y = .ok true) : x = y := by
  obtain ⟨a, rfl⟩ := hx
  obtain ⟨b, rfl⟩ := hy
  cases a <;> cases b <;> simp_all

/-- with `tol=None` (exact comparison) the answer does not depend on the order of the two objects -/
theorem geometryEqual_symm_none (g h : Geom) : geometryEqual g h none = geometryEqual h g none := by
  apply result_eq_of_iff (geometryEqual_total g h none) (geometryEqual_total h g none)
  rw [geometryEqual_true_iff, geometryEqual_true_iff]
  constructor
  · rintro ⟨a, b, c, d⟩
    exact ⟨fun x => (a x).symm, b.symm, noForConflict_symm c, affineWithin_none_symm d⟩
  · rintro ⟨a, b, c, d⟩
    exact ⟨fun x => (a x).symm, b.symm, noForConflict_symm c, affineWithin_none_symm d⟩

/-- purely absolute closeness of two affines: every entry within `t` -/
def AffineAbsWithin (g h : Geom) (t : Rat) : Prop :=
  (∀ a, rabs ((g.col a).x - (h.col a).x) ≤ t ∧ rabs ((g.col a).y - (h.col a).y) ≤ t ∧ rabs ((g.col a).z - (h.col a).z) ≤ t) ∧
  rabs (g.pos.x - h.pos.x) ≤ t ∧ rabs (g.pos.y - h.pos.y) ≤ t ∧ rabs (g.pos.z - h.pos.z) ≤ t

theorem rabs_sub_comm (a b : Rat) : rabs (a - b) = rabs (b - a) := by
  unfold rabs
  split <;> split <;> linarith

theorem entryWithin_of_abs {t a b : Rat} (h : rabs (a - b) ≤ t) : EntryWithin t a b ∧ EntryWithin t b a := by
  unfold EntryWithin
  have ha : (0 : Rat) ≤ rtolDefault * rabs a := mul_nonneg (by unfold rtolDefault; norm_num) (rabs_nonneg a)
  have hb : (0 : Rat) ≤ rtolDefault * rabs b := mul_nonneg (by unfold rtolDefault; norm_num) (rabs_nonneg b)
  rw [rabs_sub_comm b a]
  constructor <;> left <;> linarith

theorem affineWithin_of_abs {g h : Geom} {t : Rat} (a : AffineAbsWithin g h t) :
    AffineWithin g h (some t) ∧ AffineWithin h g (some t) := by
  obtain ⟨c, px, py, pz⟩ := a
  refine ⟨⟨fun x => ⟨(entryWithin_of_abs (c x).1).1, (entryWithin_of_abs (c x).2.1).1, (entryWithin_of_abs (c x).2.2).1⟩,
            (entryWithin_of_abs px).1, (entryWithin_of_abs py).1, (entryWithin_of_abs pz).1⟩,
          ⟨fun x => ⟨(entryWithin_of_abs (c x).1).2, (entryWithin_of_abs (c x).2.1).2, (entryWithin_of_abs (c x).2.2).2⟩,
            (entryWithin_of_abs px).2, (entryWithin_of_abs py).2, (entryWithin_of_abs pz).2⟩⟩

/-! ## a triangle inequality, entry by entry -/

theorem rabs_triangle (a b c : Rat) : rabs (a - c) ≤ rabs (a - b) + rabs (b - c) := by
  unfold rabs
  split <;> split <;> split <;> linarith

theorem entryWithin_trans {t1 t2 a b c : Rat} (h1 : EntryWithin t1 a b) (h2 : EntryWithin t2 b c) (p1 : 0 ≤ t1) (p2 : 0 ≤ t2) :
    rabs (a - c) ≤ t1 + t2 + rtolDefault * (rabs b + rabs c) := by
  unfold EntryWithin at h1 h2
  have hb : (0 : Rat) ≤ rtolDefault * rabs b := mul_nonneg (by unfold rtolDefault; norm_num) (rabs_nonneg b)
  have hc : (0 : Rat) ≤ rtolDefault * rabs c := mul_nonneg (by unfold rtolDefault; norm_num) (rabs_nonneg c)
  have := rabs_triangle a b c
  rw [mul_add]
  rcases h1 with h1 | rfl <;> rcases h2 with h2 | rfl
  · linarith
  · have : rabs (b - b) = 0 := by rw [sub_self]; exact rabs_zero
    linarith
  · have : rabs (a - a) = 0 := by rw [sub_self]; exact rabs_zero
    linarith
  · have : rabs (a - a) = 0 := by rw [sub_self]; exact rabs_zero
    linarith

/-! ## the index transformer in both directions -/

/-- mapping indices from `A` to `B` and back gives the indices back (exact arithmetic, any two invertible affines) -/
theorem v2v_there_and_back {A B Ai Bi : Aff} (hA : A.inv = .ok Ai) (hB : B.inv = .ok Bi) (p : V3) :
    (Ai.comp B).apply ((Bi.comp A).apply p) = p ∧ (Bi.comp A).apply ((Ai.comp B).apply p) = p := by
  simp only [Aff.comp_apply]
  rw [Aff.inv_right hB, Aff.inv_left hA, Aff.inv_right hA, Aff.inv_left hB]
  exact ⟨rfl, rfl⟩

/-- an integer index as a point -/
def idxPt (k : Ax → Int) : V3 := ⟨(k 0 : Rat), (k 1 : Rat), (k 2 : Rat)⟩

theorem roundV_idxPt (k : Ax → Int) : roundV (idxPt k) = idxPt k := by
  unfold roundV idxPt
  simp only [roundHalfEven_intCast]

/-- If voxel `j` of `B` sits on voxel `f j` of `A` (same reference position) — what every chain of permutations, flips,
strided crops and pads guarantees — the transformer `B → A` sends the integer index `j` to exactly `f j`, the transformer
`A → B` sends `f j` back to `j`, and rounding changes neither. -/
theorem v2v_integral {A B Ai Bi : Aff} (hA : A.inv = .ok Ai) (hB : B.inv = .ok Bi) (f : (Ax → Int) → (Ax → Int))
    (hf : ∀ j, B.apply (idxPt j) = A.apply (idxPt (f j))) (j : Ax → Int) :
    (Ai.comp B).apply (idxPt j) = idxPt (f j) ∧ (Bi.comp A).apply (idxPt (f j)) = idxPt j ∧
    roundV ((Ai.comp B).apply (idxPt j)) = idxPt (f j) ∧ roundV ((Bi.comp A).apply (idxPt (f j))) = idxPt j := by
  have h1 : (Ai.comp B).apply (idxPt j) = idxPt (f j) := by
    rw [Aff.comp_apply, hf j, Aff.inv_left hA]
  have h2 : (Bi.comp A).apply (idxPt (f j)) = idxPt j := by
    rw [Aff.comp_apply, ← hf j, Aff.inv_left hB]
  exact ⟨h1, h2, by rw [h1, roundV_idxPt], by rw [h2, roundV_idxPt]⟩

theorem idxPt_toRef (g : Geom) (k : Ax → Int) : g.aff.apply (idxPt k) = g.toRef (toRat k) := by
  rw [toRef_eq_apply]; rfl

theorem invPerm_left (p : Ax → Ax) (hp : isPerm p = true) (i : Ax) : invPerm p (p i) = i := by
  rcases isPerm_cases p hp with ⟨h0, h1, h2⟩ | ⟨h0, h1, h2⟩ | ⟨h0, h1, h2⟩ | ⟨h0, h1, h2⟩ | ⟨h0, h1, h2⟩ | ⟨h0, h1, h2⟩ <;>
    rcases ax_cases i with rfl | rfl | rfl <;> simp [invPerm, h0, h1, h2]

/-- the source voxel under target voxel `k` for a reachable target: along source axis `p i` the index `first i + st i · k i` -/
def reachSrc (p : Ax → Ax) (first st : Ax → Int) (k : Ax → Int) : Ax → Int :=
  fun a => first (invPerm p a) + st (invPerm p a) * k (invPerm p a)

/-- a reachable target's voxel `k` sits exactly on the source's lattice point `reachSrc p first st k` -/
theorem reachable_toRef {src tgt : Geom} {p : Ax → Ax} {first st : Ax → Int} (hp : isPerm p = true)
    (hd : tgt.dir = (sliceGeom (permuted src p) first st tgt.shape).dir)
    (hs : tgt.spacing = (sliceGeom (permuted src p) first st tgt.shape).spacing)
    (hpos : tgt.pos = (sliceGeom (permuted src p) first st tgt.shape).pos) (k : Ax → Int) :
    tgt.toRef (toRat k) = src.toRef (toRat (reachSrc p first st k)) := by
  rw [toRef_congr tgt _ hd hs hpos, sliceGeom_toRef, ← permuted_toRef src p hp]
  congr 1
  funext i
  simp only [toRat, reachSrc, invPerm_left p hp i]

/-- **The two transformers between a source and any reachable target (every signed permutation of the axes, any integer
strides, any crop or pad) are integer-valued and mutually inverse on the voxels**: target index `k` ↦ source index
`reachSrc … k` exactly, and back; rounding changes nothing. -/
theorem v2v_reachable_integral {src tgt : Geom} {Ai Bi : Aff} (hA : src.aff.inv = .ok Ai) (hB : tgt.aff.inv = .ok Bi)
    (hr : Reachable src tgt) :
    ∃ (p : Ax → Ax) (first st : Ax → Int), isPerm p = true ∧ (∀ i, st i ≠ 0) ∧ ∀ k : Ax → Int,
      (Ai.comp tgt.aff).apply (idxPt k) = idxPt (reachSrc p first st k) ∧
      (Bi.comp src.aff).apply (idxPt (reachSrc p first st k)) = idxPt k ∧
      roundV ((Ai.comp tgt.aff).apply (idxPt k)) = idxPt (reachSrc p first st k) ∧
      roundV ((Bi.comp src.aff).apply (idxPt (reachSrc p first st k))) = idxPt k := by
  obtain ⟨p, first, st, hp, hst, hd, hs, hpos, _, _⟩ := hr
  refine ⟨p, first, st, hp, hst, fun k => ?_⟩
  exact v2v_integral hA hB (reachSrc p first st)
    (fun j => by rw [idxPt_toRef, idxPt_toRef]; exact reachable_toRef hp hd hs hpos j) k

/-! ## concrete geometries for the counterexamples -/

def unitGeom (x : Rat) (for_ : Option String) : Geom :=
  { dir := mk3 ⟨1, 0, 0⟩ ⟨0, 1, 0⟩ ⟨0, 0, 1⟩, spacing := mk3 1 1 1, pos := ⟨x, 0, 0⟩, shape := mk3 2 3 4, cs := "PATIENT",
    frameOfRef := for_ }

/-! ## tolerance semantics of the translated tests of `match_geometry` -/

/-- rounding a number within half a unit of an integer gives that integer -/
theorem roundHalfEven_near (s : Int) (e : Rat) (h1 : -(1 / 2) < e) (h2 : e < 1 / 2) : roundHalfEven ((s : Rat) + e) = s := by
  obtain ⟨a, b⟩ := roundHalfEven_bounds ((s : Rat) + e)
  have lo : ((s - 1 : Int) : Rat) < ((roundHalfEven ((s : Rat) + e) : Int) : Rat) := by push_cast; linarith
  have hi : ((roundHalfEven ((s : Rat) + e) : Int) : Rat) < ((s + 1 : Int) : Rat) := by push_cast; linarith
  have lo' := Int.cast_lt.mp lo
  have hi' := Int.cast_lt.mp hi
  omega

theorem rabs_neg_self (e : Rat) : (if (-e) < 0 then -(-e) else -e) = rabs e := by
  unfold rabs
  split <;> split <;> linarith

/-- **tolerance semantics of the translation test of `match_geometry`** (translated loop body): a target origin that sits
`e` voxels (|e| < 1/2) off the source voxel `s` along one axis is planned exactly like the origin on the voxel when
`|e| ≤ tol`, and refused (RuntimeError "non-integer multiple of voxel spacing") when `|e| > tol` -/
theorem mgCropPad_shift (s : Int) (e sp : Rat) (hsp : sp ≠ 0) (h1 : -(1 / 2) < e) (h2 : e < 1 / 2) (step no ni : Int)
    (tol : Rat) (htol : 0 ≤ tol) (rc rp : Bool) :
    (rabs e ≤ tol → mgCropPad (((s : Rat) + e) * sp) sp step no ni tol rc rp = mgCropPad ((s : Rat) * sp) sp step no ni tol rc rp) ∧
    (tol < rabs e → mgCropPad (((s : Rat) + e) * sp) sp step no ni tol rc rp = .error .runtime) := by
  have hsc : ((s : Rat) + e) * sp / sp = (s : Rat) + e := by field_simp
  have hsc0 : (s : Rat) * sp / sp = (s : Rat) := by field_simp
  have hr := roundHalfEven_near s e h1 h2
  have hd : ((s : Rat) - ((s : Rat) + e)) = -e := by ring
  have hz : ¬ (tol < 0) := not_lt.mpr htol
  constructor
  · intro hle
    have hc : ¬ (rabs e > tol) := not_lt.mpr hle
    unfold mgCropPad
    simp only [hsc, hsc0, hr, roundHalfEven_intCast, int_trunc, hd, rabs_neg_self, sub_self]
    simp [hc, hz]
  · intro hgt
    unfold mgCropPad
    simp only [hsc, hr, int_trunc, hd, rabs_neg_self]
    simp [hgt]

/-- **tolerance semantics of the scale test** (translated alignment body): parallel or anti-parallel unit vectors
(`σ = ±1`) and a spacing ratio `m + e` (`m ≥ 1` integer, |e| < 1/2): aligned with stride `σ·m` when `|e| ≤ tol`, refused
(RuntimeError "Non-integer scale factor required") when `|e| > tol` -/
theorem mgAlign_scale (σ : Int) (hσ : σ = 1 ∨ σ = -1) (m : Int) (hm : 1 ≤ m) (e t tol : Rat) (ht : t ≠ 0) (htol : 0 < tol)
    (h1 : -(1 / 2) < e) (h2 : e < 1 / 2) :
    (rabs e ≤ tol → mgAlign (σ : Rat) (((m : Rat) + e) * t) t tol = .ok (true, σ * m)) ∧
    (tol < rabs e → mgAlign (σ : Rat) (((m : Rat) + e) * t) t tol = .error .runtime) := by
  have hsc : ((m : Rat) + e) * t / t = (m : Rat) + e := by field_simp
  have hr := roundHalfEven_near m e h1 h2
  have hd : ((m : Rat) + e - (m : Rat)) = e := by ring
  have hz : ¬ (tol < 0) := not_lt.mpr (le_of_lt htol)
  have habs : (if e < 0 then -e else e) = rabs e := rfl
  constructor
  · intro hle
    have hc : ¬ (tol < rabs e) := not_lt.mpr hle
    unfold mgAlign
    simp only [hsc, hr, int_trunc, hd, habs]
    rcases hσ with rfl | rfl <;> simp [htol, hz, hc]
  · intro hgt
    unfold mgAlign
    simp only [hsc, hr, int_trunc, hd, habs]
    rcases hσ with rfl | rfl <;> simp [htol, hz, hgt]

/-- **tolerance semantics of the direction test**: a source axis is taken for a target axis exactly when the dot product `d`
of the two unit vectors satisfies `|d - 1| < tol` or `|d + 1| < tol` (for `d = cos θ`: `1 - |cos θ| < tol`); otherwise the
pair is passed over -/
theorem mgAlign_direction (d s t tol : Rat) :
    mgAlign d s t tol = .ok (false, 0) ↔ ¬ (rabs (d - 1) < tol ∨ rabs (d + 1) < tol) := by
  unfold mgAlign
  have e1 : (if d - 1 / 1 < 0 then -(d - 1 / 1) else d - 1 / 1) = rabs (d - 1) := by simp [rabs]
  have e2 : (if d + 1 / 1 < 0 then -(d + 1 / 1) else d + 1 / 1) = rabs (d + 1) := by simp [rabs]
  simp only [e1, e2]
  by_cases h : rabs (d - 1) < tol ∨ rabs (d + 1) < tol
  · have hc : (decide (rabs (d - 1) < tol) || decide (rabs (d + 1) < tol)) = true := by simpa using h
    simp only [hc, Bool.true_and, Bool.not_true, Bool.false_eq_true, if_false]
    constructor
    · intro hh; exfalso; split_ifs at hh <;> simp at hh
    · intro hh; exact absurd h hh
  · have hc : (decide (rabs (d - 1) < tol) || decide (rabs (d + 1) < tol)) = false := by simpa using h
    simp [hc, h]


/-! ## completeness and refusal around the tolerance: shifted targets -/

/-- the exact (on-lattice) target next to a shifted one: same axes, shape, coordinate system and frame of reference, origin on
the source voxel `first` of the permuted source -/
def onLattice (src T : Geom) (p : Ax → Ax) (first st : Ax → Int) : Geom :=
  { T with pos := (sliceGeom (permuted src p) first st T.shape).pos }

theorem planAxis_shift (G T R : Geom) (hwf : WF G) (first : Ax → Int) (e : Ax → Rat) (tol : Rat) (htol : 0 ≤ tol)
    (he : ∀ i, rabs (e i) ≤ tol ∧ -(1 / 2) < e i ∧ e i < 1 / 2)
    (hT : T.pos = G.toRef (fun i => (first i : Rat) + e i)) (hR : R.pos = G.toRef (toRat first)) (hs : T.shape = R.shape)
    (step : Int) (a : Ax) (rc rp : Bool) : planAxis G T step tol a rc rp = planAxis G R step tol a rc rp := by
  unfold planAxis
  have o1 : V3.dot (G.dir a) (V3.sub T.pos G.pos) = ((first a : Rat) + e a) * G.spacing a := by
    rw [hT]; exact dot_toRef_sub G hwf _ a
  have o2 : V3.dot (G.dir a) (V3.sub R.pos G.pos) = (first a : Rat) * G.spacing a := by
    rw [hR]; exact dot_toRef_sub G hwf (toRat first) a
  rw [o1, o2, hs]
  rw [(mgCropPad_shift (first a) (e a) (G.spacing a) (ne_of_gt (hwf.spacing_pos a)) (he a).2.1 (he a).2.2 step (R.shape a)
    (G.shape a) tol htol rc rp).1 (he a).1]

theorem matchPlan_shift (G T R : Geom) (hwf : WF G) (first : Ax → Int) (e : Ax → Rat) (tol : Rat) (htol : 0 ≤ tol)
    (he : ∀ i, rabs (e i) ≤ tol ∧ -(1 / 2) < e i ∧ e i < 1 / 2)
    (hT : T.pos = G.toRef (fun i => (first i : Rat) + e i)) (hR : R.pos = G.toRef (toRat first)) (hs : T.shape = R.shape)
    (steps : Ax → Int) : matchPlan G T steps tol = matchPlan G R steps tol := by
  unfold matchPlan
  simp only [planAxis_shift G T R hwf first e tol htol he hT hR hs]

theorem matchAlign_congr (src T R : Geom) (tol : Rat) (hd : T.dir = R.dir) (hs : T.spacing = R.spacing) :
    matchAlign src T tol = matchAlign src R tol := by
  unfold matchAlign; rw [hd, hs]

/-- **completeness inside the tolerance**: a target that is a reachable lattice (`onLattice`) shifted by `e i` source voxels
along each axis, `|e i| ≤ tol` (and `< 1/2`), whose origin is within `tol` (as `geometry_equal` judges it) of the lattice
point, is matched — with exactly the plan of the unshifted target; the result sits on the lattice -/
theorem matchGeometry_shifted {α : Type} (src : Vol α) (T : Geom) (tol : Rat) (c : PadMode α)
    (hwf : WF src.geom) (hshape : ∀ i, 1 ≤ T.shape i) (h0 : 0 < tol) (h1 : tol ≤ 1)
    (p : Ax → Ax) (first st : Ax → Int) (hp : isPerm p = true) (hst : ∀ i, st i ≠ 0)
    (hdir : T.dir = (sliceGeom (permuted src.geom p) first st T.shape).dir)
    (hsp : T.spacing = (sliceGeom (permuted src.geom p) first st T.shape).spacing)
    (hcs : T.cs = src.geom.cs) (hfor : forConflict src.geom T = false)
    (e : Ax → Rat) (he : ∀ i, rabs (e i) ≤ tol ∧ -(1 / 2) < e i ∧ e i < 1 / 2)
    (hpos : T.pos = (permuted src.geom p).toRef (fun i => (first i : Rat) + e i))
    (hclose : VecWithin tol (onLattice src.geom T p first st).pos T.pos) :
    ∃ r, matchGeometry src T tol c = .ok r ∧ matchGeometry src (onLattice src.geom T p first st) tol c = .ok r ∧
      (∀ i, r.geom.col i = T.col i) ∧ r.geom.pos = (onLattice src.geom T p first st).pos ∧ (∀ i, r.geom.shape i = T.shape i) := by
  set R := onLattice src.geom T p first st with hRdef
  have hRreach : Reachable src.geom R := ⟨p, first, st, hp, hst, hdir, hsp, rfl, hcs, hfor⟩
  obtain ⟨r, hr, hcol, hposr, hshr⟩ := matchGeometry_complete src R tol c hwf hshape h0 h1 hRreach
  obtain ⟨_, _, p', steps, nv, pl, hal, hperm, hplan, happ, hge⟩ := matchGeometry_ok src R tol c r hr
  have hal' : matchAlign src.geom T tol = .ok (p', steps) := by
    rw [matchAlign_congr src.geom T R tol rfl rfl]; exact hal
  have hpp : p' = p ∧ steps = st := by
    have := matchAlign_reach src.geom R hwf tol h0 h1 p first st hst hdir hsp
    rw [hal] at this
    simpa using this
  obtain ⟨rfl, rfl⟩ := hpp
  obtain ⟨nv', hnv', hg'⟩ := permute_step src p' hp
  have hnveq : nv' = nv := by rw [hperm] at hnv'; simpa using hnv'.symm
  subst hnveq
  have hplan' : matchPlan nv'.geom T steps tol = .ok pl := by
    rw [hg', matchPlan_shift (permuted src.geom p') T R (hwf.permuted p' hp) first e tol (le_of_lt h0) he hpos rfl rfl, ← hg']
    exact hplan
  have hge' : geometryEqual r.geom T (some tol) = .ok true := by
    obtain ⟨gs, gc, gf, _⟩ := (geometryEqual_true_iff r.geom R (some tol)).mp hge
    rw [geometryEqual_true_iff]
    refine ⟨gs, gc, gf, ?_, ?_⟩
    · intro i
      have : r.geom.col i = T.col i := hcol i
      rw [this]; exact vecWithin_self tol (le_of_lt h0) _
    · rw [hposr]; exact hclose
  refine ⟨r, ?_, hr, hcol, hposr, hshr⟩
  unfold matchGeometry
  have hhead : mgHead src.geom.frameOfRef T.frameOfRef src.geom.cs T.cs = .ok true := by
    rcases mgHead_spec src.geom T with ⟨_, _, hh⟩ | ⟨hbad, _⟩
    · exact hh
    · rcases hbad with hb | hb
      · rw [hfor] at hb; cases hb
      · exact absurd hcs.symm hb
  rw [hhead]
  simp only []
  rw [hal']
  simp only []
  rw [hperm]
  simp only []
  rw [hplan']
  simp only []
  rw [happ]
  simp only []
  rw [hge']

theorem planAxis_shift_refused (G T : Geom) (hwf : WF G) (first : Ax → Int) (e : Ax → Rat) (tol : Rat) (htol : 0 ≤ tol)
    (hT : T.pos = G.toRef (fun i => (first i : Rat) + e i)) (step : Int) (a : Ax) (rc rp : Bool)
    (h1 : -(1 / 2) < e a) (h2 : e a < 1 / 2) (hbad : tol < rabs (e a)) : planAxis G T step tol a rc rp = .error .runtime := by
  unfold planAxis
  have o1 : V3.dot (G.dir a) (V3.sub T.pos G.pos) = ((first a : Rat) + e a) * G.spacing a := by
    rw [hT]; exact dot_toRef_sub G hwf _ a
  rw [o1, (mgCropPad_shift (first a) (e a) (G.spacing a) (ne_of_gt (hwf.spacing_pos a)) h1 h2 step (T.shape a)
    (G.shape a) tol htol rc rp).2 hbad]

/-- **… and refused outside it**: if along some axis the origin is more than `tol` source voxels (and less than half a voxel)
off the lattice, `match_geometry` raises RuntimeError -/
theorem matchGeometry_shift_refused {α : Type} (src : Vol α) (T : Geom) (tol : Rat) (c : PadMode α)
    (hwf : WF src.geom) (hshape : ∀ i, 1 ≤ T.shape i) (h0 : 0 < tol) (h1 : tol ≤ 1)
    (p : Ax → Ax) (first st : Ax → Int) (hp : isPerm p = true) (hst : ∀ i, st i ≠ 0)
    (hdir : T.dir = (sliceGeom (permuted src.geom p) first st T.shape).dir)
    (hsp : T.spacing = (sliceGeom (permuted src.geom p) first st T.shape).spacing)
    (hcs : T.cs = src.geom.cs) (hfor : forConflict src.geom T = false)
    (e : Ax → Rat) (he : ∀ i, -(1 / 2) < e i ∧ e i < 1 / 2)
    (hpos : T.pos = (permuted src.geom p).toRef (fun i => (first i : Rat) + e i))
    (hbad : ∃ i, tol < rabs (e i)) : matchGeometry src T tol c = .error .runtime := by
  have htol := le_of_lt h0
  have hwfp := hwf.permuted p hp
  -- every axis: refused, or planned like the on-lattice target (which is planned)
  have hax : ∀ a rc rp, planAxis (permuted src.geom p) T (st a) tol a rc rp = .error .runtime ∨
      ∃ pl, planAxis (permuted src.geom p) T (st a) tol a rc rp = .ok pl := by
    intro a rc rp
    by_cases hb : tol < rabs (e a)
    · exact Or.inl (planAxis_shift_refused _ T hwfp first e tol htol hpos (st a) a rc rp (he a).1 (he a).2 hb)
    · right
      have hle : rabs (e a) ≤ tol := not_lt.mp hb
      unfold planAxis
      have o1 : V3.dot ((permuted src.geom p).dir a) (V3.sub T.pos (permuted src.geom p).pos) =
          ((first a : Rat) + e a) * (permuted src.geom p).spacing a := by
        rw [hpos]; exact dot_toRef_sub _ hwfp _ a
      rw [o1, (mgCropPad_shift (first a) (e a) _ (ne_of_gt (hwfp.spacing_pos a)) (he a).1 (he a).2 (st a) (T.shape a)
        ((permuted src.geom p).shape a) tol htol rc rp).1 hle]
      obtain ⟨r, hr, _⟩ := mgCropPad_axisOK (first a) ((permuted src.geom p).spacing a) (ne_of_gt (hwfp.spacing_pos a)) (st a)
        (T.shape a) ((permuted src.geom p).shape a) (hst a) (hshape a) tol htol rc rp
      rw [hr]; exact ⟨_, rfl⟩
  have hplan : matchPlan (permuted src.geom p) T st tol = .error .runtime := by
    obtain ⟨i, hi⟩ := hbad
    have hbadax : ∀ rc rp, planAxis (permuted src.geom p) T (st i) tol i rc rp = .error .runtime := fun rc rp =>
      planAxis_shift_refused _ T hwfp first e tol htol hpos (st i) i rc rp (he i).1 (he i).2 hi
    unfold matchPlan
    rcases hax 0 false false with h | ⟨p0, h⟩
    · rw [h]
    · rw [h]; simp only []
      rcases hax 1 p0.requiresCrop p0.requiresPad with h' | ⟨p1, h'⟩
      · rw [h']
      · rw [h']; simp only []
        rcases hax 2 p1.requiresCrop p1.requiresPad with h'' | ⟨p2, h''⟩
        · rw [h'']
        · exfalso
          rcases ax_cases i with rfl | rfl | rfl
          · rw [hbadax] at h; cases h
          · rw [hbadax] at h'; cases h'
          · rw [hbadax] at h''; cases h''
  unfold matchGeometry
  have hhead : mgHead src.geom.frameOfRef T.frameOfRef src.geom.cs T.cs = .ok true := by
    rcases mgHead_spec src.geom T with ⟨_, _, hh⟩ | ⟨hb, _⟩
    · exact hh
    · rcases hb with hb | hb
      · rw [hfor] at hb; cases hb
      · exact absurd hcs.symm hb
  rw [hhead]
  simp only []
  rw [matchAlign_reach src.geom T hwf tol h0 h1 p first st hst hdir hsp]
  simp only []
  obtain ⟨nv, hnv, hg⟩ := permute_step src p hp
  rw [hnv]
  simp only []
  rw [hg, hplan]


/-! ## … and perturbed spacings -/

/-- the alignment of one target axis that runs along source axis `j` (forwards or backwards) with spacing `(|st| + e)` source
spacings, `|e| < 1/2`: stride `st` when `|e| ≤ tol`, RuntimeError when `|e| > tol` -/
theorem alignAxis_scaled (src : Geom) (hwf : WF src) (j : Ax) (st : Int) (hst : st ≠ 0) (e tol : Rat) (h0 : 0 < tol)
    (h1 : tol ≤ 1) (e1 : -(1 / 2) < e) (e2 : e < 1 / 2) :
    (rabs e ≤ tol → alignAxis src (if st < 0 then V3.neg (src.dir j) else src.dir j)
        ((((st.natAbs : Int) : Rat) + e) * src.spacing j) tol = .ok (j, st)) ∧
    (tol < rabs e → alignAxis src (if st < 0 then V3.neg (src.dir j) else src.dir j)
        ((((st.natAbs : Int) : Rat) + e) * src.spacing j) tol = .error .runtime) := by
  have hdot : ∀ a, V3.dot (if st < 0 then V3.neg (src.dir j) else src.dir j) (src.dir a) =
      if j = a then (((if st < 0 then (-1 : Int) else 1) : Int) : Rat) else 0 := by
    intro a
    by_cases hs : st < 0 <;> by_cases hja : j = a <;> simp [hs, hja, dot_neg_left, hwf.orth]
  have hm : 1 ≤ ((st.natAbs : Int)) := by omega
  have hσ : (if st < 0 then (-1 : Int) else 1) = 1 ∨ (if st < 0 then (-1 : Int) else 1) = -1 := by
    split <;> simp
  obtain ⟨hin, hout⟩ := mgAlign_scale (if st < 0 then (-1 : Int) else 1) hσ (st.natAbs : Int) hm e (src.spacing j) tol
    (ne_of_gt (hwf.spacing_pos j)) h0 e1 e2
  rw [natAbs_sign] at hin
  constructor
  · intro hle
    have hpar := hin hle
    unfold alignAxis
    rcases ax_cases j with rfl | rfl | rfl
    · rw [hdot 0, if_pos rfl, hpar]
    · rw [hdot 0, if_neg (by decide), mgAlign_orth _ _ _ h1]
      simp only []
      rw [hdot 1, if_pos rfl, hpar]
    · rw [hdot 0, if_neg (by decide), mgAlign_orth _ _ _ h1]
      simp only []
      rw [hdot 1, if_neg (by decide), mgAlign_orth _ _ _ h1]
      simp only []
      rw [hdot 2, if_pos rfl, hpar]
  · intro hgt
    have hbad := hout hgt
    unfold alignAxis
    rcases ax_cases j with rfl | rfl | rfl
    · rw [hdot 0, if_pos rfl, hbad]
    · rw [hdot 0, if_neg (by decide), mgAlign_orth _ _ _ h1]
      simp only []
      rw [hdot 1, if_pos rfl, hbad]
    · rw [hdot 0, if_neg (by decide), mgAlign_orth _ _ _ h1]
      simp only []
      rw [hdot 1, if_neg (by decide), mgAlign_orth _ _ _ h1]
      simp only []
      rw [hdot 2, if_pos rfl, hbad]

theorem matchPlan_congr (G T R : Geom) (hp : T.pos = R.pos) (hs : T.shape = R.shape) (steps : Ax → Int) (tol : Rat) :
    matchPlan G T steps tol = matchPlan G R steps tol := by
  unfold matchPlan planAxis; rw [hp, hs]

/-- the exact target next to one with perturbed spacings -/
def onLatticeSpacing (src T : Geom) (p : Ax → Ax) (first st : Ax → Int) : Geom :=
  { T with spacing := (sliceGeom (permuted src p) first st T.shape).spacing }

/-- **non-integer scale, whole call**: a target on a reachable lattice whose spacing along axis `i` is `|st i| + e i` source
spacings (`|e i| < 1/2`) is matched — with the volume returned for the exact spacing — when every `|e i| ≤ tol` and its affine
is within `tol` of the exact one as `geometry_equal` measures it; it is refused with RuntimeError when some `|e i| > tol` -/
theorem matchGeometry_scaled {α : Type} (src : Vol α) (T : Geom) (tol : Rat) (c : PadMode α)
    (hwf : WF src.geom) (hshape : ∀ i, 1 ≤ T.shape i) (h0 : 0 < tol) (h1 : tol ≤ 1)
    (p : Ax → Ax) (first st : Ax → Int) (hp : isPerm p = true) (hst : ∀ i, st i ≠ 0)
    (hdir : T.dir = (sliceGeom (permuted src.geom p) first st T.shape).dir)
    (hpos : T.pos = (sliceGeom (permuted src.geom p) first st T.shape).pos)
    (hcs : T.cs = src.geom.cs) (hfor : forConflict src.geom T = false)
    (e : Ax → Rat) (he : ∀ i, -(1 / 2) < e i ∧ e i < 1 / 2)
    (hsp : ∀ i, T.spacing i = ((((st i).natAbs : Int) : Rat) + e i) * src.geom.spacing (p i)) :
    ((∀ i, rabs (e i) ≤ tol) → AffineWithin (onLatticeSpacing src.geom T p first st) T (some tol) →
      ∃ r, matchGeometry src T tol c = .ok r ∧ matchGeometry src (onLatticeSpacing src.geom T p first st) tol c = .ok r ∧
        (∀ i, r.geom.col i = (onLatticeSpacing src.geom T p first st).col i) ∧ r.geom.pos = T.pos ∧
        (∀ i, r.geom.shape i = T.shape i)) ∧
    ((∃ i, tol < rabs (e i)) → matchGeometry src T tol c = .error .runtime) := by
  set R := onLatticeSpacing src.geom T p first st with hRdef
  have hhead : mgHead src.geom.frameOfRef T.frameOfRef src.geom.cs T.cs = .ok true := by
    rcases mgHead_spec src.geom T with ⟨_, _, hh⟩ | ⟨hb, _⟩
    · exact hh
    · rcases hb with hb | hb
      · rw [hfor] at hb; cases hb
      · exact absurd hcs.symm hb
  have haxis : ∀ i, alignAxis src.geom (T.dir i) (T.spacing i) tol =
      alignAxis src.geom (if st i < 0 then V3.neg (src.geom.dir (p i)) else src.geom.dir (p i))
        (((((st i).natAbs : Int) : Rat) + e i) * src.geom.spacing (p i)) tol := by
    intro i
    rw [hdir, hsp i]
    simp only [sliceGeom, permuted]
  constructor
  · intro hle hclose
    have hRreach : Reachable src.geom R := ⟨p, first, st, hp, hst, hdir, rfl, hpos, hcs, hfor⟩
    obtain ⟨r, hr, hcol, hposr, hshr⟩ := matchGeometry_complete src R tol c hwf hshape h0 h1 hRreach
    obtain ⟨_, _, p', steps, nv, pl, hal, hperm, hplan, happ, hge⟩ := matchGeometry_ok src R tol c r hr
    have hpp : p' = p ∧ steps = st := by
      have := matchAlign_reach src.geom R hwf tol h0 h1 p first st hst hdir rfl
      rw [hal] at this
      simpa using this
    obtain ⟨rfl, rfl⟩ := hpp
    have hal' : matchAlign src.geom T tol = .ok (p', steps) := by
      unfold matchAlign
      rw [haxis 0, haxis 1, haxis 2,
        (alignAxis_scaled src.geom hwf (p' 0) (steps 0) (hst 0) (e 0) tol h0 h1 (he 0).1 (he 0).2).1 (hle 0),
        (alignAxis_scaled src.geom hwf (p' 1) (steps 1) (hst 1) (e 1) tol h0 h1 (he 1).1 (he 1).2).1 (hle 1),
        (alignAxis_scaled src.geom hwf (p' 2) (steps 2) (hst 2) (e 2) tol h0 h1 (he 2).1 (he 2).2).1 (hle 2)]
      simp only [mk3_eta]
    have hplan' : matchPlan nv.geom T steps tol = .ok pl := by
      rw [matchPlan_congr nv.geom T R rfl rfl]; exact hplan
    have hge' : geometryEqual r.geom T (some tol) = .ok true := by
      obtain ⟨gs, gc, gf, _⟩ := (geometryEqual_true_iff r.geom R (some tol)).mp hge
      rw [geometryEqual_true_iff]
      refine ⟨gs, gc, gf, ?_, ?_⟩
      · intro i; rw [hcol i]; exact hclose.1 i
      · rw [hposr]; exact hclose.2
    refine ⟨r, ?_, hr, hcol, hposr, hshr⟩
    unfold matchGeometry
    rw [hhead]
    simp only []
    rw [hal']
    simp only []
    rw [hperm]
    simp only []
    rw [hplan']
    simp only []
    rw [happ]
    simp only []
    rw [hge']
  · rintro ⟨i, hi⟩
    have hax : ∀ a, alignAxis src.geom (T.dir a) (T.spacing a) tol = .error .runtime ∨
        ∃ x, alignAxis src.geom (T.dir a) (T.spacing a) tol = .ok x := by
      intro a
      rw [haxis a]
      by_cases hb : tol < rabs (e a)
      · exact Or.inl ((alignAxis_scaled src.geom hwf (p a) (st a) (hst a) (e a) tol h0 h1 (he a).1 (he a).2).2 hb)
      · exact Or.inr ⟨_, (alignAxis_scaled src.geom hwf (p a) (st a) (hst a) (e a) tol h0 h1 (he a).1 (he a).2).1 (not_lt.mp hb)⟩
    have hbad : alignAxis src.geom (T.dir i) (T.spacing i) tol = .error .runtime := by
      rw [haxis i]
      exact (alignAxis_scaled src.geom hwf (p i) (st i) (hst i) (e i) tol h0 h1 (he i).1 (he i).2).2 hi
    have hal : matchAlign src.geom T tol = .error .runtime := by
      unfold matchAlign
      rcases hax 0 with h | ⟨x0, h⟩
      · rw [h]
      · rw [h]; simp only []
        rcases hax 1 with h' | ⟨x1, h'⟩
        · rw [h']
        · rw [h']; simp only []
          rcases hax 2 with h'' | ⟨x2, h''⟩
          · rw [h'']
          · exfalso
            rcases ax_cases i with rfl | rfl | rfl
            · rw [hbad] at h; cases h
            · rw [hbad] at h'; cases h'
            · rw [hbad] at h''; cases h''
    unfold matchGeometry
    rw [hhead]
    simp only []
    rw [hal]


/-! ## … and rotations beyond the tolerance -/

/-- the alignment body raises nothing but RuntimeError -/
theorem mgAlign_err (d s t tol : Rat) (e : ErrKind) (h : mgAlign d s t tol = .error e) : e = .runtime := by
  unfold mgAlign at h
  simp only [] at h
  split_ifs at h <;> simp_all

theorem alignAxis_err (src : Geom) (u : V3) (s tol : Rat) (e : ErrKind) (h : alignAxis src u s tol = .error e) : e = .runtime := by
  unfold alignAxis at h
  split at h
  · rename_i e0 h0; cases h; exact mgAlign_err _ _ _ _ _ h0
  · cases h
  · split at h
    · rename_i e1 h1; cases h; exact mgAlign_err _ _ _ _ _ h1
    · cases h
    · split at h
      · rename_i e2 h2; cases h; exact mgAlign_err _ _ _ _ _ h2
      · cases h
      · cases h; rfl

/-- a target axis whose unit vector is within tolerance of no source axis (forwards or backwards) cannot be aligned -/
theorem alignAxis_unaligned (src : Geom) (u : V3) (s tol : Rat)
    (h : ∀ j, ¬ (rabs (V3.dot u (src.dir j) - 1) < tol ∨ rabs (V3.dot u (src.dir j) + 1) < tol)) :
    alignAxis src u s tol = .error .runtime := by
  unfold alignAxis
  rw [(mgAlign_direction _ s _ tol).mpr (h 0)]
  simp only []
  rw [(mgAlign_direction _ s _ tol).mpr (h 1)]
  simp only []
  rw [(mgAlign_direction _ s _ tol).mpr (h 2)]

/-- **rotation beyond the tolerance, whole call**: if some target axis is within tolerance of no source axis, `match_geometry`
raises RuntimeError (same coordinate system, no conflicting frame of reference) -/
theorem matchGeometry_unaligned_refused {α : Type} (src : Vol α) (T : Geom) (tol : Rat) (c : PadMode α)
    (hcs : T.cs = src.geom.cs) (hfor : forConflict src.geom T = false) (i : Ax)
    (h : ∀ j, ¬ (rabs (V3.dot (T.dir i) (src.geom.dir j) - 1) < tol ∨ rabs (V3.dot (T.dir i) (src.geom.dir j) + 1) < tol)) :
    matchGeometry src T tol c = .error .runtime := by
  have hhead : mgHead src.geom.frameOfRef T.frameOfRef src.geom.cs T.cs = .ok true := by
    rcases mgHead_spec src.geom T with ⟨_, _, hh⟩ | ⟨hb, _⟩
    · exact hh
    · rcases hb with hb | hb
      · rw [hfor] at hb; cases hb
      · exact absurd hcs.symm hb
  have hbad := alignAxis_unaligned src.geom (T.dir i) (T.spacing i) tol h
  have hal : matchAlign src.geom T tol = .error .runtime := by
    unfold matchAlign
    cases h0 : alignAxis src.geom (T.dir 0) (T.spacing 0) tol with
    | error e => rw [alignAxis_err _ _ _ _ _ h0]
    | ok a0 =>
      simp only []
      cases h1 : alignAxis src.geom (T.dir 1) (T.spacing 1) tol with
      | error e => rw [alignAxis_err _ _ _ _ _ h1]
      | ok a1 =>
        simp only []
        cases h2 : alignAxis src.geom (T.dir 2) (T.spacing 2) tol with
        | error e => rw [alignAxis_err _ _ _ _ _ h2]
        | ok a2 =>
          exfalso
          rcases ax_cases i with rfl | rfl | rfl
          · rw [hbad] at h0; cases h0
          · rw [hbad] at h1; cases h1
          · rw [hbad] at h2; cases h2
  unfold matchGeometry
  rw [hhead]
  simp only []
  rw [hal]


end HdVerif.Match
