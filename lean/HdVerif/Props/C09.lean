import HdVerif.Proofs.Match
import HdVerif.Proofs.MatchTie
import HdVerif.Proofs.MatchRel
/-! # C09  Geometry matching and comparison mean what they say

Property theorems only (helper lemmas and the specification predicates `AffineWithin`,
`NoForConflict`, `Outside`, … live in `Proofs/Match.lean`).  The statements are about
`Model/Match.lean`, whose decision cores are *regenerated from /repo's current source* on every run:
`Gen.geomEqualDecision` (`geometry_equal`), `Gen.mgAlign`, `Gen.mgCropPad` (`match_geometry`),
`Gen.refBoundsAxis`, `Gen.v2vBoundsAxis` (the two bounds checks), `Gen.mgHead` (the refusals at the head
of `match_geometry`). -/
namespace HdVerif.C09
open HdVerif HdVerif.Gen HdVerif.Match

/-! ## Clause 1: comparison -/

/-- **`geometry_equal` says yes exactly when** the shapes are the same, the coordinate systems are
the same, no frame of reference conflicts (both known and different) and every entry of the affine
matrix is within tolerance (`|a - b| ≤ tol + 1e-5 |b|` **or identical**, `np.allclose` / `np.isclose` with its
`x == y` term — audit 2: the term decides for negative tolerances, where the inequality alone is false for equal
entries; identical when `tol` is `None`). -/
theorem geometryEqual_iff (g h : Geom) (tol : Option Rat) :
    geometryEqual g h tol = .ok true ↔
      ((∀ a, g.shape a = h.shape a) ∧ g.cs = h.cs ∧ NoForConflict g h ∧ AffineWithin g h tol) :=
  geometryEqual_true_iff g h tol

/-- … and it always answers (never raises). -/
theorem geometryEqual_total (g h : Geom) (tol : Option Rat) : ∃ b, geometryEqual g h tol = .ok b :=
  Match.geometryEqual_total g h tol

/-- **`geometry_equal` ignores channels**: the translated decision is handed the channel extents of
both arrays (`shape` = spatial shape + channel extent) and does not depend on them — a volume with
two channels, one with five and a bare `VolumeGeometry` compare equal iff their *spatial* shapes,
coordinate systems, affines and frames of reference agree. -/
theorem geometryEqual_ignores_channels (g h : Geom) (cg ch cg' ch' : Int) (tol : Option Rat) :
    geometryEqualC g h cg ch tol = geometryEqualC g h cg' ch' tol ∧
    geometryEqualC g h cg ch tol = geometryEqual g h tol := by
  rw [geometryEqualC_eq, geometryEqualC_eq]
  exact ⟨rfl, rfl⟩

/-- A conflicting frame of reference alone makes the answer no, whatever the affines are. -/
theorem geometryEqual_for_conflict (g h : Geom) (tol : Option Rat) (u v : String)
    (hg : g.frameOfRef = some u) (hh : h.frameOfRef = some v) (huv : u ≠ v) :
    geometryEqual g h tol = .ok false := by
  obtain ⟨b, hb⟩ := Match.geometryEqual_total g h tol
  cases b with
  | false => exact hb
  | true =>
    have := ((geometryEqual_iff g h tol).mp hb).2.2.1 u v hg hh
    exact absurd this huv

/-! ## Clause 2a: what `match_geometry` returns (soundness) -/

/-- **`match_sound`** (every padding mode, any voxel type — scalars or vectors of channel values):
whenever `match_geometry` returns a volume `r`,
* the geometry of `r` equals the target (`geometry_equal(r, target, tol)` as characterised by
  `geometryEqual_iff`), and
* for every voxel `k` of `r`: if a voxel `i` of the source sits at the same physical position then
  `r` carries the source value there; if no voxel of the source sits there, then the position is a
  point `j` of the source's grid *outside* the source and `r` carries the value the padding mode
  assigns to `j` (`PadMode.fill`: the constant; the nearest source voxel for EDGE; the statistic
  of the source for MINIMUM / MAXIMUM / MEAN / MEDIAN).
For every source with non-singular affine, every target and tolerance; a statistic only has to be
independent of the order of the axes (`StatLaw`). -/
theorem match_sound {α : Type} (src : Vol α) (tgt : Geom) (tol : Rat) (mode : PadMode α) (hlaw : StatLaw mode)
    (r : Vol α) (hdet : src.geom.aff.det ≠ 0) (h : matchGeometry src tgt tol mode = .ok r) :
    geometryEqual r.geom tgt (some tol) = .ok true ∧
    ∀ k, InShape r.geom.shape k →
      (∀ i, InShape src.geom.shape i → src.geom.toRef (toRat i) = r.geom.toRef (toRat k) → r.vox k = src.vox i) ∧
      ((∀ i, InShape src.geom.shape i → src.geom.toRef (toRat i) ≠ r.geom.toRef (toRat k)) →
        ∃ j, ¬ InShape src.geom.shape j ∧ src.geom.toRef (toRat j) = r.geom.toRef (toRat k) ∧
          r.vox k = mode.fill src j) := by
  obtain ⟨_, _, _, _, _, _, _, _, _, _, hge⟩ := matchGeometry_ok src tgt tol mode r h
  obtain ⟨m, hm⟩ := matchGeometry_prov src tgt tol mode hlaw r h
  exact ⟨hge, fun k hk => hm.coincide hdet k hk⟩

/-- CONSTANT mode: voxels that overlap no source voxel are the constant. -/
theorem match_sound_constant {α : Type} (src : Vol α) (tgt : Geom) (tol : Rat) (c : α) (r : Vol α)
    (hdet : src.geom.aff.det ≠ 0) (h : matchGeometry src tgt tol (.constant c) = .ok r) (k : Ax → Int)
    (hk : InShape r.geom.shape k)
    (hno : ∀ i, InShape src.geom.shape i → src.geom.toRef (toRat i) ≠ r.geom.toRef (toRat k)) : r.vox k = c := by
  obtain ⟨j, _, _, hv⟩ := ((match_sound src tgt tol (.constant c) trivial r hdet h).2 k hk).2 hno
  exact hv

/-- EDGE mode: *every* voxel of the result — overlapping or not — carries the value of the source
voxel nearest, axis by axis, to the source-grid point `j` at its position. -/
theorem match_sound_edge {α : Type} (src : Vol α) (tgt : Geom) (tol : Rat) (r : Vol α)
    (hdet : src.geom.aff.det ≠ 0) (h : matchGeometry src tgt tol .edge = .ok r) (k : Ax → Int)
    (hk : InShape r.geom.shape k) :
    ∃ j, src.geom.toRef (toRat j) = r.geom.toRef (toRat k) ∧ r.vox k = src.vox (clampIdx src.geom.shape j) := by
  obtain ⟨_, hvox⟩ := match_sound src tgt tol .edge trivial r hdet h
  obtain ⟨hin, hout⟩ := hvox k hk
  by_cases hex : ∃ i, InShape src.geom.shape i ∧ src.geom.toRef (toRat i) = r.geom.toRef (toRat k)
  · obtain ⟨i, hi, heq⟩ := hex
    refine ⟨i, heq, ?_⟩
    rw [hin i hi heq]
    congr 1
    funext a
    have := hi a
    simp only [clampIdx]
    omega
  · obtain ⟨j, _, heq, hv⟩ := hout (fun i hi heq => hex ⟨i, hi, heq⟩)
    exact ⟨j, heq, hv⟩

/-- MINIMUM / MAXIMUM / MEAN / MEDIAN (whole array or per channel): voxels that overlap no source
voxel carry the statistic *of the source*. -/
theorem match_sound_stat {α : Type} (src : Vol α) (tgt : Geom) (tol : Rat) (f : Vol α → α)
    (hlaw : ∀ (v w : Vol α) (p : Ax → Ax), permute v p = .ok w → f w = f v) (r : Vol α)
    (hdet : src.geom.aff.det ≠ 0) (h : matchGeometry src tgt tol (.stat f) = .ok r) (k : Ax → Int)
    (hk : InShape r.geom.shape k)
    (hno : ∀ i, InShape src.geom.shape i → src.geom.toRef (toRat i) ≠ r.geom.toRef (toRat k)) : r.vox k = f src := by
  obtain ⟨j, _, _, hv⟩ := ((match_sound src tgt tol (.stat f) hlaw r hdet h).2 k hk).2 hno
  exact hv

/-- **Channel dimensions.**  A volume with channel dimensions is a volume whose voxels are vectors
`Ch → β`; matching moves whole vectors: channel `ch` of a result voxel is channel `ch` of the source
voxel at the same position (channels are never mixed, permuted or resampled), and CONSTANT padding
puts the same scalar into every channel. -/
theorem match_sound_channels {Ch β : Type} (src : Vol (Ch → β)) (tgt : Geom) (tol : Rat) (c : β) (r : Vol (Ch → β))
    (hdet : src.geom.aff.det ≠ 0) (h : matchGeometry src tgt tol (.constant fun _ => c) = .ok r) (k : Ax → Int)
    (hk : InShape r.geom.shape k) (ch : Ch) :
    (∀ i, InShape src.geom.shape i → src.geom.toRef (toRat i) = r.geom.toRef (toRat k) → r.vox k ch = src.vox i ch) ∧
    ((∀ i, InShape src.geom.shape i → src.geom.toRef (toRat i) ≠ r.geom.toRef (toRat k)) → r.vox k ch = c) := by
  obtain ⟨_, hvox⟩ := match_sound src tgt tol (.constant fun _ => c) trivial r hdet h
  obtain ⟨hin, _⟩ := hvox k hk
  refine ⟨fun i hi heq => by rw [hin i hi heq], fun hno => ?_⟩
  rw [match_sound_constant src tgt tol (fun _ => c) r hdet h k hk hno]

/-- In particular the returned volume has the target's shape and coordinate system. -/
theorem match_shape {α : Type} (src : Vol α) (tgt : Geom) (tol : Rat) (c : PadMode α) (r : Vol α)
    (h : matchGeometry src tgt tol c = .ok r) : (∀ a, r.geom.shape a = tgt.shape a) ∧ r.geom.cs = tgt.cs := by
  obtain ⟨_, _, _, _, _, _, _, _, _, _, hge⟩ := matchGeometry_ok src tgt tol c r h
  have := (geometryEqual_iff _ _ _).mp hge
  exact ⟨this.1, this.2.1⟩

/-- A target in another frame of reference or another coordinate system is refused. -/
theorem match_refuses_conflict {α : Type} (src : Vol α) (tgt : Geom) (tol : Rat) (c : PadMode α)
    (h : (∃ u v, src.geom.frameOfRef = some u ∧ tgt.frameOfRef = some v ∧ u ≠ v) ∨ src.geom.cs ≠ tgt.cs) :
    matchGeometry src tgt tol c = .error .runtime := by
  unfold matchGeometry
  rcases mgHead_spec src.geom tgt with ⟨hf, hc, _⟩ | ⟨_, hhead⟩
  · exfalso
    rcases h with ⟨u, v, hu, hv, huv⟩ | hcs
    · simp [forConflict, hu, hv, huv] at hf
    · exact hcs hc
  · rw [hhead]

/-- **Only reachable geometries are ever returned**: the geometry of whatever `match_geometry`
returns is obtained from the source's by `permute_spatial_axes` / `pad` / slice-indexing steps — so
(with `match_sound`) a target is matched only if it equals, within the tolerance, a geometry
reachable from the source by permutation, flips, integer-stride cropping and padding; any other
target (sub-voxel shift, non-integer scale, rotation beyond the tolerance) is refused. -/
theorem match_only_reachable {α : Type} (src : Vol α) (tgt : Geom) (tol : Rat) (c : PadMode α) (r : Vol α)
    (h : matchGeometry src tgt tol c = .ok r) :
    Chain src.geom r.geom ∧ NormalForm src.geom r.geom ∧ geometryEqual r.geom tgt (some tol) = .ok true := by
  have hc := matchGeometry_chain src tgt tol c r h
  obtain ⟨_, _, _, _, _, _, _, _, _, _, hge⟩ := matchGeometry_ok src tgt tol c r h
  exact ⟨hc, hc.normalForm, hge⟩

/-! ## Clause 2b: when `match_geometry` succeeds (completeness) -/

/-- **Per axis, in full generality.**  Let the target origin sit on voxel `s` of a (permuted) source
axis with `ni` voxels — `s` any integer: before, inside or beyond the axis —, let the stride be any
non-zero integer `step` (negative: the target runs the other way) and the target have `no ≥ 1`
voxels.  Then the crop/pad derivation of `match_geometry` (the translated loop body) does not raise,
plans non-negative pad widths, and the slice it plans, applied to the padded axis of length
`ni + before + after`, selects exactly `no` positions starting at padded position `s + before` with
stride `step` — i.e. the source positions `s + step * j`, `j < no`; each of them lies inside the
padded axis.  Covers prefix, suffix and interior crops, strided crops, flips, padding on either
side and any mixture. -/
theorem match_complete_axis (s : Int) (sp : Rat) (hsp : sp ≠ 0) (step no ni : Int) (hstep : step ≠ 0) (hno : 1 ≤ no)
    (tol : Rat) (htol : 0 ≤ tol) (rc rp : Bool) :
    ∃ r, mgCropPad ((s : Rat) * sp) sp step no ni tol rc rp = .ok r ∧
      0 ≤ (planOf r).before ∧ 0 ≤ (planOf r).after ∧
      getitemAxis (planOf r).sl (ni + (planOf r).before + (planOf r).after) = .ok (s + (planOf r).before, step, no) ∧
      ∀ j, 0 ≤ j → j < no →
        0 ≤ s + (planOf r).before + step * j ∧ s + (planOf r).before + step * j < ni + (planOf r).before + (planOf r).after := by
  obtain ⟨r, hr, hok⟩ := mgCropPad_axisOK s sp hsp step no ni hstep hno tol htol rc rp
  exact ⟨r, hr, hok.before_nonneg, hok.after_nonneg, hok.slice, (getitemAxis_range _ _ _ _ _ hok.slice).2.2.2⟩

/-- **`match_complete`, composed over the three axes.**  If the target is a strided sub-lattice of
the axis-permuted source (`Reachable`: target axis `i` runs along source axis `p i`, forwards or
backwards, `|st i|` source voxels per target voxel, origin on an integer — possibly out-of-range —
source voxel), has at least one voxel per axis, lives in the same coordinate system with no
conflicting frame of reference, and the source is well formed (orthonormal unit vectors, positive
spacings), then `match_geometry` succeeds for every tolerance `0 < tol ≤ 1`, and the volume it
returns has *exactly* the target's affine matrix and shape. -/
theorem match_complete {α : Type} (src : Vol α) (tgt : Geom) (tol : Rat) (c : PadMode α)
    (hwf : WF src.geom) (hshape : ∀ i, 1 ≤ tgt.shape i) (h0 : 0 < tol) (h1 : tol ≤ 1)
    (hr : Reachable src.geom tgt) :
    ∃ r, matchGeometry src tgt tol c = .ok r ∧ (∀ i, r.geom.col i = tgt.col i) ∧ r.geom.pos = tgt.pos ∧
      (∀ i, r.geom.shape i = tgt.shape i) :=
  matchGeometry_complete src tgt tol c hwf hshape h0 h1 hr

/-- **`match_complete` for chains of operations.**  Every geometry obtained from the source's by a
finite chain of `permute_spatial_axes`, `pad` and indexing with slices (crop of a prefix, suffix or
interior, any positive stride, negative strides = flips), in any order and of any length, is matched;
the target may carry the same frame of reference or none. -/
theorem match_complete_chain {α : Type} (src : Vol α) (g tgt : Geom) (tol : Rat) (c : PadMode α)
    (hwf : WF src.geom) (hsrc : ∀ i, 1 ≤ src.geom.shape i) (h0 : 0 < tol) (h1 : tol ≤ 1)
    (hchain : Chain src.geom g)
    (hsame : tgt.dir = g.dir ∧ tgt.spacing = g.spacing ∧ tgt.pos = g.pos ∧ tgt.shape = g.shape ∧ tgt.cs = g.cs)
    (hfor : NoForConflict src.geom tgt) :
    ∃ r, matchGeometry src tgt tol c = .ok r ∧ (∀ i, r.geom.col i = tgt.col i) ∧ r.geom.pos = tgt.pos ∧
      (∀ i, r.geom.shape i = tgt.shape i) := by
  obtain ⟨hd, hs, hp, hsh, hc⟩ := hsame
  obtain ⟨p, first, st, hperm, hst, gd, gs, gp, gcs, _⟩ := hchain.normalForm
  have hpos := hchain.shape_pos hsrc
  apply match_complete src tgt tol c hwf (by rw [hsh]; exact hpos) h0 h1
  refine ⟨p, first, st, hperm, hst, ?_, ?_, ?_, by rw [hc, gcs], (forConflict_false_iff _ _).mpr hfor⟩
  · rw [hd, gd]; rfl
  · rw [hs, gs]; rfl
  · rw [hp, gp]; rfl

/-- Soundness and completeness together: for a reachable target the call returns a volume with the
target's geometry whose voxels are the source's wherever a source voxel sits at the same position and
the padding value elsewhere. -/
theorem match_reachable_spec {α : Type} (src : Vol α) (tgt : Geom) (tol : Rat) (c : α)
    (hwf : WF src.geom) (hshape : ∀ i, 1 ≤ tgt.shape i) (h0 : 0 < tol) (h1 : tol ≤ 1)
    (hr : Reachable src.geom tgt) :
    ∃ r, matchGeometry src tgt tol (.constant c) = .ok r ∧ (∀ i, r.geom.col i = tgt.col i) ∧ r.geom.pos = tgt.pos ∧
      ∀ k, InShape tgt.shape k →
        (∀ i, InShape src.geom.shape i → src.geom.toRef (toRat i) = tgt.toRef (toRat k) → r.vox k = src.vox i) ∧
        ((∀ i, InShape src.geom.shape i → src.geom.toRef (toRat i) ≠ tgt.toRef (toRat k)) → r.vox k = c) := by
  obtain ⟨r, hr1, hcol, hpos, hsh⟩ := match_complete src tgt tol (.constant c) hwf hshape h0 h1 hr
  have href : ∀ k, r.geom.toRef k = tgt.toRef k := by
    intro k; simp only [Geom.toRef, hcol, hpos]
  refine ⟨r, hr1, hcol, hpos, fun k hk => ?_⟩
  have hk' : InShape r.geom.shape k := fun a => by rw [hsh a]; exact hk a
  have h1 := ((match_sound src tgt tol (.constant c) trivial r hwf.det_ne_zero hr1).2 k hk').1
  have h2 := match_sound_constant src tgt tol c r hwf.det_ne_zero hr1 k hk'
  simp only [href] at h1 h2
  exact ⟨h1, h2⟩

/-- **What happens for `tol > 1`** (why `match_complete` asks for `tol ≤ 1`): the alignment test
`|u·v - 1| < tol or |u·v + 1| < tol` then accepts every pair of unit vectors and the integer-scale test
cannot fail, so all three target axes are assigned to source axis 0 and
`permute_spatial_axes([0, 0, 0])` raises ValueError — `match_geometry` refuses *every* target in the
same coordinate system, whatever its geometry. -/
theorem match_tol_gt_one {α : Type} (src : Vol α) (tgt : Geom) (tol : Rat) (mode : PadMode α) (h : 1 < tol)
    (hs : UnitDirs src.geom) (ht : UnitDirs tgt) (hfor : forConflict src.geom tgt = false) (hcs : src.geom.cs = tgt.cs) :
    matchGeometry src tgt tol mode = .error .value :=
  matchGeometry_tol_gt_one src tgt tol mode h hs ht hfor hcs

/-- In particular completeness fails beyond 1 already for the trivially reachable target: a
well-formed volume cannot be matched to its own geometry with `tol > 1` (`tol = 1` still works, by
`match_complete`). -/
theorem counterexample_match_complete_tol_gt_one {α : Type} (src : Vol α) (tol : Rat) (mode : PadMode α)
    (hwf : WF src.geom) (h : 1 < tol) :
    Reachable src.geom src.geom ∧ matchGeometry src src.geom tol mode = .error .value := by
  refine ⟨(NormalForm.refl _).reachable, ?_⟩
  have hu : UnitDirs src.geom := fun a => by have := hwf.orth a a; simpa using this
  apply match_tol_gt_one src src.geom tol mode h hu hu _ rfl
  unfold forConflict
  rcases src.geom.frameOfRef with _ | u <;> simp

/-! ## Clause 3: index mapping between two volumes -/

/-- the dtype of the index array leaves unrounded results alone: an integer / unsigned / bool kind
(results stay float64) or float64 itself (`narrow` is the identity) -/
def ExactFloatOut (dt : PtDtype) : Prop := dt.kind ≠ "f" ∨ ∀ x, dt.narrow x = x

/-- what the transformer does to one mapped point before returning it: rounding (then an `astype`
that is proved harmless), or the cast back to a floating input type -/
def v2vPost (dt : PtDtype) (roundOut : Bool) (y : V3) : V3 :=
  if roundOut then roundV y else if dt.kind == "f" then narrowV dt.narrow y else y

/-- **The transformer agrees with mapping through physical space — for every dtype of the index
array.**  Let `f p` be *the* point of the target's index space whose reference position
`to.affine · y` equals the reference position `from.affine · p` (existence and uniqueness are part of
the statement).  Whenever the transformer answers:
* with `round_output`, if every rounded result is an index int64 can hold (`FitsInt64`, |index| < 2^63),
  the result is `round (f p)` — **no wrap-around**, whatever the input dtype (int8 … uint64, floats):
  the input's integer type is kept only when all results were seen to fit it (translated decision
  `Gen.v2vKeepInputType`), otherwise int64 is used;
* without rounding the result is `f p` for integer, unsigned, bool and float64 inputs; for a narrower
  floating input type it is `f p` rounded to that type (`narrow`, the documented "output dtype matches
  the input dtype"). -/
theorem v2v_eq_via_reference (fromA toA inv : Aff) (shape : Ax → Int) (dt : PtDtype) (roundOut check : Bool)
    (pts out : List V3) (hinv : toA.inv = .ok inv)
    (hfit : roundOut = true → FitsInt64 (pts.map (inv.comp fromA).apply))
    (h : v2v fromA toA shape dt roundOut check pts = .ok out) :
    (∀ p, toA.apply ((inv.comp fromA).apply p) = fromA.apply p) ∧
    (∀ p y, toA.apply y = fromA.apply p → y = (inv.comp fromA).apply p) ∧
    out = pts.map (fun p => v2vPost dt roundOut ((inv.comp fromA).apply p)) ∧
    (ExactFloatOut dt → out = pts.map (fun p => if roundOut then roundV ((inv.comp fromA).apply p) else (inv.comp fromA).apply p)) := by
  refine ⟨fun p => by rw [Aff.comp_apply, Aff.inv_right hinv],
    fun p y hy => by rw [Aff.comp_apply, ← hy, Aff.inv_left hinv], ?_⟩
  have hcast : v2vCast dt roundOut (pts.map (fun p => if roundOut then roundV ((inv.comp fromA).apply p) else (inv.comp fromA).apply p)) =
      .ok (pts.map (fun p => v2vPost dt roundOut ((inv.comp fromA).apply p))) := by
    cases roundOut with
    | true =>
      have := v2vCast_round dt (pts.map (inv.comp fromA).apply) (hfit rfl)
      simp only [List.map_map] at this
      simpa only [v2vPost, Function.comp_def, if_true] using this
    | false =>
      rw [v2vCast_unrounded]
      congr 1
      by_cases hk : (dt.kind == "f") = true <;> simp [v2vPost, hk, List.map_map, Function.comp]
  have hout : out = pts.map (fun p => v2vPost dt roundOut ((inv.comp fromA).apply p)) := by
    unfold v2v at h
    simp only [hinv, hcast] at h
    cases check with
    | false => simpa using h.symm
    | true =>
      simp only [if_true] at h
      split at h
      · cases h
      · cases h
      · simpa using h.symm
  refine ⟨hout, fun hex => ?_⟩
  rw [hout]
  apply List.map_congr_left
  intro p _
  unfold v2vPost
  cases roundOut with
  | true => rfl
  | false =>
    simp only [Bool.false_eq_true, if_false]
    rcases hex with hk | hn
    · have : (dt.kind == "f") = false := by simpa using hk
      simp [this]
    · split
      · apply V3.ext' <;> simp [narrowV, hn]
      · rfl

/-- The same statement in the library's own terms: transforming (float64) indices equals
`map_indices_to_reference` of the source followed by `map_reference_to_indices` of the target. -/
theorem v2v_eq_ref_then_idx (fromA toA : Aff) (shape : Ax → Int) (dt : PtDtype) (hdt : ExactFloatOut dt) (pts : List V3) :
    v2v fromA toA shape dt false false pts = refToIdx toA shape false false (pts.map fromA.apply) := by
  unfold v2v refToIdx
  cases hinv : toA.inv with
  | error e => rfl
  | ok inv =>
    simp only [Bool.false_eq_true, if_false, List.map_map, v2vCast_unrounded]
    congr 1
    rcases hdt with hk | hn
    · have : (dt.kind == "f") = false := by simpa using hk
      simp only [this, Bool.false_eq_true, if_false]
      apply List.map_congr_left
      intro p _
      simp [Aff.comp_apply]
    · have hid : narrowV dt.narrow = id := by
        funext v; apply V3.ext' <;> simp [narrowV, hn]
      split <;> simp [hid, List.map_map, Function.comp, Aff.comp_apply]

/-- **The 4×4 inverse is the affine inverse.**  For every invertible affine matrix (`A.inv = .ok B`,
i.e. `det ≠ 0`): the model's inverse `B` (adjugate / determinant, with translation `-L⁻¹ t`), written
as a 4×4 matrix, is a two-sided inverse of the 4×4 affine matrix, and it is the *only* one — any
4×4 matrix that inverts the affine matrix from either side, in particular whatever `np.linalg.inv`
computes for `inverse_affine`, equals it entry by entry. -/
theorem inverse4_eq_affine_inverse (A B : Aff) (h : A.inv = .ok B) :
    B.hom.mul A.hom = M4.one ∧ A.hom.mul B.hom = M4.one ∧
    ∀ M : M4, (M.mul A.hom = M4.one ∨ A.hom.mul M = M4.one) → M = B.hom :=
  ⟨(Aff.hom_inv h).1, (Aff.hom_inv h).2, fun M hM => Aff.inv4_unique h M hM⟩

/-- Every affine matrix with non-zero determinant is invertible in the model. -/
theorem affine_invertible_of_det (A : Aff) (h : A.det ≠ 0) : ∃ B, A.inv = .ok B := Aff.inv_of_det h

/-- **The transformer as the code computes it**: `self._affine = to.inverse_affine @ from.affine` as
a product of 4×4 matrices with *any* 4×4 inverse `I4` of the target's affine matrix, applied to
`[x, y, z, 1]` and cut to three rows, is the model's `(inv ∘ from)` — the map of
`v2v_eq_via_reference`. -/
theorem v2v_matrix_form (fromA toA inv : Aff) (hinv : toA.inv = .ok inv) (I4 : M4)
    (hI : I4.mul toA.hom = M4.one ∨ toA.hom.mul I4 = M4.one) (p : V3) :
    (I4.mul fromA.hom).applyPt p = (inv.comp fromA).apply p := by
  rw [Aff.inv4_unique hinv I4 hI, ← Aff.hom_comp, Aff.hom_applyPt]

/-! ## Clause 4: bounds checks -/

/-- **Bounds check of `map_reference_to_indices`**: it refuses (RuntimeError) iff some point really
lies outside the volume, i.e. has an (unrounded) index coordinate below `-1/2` or above `n - 1/2`;
otherwise it returns the (rounded, if asked) indices. -/
theorem bounds_iff_outside (A inv : Aff) (shape : Ax → Int) (roundOut : Bool) (pts : List V3)
    (hinv : A.inv = .ok inv) :
    (refToIdx A shape roundOut true pts = .error .runtime ↔ ∃ q ∈ pts.map inv.apply, Outside shape q) ∧
    ((¬ ∃ q ∈ pts.map inv.apply, Outside shape q) →
      refToIdx A shape roundOut true pts = .ok (if roundOut then (pts.map inv.apply).map roundV else pts.map inv.apply)) := by
  obtain ⟨b, hb, hiff⟩ := boundsFail_spec refBoundsAxis refBoundsAxis_eq shape (pts.map inv.apply)
  unfold refToIdx
  simp only [hinv, if_true, hb]
  cases b with
  | true =>
    have hex := hiff.mp rfl
    exact ⟨⟨fun _ => hex, fun _ => rfl⟩, fun hn => absurd hex hn⟩
  | false =>
    have hnex : ¬ ∃ q ∈ pts.map inv.apply, Outside shape q := fun hex => by simpa using hiff.mpr hex
    exact ⟨⟨fun h => (by cases h), fun hex => absurd hex hnex⟩, fun _ => rfl⟩

/-- **Bounds check of the transformer** (any dtype of the index array): it refuses (ValueError) iff
some *returned* point lies outside the target; otherwise it returns them.  The returned points are
`v2vPost` of the mapped points — by `v2v_eq_via_reference` the true (rounded) images whenever the
rounded results fit int64, so a narrow integer input type can no longer make an inside point fail. -/
theorem v2v_bounds_iff_outside (fromA toA inv : Aff) (shape : Ax → Int) (dt : PtDtype) (roundOut : Bool) (pts : List V3)
    (hinv : toA.inv = .ok inv) (hfit : roundOut = true → FitsInt64 (pts.map (inv.comp fromA).apply)) :
    (v2v fromA toA shape dt roundOut true pts = .error .value ↔
      ∃ q ∈ pts.map (fun p => v2vPost dt roundOut ((inv.comp fromA).apply p)), Outside shape q) ∧
    ((¬ ∃ q ∈ pts.map (fun p => v2vPost dt roundOut ((inv.comp fromA).apply p)), Outside shape q) →
      v2v fromA toA shape dt roundOut true pts =
        .ok (pts.map (fun p => v2vPost dt roundOut ((inv.comp fromA).apply p)))) := by
  have hcast : v2vCast dt roundOut (pts.map (fun p => if roundOut then roundV ((inv.comp fromA).apply p) else (inv.comp fromA).apply p)) =
      .ok (pts.map (fun p => v2vPost dt roundOut ((inv.comp fromA).apply p))) := by
    cases roundOut with
    | true =>
      have := v2vCast_round dt (pts.map (inv.comp fromA).apply) (hfit rfl)
      simp only [List.map_map] at this
      simpa only [v2vPost, Function.comp_def, if_true] using this
    | false =>
      rw [v2vCast_unrounded]
      congr 1
      by_cases hk : (dt.kind == "f") = true <;> simp [v2vPost, hk, List.map_map, Function.comp]
  obtain ⟨b, hb, hiff⟩ := boundsFail_spec v2vBoundsAxis v2vBoundsAxis_eq shape
    (pts.map (fun p => v2vPost dt roundOut ((inv.comp fromA).apply p)))
  unfold v2v
  simp only [hinv, hcast, if_true, hb]
  cases b with
  | true =>
    have hex := hiff.mp rfl
    exact ⟨⟨fun _ => hex, fun _ => rfl⟩, fun hn => absurd hex hn⟩
  | false =>
    have hnex : ¬ ∃ q ∈ pts.map (fun p => v2vPost dt roundOut ((inv.comp fromA).apply p)), Outside shape q :=
      fun hex => by simpa using hiff.mpr hex
    exact ⟨⟨fun h => (by cases h), fun hex => absurd hex hnex⟩, fun _ => rfl⟩

/-- With rounding the transformer tests the *rounded* indices: a returned point is "outside" iff one
of its coordinates is not an index of the target array … -/
theorem rounded_outside_iff_invalid (shape : Ax → Int) (y : V3) :
    Outside shape (roundV y) ↔
      (roundHalfEven y.x < 0 ∨ shape 0 ≤ roundHalfEven y.x) ∨ (roundHalfEven y.y < 0 ∨ shape 1 ≤ roundHalfEven y.y) ∨
      (roundHalfEven y.z < 0 ∨ shape 2 ≤ roundHalfEven y.z) := by
  unfold Outside roundV
  simp only [outsideAxis_int]

/-- … and that happens only for points that are not strictly inside the target (a point exactly on
the upper face `n - 1/2` rounds to `n` when `n` is even; the lower face `-1/2` always rounds to 0). -/
theorem rounded_outside_only_if (shape : Ax → Int) (y : V3) (h : Outside shape (roundV y)) :
    (y.x < -(1 / 2) ∨ (shape 0 : Rat) - 1 / 2 ≤ y.x) ∨ (y.y < -(1 / 2) ∨ (shape 1 : Rat) - 1 / 2 ≤ y.y) ∨
    (y.z < -(1 / 2) ∨ (shape 2 : Rat) - 1 / 2 ≤ y.z) := by
  rcases h with h | h | h
  · exact Or.inl (rounded_outside_imp _ _ h)
  · exact Or.inr (Or.inl (rounded_outside_imp _ _ h))
  · exact Or.inr (Or.inr (rounded_outside_imp _ _ h))

/-- An empty set of points passes both checks (for every dtype). -/
theorem bounds_empty (fromA toA : Aff) (shape : Ax → Int) (dt : PtDtype) (roundOut : Bool) (inv : Aff)
    (hinv : toA.inv = .ok inv) :
    v2v fromA toA shape dt roundOut true [] = .ok [] ∧ refToIdx toA shape roundOut true [] = .ok [] := by
  constructor
  · have := (v2v_bounds_iff_outside fromA toA inv shape dt roundOut [] hinv (fun _ y hy => by cases hy)).2
    simpa using this
  · unfold refToIdx
    simp [hinv, boundsFail]

/-! ## The hand-written sequencing is the sequencing of the source -/

/-- **Structural obligation.**  `Gen.mgSteps`, `Gen.v2vSteps`, `Gen.refIdxSteps` are regenerated on
every run from the AST of `match_geometry`, `VolumeToVolumeTransformer.__init__/__call__` and
`map_reference_to_indices`: the ordered list of their top-level operations (for `match_geometry` with
each operation's guard over `requires_permute / requires_pad / requires_crop`; the arguments of every
call, the initialisation of the accumulators and flags and what the loops range over are checked
textually).  Executing those lists is *equal*, for all inputs, to the staged definitions
`matchGeometry`, `v2v`, `refToIdx` that every theorem above is about — so a reordering (crop before
pad, bounds check before rounding, …), a changed guard or a dropped step breaks this proof. -/
theorem model_follows_source_order :
    (∀ {α : Type} (src : Vol α) (tgt : Geom) (tol : Rat) (mode : PadMode α),
      matchBySource src tgt tol mode = matchGeometry src tgt tol mode) ∧
    (∀ (fromA toA : Aff) (shape : Ax → Int) (dt : PtDtype) (roundOut check : Bool) (pts : List V3),
      v2vBySource fromA toA shape dt roundOut check pts = v2v fromA toA shape dt roundOut check pts) ∧
    (∀ (A : Aff) (shape : Ax → Int) (roundOut check : Bool) (pts : List V3),
      refToIdxBySource A shape roundOut check pts = refToIdx A shape roundOut check pts) :=
  ⟨fun src tgt tol mode => match_follows src tgt tol mode, v2v_follows, refToIdx_follows⟩

/-- **The entry points hold no state.**  The model represents a transformer, a volume and a geometry
as *values* and `__call__`, `map_reference_to_indices`, `map_indices_to_reference`, `geometry_equal`,
`match_geometry` as functions of their arguments: an answer cannot depend on earlier calls on the same
object.  This is justified by what is regenerated from the AST on every run (TC09h): the list of writes
each of these methods performs on its own object — `self.x = …`, `self.x[…] = …`, augmented
assignments, deletions, in-place mutator calls and `out=` arguments rooted at `self` — is empty.  A
method that starts to keep a workspace, a cache or a counter on `self` makes this proof fail (and the
correspondence then runs histories of calls on one object against fresh objects). -/
theorem entry_points_hold_no_state :
    v2vCallSelfWrites = [] ∧ refIdxSelfWrites = [] ∧ idxRefSelfWrites = [] ∧ geqSelfWrites = [] ∧ mgSelfWrites = [] := by
  decide

/-! ## Bridges: hand-written definitions use exactly the expressions of the source -/

/-- **Argument forwarding of the crop/pad loop** (`Gen.mgPlanArgs`, regenerated from the `zip(…)` of the loop, the
`origin_offset` difference, `offset = v @ origin_offset` and the flag initialisations): the model's per-axis plan hands the
translated loop body the a-th entries of exactly those sequences, and the loop threads the flags from the source's initial
values.  Swapping two zipped sequences, reversing the origin difference or starting a flag at `True` breaks this proof. -/
theorem plan_forwards_source_args (nv tgt : Geom) (steps : Ax → Int) (tol : Rat) :
    (∀ a rc rp, planAxis nv tgt (steps a) tol a rc rp = planAxisGen mgPlanArgs nv tgt steps tol a rc rp) ∧
    matchPlan nv tgt steps tol = matchPlanGen mgPlanArgs nv tgt steps tol :=
  ⟨fun a rc rp => planAxis_forwards_source_args nv tgt steps tol a rc rp, matchPlan_forwards_source_args nv tgt steps tol⟩

/-- **Argument forwarding of the alignment loops** (`Gen.mgAlignArgs`, regenerated from the two `zip(…)`s): target axis `i`
contributes `u, s` and candidate source axis `j = 0, 1, 2` (first match wins) contributes `v, t` from exactly the sequences
the source zips; the outer loop runs over the target's three axes. -/
theorem align_forwards_source_args (src tgt : Geom) (tol : Rat) :
    (∀ i, alignAxis src (tgt.dir i) (tgt.spacing i) tol = alignAxisGen mgAlignArgs src tgt i tol) ∧
    matchAlign src tgt tol =
      (match alignAxisGen mgAlignArgs src tgt 0 tol with
       | .error e => .error e
       | .ok a0 =>
       match alignAxisGen mgAlignArgs src tgt 1 tol with
       | .error e => .error e
       | .ok a1 =>
       match alignAxisGen mgAlignArgs src tgt 2 tol with
       | .error e => .error e
       | .ok a2 => .ok (mk3 a0.1 a1.1 a2.1, mk3 a0.2 a1.2 a2.2)) :=
  ⟨fun i => alignAxis_forwards_source_args src tgt i tol, matchAlign_forwards_source_args src tgt tol⟩

/-- **`__getitem__` with a slice** (`Gen.giCheckSlice`, `Gen.giAxis`, regenerated from `_prepare_getitem_index`): the
model's per-axis indexing is the source's `_check_slice`, then — for what `slice.indices` returns — the source's emptiness
test, size formula, origin index and column factor. -/
theorem getitem_uses_source (s : Sl) (n : Int) :
    getitemAxis s n =
      (match giCheckSlice (some s.start) s.stop n with
       | .error e => .error e
       | .ok _ =>
         if s.step = 0 then .error .value
         else giAxis (adjustBound s.start n s.step) (lastOf s n) s.step) :=
  getitemAxis_uses_source s n

/-! ## Non-vacuity: the hypotheses are satisfiable by concrete non-trivial inputs -/

/-- a 2×3×4 source: axis 0 along x, axis 1 along y (spacing 1/2), axis 2 along z (spacing 2);
voxel values encode the index -/
def exSrc : Vol Int :=
  { geom := { dir := mk3 ⟨1, 0, 0⟩ ⟨0, 1, 0⟩ ⟨0, 0, 1⟩, spacing := mk3 1 (1 / 2) 2, pos := ⟨10, 20, 30⟩,
              shape := mk3 2 3 4, cs := "PATIENT", frameOfRef := some "1.2.3" },
    vox := fun k => 100 * k 0 + 10 * k 1 + k 2 }

/-- target: axes (z backwards with stride 2, x, y), 3×4×2 voxels, origin on source voxel (-1, 1, 3):
permutation + flip + strided crop + prefix crop + padding before and after, no frame of reference -/
def exTgt : Geom :=
  { dir := mk3 ⟨0, 0, -1⟩ ⟨1, 0, 0⟩ ⟨0, 1, 0⟩, spacing := mk3 4 1 (1 / 2), pos := ⟨9, 20 + 1 / 2, 36⟩,
    shape := mk3 3 4 2, cs := "PATIENT", frameOfRef := none }

example : WF exSrc.geom := by
  refine ⟨fun a b => ?_, fun a => ?_⟩
  · rcases ax_cases a with rfl | rfl | rfl <;> rcases ax_cases b with rfl | rfl | rfl <;>
      simp [exSrc, V3.dot]
  · rcases ax_cases a with rfl | rfl | rfl <;> simp [exSrc]

example : exSrc.geom.aff.det ≠ 0 := by decide +kernel

example : Reachable exSrc.geom exTgt := by
  refine ⟨mk3 2 0 1, mk3 3 (-1) 1, mk3 (-2) 1 1, by decide, ?_, ?_, ?_, ?_, rfl, rfl⟩
  · intro i; rcases ax_cases i with rfl | rfl | rfl <;> decide
  · funext i; rcases ax_cases i with rfl | rfl | rfl <;> simp [exTgt, exSrc, sliceGeom, permuted, V3.neg]
  · funext i; rcases ax_cases i with rfl | rfl | rfl <;> simp [exTgt, exSrc, sliceGeom, permuted] <;> norm_num
  · apply V3.ext' <;> simp [exTgt, exSrc, sliceGeom, permuted, Geom.toRef, Geom.col, toRat, V3.add, V3.smul] <;> norm_num

/-- the model run on this pair: matched; voxel (0,1,0) of the result is source voxel (0,1,3), voxel
(1,2,1) is source voxel (1,2,1), voxels (0,0,0) and (2,1,0) lie outside the source: padding -/
example : (match matchGeometry exSrc exTgt (1 / 100000) (.constant (-7)) with
    | .ok r => r.vox (mk3 0 1 0) == 13 && r.vox (mk3 1 2 1) == 121 && r.vox (mk3 0 0 0) == -7 && r.vox (mk3 2 1 0) == -7
        && r.geom.shape 0 == 3 && r.geom.shape 1 == 4 && r.geom.shape 2 == 2
    | .error _ => false) = true := by decide +kernel

/-- EDGE: the two voxels outside the source now carry the nearest source voxels (0,1,3) and (0,1,0) -/
example : (match matchGeometry exSrc exTgt (1 / 100000) .edge with
    | .ok r => r.vox (mk3 0 1 0) == 13 && r.vox (mk3 0 0 0) == 13 && r.vox (mk3 2 1 0) == 10
    | .error _ => false) = true := by decide +kernel

/-- a statistic that obeys the law (number of voxels: depends on the volume, not on the order of its
axes), and the model run with it: padding = 24, the statistic of the *source* -/
example : StatLaw (.stat (fun v : Vol Int => v.geom.shape 0 * v.geom.shape 1 * v.geom.shape 2)) := by
  intro v w p h
  obtain ⟨_, hg, hp⟩ := permute_iso v w p h
  simp only [hg]
  rcases isPerm_cases p hp with ⟨h0, h1, h2⟩ | ⟨h0, h1, h2⟩ | ⟨h0, h1, h2⟩ | ⟨h0, h1, h2⟩ | ⟨h0, h1, h2⟩ | ⟨h0, h1, h2⟩ <;>
    simp only [h0, h1, h2] <;> ring
example : (match matchGeometry exSrc exTgt (1 / 100000)
      (.stat (fun v : Vol Int => v.geom.shape 0 * v.geom.shape 1 * v.geom.shape 2)) with
    | .ok r => r.vox (mk3 0 1 0) == 13 && r.vox (mk3 0 0 0) == 24 && r.vox (mk3 2 1 0) == 24
    | .error _ => false) = true := by decide +kernel

/-- two channels (`Bool`-indexed) with unrelated contents: both move together, the constant goes
into both -/
example : (match matchGeometry (α := Bool → Int)
      { geom := exSrc.geom, vox := fun k ch => if ch then 7 * exSrc.vox k + 1 else exSrc.vox k } exTgt (1 / 100000)
      (.constant fun _ => -7) with
    | .ok r => r.vox (mk3 0 1 0) false == 13 && r.vox (mk3 0 1 0) true == 92 && r.vox (mk3 0 0 0) false == -7
        && r.vox (mk3 0 0 0) true == -7
    | .error _ => false) = true := by decide +kernel

/-- `tol > 1`: even the source's own geometry is refused, with a ValueError; with `tol = 1` it is matched -/
example : (match matchGeometry exSrc exSrc.geom (3 / 2) (.constant 0) with
    | .ok _ => false
    | .error e => e == .value) = true := by decide +kernel
example : (match matchGeometry exSrc exSrc.geom 1 (.constant 0) with
    | .ok r => r.vox (mk3 1 2 3) == 123
    | .error _ => false) = true := by decide +kernel

/-- channels are ignored by the comparison: 2 against 5 channels, same geometry -/
example : geometryEqualC exTgt exTgt 2 5 (some (1 / 100000)) = .ok true := by decide +kernel

/-- the same target shifted by a quarter of a source voxel, scaled by 3/2, or in another frame of
reference is refused -/
example : (match matchGeometry exSrc { exTgt with pos := ⟨9 + 1 / 4, 20 + 1 / 2, 36⟩ } (1 / 100000) (.constant (-7)) with
    | .ok _ => false
    | .error e => e == .runtime) = true := by decide +kernel
example : (match matchGeometry exSrc { exTgt with spacing := mk3 3 1 (1 / 2) } (1 / 100000) (.constant (-7)) with
    | .ok _ => false
    | .error e => e == .runtime) = true := by decide +kernel
example : (match matchGeometry exSrc { exTgt with frameOfRef := some "9.9" } (1 / 100000) (.constant (-7)) with
    | .ok _ => false
    | .error e => e == .runtime) = true := by decide +kernel

/-- `geometry_equal`: equal to itself, unequal after a shift of 1/1000, equal after a shift of
1/1000000 (inside `tol + rtol |b|`), unequal for `tol = None` then -/
example : geometryEqual exTgt exTgt (some (1 / 100000)) = .ok true := by decide +kernel
example : geometryEqual exTgt { exTgt with pos := ⟨9 + 1 / 1000, 20 + 1 / 2, 36⟩ } (some (1 / 100000)) = .ok false := by
  decide +kernel
example : geometryEqual exTgt { exTgt with pos := ⟨9 + 1 / 1000000, 20 + 1 / 2, 36⟩ } (some (1 / 100000)) = .ok true := by
  decide +kernel
example : geometryEqual exTgt { exTgt with pos := ⟨9 + 1 / 1000000, 20 + 1 / 2, 36⟩ } none = .ok false := by
  decide +kernel

/-- dtypes of index arrays: float64, int8, uint8 -/
def f64 : PtDtype := ⟨"f", 0, 0, id⟩
def i8 : PtDtype := ⟨"i", -128, 127, id⟩
def u8 : PtDtype := ⟨"u", 0, 255, id⟩

/-- transformer between the two geometries: source index (0,1,3) is target index (0,1,0); the
bounds check passes for it, fails for source index (1,2,0) (target index 3/2 along axis 0 is fine,
but …) -/
example : v2v exSrc.geom.aff exTgt.aff exTgt.shape f64 false true [⟨0, 1, 3⟩] = .ok [⟨0, 1, 0⟩] := by decide +kernel
example : v2v exSrc.geom.aff exTgt.aff exTgt.shape f64 false true [⟨0, 1, 3⟩, ⟨1, 2, -3⟩] = .error .value := by decide +kernel
/-- a point exactly on the lower face passes, with and without rounding; on the upper face of an
axis of even length it passes unrounded and fails rounded (the returned index would be `n`) -/
example : v2v exTgt.aff exTgt.aff exTgt.shape f64 false true [⟨-(1 / 2), 0, 0⟩, ⟨0, 7 / 2, 0⟩] =
    .ok [⟨-(1 / 2), 0, 0⟩, ⟨0, 7 / 2, 0⟩] := by decide +kernel
example : v2v exTgt.aff exTgt.aff exTgt.shape f64 true true [⟨-(1 / 2), 0, 0⟩] = .ok [⟨0, 0, 0⟩] := by decide +kernel
example : v2v exTgt.aff exTgt.aff exTgt.shape f64 true true [⟨0, 7 / 2, 0⟩] = .error .value := by decide +kernel

/-- the auditor's inputs on the model: a uint8 index one voxel before the target origin maps to -1
(not 255); an int8 index 100 at half the spacing maps to 200 inside a 300³ target and passes the
bounds check (the cast the unfixed code performed, `castIntV (-128) 127`, gives -56) -/
example : v2v ⟨⟨1, 0, 0⟩, ⟨0, 1, 0⟩, ⟨0, 0, 1⟩, ⟨0, 0, 0⟩⟩ ⟨⟨1, 0, 0⟩, ⟨0, 1, 0⟩, ⟨0, 0, 1⟩, ⟨1, 0, 0⟩⟩ (mk3 4 4 4) u8 false false
    [⟨0, 0, 0⟩] = .ok [⟨-1, 0, 0⟩] := by decide +kernel
example : v2v ⟨⟨1, 0, 0⟩, ⟨0, 1, 0⟩, ⟨0, 0, 1⟩, ⟨0, 0, 0⟩⟩ ⟨⟨1 / 2, 0, 0⟩, ⟨0, 1 / 2, 0⟩, ⟨0, 0, 1 / 2⟩, ⟨0, 0, 0⟩⟩ (mk3 300 300 300)
    i8 true true [⟨100, 0, 0⟩] = .ok [⟨200, 0, 0⟩] := by decide +kernel
example : castIntV (-128) 127 ⟨200, 0, 0⟩ = ⟨-56, 0, 0⟩ := by decide +kernel
/-- a result that does fit the input type keeps it and is unchanged as well -/
example : v2v ⟨⟨1, 0, 0⟩, ⟨0, 1, 0⟩, ⟨0, 0, 1⟩, ⟨0, 0, 0⟩⟩ ⟨⟨1 / 2, 0, 0⟩, ⟨0, 1 / 2, 0⟩, ⟨0, 0, 1 / 2⟩, ⟨0, 0, 0⟩⟩ (mk3 300 300 300)
    i8 true true [⟨60, 1, 0⟩] = .ok [⟨120, 2, 0⟩] := by decide +kernel

/-! ## Observed at the upper face (audit, LOW): `map_reference_to_indices` checks before it rounds -/

/-- the upper face `n - 1/2` of an axis of even length rounds (half to even) to `n` -/
theorem round_upper_face_even (n : Int) (h : n % 2 = 0) : roundHalfEven ((n : Rat) - 1 / 2) = n := by
  have hfl : Rat.floor ((n : Rat) - 1 / 2) = n - 1 := by
    apply rat_floor_eq
    · push_cast; linarith
    · push_cast; linarith
  unfold roundHalfEven
  simp only [hfl]
  have hd : (n : Rat) - 1 / 2 - ((n - 1 : Int) : Rat) = 1 / 2 := by push_cast; ring
  rw [hd]
  have h1 : ¬ ((1 : Rat) / 2 < 1 / 2) := lt_irrefl _
  have h2 : ¬ ((n - 1) % 2 = 0) := by omega
  simp only [h1, if_false, h2]
  omega

/-- hence `map_reference_to_indices(round_output=True, check_bounds=True)` — which tests the
*unrounded* index — lets a point exactly on the upper face of an even axis pass and returns the
index `n`, which is not an index of the array; the transformer, which tests after rounding, refuses
the same point (`v2v` example above).  Not a violation of "fails only for points really outside"
(the point is on the boundary), recorded here as a theorem rather than a remark. -/
theorem counterexample_ref_rounded_face_returns_n :
    refToIdx exTgt.aff exTgt.shape true true [exTgt.aff.apply ⟨0, 7 / 2, 0⟩] = .ok [⟨0, 4, 0⟩] ∧ exTgt.shape 1 = 4 := by
  decide +kernel

/-- the bridges on concrete inputs: the regenerated forwarding evaluates the example pair like the model; a suffix crop
that ends exactly at the end of the axis is accepted by the regenerated `_check_slice` -/
example : (match matchPlanGen mgPlanArgs (permuted exSrc.geom (mk3 2 0 1)) exTgt (mk3 (-2) 1 1) (1 / 100000) with
    | .ok pl => pl.1.before == 2 && pl.1.sl.start == 5 && pl.2.1.before == 1 && pl.2.1.after == 1 && pl.2.2.sl.start == 1
    | .error _ => false) = true := by decide +kernel
example : alignAxisGen mgAlignArgs exSrc.geom exTgt 0 (1 / 100000) = .ok (2, -2) := by decide +kernel
example : getitemAxis ⟨1, some 4, 1⟩ 4 = .ok (1, 1, 3) ∧ giCheckSlice (some 1) (some 4) 4 = .ok true := by decide +kernel


/-! # round 2 -/

/-! ## `geometry_equal` as a relation: what holds and what does not -/

/-- **Reflexive**: every object equals itself, for `tol=None` and EVERY tolerance — negative ones included, through the
`x == y` term of `np.isclose` (confirmed on the real code: `g.geometry_equal(g, tol=-1.0)` is True). -/
theorem geometryEqual_refl (g : Geom) (tol : Option Rat) : geometryEqual g g tol = .ok true :=
  geometryEqual_refl' g tol

/-- **Symmetric for `tol=None`** (exact comparison): the answer does not depend on the order. -/
theorem geometryEqual_symm_exact (g h : Geom) : geometryEqual g h none = geometryEqual h g none :=
  geometryEqual_symm_none g h

/-- **Symmetric within the absolute part of the tolerance**: if shapes, coordinate systems and frames of reference agree and
every affine entry differs by at most `t` (not counting `np.allclose`'s relative term), both orders answer yes. -/
theorem geometryEqual_symm_within_atol (g h : Geom) (t : Rat) (hs : ∀ a, g.shape a = h.shape a) (hc : g.cs = h.cs)
    (hf : NoForConflict g h) (ha : AffineAbsWithin g h t) :
    geometryEqual g h (some t) = .ok true ∧ geometryEqual h g (some t) = .ok true :=
  ⟨(geometryEqual_iff g h _).mpr ⟨hs, hc, hf, (affineWithin_of_abs ha).1⟩,
   (geometryEqual_iff h g _).mpr ⟨fun a => (hs a).symm, hc.symm, noForConflict_symm hf, (affineWithin_of_abs ha).2⟩⟩

/-- **Not symmetric in general** (`np.allclose(a, b)` scales its relative term by `|b|`): at the default tolerance
`1e-5`, translations `100000` and `100001.000015` compare equal in one order and unequal in the other (confirmed on the
real code; the window is `tol + 1e-5·|a| < |a - b| ≤ tol + 1e-5·|b|`). -/
theorem counterexample_geometryEqual_not_symmetric :
    geometryEqual (unitGeom 100000 none) (unitGeom (100001 + 15 / 1000000) none) (some (1 / 100000)) = .ok true ∧
    geometryEqual (unitGeom (100001 + 15 / 1000000) none) (unitGeom 100000 none) (some (1 / 100000)) = .ok false := by
  decide +kernel

/-- **Not transitive**: two steps of `3/4·tol` are each within tolerance, together they are not. -/
theorem counterexample_geometryEqual_not_transitive :
    geometryEqual (unitGeom 0 none) (unitGeom (3 / 4096) none) (some (1 / 1024)) = .ok true ∧
    geometryEqual (unitGeom (3 / 4096) none) (unitGeom (6 / 4096) none) (some (1 / 1024)) = .ok true ∧
    geometryEqual (unitGeom 0 none) (unitGeom (6 / 4096) none) (some (1 / 1024)) = .ok false := by
  decide +kernel

/-- **Frames of reference: not transitive either** — an object without frame of reference equals objects of two different
frames of reference, which are unequal to each other (for every tolerance, `None` included). -/
theorem counterexample_for_not_transitive :
    geometryEqual (unitGeom 0 (some "1.2.3")) (unitGeom 0 none) none = .ok true ∧
    geometryEqual (unitGeom 0 none) (unitGeom 0 (some "1.2.4")) none = .ok true ∧
    geometryEqual (unitGeom 0 (some "1.2.3")) (unitGeom 0 (some "1.2.4")) none = .ok false := by
  decide +kernel

/-- what does hold along a chain: entry by entry, the tolerances add up (plus the two relative terms) -/
theorem geometryEqual_entry_triangle (t1 t2 a b c : Rat) (h1 : EntryWithin t1 a b) (h2 : EntryWithin t2 b c)
    (p1 : 0 ≤ t1) (p2 : 0 ≤ t2) : rabs (a - c) ≤ t1 + t2 + rtolDefault * (rabs b + rabs c) :=
  entryWithin_trans h1 h2 p1 p2

/-! ## the index transformers of both directions -/

/-- **Mutually inverse**: for any two volumes with invertible affines, transforming indices `A → B` and then `B → A`
(unrounded, exact arithmetic) gives the indices back, in either order. -/
theorem v2v_there_and_back (A B Ai Bi : Aff) (hA : A.inv = .ok Ai) (hB : B.inv = .ok Bi) (p : V3) :
    (Ai.comp B).apply ((Bi.comp A).apply p) = p ∧ (Bi.comp A).apply ((Ai.comp B).apply p) = p :=
  Match.v2v_there_and_back hA hB p

/-- … and through the entry point itself (float64 / integer index arrays, no rounding, no bounds check): the output of
the transformer `A → B`, handed to the transformer `B → A`, returns the input. -/
theorem v2v_roundtrip (A B Ai Bi : Aff) (sa sb : Ax → Int) (dt : PtDtype) (hdt : ExactFloatOut dt) (pts out : List V3)
    (hA : A.inv = .ok Ai) (hB : B.inv = .ok Bi) (h : v2v A B sb dt false false pts = .ok out) :
    v2v B A sa dt false false out = .ok pts := by
  obtain ⟨_, _, _, h4⟩ := v2v_eq_via_reference A B Bi sb dt false false pts out hB (fun h => by cases h) h
  have ho := h4 hdt
  simp only [Bool.false_eq_true, if_false] at ho
  have hback : ∃ out2, v2v B A sa dt false false out = .ok out2 := by
    unfold v2v
    simp only [hA, Bool.false_eq_true, if_false, v2vCast_unrounded]
    exact ⟨_, rfl⟩
  obtain ⟨out2, h2⟩ := hback
  obtain ⟨_, _, _, k4⟩ := v2v_eq_via_reference B A Ai sa dt false false out out2 hA (fun h => by cases h) h2
  have ho2 := k4 hdt
  simp only [Bool.false_eq_true, if_false] at ho2
  rw [h2, ho2, ho, List.map_map]
  congr 1
  conv_rhs => rw [← List.map_id pts]
  apply List.map_congr_left
  intro p _
  exact (Match.v2v_there_and_back hA hB p).1

/-- **Integral on the lattice**: if every voxel `j` of `B` sits on voxel `f j` of `A` (same reference position), the
transformer `B → A` maps the index `j` to exactly `f j`, the transformer `A → B` maps `f j` back to `j`, and rounding
(`round_output=True`) changes neither. -/
theorem v2v_integral_on_lattice (A B Ai Bi : Aff) (hA : A.inv = .ok Ai) (hB : B.inv = .ok Bi)
    (f : (Ax → Int) → (Ax → Int)) (hf : ∀ j, B.apply (idxPt j) = A.apply (idxPt (f j))) (j : Ax → Int) :
    (Ai.comp B).apply (idxPt j) = idxPt (f j) ∧ (Bi.comp A).apply (idxPt (f j)) = idxPt j ∧
    roundV ((Ai.comp B).apply (idxPt j)) = idxPt (f j) ∧ roundV ((Bi.comp A).apply (idxPt (f j))) = idxPt j :=
  v2v_integral hA hB f hf j

/-- **Every reachable target — every signed permutation of the axes, any integer strides, crops and pads**: the two
transformers between source and target are integer-valued on voxel indices and mutually inverse; target index `k` goes to
source index `first + st · k` along the permuted axes (`reachSrc`). -/
theorem v2v_reachable_integral (src tgt : Geom) (Ai Bi : Aff) (hA : src.aff.inv = .ok Ai) (hB : tgt.aff.inv = .ok Bi)
    (hr : Reachable src tgt) :
    ∃ (p : Ax → Ax) (first st : Ax → Int), isPerm p = true ∧ (∀ i, st i ≠ 0) ∧ ∀ k : Ax → Int,
      (Ai.comp tgt.aff).apply (idxPt k) = idxPt (reachSrc p first st k) ∧
      (Bi.comp src.aff).apply (idxPt (reachSrc p first st k)) = idxPt k ∧
      roundV ((Ai.comp tgt.aff).apply (idxPt k)) = idxPt (reachSrc p first st k) ∧
      roundV ((Bi.comp src.aff).apply (idxPt (reachSrc p first st k))) = idxPt k :=
  Match.v2v_reachable_integral hA hB hr

/-! ## tolerance semantics of `match_geometry`, test by test (translated bodies TC09a / TC09b) -/

/-- **Sub-voxel shift**: a target origin `e` voxels off a source voxel along an axis (`|e| < 1/2`) is planned exactly like the
origin on the voxel when `|e| ≤ tol` and refused (RuntimeError) when `|e| > tol` — the boundary is `tol` in units of the
source's voxel spacing, inclusive.  (`planAxis` hands `offset = v · (other.position - position)` and the spacing to this body:
`plan_forwards_source_args`; the final `geometry_equal` then judges the absolute shift entry by entry.) -/
theorem match_shift_tolerance (s : Int) (e sp : Rat) (hsp : sp ≠ 0) (h1 : -(1 / 2) < e) (h2 : e < 1 / 2) (step no ni : Int)
    (tol : Rat) (htol : 0 ≤ tol) (rc rp : Bool) :
    (rabs e ≤ tol → mgCropPad (((s : Rat) + e) * sp) sp step no ni tol rc rp = mgCropPad ((s : Rat) * sp) sp step no ni tol rc rp) ∧
    (tol < rabs e → mgCropPad (((s : Rat) + e) * sp) sp step no ni tol rc rp = .error .runtime) :=
  mgCropPad_shift s e sp hsp h1 h2 step no ni tol htol rc rp

/-- **Non-integer scale**: (anti-)parallel axes with spacing ratio `m + e` (`m ≥ 1`, `|e| < 1/2`): stride `±m` when `|e| ≤ tol`,
RuntimeError when `|e| > tol`. -/
theorem match_scale_tolerance (σ : Int) (hσ : σ = 1 ∨ σ = -1) (m : Int) (hm : 1 ≤ m) (e t tol : Rat) (ht : t ≠ 0)
    (htol : 0 < tol) (h1 : -(1 / 2) < e) (h2 : e < 1 / 2) :
    (rabs e ≤ tol → mgAlign (σ : Rat) (((m : Rat) + e) * t) t tol = .ok (true, σ * m)) ∧
    (tol < rabs e → mgAlign (σ : Rat) (((m : Rat) + e) * t) t tol = .error .runtime) :=
  mgAlign_scale σ hσ m hm e t tol ht htol h1 h2

/-- **Rotation**: a source axis is passed over for a target axis exactly when the dot product `d` of the unit vectors has
neither `|d - 1| < tol` nor `|d + 1| < tol` (strict; for an angle θ between them: `1 - |cos θ| ≥ tol`). -/
theorem match_direction_tolerance (d s t tol : Rat) :
    mgAlign d s t tol = .ok (false, 0) ↔ ¬ (rabs (d - 1) < tol ∨ rabs (d + 1) < tol) :=
  mgAlign_direction d s t tol

/-! ## sound AND complete around the tolerance: sub-voxel shifts of a reachable target -/

/-- **`match_geometry` decides sub-voxel shifts exactly at `tol`** (whole call, not only the loop body).  Let the target have
the axes and shape of a reachable lattice (axis `i` along source axis `p i`, stride `st i`, origin on source voxel `first`),
but its origin `e i` source voxels off that voxel along each axis, `|e i| < 1/2`, source well-formed, `0 < tol ≤ 1`:
* if every `|e i| ≤ tol` and the origin is within `tol` of the lattice point as `geometry_equal` measures it (absolute,
  `|a-b| ≤ tol + 1e-5|b|`), the call SUCCEEDS, with exactly the volume it returns for the unshifted target (`onLattice`): same
  plan, same voxels, affine columns of the target, origin on the lattice point;
* if some `|e i| > tol`, the call is REFUSED with RuntimeError. -/
theorem match_shifted_target_decided_at_tol {α : Type} (src : Vol α) (T : Geom) (tol : Rat) (c : PadMode α)
    (hwf : WF src.geom) (hshape : ∀ i, 1 ≤ T.shape i) (h0 : 0 < tol) (h1 : tol ≤ 1)
    (p : Ax → Ax) (first st : Ax → Int) (hp : isPerm p = true) (hst : ∀ i, st i ≠ 0)
    (hdir : T.dir = (sliceGeom (permuted src.geom p) first st T.shape).dir)
    (hsp : T.spacing = (sliceGeom (permuted src.geom p) first st T.shape).spacing)
    (hcs : T.cs = src.geom.cs) (hfor : forConflict src.geom T = false)
    (e : Ax → Rat) (he : ∀ i, -(1 / 2) < e i ∧ e i < 1 / 2)
    (hpos : T.pos = (permuted src.geom p).toRef (fun i => (first i : Rat) + e i)) :
    ((∀ i, rabs (e i) ≤ tol) → VecWithin tol (onLattice src.geom T p first st).pos T.pos →
      ∃ r, matchGeometry src T tol c = .ok r ∧ matchGeometry src (onLattice src.geom T p first st) tol c = .ok r ∧
        (∀ i, r.geom.col i = T.col i) ∧ r.geom.pos = (onLattice src.geom T p first st).pos ∧
        (∀ i, r.geom.shape i = T.shape i)) ∧
    ((∃ i, tol < rabs (e i)) → matchGeometry src T tol c = .error .runtime) :=
  ⟨fun hle hclose => matchGeometry_shifted src T tol c hwf hshape h0 h1 p first st hp hst hdir hsp hcs hfor e
      (fun i => ⟨hle i, (he i).1, (he i).2⟩) hpos hclose,
   fun hbad => matchGeometry_shift_refused src T tol c hwf hshape h0 h1 p first st hp hst hdir hsp hcs hfor e he hpos hbad⟩

/-- **… and non-integer scales exactly at `tol`** (whole call): a target on a reachable lattice (axes, origin, shape) whose
spacing along axis `i` is `|st i| + e i` source spacings, `|e i| < 1/2`:
* every `|e i| ≤ tol` and the affine within `tol` of the exact one as `geometry_equal` measures it ⇒ SUCCEEDS, returning the
  volume it returns for the exact spacing (`onLatticeSpacing`);
* some `|e i| > tol` ⇒ REFUSED with RuntimeError — however small the spacing and however large the stride (the reading the
  mutation `scale-tolerance-relative` changes). -/
theorem match_scaled_target_decided_at_tol {α : Type} (src : Vol α) (T : Geom) (tol : Rat) (c : PadMode α)
    (hwf : WF src.geom) (hshape : ∀ i, 1 ≤ T.shape i) (h0 : 0 < tol) (h1 : tol ≤ 1)
    (p : Ax → Ax) (first st : Ax → Int) (hp : isPerm p = true) (hst : ∀ i, st i ≠ 0)
    (hdir : T.dir = (sliceGeom (permuted src.geom p) first st T.shape).dir)
    (hpos : T.pos = (sliceGeom (permuted src.geom p) first st T.shape).pos)
    (hcs : T.cs = src.geom.cs) (hfor : forConflict src.geom T = false)
    (e : Ax → Rat) (he : ∀ i, -(1 / 2) < e i ∧ e i < 1 / 2)
    (hsp : ∀ i, T.spacing i = ((((st i).natAbs : Int) : Rat) + e i) * src.geom.spacing (p i)) :
    ((∀ i, rabs (e i) ≤ tol) → AffineWithin (onLatticeSpacing src.geom T p first st) T (some tol) →
      ∃ r, matchGeometry src T tol c = .ok r ∧ matchGeometry src (onLatticeSpacing src.geom T p first st) tol c = .ok r ∧
        (∀ i, r.geom.col i = (onLatticeSpacing src.geom T p first st).col i) ∧ r.geom.pos = T.pos ∧
        (∀ i, r.geom.shape i = T.shape i)) ∧
    ((∃ i, tol < rabs (e i)) → matchGeometry src T tol c = .error .runtime) :=
  matchGeometry_scaled src T tol c hwf hshape h0 h1 p first st hp hst hdir hpos hcs hfor e he hsp

/-- **Rotation beyond the tolerance, whole call**: if some target axis is within tolerance of no source axis — for every source
axis `j` the dot product `d` of the unit vectors has neither `|d - 1| < tol` nor `|d + 1| < tol` — `match_geometry` raises
RuntimeError (same coordinate system, no conflicting frame of reference; any source, any tolerance). -/
theorem match_rotated_target_refused {α : Type} (src : Vol α) (T : Geom) (tol : Rat) (c : PadMode α)
    (hcs : T.cs = src.geom.cs) (hfor : forConflict src.geom T = false) (i : Ax)
    (h : ∀ j, ¬ (rabs (V3.dot (T.dir i) (src.geom.dir j) - 1) < tol ∨ rabs (V3.dot (T.dir i) (src.geom.dir j) + 1) < tol)) :
    matchGeometry src T tol c = .error .runtime :=
  matchGeometry_unaligned_refused src T tol c hcs hfor i h

/-! ## frame of reference of the result -/

/-- **The matched volume keeps the SOURCE's frame of reference and coordinate system** (it does not adopt the target's): when
the source has no frame of reference and the target has one, the result still has none — and compares equal to the target
because an unknown frame of reference conflicts with nothing (`geometryEqual_iff`). -/
theorem match_keeps_frame_of_reference {α : Type} (src : Vol α) (tgt : Geom) (tol : Rat) (c : PadMode α) (r : Vol α)
    (h : matchGeometry src tgt tol c = .ok r) :
    r.geom.frameOfRef = src.geom.frameOfRef ∧ r.geom.cs = src.geom.cs ∧ NoForConflict r.geom tgt := by
  obtain ⟨_, ⟨_, _, _, _, _, _, _, _, hcs, hf⟩, hge⟩ := match_only_reachable src tgt tol c r h
  exact ⟨hf, hcs, ((geometryEqual_iff r.geom tgt _).mp hge).2.2.1⟩

/-! ## matching a volume to its own geometry -/

/-- **`match_geometry(self)` is the identity**: for every well-formed volume, tolerance `0 < tol ≤ 1` and padding mode,
matching to the own geometry succeeds and returns the same affine, shape and voxels. -/
theorem match_own_geometry {α : Type} (src : Vol α) (tol : Rat) (mode : PadMode α) (hlaw : StatLaw mode)
    (hwf : WF src.geom) (hshape : ∀ i, 1 ≤ src.geom.shape i) (h0 : 0 < tol) (h1 : tol ≤ 1) :
    ∃ r, matchGeometry src src.geom tol mode = .ok r ∧ (∀ i, r.geom.col i = src.geom.col i) ∧ r.geom.pos = src.geom.pos ∧
      (∀ i, r.geom.shape i = src.geom.shape i) ∧ ∀ k, InShape src.geom.shape k → r.vox k = src.vox k := by
  obtain ⟨r, hr1, hcol, hpos, hsh⟩ := match_complete src src.geom tol mode hwf hshape h0 h1 (NormalForm.refl _).reachable
  refine ⟨r, hr1, hcol, hpos, hsh, fun k hk => ?_⟩
  have hk' : InShape r.geom.shape k := fun a => by rw [hsh a]; exact hk a
  have href : r.geom.toRef (toRat k) = src.geom.toRef (toRat k) := by simp only [Geom.toRef, hcol, hpos]
  exact ((match_sound src src.geom tol mode hlaw r hwf.det_ne_zero hr1).2 k hk').1 k hk href.symm

/-! ## non-vacuity (round 2) -/

/-- the round-1 target rotated by a 3-4-5 rotation about z: its axis 1 has dot products 3/5, 4/5, 0 with the source axes -/
example : (match matchGeometry exSrc { exTgt with dir := mk3 ⟨0, 0, -1⟩ ⟨3 / 5, 4 / 5, 0⟩ ⟨-4 / 5, 3 / 5, 0⟩ } (1 / 100000) (.constant (-7)) with
    | .ok _ => false
    | .error e => e == .runtime) = true := by decide +kernel

/-- spacing of target axis 0 (two source voxels of spacing 2, backwards) off by `e = 1/1000000` source spacings: matched;
off by `e = 1/4`: refused -/
example : (match matchGeometry exSrc { exTgt with spacing := mk3 ((2 + 1 / 1000000) * 2) 1 (1 / 2) } (1 / 100000) (.constant (-7)) with
    | .ok r => r.vox (mk3 0 1 0) == 13 && decide (r.geom.spacing 0 = 4)
    | .error _ => false) = true ∧
    (match matchGeometry exSrc { exTgt with spacing := mk3 ((2 + 1 / 4) * 2) 1 (1 / 2) } (1 / 100000) (.constant (-7)) with
    | .ok _ => false
    | .error e => e == .runtime) = true := by decide +kernel

/-- the round-1 target shifted by a millionth of a source voxel along x (its axis 1): matched, voxels as for the unshifted
target; shifted by a quarter voxel: refused (the hypotheses of `match_shifted_target_decided_at_tol` with `e = (0, 1/1000000, 0)`
resp. `(0, 1/4, 0)`, `p`, `first`, `st` as in `Reachable exSrc.geom exTgt`) -/
example : (match matchGeometry exSrc { exTgt with pos := ⟨9 + 1 / 1000000, 20 + 1 / 2, 36⟩ } (1 / 100000) (.constant (-7)) with
    | .ok r => r.vox (mk3 0 1 0) == 13 && r.vox (mk3 1 2 1) == 121 && r.vox (mk3 0 0 0) == -7 && decide (r.geom.pos = exTgt.pos)
    | .error _ => false) = true := by decide +kernel

/-- negative tolerance: identical geometries still compare equal (numpy's `x == y` term), any difference does not -/
example : geometryEqual (unitGeom 5 none) (unitGeom 5 none) (some (-1)) = .ok true ∧
    geometryEqual (unitGeom 5 none) (unitGeom (5 + 1 / 2) none) (some (-1)) = .ok false := by decide +kernel

/-- a quarter-voxel shift at tol = 1/3 is planned like no shift, at tol = 1/5 it is refused -/
example : (match mgCropPad ((2 + 1 / 4) * (3 / 2)) (3 / 2) 1 4 8 (1 / 3) false false with
      | .ok r => r.1 == 2 && r.2.2.1 == 6 && r.2.2.2.1 == 1 | .error _ => false) = true ∧
    (match mgCropPad ((2 + 1 / 4) * (3 / 2)) (3 / 2) 1 4 8 (1 / 5) false false with | .error e => e == .runtime | .ok _ => false) = true := by
  decide +kernel

example : AffineAbsWithin (unitGeom 0 none) (unitGeom (1 / 2048) none) (1 / 1024) := by
  refine ⟨fun a => ?_, ?_⟩
  · rcases ax_cases a with rfl | rfl | rfl <;> simp [unitGeom, Geom.col, V3.smul, rabs_zero]
  · simp [unitGeom, rabs]; norm_num
example : (unitGeom 5 none).aff.inv.toBool = true ∧ exTgt.aff.inv.toBool = true ∧ exSrc.geom.aff.inv.toBool = true := by
  decide +kernel
/-- the reachable pair of round 1: target voxel (0,1,0) ↦ source voxel (0,1,3) and back, unrounded and rounded -/
example : v2v exTgt.aff exSrc.geom.aff exSrc.geom.shape f64 true false [⟨0, 1, 0⟩] = .ok [⟨0, 1, 3⟩] ∧
    v2v exSrc.geom.aff exTgt.aff exTgt.shape f64 true true [⟨0, 1, 3⟩] = .ok [⟨0, 1, 0⟩] ∧
    ExactFloatOut f64 := by
  refine ⟨by decide +kernel, by decide +kernel, Or.inr (fun _ => rfl)⟩
example : (match matchGeometry exSrc exSrc.geom (1 / 100000) .edge with
    | .ok r => r.vox (mk3 1 2 3) == 123 && r.vox (mk3 0 0 0) == 0
    | .error _ => false) = true := by decide +kernel

end HdVerif.C09
