import HdVerif.Proofs.Match
/-! # C09  Geometry matching and comparison mean what they say

Property theorems only (helper lemmas and the specification predicates `AffineWithin`,
`NoForConflict`, `Outside`, … live in `Proofs/Match.lean`).  The statements are about
`Model/Match.lean`, whose decision cores are *regenerated from /repo's current source* on every run:
`Gen.geomEqualDecision` (`geometry_equal`), `Gen.mgAlign`, `Gen.mgCropPad` (`match_geometry`),
`Gen.refBoundsAxis`, `Gen.v2vBoundsAxis` (the two bounds checks). -/
namespace HdVerif.C09
open HdVerif HdVerif.Gen HdVerif.Match

/-! ## Clause 1: comparison -/

/-- **`geometry_equal` says yes exactly when** the shapes are the same, the coordinate systems are
the same, no frame of reference conflicts (both known and different) and every entry of the affine
matrix is within tolerance (`|a - b| ≤ tol + 1e-5 |b|`, `np.allclose`; identical when `tol` is
`None`). -/
theorem geometryEqual_iff (g h : Geom) (tol : Option Rat) :
    geometryEqual g h tol = .ok true ↔
      ((∀ a, g.shape a = h.shape a) ∧ g.cs = h.cs ∧ NoForConflict g h ∧ AffineWithin g h tol) :=
  geometryEqual_true_iff g h tol

/-- … and it always answers (never raises). -/
theorem geometryEqual_total (g h : Geom) (tol : Option Rat) : ∃ b, geometryEqual g h tol = .ok b :=
  Match.geometryEqual_total g h tol

/-- A conflicting frame of reference alone makes the answer no, whatever the affines are. -/
theorem geometryEqual_for_conflict (g h : Geom) (tol : Option Rat) (u v : String)
    (hg : g.frameOfRef = some u) (hh : h.frameOfRef = some v) (huv : u ≠ v) :
    geometryEqual g h tol = .ok false := by
  obtain ⟨b, hb⟩ := Match.geometryEqual_total g h tol
  cases b with
  | false => exact hb
  | true =>
    have := ((geometryEqual_iff g h tol).mp hb).2.2.1 u v hg hh
    exact absurd this huv

/-! ## Clause 2a: what `match_geometry` returns (soundness) -/

/-- **`match_sound`**: whenever `match_geometry` returns a volume `r`,
* the geometry of `r` equals the target (`geometry_equal(r, target, tol)` as characterised by
  `geometryEqual_iff`: same shape, coordinate system, affine within tolerance, no conflicting frame
  of reference), and
* for every voxel `k` of `r`: if a voxel `i` of the source sits at the same physical position then
  `r` carries the source value there; if no voxel of the source sits there, `r` carries the padding
  value.
For every source whose affine matrix is non-singular, every target, tolerance and padding value. -/
theorem match_sound {α : Type} (src : Vol α) (tgt : Geom) (tol : Rat) (c : α) (r : Vol α)
    (hdet : src.geom.aff.det ≠ 0) (h : matchGeometry src tgt tol c = .ok r) :
    geometryEqual r.geom tgt (some tol) = .ok true ∧
    ∀ k, InShape r.geom.shape k →
      (∀ i, InShape src.geom.shape i → src.geom.toRef (toRat i) = r.geom.toRef (toRat k) → r.vox k = src.vox i) ∧
      ((∀ i, InShape src.geom.shape i → src.geom.toRef (toRat i) ≠ r.geom.toRef (toRat k)) → r.vox k = c) := by
  obtain ⟨_, _, _, _, _, _, _, _, _, _, hge⟩ := matchGeometry_ok src tgt tol c r h
  obtain ⟨m, hm⟩ := matchGeometry_prov src tgt tol c r h
  exact ⟨hge, fun k hk => hm.coincide hdet k hk⟩

/-- In particular the returned volume has the target's shape and coordinate system. -/
theorem match_shape {α : Type} (src : Vol α) (tgt : Geom) (tol : Rat) (c : α) (r : Vol α)
    (h : matchGeometry src tgt tol c = .ok r) : (∀ a, r.geom.shape a = tgt.shape a) ∧ r.geom.cs = tgt.cs := by
  obtain ⟨_, _, _, _, _, _, _, _, _, _, hge⟩ := matchGeometry_ok src tgt tol c r h
  have := (geometryEqual_iff _ _ _).mp hge
  exact ⟨this.1, this.2.1⟩

/-- A target in another frame of reference or another coordinate system is refused. -/
theorem match_refuses_conflict {α : Type} (src : Vol α) (tgt : Geom) (tol : Rat) (c : α)
    (h : (∃ u v, src.geom.frameOfRef = some u ∧ tgt.frameOfRef = some v ∧ u ≠ v) ∨ src.geom.cs ≠ tgt.cs) :
    matchGeometry src tgt tol c = .error .runtime := by
  unfold matchGeometry
  rcases h with ⟨u, v, hu, hv, huv⟩ | hcs
  · have : forConflict src.geom tgt = true := by simp [forConflict, hu, hv, huv]
    rw [if_pos this]
  · by_cases hf : forConflict src.geom tgt = true
    · rw [if_pos hf]
    · rw [if_neg hf]
      have : (src.geom.cs != tgt.cs) = true := by simpa using hcs
      rw [if_pos this]

/-! ## Clause 3: index mapping between two volumes -/

/-- **The transformer agrees with mapping through physical space.**  Whenever it answers, every
returned index is (the rounding of) `f p`, where `f p` is *the* point of the target's index space
whose reference position `to.affine · y` equals the reference position `from.affine · p` of the input
index. -/
theorem v2v_eq_via_reference (fromA toA : Aff) (shape : Ax → Int) (roundOut check : Bool) (pts out : List V3)
    (h : v2v fromA toA shape roundOut check pts = .ok out) :
    ∃ f : V3 → V3, (∀ p, toA.apply (f p) = fromA.apply p) ∧ (∀ p y, toA.apply y = fromA.apply p → y = f p) ∧
      out = pts.map (fun p => if roundOut then roundV (f p) else f p) := by
  unfold v2v at h
  cases hinv : toA.inv with
  | error e => simp [hinv] at h
  | ok inv =>
    refine ⟨(inv.comp fromA).apply, ?_, ?_, ?_⟩
    · intro p; rw [Aff.comp_apply, Aff.inv_right hinv]
    · intro p y hy; rw [Aff.comp_apply, ← hy, Aff.inv_left hinv]
    · simp only [hinv] at h
      cases check with
      | false => simpa using h.symm
      | true =>
        simp only [if_true] at h
        split at h
        · cases h
        · cases h
        · simpa using h.symm

/-- The same statement in the library's own terms: transforming indices equals
`map_indices_to_reference` of the source followed by `map_reference_to_indices` of the target. -/
theorem v2v_eq_ref_then_idx (fromA toA : Aff) (shape : Ax → Int) (pts : List V3) :
    v2v fromA toA shape false false pts = refToIdx toA shape false false (pts.map fromA.apply) := by
  unfold v2v refToIdx
  cases hinv : toA.inv with
  | error e => rfl
  | ok inv =>
    simp only [Bool.false_eq_true, if_false, List.map_map]
    congr 1
    apply List.map_congr_left
    intro p _
    simp [Aff.comp_apply]

/-! ## Clause 4: bounds checks -/

/-- **Bounds check of `map_reference_to_indices`**: it refuses (RuntimeError) iff some point really
lies outside the volume, i.e. has an (unrounded) index coordinate below `-1/2` or above `n - 1/2`;
otherwise it returns the (rounded, if asked) indices. -/
theorem bounds_iff_outside (A inv : Aff) (shape : Ax → Int) (roundOut : Bool) (pts : List V3)
    (hinv : A.inv = .ok inv) :
    (refToIdx A shape roundOut true pts = .error .runtime ↔ ∃ q ∈ pts.map inv.apply, Outside shape q) ∧
    ((¬ ∃ q ∈ pts.map inv.apply, Outside shape q) →
      refToIdx A shape roundOut true pts = .ok (if roundOut then (pts.map inv.apply).map roundV else pts.map inv.apply)) := by
  obtain ⟨b, hb, hiff⟩ := boundsFail_spec refBoundsAxis refBoundsAxis_eq shape (pts.map inv.apply)
  unfold refToIdx
  simp only [hinv, if_true, hb]
  cases b with
  | true =>
    have hex := hiff.mp rfl
    exact ⟨⟨fun _ => hex, fun _ => rfl⟩, fun hn => absurd hex hn⟩
  | false =>
    have hnex : ¬ ∃ q ∈ pts.map inv.apply, Outside shape q := fun hex => by simpa using hiff.mpr hex
    exact ⟨⟨fun h => (by cases h), fun hex => absurd hex hnex⟩, fun _ => rfl⟩

/-- **Bounds check of the transformer**: it refuses (ValueError) iff some *returned* point lies
outside the target (without rounding these are the mapped points themselves); otherwise it
returns them. -/
theorem v2v_bounds_iff_outside (fromA toA inv : Aff) (shape : Ax → Int) (roundOut : Bool) (pts : List V3)
    (hinv : toA.inv = .ok inv) :
    (v2v fromA toA shape roundOut true pts = .error .value ↔
      ∃ q ∈ pts.map (fun p => if roundOut then roundV ((inv.comp fromA).apply p) else (inv.comp fromA).apply p),
        Outside shape q) ∧
    ((¬ ∃ q ∈ pts.map (fun p => if roundOut then roundV ((inv.comp fromA).apply p) else (inv.comp fromA).apply p),
        Outside shape q) →
      v2v fromA toA shape roundOut true pts =
        .ok (pts.map (fun p => if roundOut then roundV ((inv.comp fromA).apply p) else (inv.comp fromA).apply p))) := by
  obtain ⟨b, hb, hiff⟩ := boundsFail_spec v2vBoundsAxis v2vBoundsAxis_eq shape
    (pts.map (fun p => if roundOut then roundV ((inv.comp fromA).apply p) else (inv.comp fromA).apply p))
  unfold v2v
  simp only [hinv, if_true, hb]
  cases b with
  | true =>
    have hex := hiff.mp rfl
    exact ⟨⟨fun _ => hex, fun _ => rfl⟩, fun hn => absurd hex hn⟩
  | false =>
    have hnex : ¬ ∃ q ∈ pts.map (fun p => if roundOut then roundV ((inv.comp fromA).apply p) else (inv.comp fromA).apply p),
        Outside shape q := fun hex => by simpa using hiff.mpr hex
    exact ⟨⟨fun h => (by cases h), fun hex => absurd hex hnex⟩, fun _ => rfl⟩

/-- With rounding the transformer tests the *rounded* indices: a returned point is "outside" iff one
of its coordinates is not an index of the target array … -/
theorem rounded_outside_iff_invalid (shape : Ax → Int) (y : V3) :
    Outside shape (roundV y) ↔
      (roundHalfEven y.x < 0 ∨ shape 0 ≤ roundHalfEven y.x) ∨ (roundHalfEven y.y < 0 ∨ shape 1 ≤ roundHalfEven y.y) ∨
      (roundHalfEven y.z < 0 ∨ shape 2 ≤ roundHalfEven y.z) := by
  unfold Outside roundV
  simp only [outsideAxis_int]

/-- … and that happens only for points that are not strictly inside the target (a point exactly on
the upper face `n - 1/2` rounds to `n` when `n` is even; the lower face `-1/2` always rounds to 0). -/
theorem rounded_outside_only_if (shape : Ax → Int) (y : V3) (h : Outside shape (roundV y)) :
    (y.x < -(1 / 2) ∨ (shape 0 : Rat) - 1 / 2 ≤ y.x) ∨ (y.y < -(1 / 2) ∨ (shape 1 : Rat) - 1 / 2 ≤ y.y) ∨
    (y.z < -(1 / 2) ∨ (shape 2 : Rat) - 1 / 2 ≤ y.z) := by
  rcases h with h | h | h
  · exact Or.inl (rounded_outside_imp _ _ h)
  · exact Or.inr (Or.inl (rounded_outside_imp _ _ h))
  · exact Or.inr (Or.inr (rounded_outside_imp _ _ h))

/-- An empty set of points passes both checks. -/
theorem bounds_empty (fromA toA : Aff) (shape : Ax → Int) (roundOut : Bool) (inv : Aff) (hinv : toA.inv = .ok inv) :
    v2v fromA toA shape roundOut true [] = .ok [] ∧ refToIdx toA shape roundOut true [] = .ok [] := by
  unfold v2v refToIdx
  simp [hinv, boundsFail]

end HdVerif.C09
