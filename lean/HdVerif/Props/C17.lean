import HdVerif.Proofs.Coding
import HdVerif.Proofs.CodingTie
/-! # C17  Coded concepts behave as values under equality, hashing and I/O

Objects are pydicom `Code`s and highdicom `CodedConcept`s (`Obj.code` / `Obj.concept`), in any mix.
`objEq` is Python's `a == b` (dispatch to `Code.__eq__` or to `CodedConcept.__eq__`, which builds
`Code(self.value, self.scheme_designator, self.meaning, self.scheme_version)` — the argument list is
REGENERATED from /repo's source, `Gen.eqThisArgs` — and delegates).  pydicom's `Code.__eq__`, `__ne__`,
`__hash__` are REGENERATED from pydicom's own source as well (`Gen.pydCodeEq`, `Gen.pydEqOtherReads`,
`Gen.pydNeNegatesEq`, `Gen.pydHashArgs`, `Gen.pydCodeFields`; translated, not trusted).  `retired s v` is
`snomed_mapping[s].get(v)` (any function), `h` Python's string hash (any function).

`Obj.wf` is what every object made through the public API satisfies (`ctor_wf`, `from_dataset_wf`,
`from_code_wf`): a `Code` has value, scheme and meaning; a concept has exactly one of the three code
value attributes, a meaning and a scheme designator. -/
namespace HdVerif.C17
open HdVerif HdVerif.Gen HdVerif.Coding

/-! ## equality -/

/-- `==` never raises on well-formed codes and **is decided by the normalised (value, scheme,
version) key** — whichever of the two classes stands on whichever side. -/
theorem eq_decided_by_key (retired : String → String → Option String) (a b : Obj) (ha : a.wf) (hb : b.wf) :
    objEq retired a b = .ok (decide (key retired a = key retired b)) :=
  objEq_key retired a b ha hb

/-- reflexive -/
theorem eq_refl (retired : String → String → Option String) (a : Obj) (ha : a.wf) : objEq retired a a = .ok true := by
  rw [objEq_key retired a a ha ha]; simp

/-- symmetric: `a == b` and `b == a` give the same answer for every mix of representations -/
theorem eq_symm (retired : String → String → Option String) (a b : Obj) (ha : a.wf) (hb : b.wf) :
    objEq retired a b = objEq retired b a := by
  rw [objEq_key retired a b ha hb, objEq_key retired b a hb ha]
  congr 1
  exact decide_eq_decide.mpr ⟨fun h => h.symm, fun h => h.symm⟩

/-- transitive -/
theorem eq_trans (retired : String → String → Option String) (a b c : Obj) (ha : a.wf) (hb : b.wf) (hc : c.wf)
    (hab : objEq retired a b = .ok true) (hbc : objEq retired b c = .ok true) : objEq retired a c = .ok true := by
  rw [objEq_key retired a b ha hb] at hab
  rw [objEq_key retired b c hb hc] at hbc
  rw [objEq_key retired a c ha hc]
  simp only [Except.ok.injEq, decide_eq_true_eq] at hab hbc ⊢
  exact hab.trans hbc

/-- the three together: `==` is an equivalence relation on well-formed codes of both classes -/
theorem eq_equivalence (retired : String → String → Option String) :
    (∀ a : Obj, a.wf → objEq retired a a = .ok true) ∧
    (∀ a b : Obj, a.wf → b.wf → objEq retired a b = objEq retired b a) ∧
    (∀ a b c : Obj, a.wf → b.wf → c.wf → objEq retired a b = .ok true → objEq retired b c = .ok true →
      objEq retired a c = .ok true) :=
  ⟨eq_refl retired, eq_symm retired, eq_trans retired⟩

/-- **never by meaning**: two objects (of either class) that agree in value, scheme and version are
interchangeable on both sides of `==`, whatever their meanings. -/
theorem eq_ignores_meaning (retired : String → String → Option String) (a a' b : Obj) (ha : a.wf) (ha' : a'.wf) (hb : b.wf)
    (hv : specValue a = specValue a') (hs : specScheme a = specScheme a') (hver : specVersion a = specVersion a') :
    objEq retired a b = objEq retired a' b ∧ objEq retired b a = objEq retired b a' := by
  rw [objEq_key retired a b ha hb, objEq_key retired a' b ha' hb, objEq_key retired b a hb ha,
    objEq_key retired b a' hb ha']
  simp only [key, hv, hs, hver]
  exact ⟨rfl, rfl⟩

/-- in particular a code equals itself under another meaning and in the other class -/
theorem eq_across_meaning_and_class (retired : String → String → Option String) (v s m m' : String) (ver : Option String)
    (d : DS) (hd : mkConcept v s m' ver = .ok d) :
    objEq retired (.code ⟨some v, some s, some m, ver⟩) (.concept d) = .ok true ∧
    objEq retired (.concept d) (.code ⟨some v, some s, some m, ver⟩) = .ok true := by
  obtain ⟨_, _, rfl⟩ := mkConcept_ok v s m' ver d hd
  · skip
    have hw : (Obj.concept (builtDS (stdKeyword v) v s m' ver)).wf := builtDS_wf _ v s m' ver (stdKeyword_cases v)
    have hc : (Obj.code ⟨some v, some s, some m, ver⟩).wf := by simp [Obj.wf]
    have hk : key retired (.code ⟨some v, some s, some m, ver⟩) = key retired (.concept (builtDS (stdKeyword v) v s m' ver)) := by
      rcases stdKeyword_cases v with h | h | h <;> rw [h] <;> cases ver <;>
        simp [key, specValue, specScheme, specVersion, builtDS, DS.get, List.lookup]
    rw [objEq_key retired _ _ hc hw, objEq_key retired _ _ hw hc]
    simp [hk]

/-- `!=` is the negation of `==` (both classes) -/
theorem ne_is_negation (retired : String → String → Option String) (a b : Obj) (ha : a.wf) (hb : b.wf) :
    objNe retired a b = .ok (!decide (key retired a = key retired b)) := by
  cases a <;> simp [objNe, objEq_key retired _ b ha hb, neNegatesEq, pydNeNegatesEq]

/-- retired-scheme aliases are normalised: an SRT code whose value is retired equals its SCT successor
(same version), whichever classes and meanings are involved. -/
theorem alias_equal (retired : String → String → Option String) (a b : Obj) (ha : a.wf) (hb : b.wf) (v w : String)
    (hr : retired "SRT" v = some w)
    (has : specScheme a = some "SRT") (hav : specValue a = some v)
    (hbs : specScheme b = some "SCT") (hbv : specValue b = some w)
    (hver : specVersion a = specVersion b) :
    objEq retired a b = .ok true ∧ objEq retired b a = .ok true := by
  rw [objEq_key retired a b ha hb, objEq_key retired b a hb ha]
  simp [key, mapKey, has, hav, hbs, hbv, hr, hver]

/-- without retired codes on either side equality is exactly equality of (value, scheme, version) -/
theorem eq_iff_same_triple (retired : String → String → Option String) (a b : Obj) (ha : a.wf) (hb : b.wf)
    (hna : specScheme a ≠ some "SRT") (hnb : specScheme b ≠ some "SRT") :
    objEq retired a b = .ok true ↔
      (specValue a = specValue b ∧ specScheme a = specScheme b ∧ specVersion a = specVersion b) := by
  rw [objEq_key retired a b ha hb]
  have hk : ∀ o : Obj, specScheme o ≠ some "SRT" → key retired o = (specValue o, specScheme o, specVersion o) := by
    intro o ho
    unfold key mapKey
    split
    · rename_i s v hs hv
      have : s ≠ "SRT" := by intro h; apply ho; rw [hs, h]
      simp [this]
    · rfl
  rw [hk a hna, hk b hnb]
  simp

/-! ## hashing -/

/-- **equal scheme + value ⇒ equal hash, whichever class** (and the hash never raises) -/
theorem hash_congr (h : String → Int) (a b : Obj) (ha : a.wf) (hb : b.wf)
    (hs : specScheme a = specScheme b) (hv : specValue a = specValue b) :
    hashOf h a = hashOf h b ∧ ∃ x, hashOf h a = .ok x := by
  obtain ⟨s, hsa⟩ := wf_scheme_some a ha
  obtain ⟨v, hva⟩ := wf_value_some a ha
  have e1 := hashInput_spec a ha s v hsa hva
  have e2 := hashInput_spec b hb s v (hs ▸ hsa) (hv ▸ hva)
  simp [hashOf, e1, e2]

/-- the Python contract `a == b ⇒ hash(a) == hash(b)` holds whenever no retired alias is involved
(pydicom itself hashes an SRT alias and its SCT successor differently). -/
theorem eq_implies_hash_eq (h : String → Int) (retired : String → String → Option String) (a b : Obj) (ha : a.wf) (hb : b.wf)
    (hna : specScheme a ≠ some "SRT") (hnb : specScheme b ≠ some "SRT")
    (he : objEq retired a b = .ok true) : hashOf h a = hashOf h b := by
  obtain ⟨hv, hs, _⟩ := (eq_iff_same_triple retired a b ha hb hna hnb).mp he
  exact (hash_congr h a b ha hb hs hv).1

/-- sets and dictionaries treat two representations of the same scheme + value as one element
exactly when they are equal: `len({a, b}) == 1 ⇔ a == b`. -/
theorem set_treats_as_one (h : String → Int) (retired : String → String → Option String) (a b : Obj) (ha : a.wf) (hb : b.wf)
    (hs : specScheme a = specScheme b) (hv : specValue a = specValue b) :
    setLen2 h retired a b = .ok (if decide (key retired a = key retired b) then 1 else 2) := by
  obtain ⟨hh, x, hx⟩ := hash_congr h a b ha hb hs hv
  have hy : hashOf h b = .ok x := hh ▸ hx
  simp only [setLen2, hx, hy, objEq_key retired a b ha hb, if_true]
  by_cases hk : key retired a = key retired b <;> simp [hk]

/-! ## value attribute -/

/-- the constructor refuses exactly the meanings of more than 64 characters and the arguments that
contain a backslash (pydicom would split them at the value delimiter into a MultiValue that cannot be read
back); both refusals are ValueErrors -/
theorem ctor_total (v s m : String) (ver : Option String) :
    ((∃ d, mkConcept v s m ver = .ok d) ↔ (anyBackslash v s m ver = false ∧ m.length ≤ 64)) ∧
    ((anyBackslash v s m ver = true ∨ m.length > 64) → mkConcept v s m ver = .error .value) := by
  rw [mkConcept_spec]
  constructor
  · constructor
    · rintro ⟨d, hd⟩
      by_cases hb : anyBackslash v s m ver = true
      · simp [hb] at hd
      · by_cases hm : m.length > 64
        · simp [hb, hm] at hd
        · exact ⟨by simpa using hb, by omega⟩
    · rintro ⟨hb, hm⟩
      have : ¬ m.length > 64 := by omega
      simp [hb, this]
  · rintro (hb | hm)
    · simp [hb]
    · by_cases hb : anyBackslash v s m ver = true <;> simp [hb, hm]

/-- a backslash in the value, the scheme designator, the meaning or a given scheme version is refused -/
theorem ctor_rejects_backslash (v s m : String) (ver : Option String)
    (h : hasBackslash v = true ∨ hasBackslash s = true ∨ hasBackslash m = true ∨ ∃ x, ver = some x ∧ hasBackslash x = true) :
    mkConcept v s m ver = .error .value := by
  apply (ctor_total v s m ver).2
  left
  unfold anyBackslash
  rcases h with h | h | h | ⟨x, rfl, h⟩ <;> simp [h, optHasBackslash]

/-- **the value is stored in the attribute the standard assigns to its form and length, and read back
unchanged**: URN/URL → `URNCodeValue`; otherwise ≤ 16 characters → `CodeValue`, longer → `LongCodeValue`;
the other two attributes are absent; `value`, `meaning`, `scheme_designator`, `scheme_version` return what
was given. -/
theorem value_attribute_roundtrip (v s m : String) (ver : Option String) (d : DS) (hd : mkConcept v s m ver = .ok d) :
    DS.get d (stdKeyword v) = some v ∧
    (∀ kw ∈ ["CodeValue", "LongCodeValue", "URNCodeValue"], kw ≠ stdKeyword v → DS.get d kw = none) ∧
    prop d "value" = .ok (some v) ∧ prop d "meaning" = .ok (some m) ∧
    prop d "scheme_designator" = .ok (some s) ∧ prop d "scheme_version" = .ok ver := by
  obtain ⟨_, _, rfl⟩ := mkConcept_ok v s m ver d hd
  rcases stdKeyword_cases v with h | h | h <;> rw [h] <;> cases ver <;>
    simp [builtDS, DS.get, List.lookup, prop, valueLookup, firstPresent, propertyAttr]

/-- the code's URN/URL test, built from the literals REGENERATED from the source, is the specification's test
with its own literals (`"urn:"` case-insensitively per RFC 8141, `"://"`): changing a literal in the code
breaks this theorem instead of moving the specification along -/
theorem urn_test_is_specification (v : String) :
    looksLikeUrn v = specIsUrn v ∧ urnPrefix = "urn:" ∧ urlMarker = "://" ∧ urnPrefixCaseInsensitive = true :=
  ⟨looksLikeUrn_spec v, rfl, rfl, rfl⟩

/-- the three cases of `stdKeyword`, spelled out (what "form and length" means) -/
theorem value_attribute_by_form (v : String) :
    (specIsUrn v = true → stdKeyword v = "URNCodeValue") ∧
    (specIsUrn v = false → v.length ≤ 16 → stdKeyword v = "CodeValue") ∧
    (specIsUrn v = false → v.length > 16 → stdKeyword v = "LongCodeValue") := by
  unfold stdKeyword
  refine ⟨fun h => by simp [h], fun h hl => by simp [h, hl], fun h hl => ?_⟩
  have : ¬ v.length ≤ 16 := by omega
  simp [h, this]

/-- constructed concepts are well-formed -/
theorem ctor_wf (v s m : String) (ver : Option String) (d : DS) (hd : mkConcept v s m ver = .ok d) :
    (Obj.concept d).wf := by
  obtain ⟨_, _, rfl⟩ := mkConcept_ok v s m ver d hd
  exact builtDS_wf _ v s m ver (stdKeyword_cases v)

/-! ## conversion from datasets and codes -/

/-- **`from_dataset` succeeds iff the argument is a dataset that is exactly one code** (exactly one of the
three code value attributes, a meaning, a scheme designator); otherwise TypeError (not a dataset) or
AttributeError. -/
theorem from_dataset_exactly_one (h : Heap) (ref : Nat) (copy : Bool) (cell : Cell) (hc : h[ref]? = some cell) :
    ((∃ r, fromDataset h ref copy = .ok r) ↔ acceptable cell) ∧
    (¬ acceptable cell → fromDataset h ref copy = .error (if cell.cls = .notDataset then .type else .attribute)) := by
  constructor
  · constructor
    · rintro ⟨r, hr⟩
      by_cases hn : acceptable cell
      · exact hn
      · rw [fromDataset_err h ref copy cell hc hn] at hr
        cases hr
    · intro ha
      exact ⟨_, fromDataset_ok h ref copy cell hc ha⟩
  · exact fromDataset_err h ref copy cell hc

/-- 0, 2 or 3 code value attributes are refused whatever else is present -/
theorem from_dataset_rejects_wrong_count (h : Heap) (ref : Nat) (copy : Bool) (cell : Cell) (hc : h[ref]? = some cell)
    (hn : countPresent cell.ds ["CodeValue", "LongCodeValue", "URNCodeValue"] ≠ 1) :
    ∃ e, fromDataset h ref copy = .error e := by
  refine ⟨_, fromDataset_err h ref copy cell hc ?_⟩
  rintro ⟨_, h2, _⟩
  exact hn h2

/-- **copy**: the result is a new object of class CodedConcept with the same content; the original
keeps its class and content, and a later write through the result does not reach it. -/
theorem copy_or_alias_copy (h : Heap) (ref : Nat) (cell : Cell) (hc : h[ref]? = some cell) (ha : acceptable cell) :
    ∃ h' r, fromDataset h ref true = .ok (h', r) ∧ r ≠ ref ∧ h[r]? = none ∧
      h'[r]? = some { cls := .codedConcept, ds := cell.ds } ∧ h'[ref]? = some cell ∧
      (∀ k v, (setAttr h' r k v)[ref]? = some cell) ∧ (Obj.concept cell.ds).wf := by
  have hlt : ref < h.length := by
    rcases Nat.lt_or_ge ref h.length with hl | hl
    · exact hl
    · rw [List.getElem?_eq_none hl] at hc; cases hc
  refine ⟨_, _, by simpa using fromDataset_ok h ref true cell hc ha, by omega, by simp, by simp, ?_, ?_, ?_⟩
  · rw [List.getElem?_append_left hlt]; exact hc
  · intro k v
    simp only [setAttr, List.getElem?_append_right (Nat.le_refl _), Nat.sub_self, List.getElem?_cons_zero]
    rw [List.getElem?_set_ne (by omega), List.getElem?_append_left hlt]
    exact hc
  · exact ⟨ha.2.1, ha.2.2.1, ha.2.2.2⟩

/-- **alias**: the result *is* the argument (same reference), its class is now CodedConcept, its content
is untouched, nothing else in the store changes — so later writes through either name are shared. -/
theorem copy_or_alias_alias (h : Heap) (ref : Nat) (cell : Cell) (hc : h[ref]? = some cell) (ha : acceptable cell) :
    ∃ h', fromDataset h ref false = .ok (h', ref) ∧
      h'[ref]? = some { cls := .codedConcept, ds := cell.ds } ∧ h'.length = h.length ∧
      (∀ j, j ≠ ref → h'[j]? = h[j]?) ∧ (Obj.concept cell.ds).wf := by
  have hlt : ref < h.length := by
    rcases Nat.lt_or_ge ref h.length with hl | hl
    · exact hl
    · rw [List.getElem?_eq_none hl] at hc; cases hc
  refine ⟨_, by simpa using fromDataset_ok h ref false cell hc ha, ?_, by simp, ?_, ⟨ha.2.1, ha.2.2.1, ha.2.2.2⟩⟩
  · simp [hlt]
  · intro j hj
    rw [List.getElem?_set_ne (Ne.symm hj)]

/-- whatever `from_dataset` returns is a well-formed concept -/
theorem from_dataset_wf (h : Heap) (ref : Nat) (copy : Bool) (cell : Cell) (hc : h[ref]? = some cell)
    (h' : Heap) (r : Nat) (hr : fromDataset h ref copy = .ok (h', r)) :
    ∃ c, h'[r]? = some c ∧ c.cls = .codedConcept ∧ c.ds = cell.ds ∧ (Obj.concept c.ds).wf := by
  have ha : acceptable cell := ((from_dataset_exactly_one h ref copy cell hc).1).mp ⟨_, hr⟩
  cases copy
  · obtain ⟨h2, e, g, _, _, w⟩ := copy_or_alias_alias h ref cell hc ha
    rw [e] at hr; cases hr
    exact ⟨_, g, rfl, rfl, w⟩
  · obtain ⟨h2, r2, e, _, _, g, _, _, w⟩ := copy_or_alias_copy h ref cell hc ha
    rw [e] at hr; cases hr
    exact ⟨_, g, rfl, rfl, w⟩

/-- `from_code` of a concept returns that very concept; of a `Code` it yields a well-formed concept that
is equal to the code in both directions and hashes like it (for codes the constructor accepts: meaning of
at most 64 characters, no backslash). -/
theorem from_code_spec (retired : String → String → Option String) (hf : String → Int) (v s m : String) (ver : Option String)
    (hm : m.length ≤ 64) (hb : anyBackslash v s m ver = false) :
    (∀ d, fromCode (.concept d) = .ok (.concept d)) ∧
    ∃ d, fromCode (.code ⟨some v, some s, some m, ver⟩) = .ok (.concept d) ∧ (Obj.concept d).wf ∧
      objEq retired (.concept d) (.code ⟨some v, some s, some m, ver⟩) = .ok true ∧
      objEq retired (.code ⟨some v, some s, some m, ver⟩) (.concept d) = .ok true ∧
      hashOf hf (.concept d) = hashOf hf (.code ⟨some v, some s, some m, ver⟩) := by
  constructor
  · intro d; simp [fromCode, fromCodeReturnsSame]
  · obtain ⟨d, hd⟩ := (ctor_total v s m ver).1.mpr ⟨hb, hm⟩
    have hw := ctor_wf v s m ver d hd
    have hc : (Obj.code ⟨some v, some s, some m, ver⟩).wf := by simp [Obj.wf]
    obtain ⟨e1, e2⟩ := eq_across_meaning_and_class retired v s m m ver d hd
    obtain ⟨g1, g2, g3, _, g5, _⟩ := value_attribute_roundtrip v s m ver d hd
    have hu : ∀ (c : Code), unpackedArg c "value" = .ok c.value ∧ unpackedArg c "scheme_designator" = .ok c.scheme ∧
        unpackedArg c "meaning" = .ok c.meaning ∧ unpackedArg c "scheme_version" = .ok c.version := by
      intro c
      simp [unpackedArg, ctorParams, pydCodeFields, List.zip, List.lookup, Obj.attr]
    refine ⟨d, by simp [fromCode, hu, hd], hw, e2, e1, ?_⟩
    have hs : specScheme (.concept d) = some s := by
      have := attr_scheme (.concept d) hw
      simp only [Obj.attr, g5] at this
      exact (Except.ok.inj this).symm
    have hv : specValue (.concept d) = some v := by
      have := attr_value (.concept d)
      simp only [Obj.attr, g3] at this
      exact (Except.ok.inj this).symm
    exact (hash_congr hf _ _ hw hc (by rw [hs]; rfl) (by rw [hv]; rfl)).1

/-! ## pydicom's side, and mutation after construction -/

/-- **pydicom's own `Code.__eq__`** (as translated from its source) is equality of the normalised
(value, scheme, version) keys — an equivalence relation on `Code`s that never looks at the meaning. -/
theorem pydicom_eq_is_key_equality (retired : String → String → Option String) (s o : PCode) :
    pydCodeEq retired s o =
      decide (mapKey (retired "SRT") s.value s.scheme s.version = mapKey (retired "SRT") o.value o.scheme o.version) :=
  pydCodeEq_spec retired s o

/-- `==` only needs the concept to be *readable* (CodeMeaning and CodingSchemeDesignator present): the
equivalence holds for every readable object, whether or not it still has exactly one value attribute. -/
theorem eq_equivalence_readable (retired : String → String → Option String) :
    (∀ a : Obj, a.readable → objEq retired a a = .ok true) ∧
    (∀ a b : Obj, a.readable → b.readable → objEq retired a b = objEq retired b a) ∧
    (∀ a b c : Obj, a.readable → b.readable → c.readable → objEq retired a b = .ok true → objEq retired b c = .ok true →
      objEq retired a c = .ok true) := by
  refine ⟨?_, ?_, ?_⟩
  · intro a ha
    rw [objEq_key' retired a a ha ha]; simp
  · intro a b ha hb
    rw [objEq_key' retired a b ha hb, objEq_key' retired b a hb ha]
    congr 1
    exact decide_eq_decide.mpr ⟨fun h => h.symm, fun h => h.symm⟩
  · intro a b c ha hb hc hab hbc
    rw [objEq_key' retired a b ha hb] at hab
    rw [objEq_key' retired b c hb hc] at hbc
    rw [objEq_key' retired a c ha hc]
    simp only [Except.ok.injEq, decide_eq_true_eq] at hab hbc ⊢
    exact hab.trans hbc

/-- **Mutation through the attribute setters cannot break the equivalence.**  Any sequence of attribute
assignments (to any keyword, any value) and of deletions of keywords other than CodeMeaning /
CodingSchemeDesignator turns a readable concept into a readable concept — so `eq_equivalence_readable`
applies to every object reachable that way; if the result also still has exactly one value attribute it
is well-formed and all hash / set theorems apply too. -/
theorem mutation_keeps_equivalence (d : DS) (ops : List Op) (hd : (Obj.concept d).readable)
    (hops : ∀ op ∈ ops, op.keepsReadable) :
    (Obj.concept (applyOps d ops)).readable ∧
    (countPresent (applyOps d ops) ["CodeValue", "LongCodeValue", "URNCodeValue"] = 1 → (Obj.concept (applyOps d ops)).wf) := by
  have hr := applyOps_readable ops d hd hops
  exact ⟨hr, fun hc => ⟨hc, hr.1, hr.2⟩⟩

/-- Counterexample for the excluded mutation: after `del concept.CodeMeaning` the comparison is no longer
symmetric — `concept == code` raises AttributeError (`CodedConcept.__eq__` reads `self.meaning`) while
`code == concept` still answers True (pydicom's `Code.__eq__` never reads the meaning). -/
theorem counterexample_deleted_meaning :
    let d : DS := DS.del [("CodingSchemeDesignator", "SCT"), ("CodeMeaning", "Brain"), ("CodeValue", "12738006")] "CodeMeaning"
    let c : Code := ⟨some "12738006", some "SCT", some "Brain", none⟩
    objEq (fun _ _ => none) (.concept d) (.code c) = .error .attribute ∧
    objEq (fun _ _ => none) (.code c) (.concept d) = .ok true := by
  decide

/-- Breaking the exactly-one invariant by assigning a second value attribute keeps `==` an equivalence
but the `value` property (and with it equality and hashing) keeps following the lookup order: the newly
assigned LongCodeValue is ignored while CodeValue is present. -/
theorem counterexample_second_value_attribute :
    let d : DS := DS.set [("CodingSchemeDesignator", "SCT"), ("CodeMeaning", "Brain"), ("CodeValue", "12738006")]
      "LongCodeValue" "1273800612738006X"
    prop d "value" = .ok (some "12738006") ∧ ¬ (Obj.concept d).wf ∧ (Obj.concept d).readable := by
  decide

/-! ## bridges: the hand-written dispatch follows the programs regenerated from the source -/

/-- `CodedConcept.__eq__` (regenerated as `Gen.conceptEqPlan`): for a `Code` and for a `CodedConcept` on the right the
source takes the branch `Code.__eq__(Code(<eqThisArgs>), other)` — which is what the model's `objEq` computes -/
theorem tie_eq_dispatch (retired : String → String → Option String) (d : DS) (b : Obj) :
    conceptEqPlan b.isCode (!b.isCode) = .ok 0 ∧
    objEq retired (.concept d) b =
      (match conceptEqPlan b.isCode (!b.isCode) with
       | .ok 0 => (match thisOf d with
         | .error e => .error e
         | .ok this => codeEq retired this b)
       | _ => .error .other) :=
  objEq_follows_plan retired d b

/-- `CodedConcept.__ne__` (regenerated as `Gen.conceptNeOf`): the model's `!=` is that expression of `==` -/
theorem tie_ne_expression (retired : String → String → Option String) (d : DS) (b : Obj) :
    objNe retired (.concept d) b =
      (match objEq retired (.concept d) b with
       | .error e => .error e
       | .ok r => conceptNeOf r) :=
  objNe_follows_expression retired d b

/-- `CodedConcept.from_code` (regenerated as `Gen.fromCodePlan`): concepts are returned as they are, codes are unpacked -/
theorem tie_from_code (d : DS) :
    fromCodePlan true = .ok 0 ∧ fromCodePlan false = .ok 1 ∧
    fromCode (.concept d) = (match fromCodePlan true with
      | .ok 0 => .ok (.concept d)
      | _ => .error .other) :=
  fromCode_follows_plan d

example : conceptEqPlan true false = .ok 0 ∧ conceptEqPlan false true = .ok 0 ∧ conceptEqPlan false false = .ok 1 ∧
    conceptNeOf true = .ok false := by decide

/-! ## non-vacuity: the hypotheses are satisfiable by concrete, non-trivial inputs -/

/-- the SNOMED example used throughout: retired SRT `T-A0100` is SCT `12738006` -/
def exRetired : String → String → Option String := fun s v => if s = "SRT" ∧ v = "T-A0100" then some "12738006" else none

example : (Obj.code ⟨some "T-A0100", some "SRT", some "Brain", none⟩).wf := by decide
example : mkConcept "12738006" "SCT" "Entire brain" none =
    .ok [("CodingSchemeDesignator", "SCT"), ("CodeMeaning", "Entire brain"), ("CodeValue", "12738006")] := by
  rw [mkConcept_spec]; decide
/-- a backslash in the value or in the meaning is refused; an upper-case URN scheme name is a URN -/
example : mkConcept "a\\b" "99X" "m" none = .error .value ∧ mkConcept "abc" "99X" "x\\y" none = .error .value ∧
    stdKeyword "URN:oid:1.2" = "URNCodeValue" := by
  refine ⟨by rw [mkConcept_spec]; decide, by rw [mkConcept_spec]; decide, by decide⟩
/-- an alias pair across classes and meanings is equal in both directions … -/
example : objEq exRetired (.code ⟨some "T-A0100", some "SRT", some "Brain", none⟩)
    (.concept [("CodingSchemeDesignator", "SCT"), ("CodeMeaning", "Entire brain"), ("CodeValue", "12738006")]) = .ok true ∧
  objEq exRetired (.concept [("CodingSchemeDesignator", "SCT"), ("CodeMeaning", "Entire brain"), ("CodeValue", "12738006")])
    (.code ⟨some "T-A0100", some "SRT", some "Brain", none⟩) = .ok true := by
  refine alias_equal exRetired _ _ (by decide) (by decide) "T-A0100" "12738006" rfl rfl rfl rfl rfl rfl
/-- … while versions do distinguish -/
example : objEq exRetired (.code ⟨some "12738006", some "SCT", some "Brain", some "2020"⟩)
    (.concept [("CodingSchemeDesignator", "SCT"), ("CodeMeaning", "Brain"), ("CodeValue", "12738006")]) = .ok false := by
  rw [objEq_key _ _ _ (by decide) (by decide)]; decide
/-- a 13-character URN goes to URNCodeValue, a 17-character plain value to LongCodeValue -/
example : stdKeyword "urn:oid:1.2.3" = "URNCodeValue" ∧ stdKeyword "12345678901234567" = "LongCodeValue" ∧
    stdKeyword "1234567890123456" = "CodeValue" := by decide
/-- a dataset with two code value attributes is not acceptable, one with exactly one is -/
example : ¬ acceptable ⟨.dataset, [("CodeValue", "1"), ("LongCodeValue", "2"), ("CodeMeaning", "m"), ("CodingSchemeDesignator", "s")]⟩ ∧
    acceptable ⟨.dataset, [("LongCodeValue", "2"), ("CodeMeaning", "m"), ("CodingSchemeDesignator", "s")]⟩ := by decide

end HdVerif.C17
