import HdVerif.Proofs.Coding
import HdVerif.Proofs.CodingTie
import HdVerif.Proofs.CodingStore
/-! # C17  Coded concepts behave as values under equality, hashing and I/O

Objects are pydicom `Code`s and highdicom `CodedConcept`s (`Obj.code` / `Obj.concept`), in any mix.
`objEq` is Python's `a == b` (dispatch to `Code.__eq__` or to `CodedConcept.__eq__`, which builds
`Code(self.value, self.scheme_designator, self.meaning, self.scheme_version)` — the argument list is
REGENERATED from /repo's source, `Gen.eqThisArgs` — and delegates).  pydicom's `Code.__eq__`, `__ne__`,
`__hash__` are REGENERATED from pydicom's own source as well (`Gen.pydCodeEq`, `Gen.pydEqOtherReads`,
`Gen.pydNeNegatesEq`, `Gen.pydHashArgs`, `Gen.pydCodeFields`; translated, not trusted).  `retired s v` is
`snomed_mapping[s].get(v)` (any function), `h` Python's string hash (any function).

`Obj.wf` is what every object made through the public API satisfies (`ctor_wf`, `from_dataset_wf`,
`from_code_wf`): a `Code` has value, scheme and meaning; a concept has exactly one of the three code
value attributes, a meaning and a scheme designator. -/
namespace HdVerif.C17
open HdVerif HdVerif.Gen HdVerif.Coding

/-! ## equality -/

/-- `==` never raises on well-formed codes and **is decided by the normalised (value, scheme,
version) key** — whichever of the two classes stands on whichever side. -/
theorem eq_decided_by_key (retired : String → String → Option String) (a b : Obj) (ha : a.wf) (hb : b.wf) :
    objEq retired a b = .ok (decide (key retired a = key retired b)) :=
  objEq_key retired a b ha hb

/-- reflexive -/
theorem eq_refl (retired : String → String → Option String) (a : Obj) (ha : a.wf) : objEq retired a a = .ok true := by
  rw [objEq_key retired a a ha ha]; simp

/-- symmetric: `a == b` and `b == a` give the same answer for every mix of representations -/
theorem eq_symm (retired : String → String → Option String) (a b : Obj) (ha : a.wf) (hb : b.wf) :
    objEq retired a b = objEq retired b a := by
  rw [objEq_key retired a b ha hb, objEq_key retired b a hb ha]
  congr 1
  exact decide_eq_decide.mpr ⟨fun h => h.symm, fun h => h.symm⟩

/-- transitive -/
theorem eq_trans (retired : String → String → Option String) (a b c : Obj) (ha : a.wf) (hb : b.wf) (hc : c.wf)
    (hab : objEq retired a b = .ok true) (hbc : objEq retired b c = .ok true) : objEq retired a c = .ok true := by
  rw [objEq_key retired a b ha hb] at hab
  rw [objEq_key retired b c hb hc] at hbc
  rw [objEq_key retired a c ha hc]
  simp only [Except.ok.injEq, decide_eq_true_eq] at hab hbc ⊢
  exact hab.trans hbc

/-- the three together: `==` is an equivalence relation on well-formed codes of both classes -/
theorem eq_equivalence (retired : String → String → Option String) :
    (∀ a : Obj, a.wf → objEq retired a a = .ok true) ∧
    (∀ a b : Obj, a.wf → b.wf → objEq retired a b = objEq retired b a) ∧
    (∀ a b c : Obj, a.wf → b.wf → c.wf → objEq retired a b = .ok true → objEq retired b c = .ok true →
      objEq retired a c = .ok true) :=
  ⟨eq_refl retired, eq_symm retired, eq_trans retired⟩

/-- **never by meaning**: two objects (of either class) that agree in value, scheme and version are
interchangeable on both sides of `==`, whatever their meanings. -/
theorem eq_ignores_meaning (retired : String → String → Option String) (a a' b : Obj) (ha : a.wf) (ha' : a'.wf) (hb : b.wf)
    (hv : specValue a = specValue a') (hs : specScheme a = specScheme a') (hver : specVersion a = specVersion a') :
    objEq retired a b = objEq retired a' b ∧ objEq retired b a = objEq retired b a' := by
  rw [objEq_key retired a b ha hb, objEq_key retired a' b ha' hb, objEq_key retired b a hb ha,
    objEq_key retired b a' hb ha']
  simp only [key, hv, hs, hver]
  exact ⟨rfl, rfl⟩

/-- in particular a code equals itself under another meaning and in the other class -/
theorem eq_across_meaning_and_class (retired : String → String → Option String) (v s m m' : String) (ver : Option String)
    (d : DS) (hd : mkConcept v s m' ver = .ok d) :
    objEq retired (.code ⟨some v, some s, some m, ver⟩) (.concept d) = .ok true ∧
    objEq retired (.concept d) (.code ⟨some v, some s, some m, ver⟩) = .ok true := by
  obtain ⟨_, _, rfl⟩ := mkConcept_ok v s m' ver d hd
  · skip
    have hw : (Obj.concept (builtDS (stdKeyword v) v s m' ver)).wf := builtDS_wf _ v s m' ver (stdKeyword_cases v)
    have hc : (Obj.code ⟨some v, some s, some m, ver⟩).wf := by simp [Obj.wf]
    have hk : key retired (.code ⟨some v, some s, some m, ver⟩) = key retired (.concept (builtDS (stdKeyword v) v s m' ver)) := by
      rcases stdKeyword_cases v with h | h | h <;> rw [h] <;> cases ver <;>
        simp [key, specValue, specScheme, specVersion, builtDS, DS.get, List.lookup]
    rw [objEq_key retired _ _ hc hw, objEq_key retired _ _ hw hc]
    simp [hk]

/-- `!=` is the negation of `==` (both classes) -/
theorem ne_is_negation (retired : String → String → Option String) (a b : Obj) (ha : a.wf) (hb : b.wf) :
    objNe retired a b = .ok (!decide (key retired a = key retired b)) := by
  cases a <;> simp [objNe, objEq_key retired _ b ha hb, neNegatesEq, pydNeNegatesEq]

/-- retired-scheme aliases are normalised: an SRT code whose value is retired equals its SCT successor
(same version), whichever classes and meanings are involved. -/
theorem alias_equal (retired : String → String → Option String) (a b : Obj) (ha : a.wf) (hb : b.wf) (v w : String)
    (hr : retired "SRT" v = some w)
    (has : specScheme a = some "SRT") (hav : specValue a = some v)
    (hbs : specScheme b = some "SCT") (hbv : specValue b = some w)
    (hver : specVersion a = specVersion b) :
    objEq retired a b = .ok true ∧ objEq retired b a = .ok true := by
  rw [objEq_key retired a b ha hb, objEq_key retired b a hb ha]
  simp [key, mapKey, has, hav, hbs, hbv, hr, hver]

/-- without retired codes on either side equality is exactly equality of (value, scheme, version) -/
theorem eq_iff_same_triple (retired : String → String → Option String) (a b : Obj) (ha : a.wf) (hb : b.wf)
    (hna : specScheme a ≠ some "SRT") (hnb : specScheme b ≠ some "SRT") :
    objEq retired a b = .ok true ↔
      (specValue a = specValue b ∧ specScheme a = specScheme b ∧ specVersion a = specVersion b) := by
  rw [objEq_key retired a b ha hb]
  have hk : ∀ o : Obj, specScheme o ≠ some "SRT" → key retired o = (specValue o, specScheme o, specVersion o) := by
    intro o ho
    unfold key mapKey
    split
    · rename_i s v hs hv
      have : s ≠ "SRT" := by intro h; apply ho; rw [hs, h]
      simp [this]
    · rfl
  rw [hk a hna, hk b hnb]
  simp

/-! ## hashing -/

/-- **equal scheme + value ⇒ equal hash, whichever class** (and the hash never raises) -/
theorem hash_congr (h : String → Int) (a b : Obj) (ha : a.wf) (hb : b.wf)
    (hs : specScheme a = specScheme b) (hv : specValue a = specValue b) :
    hashOf h a = hashOf h b ∧ ∃ x, hashOf h a = .ok x := by
  obtain ⟨s, hsa⟩ := wf_scheme_some a ha
  obtain ⟨v, hva⟩ := wf_value_some a ha
  have e1 := hashInput_spec a ha s v hsa hva
  have e2 := hashInput_spec b hb s v (hs ▸ hsa) (hv ▸ hva)
  simp [hashOf, e1, e2]

/-- the Python contract `a == b ⇒ hash(a) == hash(b)` holds whenever no retired alias is involved
(pydicom itself hashes an SRT alias and its SCT successor differently). -/
theorem eq_implies_hash_eq (h : String → Int) (retired : String → String → Option String) (a b : Obj) (ha : a.wf) (hb : b.wf)
    (hna : specScheme a ≠ some "SRT") (hnb : specScheme b ≠ some "SRT")
    (he : objEq retired a b = .ok true) : hashOf h a = hashOf h b := by
  obtain ⟨hv, hs, _⟩ := (eq_iff_same_triple retired a b ha hb hna hnb).mp he
  exact (hash_congr h a b ha hb hs hv).1

/-- sets and dictionaries treat two representations of the same scheme + value as one element
exactly when they are equal: `len({a, b}) == 1 ⇔ a == b`. -/
theorem set_treats_as_one (h : String → Int) (retired : String → String → Option String) (a b : Obj) (ha : a.wf) (hb : b.wf)
    (hs : specScheme a = specScheme b) (hv : specValue a = specValue b) :
    setLen2 h retired a b = .ok (if decide (key retired a = key retired b) then 1 else 2) := by
  obtain ⟨hh, x, hx⟩ := hash_congr h a b ha hb hs hv
  have hy : hashOf h b = .ok x := hh ▸ hx
  simp only [setLen2, hx, hy, objEq_key retired a b ha hb, if_true]
  by_cases hk : key retired a = key retired b <;> simp [hk]

/-! ## value attribute -/

/-- the constructor refuses exactly the meanings of more than 64 characters and the arguments that
contain a backslash (pydicom would split them at the value delimiter into a MultiValue that cannot be read
back); both refusals are ValueErrors -/
theorem ctor_total (v s m : String) (ver : Option String) :
    ((∃ d, mkConcept v s m ver = .ok d) ↔ (anyBackslash v s m ver = false ∧ m.length ≤ 64)) ∧
    ((anyBackslash v s m ver = true ∨ m.length > 64) → mkConcept v s m ver = .error .value) := by
  rw [mkConcept_spec]
  constructor
  · constructor
    · rintro ⟨d, hd⟩
      by_cases hb : anyBackslash v s m ver = true
      · simp [hb] at hd
      · by_cases hm : m.length > 64
        · simp [hb, hm] at hd
        · exact ⟨by simpa using hb, by omega⟩
    · rintro ⟨hb, hm⟩
      have : ¬ m.length > 64 := by omega
      simp [hb, this]
  · rintro (hb | hm)
    · simp [hb]
    · by_cases hb : anyBackslash v s m ver = true <;> simp [hb, hm]

/-- a backslash in the value, the scheme designator, the meaning or a given scheme version is refused -/
theorem ctor_rejects_backslash (v s m : String) (ver : Option String)
    (h : hasBackslash v = true ∨ hasBackslash s = true ∨ hasBackslash m = true ∨ ∃ x, ver = some x ∧ hasBackslash x = true) :
    mkConcept v s m ver = .error .value := by
  apply (ctor_total v s m ver).2
  left
  unfold anyBackslash
  rcases h with h | h | h | ⟨x, rfl, h⟩ <;> simp [h, optHasBackslash]

/-- **the value is stored in the attribute the standard assigns to its form and length, and read back
unchanged**: URN/URL → `URNCodeValue`; otherwise ≤ 16 characters → `CodeValue`, longer → `LongCodeValue`;
the other two attributes are absent; `value`, `meaning`, `scheme_designator`, `scheme_version` return what
was given. -/
theorem value_attribute_roundtrip (v s m : String) (ver : Option String) (d : DS) (hd : mkConcept v s m ver = .ok d) :
    DS.get d (stdKeyword v) = some v ∧
    (∀ kw ∈ ["CodeValue", "LongCodeValue", "URNCodeValue"], kw ≠ stdKeyword v → DS.get d kw = none) ∧
    prop d "value" = .ok (some v) ∧ prop d "meaning" = .ok (some m) ∧
    prop d "scheme_designator" = .ok (some s) ∧ prop d "scheme_version" = .ok ver := by
  obtain ⟨_, _, rfl⟩ := mkConcept_ok v s m ver d hd
  rcases stdKeyword_cases v with h | h | h <;> rw [h] <;> cases ver <;>
    simp [builtDS, DS.get, List.lookup, prop, valueLookup, firstPresent, propertyAttr]

/-- the code's URN/URL test, built from the literals REGENERATED from the source, is the specification's test
with its own literals (`"urn:"` case-insensitively per RFC 8141, `"://"`): changing a literal in the code
breaks this theorem instead of moving the specification along -/
theorem urn_test_is_specification (v : String) :
    looksLikeUrn v = specIsUrn v ∧ urnPrefix = "urn:" ∧ urlMarker = "://" ∧ urnPrefixCaseInsensitive = true :=
  ⟨looksLikeUrn_spec v, rfl, rfl, rfl⟩

/-- the three cases of `stdKeyword`, spelled out (what "form and length" means) -/
theorem value_attribute_by_form (v : String) :
    (specIsUrn v = true → stdKeyword v = "URNCodeValue") ∧
    (specIsUrn v = false → v.length ≤ 16 → stdKeyword v = "CodeValue") ∧
    (specIsUrn v = false → v.length > 16 → stdKeyword v = "LongCodeValue") := by
  unfold stdKeyword
  refine ⟨fun h => by simp [h], fun h hl => by simp [h, hl], fun h hl => ?_⟩
  have : ¬ v.length ≤ 16 := by omega
  simp [h, this]

/-- constructed concepts are well-formed -/
theorem ctor_wf (v s m : String) (ver : Option String) (d : DS) (hd : mkConcept v s m ver = .ok d) :
    (Obj.concept d).wf := by
  obtain ⟨_, _, rfl⟩ := mkConcept_ok v s m ver d hd
  exact builtDS_wf _ v s m ver (stdKeyword_cases v)

/-! ## conversion from datasets and codes -/

/-- **`from_dataset` succeeds iff the argument is a dataset that is exactly one code** (exactly one of the
three code value attributes, a meaning, a scheme designator); otherwise TypeError (not a dataset) or
AttributeError. -/
theorem from_dataset_exactly_one (h : Heap) (ref : Nat) (copy : Bool) (cell : Cell) (hc : h[ref]? = some cell) :
    ((∃ r, fromDataset h ref copy = .ok r) ↔ acceptable cell) ∧
    (¬ acceptable cell → fromDataset h ref copy = .error (if cell.cls = .notDataset then .type else .attribute)) := by
  constructor
  · constructor
    · rintro ⟨r, hr⟩
      by_cases hn : acceptable cell
      · exact hn
      · rw [fromDataset_err h ref copy cell hc hn] at hr
        cases hr
    · intro ha
      exact ⟨_, fromDataset_ok h ref copy cell hc ha⟩
  · exact fromDataset_err h ref copy cell hc

/-- 0, 2 or 3 code value attributes are refused whatever else is present -/
theorem from_dataset_rejects_wrong_count (h : Heap) (ref : Nat) (copy : Bool) (cell : Cell) (hc : h[ref]? = some cell)
    (hn : countPresent cell.ds ["CodeValue", "LongCodeValue", "URNCodeValue"] ≠ 1) :
    ∃ e, fromDataset h ref copy = .error e := by
  refine ⟨_, fromDataset_err h ref copy cell hc ?_⟩
  rintro ⟨_, h2, _⟩
  exact hn h2

/-- **copy**: the result is a new object of class CodedConcept with the same content; the original
keeps its class and content, and a later write through the result does not reach it. -/
theorem copy_or_alias_copy (h : Heap) (ref : Nat) (cell : Cell) (hc : h[ref]? = some cell) (ha : acceptable cell) :
    ∃ h' r, fromDataset h ref true = .ok (h', r) ∧ r ≠ ref ∧ h[r]? = none ∧
      h'[r]? = some { cls := .codedConcept, ds := cell.ds } ∧ h'[ref]? = some cell ∧
      (∀ k v, (setAttr h' r k v)[ref]? = some cell) ∧ (Obj.concept cell.ds).wf := by
  have hlt : ref < h.length := by
    rcases Nat.lt_or_ge ref h.length with hl | hl
    · exact hl
    · rw [List.getElem?_eq_none hl] at hc; cases hc
  refine ⟨_, _, by simpa using fromDataset_ok h ref true cell hc ha, by omega, by simp, by simp, ?_, ?_, ?_⟩
  · rw [List.getElem?_append_left hlt]; exact hc
  · intro k v
    simp only [setAttr, List.getElem?_append_right (Nat.le_refl _), Nat.sub_self, List.getElem?_cons_zero]
    rw [List.getElem?_set_ne (by omega), List.getElem?_append_left hlt]
    exact hc
  · exact ⟨ha.2.1, ha.2.2.1, ha.2.2.2⟩

/-- **alias**: the result *is* the argument (same reference), its class is now CodedConcept, its content
is untouched, nothing else in the store changes — so later writes through either name are shared. -/
theorem copy_or_alias_alias (h : Heap) (ref : Nat) (cell : Cell) (hc : h[ref]? = some cell) (ha : acceptable cell) :
    ∃ h', fromDataset h ref false = .ok (h', ref) ∧
      h'[ref]? = some { cls := .codedConcept, ds := cell.ds } ∧ h'.length = h.length ∧
      (∀ j, j ≠ ref → h'[j]? = h[j]?) ∧ (Obj.concept cell.ds).wf := by
  have hlt : ref < h.length := by
    rcases Nat.lt_or_ge ref h.length with hl | hl
    · exact hl
    · rw [List.getElem?_eq_none hl] at hc; cases hc
  refine ⟨_, by simpa using fromDataset_ok h ref false cell hc ha, ?_, by simp, ?_, ⟨ha.2.1, ha.2.2.1, ha.2.2.2⟩⟩
  · simp [hlt]
  · intro j hj
    rw [List.getElem?_set_ne (Ne.symm hj)]

/-- whatever `from_dataset` returns is a well-formed concept -/
theorem from_dataset_wf (h : Heap) (ref : Nat) (copy : Bool) (cell : Cell) (hc : h[ref]? = some cell)
    (h' : Heap) (r : Nat) (hr : fromDataset h ref copy = .ok (h', r)) :
    ∃ c, h'[r]? = some c ∧ c.cls = .codedConcept ∧ c.ds = cell.ds ∧ (Obj.concept c.ds).wf := by
  have ha : acceptable cell := ((from_dataset_exactly_one h ref copy cell hc).1).mp ⟨_, hr⟩
  cases copy
  · obtain ⟨h2, e, g, _, _, w⟩ := copy_or_alias_alias h ref cell hc ha
    rw [e] at hr; cases hr
    exact ⟨_, g, rfl, rfl, w⟩
  · obtain ⟨h2, r2, e, _, _, g, _, _, w⟩ := copy_or_alias_copy h ref cell hc ha
    rw [e] at hr; cases hr
    exact ⟨_, g, rfl, rfl, w⟩

/-- `from_code` of a concept returns that very concept; of a `Code` it yields a well-formed concept that
is equal to the code in both directions and hashes like it (for codes the constructor accepts: meaning of
at most 64 characters, no backslash). -/
theorem from_code_spec (retired : String → String → Option String) (hf : String → Int) (v s m : String) (ver : Option String)
    (hm : m.length ≤ 64) (hb : anyBackslash v s m ver = false) :
    (∀ d, fromCode (.concept d) = .ok (.concept d)) ∧
    ∃ d, fromCode (.code ⟨some v, some s, some m, ver⟩) = .ok (.concept d) ∧ (Obj.concept d).wf ∧
      objEq retired (.concept d) (.code ⟨some v, some s, some m, ver⟩) = .ok true ∧
      objEq retired (.code ⟨some v, some s, some m, ver⟩) (.concept d) = .ok true ∧
      hashOf hf (.concept d) = hashOf hf (.code ⟨some v, some s, some m, ver⟩) := by
  constructor
  · intro d; simp [fromCode, fromCodeReturnsSame]
  · obtain ⟨d, hd⟩ := (ctor_total v s m ver).1.mpr ⟨hb, hm⟩
    have hw := ctor_wf v s m ver d hd
    have hc : (Obj.code ⟨some v, some s, some m, ver⟩).wf := by simp [Obj.wf]
    obtain ⟨e1, e2⟩ := eq_across_meaning_and_class retired v s m m ver d hd
    obtain ⟨g1, g2, g3, _, g5, _⟩ := value_attribute_roundtrip v s m ver d hd
    have hu : ∀ (c : Code), unpackedArg c "value" = .ok c.value ∧ unpackedArg c "scheme_designator" = .ok c.scheme ∧
        unpackedArg c "meaning" = .ok c.meaning ∧ unpackedArg c "scheme_version" = .ok c.version := by
      intro c
      simp [unpackedArg, ctorParams, pydCodeFields, List.zip, List.lookup, Obj.attr]
    refine ⟨d, by simp [fromCode, hu, hd], hw, e2, e1, ?_⟩
    have hs : specScheme (.concept d) = some s := by
      have := attr_scheme (.concept d) hw
      simp only [Obj.attr, g5] at this
      exact (Except.ok.inj this).symm
    have hv : specValue (.concept d) = some v := by
      have := attr_value (.concept d)
      simp only [Obj.attr, g3] at this
      exact (Except.ok.inj this).symm
    exact (hash_congr hf _ _ hw hc (by rw [hs]; rfl) (by rw [hv]; rfl)).1

/-! ## pydicom's side, and mutation after construction -/

/-- **pydicom's own `Code.__eq__`** (as translated from its source) is equality of the normalised
(value, scheme, version) keys — an equivalence relation on `Code`s that never looks at the meaning. -/
theorem pydicom_eq_is_key_equality (retired : String → String → Option String) (s o : PCode) :
    pydCodeEq retired s o =
      decide (mapKey (retired "SRT") s.value s.scheme s.version = mapKey (retired "SRT") o.value o.scheme o.version) :=
  pydCodeEq_spec retired s o

/-- `==` only needs the concept to be *readable* (CodeMeaning and CodingSchemeDesignator present): the
equivalence holds for every readable object, whether or not it still has exactly one value attribute. -/
theorem eq_equivalence_readable (retired : String → String → Option String) :
    (∀ a : Obj, a.readable → objEq retired a a = .ok true) ∧
    (∀ a b : Obj, a.readable → b.readable → objEq retired a b = objEq retired b a) ∧
    (∀ a b c : Obj, a.readable → b.readable → c.readable → objEq retired a b = .ok true → objEq retired b c = .ok true →
      objEq retired a c = .ok true) := by
  refine ⟨?_, ?_, ?_⟩
  · intro a ha
    rw [objEq_key' retired a a ha ha]; simp
  · intro a b ha hb
    rw [objEq_key' retired a b ha hb, objEq_key' retired b a hb ha]
    congr 1
    exact decide_eq_decide.mpr ⟨fun h => h.symm, fun h => h.symm⟩
  · intro a b c ha hb hc hab hbc
    rw [objEq_key' retired a b ha hb] at hab
    rw [objEq_key' retired b c hb hc] at hbc
    rw [objEq_key' retired a c ha hc]
    simp only [Except.ok.injEq, decide_eq_true_eq] at hab hbc ⊢
    exact hab.trans hbc

/-- **Mutation through the attribute setters cannot break the equivalence.**  Any sequence of attribute
assignments (to any keyword, any value) and of deletions of keywords other than CodeMeaning /
CodingSchemeDesignator turns a readable concept into a readable concept — so `eq_equivalence_readable`
applies to every object reachable that way; if the result also still has exactly one value attribute it
is well-formed and all hash / set theorems apply too. -/
theorem mutation_keeps_equivalence (d : DS) (ops : List Op) (hd : (Obj.concept d).readable)
    (hops : ∀ op ∈ ops, op.keepsReadable) :
    (Obj.concept (applyOps d ops)).readable ∧
    (countPresent (applyOps d ops) ["CodeValue", "LongCodeValue", "URNCodeValue"] = 1 → (Obj.concept (applyOps d ops)).wf) := by
  have hr := applyOps_readable ops d hd hops
  exact ⟨hr, fun hc => ⟨hc, hr.1, hr.2⟩⟩

/-- Counterexample for the excluded mutation: after `del concept.CodeMeaning` the comparison is no longer
symmetric — `concept == code` raises AttributeError (`CodedConcept.__eq__` reads `self.meaning`) while
`code == concept` still answers True (pydicom's `Code.__eq__` never reads the meaning). -/
theorem counterexample_deleted_meaning :
    let d : DS := DS.del [("CodingSchemeDesignator", "SCT"), ("CodeMeaning", "Brain"), ("CodeValue", "12738006")] "CodeMeaning"
    let c : Code := ⟨some "12738006", some "SCT", some "Brain", none⟩
    objEq (fun _ _ => none) (.concept d) (.code c) = .error .attribute ∧
    objEq (fun _ _ => none) (.code c) (.concept d) = .ok true := by
  decide

/-- Breaking the exactly-one invariant by assigning a second value attribute keeps `==` an equivalence
but the `value` property (and with it equality and hashing) keeps following the lookup order: the newly
assigned LongCodeValue is ignored while CodeValue is present. -/
theorem counterexample_second_value_attribute :
    let d : DS := DS.set [("CodingSchemeDesignator", "SCT"), ("CodeMeaning", "Brain"), ("CodeValue", "12738006")]
      "LongCodeValue" "1273800612738006X"
    prop d "value" = .ok (some "12738006") ∧ ¬ (Obj.concept d).wf ∧ (Obj.concept d).readable := by
  decide

/-! ## bridges: the hand-written dispatch follows the programs regenerated from the source -/

/-- `CodedConcept.__eq__` (regenerated as `Gen.conceptEqPlan`): for a `Code` and for a `CodedConcept` on the right the
source takes the branch `Code.__eq__(Code(<eqThisArgs>), other)` — which is what the model's `objEq` computes -/
theorem tie_eq_dispatch (retired : String → String → Option String) (d : DS) (b : Obj) :
    conceptEqPlan b.isCode (!b.isCode) = .ok 0 ∧
    objEq retired (.concept d) b =
      (match conceptEqPlan b.isCode (!b.isCode) with
       | .ok 0 => (match thisOf d with
         | .error e => .error e
         | .ok this => codeEq retired this b)
       | _ => .error .other) :=
  objEq_follows_plan retired d b

/-- `CodedConcept.__ne__` (regenerated as `Gen.conceptNeOf`): the model's `!=` is that expression of `==` -/
theorem tie_ne_expression (retired : String → String → Option String) (d : DS) (b : Obj) :
    objNe retired (.concept d) b =
      (match objEq retired (.concept d) b with
       | .error e => .error e
       | .ok r => conceptNeOf r) :=
  objNe_follows_expression retired d b

/-- `CodedConcept.from_code` (regenerated as `Gen.fromCodePlan`): concepts are returned as they are, codes are unpacked -/
theorem tie_from_code (d : DS) :
    fromCodePlan true = .ok 0 ∧ fromCodePlan false = .ok 1 ∧
    fromCode (.concept d) = (match fromCodePlan true with
      | .ok 0 => .ok (.concept d)
      | _ => .error .other) :=
  fromCode_follows_plan d

example : conceptEqPlan true false = .ok 0 ∧ conceptEqPlan false true = .ok 0 ∧ conceptEqPlan false false = .ok 1 ∧
    conceptNeOf true = .ok false := by decide

/-- the SNOMED example used throughout: retired SRT `T-A0100` is SCT `12738006` -/
def exRetired : String → String → Option String := fun s v => if s = "SRT" ∧ v = "T-A0100" then some "12738006" else none

/-! ## dictionaries and sets keyed by codes (histories of insertions, look-ups, deletions)

`PyDict β` is Python's `dict` (`β = Unit`: `set`) as the list of its entries in insertion order; a look-up takes the
first entry whose stored hash equals the hash of the key and whose stored key `==` the key (`Model/CodingStore.lean`,
tied to the real `dict` / `set` by the stream `dict-history`).  `sig h retired k` = (hash, normalised key) is all a
dict can see of a key; `d.WF h`: every stored key is well-formed and stored under its own hash; `d.distinct retired`:
no two entries answer the same query (then the probe order of the real hash table cannot be observed). -/

/-- **insert, then look up**: `d[k] = v` never raises on well-formed keys, and afterwards `d[k']` is `v` for every
key of either class that hashes like `k` and compares equal to it, and what it was before for every other key.  (hand model `PyDict`, tie C: stream `dict-history`; `hashOf` / `objEq` inside are the regenerated `hashArgs` / `eqThisArgs` / `pydCodeEq`) -/
theorem dict_set_then_get {β : Type} (h : String → Int) (retired : String → String → Option String) (d : PyDict β)
    (hd : d.WF h) (k k' : Obj) (hk : k.wf) (hk' : k'.wf) (v : β) :
    ∃ d' r, pySet h retired d k v = .ok d' ∧ d'.WF h ∧ pyGet h retired d k' = .ok r ∧
      pyGet h retired d' k' = .ok (if sig h retired k' = sig h retired k then some v else r) := by
  have hw : (pSet retired (sig h retired k) k v d).WF h := pSet_WF h retired _ k v hk rfl d hd
  refine ⟨_, _, pySet_pure h retired d hd k hk v, hw, pyGet_pure h retired d hd k' hk', ?_⟩
  rw [pyGet_pure h retired _ hw k' hk', pFind_pSet retired _ _ k v rfl d]

/-- insertion keeps the dict well-formed and free of double entries; it grows by one exactly when the key was not found  (hand model `PyDict`, tie C: stream `dict-history`; `hashOf` / `objEq` inside are the regenerated `hashArgs` / `eqThisArgs` / `pydCodeEq`) -/
theorem dict_set_invariants {β : Type} (h : String → Int) (retired : String → String → Option String) (d : PyDict β)
    (hd : d.WF h) (hdist : d.distinct retired) (k : Obj) (hk : k.wf) (v : β) :
    ∃ d' r, pySet h retired d k v = .ok d' ∧ d'.WF h ∧ d'.distinct retired ∧ pyGet h retired d k = .ok r ∧
      d'.length = d.length + (if r.isNone then 1 else 0) := by
  refine ⟨_, _, pySet_pure h retired d hd k hk v, pSet_WF h retired _ k v hk rfl d hd,
    pSet_distinct retired _ k v rfl d hdist, pyGet_pure h retired d hd k hk, ?_⟩
  rw [length_pSet]
  have := pFind_none_iff retired (sig h retired k) d
  by_cases h0 : hits retired (sig h retired k) d = 0
  · simp [h0, this.mpr h0]
  · have : pFind retired (sig h retired k) d ≠ none := fun hh => h0 (this.mp hh)
    cases hp : pFind retired (sig h retired k) d with
    | none => exact absurd hp this
    | some x => simp [h0]

/-- **delete**: `del d[k]` is a KeyError exactly when `k` is not found; otherwise one entry goes, every key that lands in
the slot of `k` is absent afterwards and every other key finds what it found before  (hand model `PyDict`, tie C: stream `dict-history`; `hashOf` / `objEq` inside are the regenerated `hashArgs` / `eqThisArgs` / `pydCodeEq`) -/
theorem dict_del_then_get {β : Type} (h : String → Int) (retired : String → String → Option String) (d : PyDict β)
    (hd : d.WF h) (hdist : d.distinct retired) (k : Obj) (hk : k.wf) :
    ∃ r, pyGet h retired d k = .ok r ∧
      match r with
      | none => pyDel h retired d k = .ok none
      | some _ => ∃ d', pyDel h retired d k = .ok (some d') ∧ d'.WF h ∧ d'.distinct retired ∧ d'.length + 1 = d.length ∧
          ∀ k' : Obj, k'.wf → ∃ r', pyGet h retired d k' = .ok r' ∧
            pyGet h retired d' k' = .ok (if sig h retired k' = sig h retired k then none else r') := by
  refine ⟨_, pyGet_pure h retired d hd k hk, ?_⟩
  have hs := fun q' => pDel_spec retired (sig h retired k) q' d hdist
  cases hp : pFind retired (sig h retired k) d with
  | none =>
    simp only
    rw [pyDel_pure h retired d hd k hk]
    cases hdel : pDel retired (sig h retired k) d with
    | none => rfl
    | some d' =>
      have := hs (sig h retired k)
      rw [hdel] at this
      have h0 := (pFind_none_iff retired _ d).mp hp
      omega
  | some x =>
    simp only
    rw [pyDel_pure h retired d hd k hk]
    cases hdel : pDel retired (sig h retired k) d with
    | none =>
      have := hs (sig h retired k)
      rw [hdel] at this
      have := (pFind_none_iff retired _ d).mpr this
      rw [hp] at this; cases this
    | some d' =>
      have hall := hs
      simp only [hdel] at hall
      obtain ⟨_, hlen, _, hle, hmem⟩ := hall (sig h retired k)
      have hw' : d'.WF h := fun e he => hd e (hmem e he)
      refine ⟨d', rfl, hw', fun q => Nat.le_trans (hle q) (hdist q), hlen, fun k' hk' => ?_⟩
      refine ⟨_, pyGet_pure h retired d hd k' hk', ?_⟩
      rw [pyGet_pure h retired d' hw' k' hk', (hall (sig h retired k')).2.2.1]

/-- **a whole history of insertions**: after `d[k1] = v1; …; d[kn] = vn` (keys of both classes in any mix) a look-up by
`k'` returns the value of the LAST insertion whose key hashes like `k'` and equals it, and what `d` held before when
there is none — whatever was inserted in between.  (hand model `PyDict`, tie C: stream `dict-history`; `hashOf` / `objEq` inside are the regenerated `hashArgs` / `eqThisArgs` / `pydCodeEq`) -/
theorem dict_history_lookup {β : Type} (h : String → Int) (retired : String → String → Option String) (kvs : List (Obj × β)) :
    ∀ (d : PyDict β), d.WF h → (∀ p ∈ kvs, p.1.wf) → ∀ k' : Obj, k'.wf →
    ∃ d' r, insertAll h retired d kvs = .ok d' ∧ d'.WF h ∧ pyGet h retired d k' = .ok r ∧
      pyGet h retired d' k' = .ok (match lastMatch h retired k' kvs with
        | some w => some w
        | none => r) := by
  induction kvs with
  | nil =>
    intro d hd _ k' hk'
    exact ⟨d, _, rfl, hd, pyGet_pure h retired d hd k' hk', by simp [lastMatch, pyGet_pure h retired d hd k' hk']⟩
  | cons p rest ih =>
    intro d hd hall k' hk'
    obtain ⟨k, v⟩ := p
    have hk : k.wf := hall (k, v) (by simp)
    obtain ⟨d1, r, e1, hw1, g0, g1⟩ := dict_set_then_get h retired d hd k k' hk hk' v
    obtain ⟨d2, r1, e2, hw2, g2, g3⟩ := ih d1 hw1 (fun q hq => hall q (by simp [hq])) k' hk'
    refine ⟨d2, r, by simp [insertAll, e1, e2], hw2, g0, ?_⟩
    rw [g3]
    rw [g1] at g2
    cases g2
    simp only [lastMatch]
    cases lastMatch h retired k' rest <;> simp
    split <;> rfl

/-- **a concept is found under the equal `Code` and a `Code` under the equal concept** — with or without a scheme
version, whatever the two meanings: `{CodedConcept(v, s, m, ver): x}[Code(v, s, m', ver)]` is `x`, and the other way
round (so `hash(concept) == hash(code)` is needed in both directions, versions included).  (hand model `PyDict`, tie C: stream `dict-history`; `hashOf` / `objEq` inside are the regenerated `hashArgs` / `eqThisArgs` / `pydCodeEq`) -/
theorem dict_lookup_across_classes {β : Type} (h : String → Int) (retired : String → String → Option String) (d : PyDict β)
    (hd : d.WF h) (v s m m' : String) (ver : Option String) (c : DS) (hc : mkConcept v s m ver = .ok c) (x : β) :
    (∃ d', pySet h retired d (.concept c) x = .ok d' ∧
      pyGet h retired d' (.code ⟨some v, some s, some m', ver⟩) = .ok (some x)) ∧
    (∃ d', pySet h retired d (.code ⟨some v, some s, some m', ver⟩) x = .ok d' ∧
      pyGet h retired d' (.concept c) = .ok (some x)) := by
  have hw := ctor_wf v s m ver c hc
  obtain ⟨_, _, rfl⟩ := mkConcept_ok v s m ver c hc
  have hcw : (Obj.code ⟨some v, some s, some m', ver⟩).wf := by simp [Obj.wf]
  have hs := sig_built h retired v s m m' ver
  constructor
  · obtain ⟨d', r, e, _, _, g⟩ := dict_set_then_get h retired d hd _ _ hw hcw x
    exact ⟨d', e, by rw [g]; simp [hs]⟩
  · obtain ⟨d', r, e, _, _, g⟩ := dict_set_then_get h retired d hd _ _ hcw hw x
    exact ⟨d', e, by rw [g]; simp [hs]⟩

/-- outside the retired-scheme aliases two keys share a dict slot **iff** they agree in value, scheme and version
(never the meaning, never the class): the dict is keyed by the triple  (about `sig` = (`hashOf`, `key`): regenerated `hashArgs`, `pydHashArgs`, `pydCodeEq` via `objEq_key`) -/
theorem same_slot_iff_triple (h : String → Int) (retired : String → String → Option String) (a b : Obj) (ha : a.wf) (hb : b.wf)
    (hna : specScheme a ≠ some "SRT") (hnb : specScheme b ≠ some "SRT") :
    sig h retired a = sig h retired b ↔
      (specValue a = specValue b ∧ specScheme a = specScheme b ∧ specVersion a = specVersion b) := by
  have hk := eq_iff_same_triple retired a b ha hb hna hnb
  rw [objEq_key retired a b ha hb] at hk
  simp only [Except.ok.injEq, decide_eq_true_eq] at hk
  constructor
  · intro hs
    exact hk.mp (congrArg Prod.snd hs)
  · intro ht
    have := hk.mpr ht
    simp only [sig, hashVal, ht.1, ht.2.1, this]

/-- **where the value behaviour ends** (pydicom's SRT → SCT identification, cf. the quantifier of the property): a
retired SRT code and its SCT successor are equal in both directions, but whenever the string hash separates
`"SRT" ++ old` from `"SCT" ++ new` they hash differently — `a == b` without `hash(a) == hash(b)` — so a set holds
both and a dictionary filled under one does not find the other.  Holds for either class on either side. -/
theorem counterexample_alias_hash_and_dict (h : String → Int) (hh : h "SRTT-A0100" ≠ h "SCT12738006") :
    let a : Obj := .code ⟨some "T-A0100", some "SRT", some "Brain", none⟩
    let b : Obj := .concept [("CodingSchemeDesignator", "SCT"), ("CodeMeaning", "Entire brain"), ("CodeValue", "12738006")]
    objEq exRetired a b = .ok true ∧ objEq exRetired b a = .ok true ∧ hashOf h a ≠ hashOf h b ∧
    setLen2 h exRetired a b = .ok 2 ∧
    (∃ d : PyDict Nat, pySet h exRetired [] a 1 = .ok d ∧ pyGet h exRetired d b = .ok none ∧
      pyGet h exRetired d a = .ok (some 1)) := by
  intro a b
  have ha : a.wf := by decide
  have hb : b.wf := by decide
  have e1 : objEq exRetired a b = .ok true := by rw [objEq_key _ _ _ ha hb]; decide
  have e2 : objEq exRetired b a = .ok true := by rw [objEq_key _ _ _ hb ha]; decide
  have h1 : hashOf h a = .ok (h "SRTT-A0100") := by rw [hashOf_wf h a ha]; rfl
  have h2 : hashOf h b = .ok (h "SCT12738006") := by rw [hashOf_wf h b hb]; rfl
  refine ⟨e1, e2, ?_, ?_, ?_⟩
  · rw [h1, h2]; intro hc; exact hh (Except.ok.inj hc)
  · simp [setLen2, h1, h2, hh]
  · obtain ⟨d', r, e, _, g0, g⟩ := dict_set_then_get h exRetired ([] : PyDict Nat) (fun _ he => by cases he) a b ha hb 1
    obtain ⟨d'', r', e', _, g0', g'⟩ := dict_set_then_get h exRetired ([] : PyDict Nat) (fun _ he => by cases he) a a ha ha 1
    rw [e] at e'; cases e'
    refine ⟨d', e, ?_, by rw [g']; simp⟩
    rw [g]
    have hne : sig h exRetired b ≠ sig h exRetired a := by
      intro hc
      have := congrArg Prod.fst hc
      exact hh this.symm
    have hr : r = none := by
      have : pyGet h exRetired ([] : PyDict Nat) b = .ok none := by
        simp [pyGet, h2, pyGetH]
      rw [this] at g0; cases g0; rfl
    simp [hne, hr]

/-! ## histories on the object store: several concepts made one after the other

`runH h ops` runs a history of `HOp`s (constructor, `from_code` of a `Code` or of an existing object, `from_dataset`
with either `copy`, `deepcopy` / pickle round trip, attribute assignment and deletion through a reference) on the
object store `h`; a refused step leaves the store as it was.  Hand-written (`Model/CodingStore.lean`) over `mkConcept`,
`fromCode`, `fromDataset`, whose decision parts are regenerated; tied to the real objects by the stream `store-history`. -/

/-- one step never removes an object, returns a reference into the new store, and leaves every existing object other
than the one it writes through (assignment, deletion, `from_dataset(copy=False)`) exactly as it was  (hand model `stepH` / `runH`, tie C: stream `store-history`; regenerated inside: `fromCodePlan`, `fromDatasetDecision`, `ctorValueAttr`) -/
theorem store_step_frame (h : Heap) (op : HOp) (h' : Heap) (out : Option Nat) (hs : stepH h op = .ok (h', out)) :
    h.length ≤ h'.length ∧ (∀ j, j < h.length → op.target ≠ some j → h'[j]? = h[j]?) ∧
    (∀ r, out = some r → r < h'.length) :=
  stepH_frame h op h' out hs

/-- **object independence over whole histories**: an object that no step of the history writes through is at the end
what it was at the start (class and content), however many concepts were created, converted, copied or modified
in between  (hand model `stepH` / `runH`, tie C: stream `store-history`; regenerated inside: `fromCodePlan`, `fromDatasetDecision`, `ctorValueAttr`) -/
theorem store_history_frame (ops : List HOp) (h : Heap) (j : Nat) (hj : j < h.length)
    (hall : ∀ op ∈ ops, op.target ≠ some j) : (runH h ops).1[j]? = h[j]? :=
  (runH_frame ops h j hj hall).1

/-- `from_code(Code(v, s, m, ver))` in ANY state of the store makes a NEW object (reference = size of the store, so
different from every existing one) that carries exactly the four fields of THIS code — its own meaning included —
and touches nothing else  (hand model `stepH` / `runH`, tie C: stream `store-history`; regenerated inside: `fromCodePlan`, `fromDatasetDecision`, `ctorValueAttr`) -/
theorem from_code_is_fresh (h : Heap) (v s m : String) (ver : Option String) (hm : m.length ≤ 64)
    (hb : anyBackslash v s m ver = false) :
    stepH h (.fromCode v s m ver) =
      .ok (h ++ [{ cls := .codedConcept, ds := builtDS (stdKeyword v) v s m ver }], some h.length) := by
  obtain ⟨d, hd⟩ := (ctor_total v s m ver).1.mpr ⟨hb, hm⟩
  obtain ⟨_, _, rfl⟩ := mkConcept_ok v s m ver d hd
  have hu : ∀ (c : Code), unpackedArg c "value" = .ok c.value ∧ unpackedArg c "scheme_designator" = .ok c.scheme ∧
      unpackedArg c "meaning" = .ok c.meaning ∧ unpackedArg c "scheme_version" = .ok c.version := by
    intro c
    simp [unpackedArg, ctorParams, pydCodeFields, List.zip, List.lookup, Obj.attr]
  simp [stepH, fromCode, hu, hd]

/-- **two codes that differ only in their meaning** (equal under `==`, equal hash) converted at any two points of a
history give two different objects, each with its own meaning, and both keep it to the end as long as nobody writes
through them — whatever else happens before, between and after  (hand model `stepH` / `runH`, tie C: stream `store-history`; regenerated inside: `fromCodePlan`, `fromDatasetDecision`, `ctorValueAttr`) -/
theorem from_code_histories_independent (h0 : Heap) (v s m1 m2 : String) (ver : Option String) (mid post : List HOp)
    (hm1 : m1.length ≤ 64) (hm2 : m2.length ≤ 64)
    (hb1 : anyBackslash v s m1 ver = false) (hb2 : anyBackslash v s m2 ver = false) :
    ∃ h1 h3, stepH h0 (.fromCode v s m1 ver) = .ok (h1, some h0.length) ∧
      stepH (runH h1 mid).1 (.fromCode v s m2 ver) = .ok (h3, some (runH h1 mid).1.length) ∧
      h0.length < (runH h1 mid).1.length ∧
      ((∀ op ∈ mid ++ post, op.target ≠ some h0.length) →
        (runH h3 post).1[h0.length]? = some ⟨.codedConcept, builtDS (stdKeyword v) v s m1 ver⟩) ∧
      ((∀ op ∈ post, op.target ≠ some (runH h1 mid).1.length) →
        (runH h3 post).1[(runH h1 mid).1.length]? = some ⟨.codedConcept, builtDS (stdKeyword v) v s m2 ver⟩) := by
  refine ⟨_, _, from_code_is_fresh h0 v s m1 ver hm1 hb1, from_code_is_fresh _ v s m2 ver hm2 hb2, ?_, ?_, ?_⟩
  · have := runH_length mid (h0 ++ [⟨.codedConcept, builtDS (stdKeyword v) v s m1 ver⟩])
    simp only [List.length_append, List.length_singleton] at this
    omega
  · intro hall
    have hlen := runH_length mid (h0 ++ [⟨.codedConcept, builtDS (stdKeyword v) v s m1 ver⟩])
    simp only [List.length_append, List.length_singleton] at hlen
    rw [(runH_frame post _ h0.length (by simp; omega) (fun op ho => hall op (by simp [ho]))).1,
      List.getElem?_append_left (by omega),
      (runH_frame mid _ h0.length (by simp) (fun op ho => hall op (by simp [ho]))).1]
    simp
  · intro hall
    rw [(runH_frame post _ _ (by simp) hall).1]
    simp

/-! ## round trips `parse (build c) = c` -/

/-- **Code → CodedConcept → Code**: the `Code` that `__eq__` rebuilds from the properties of a constructed concept is
the tuple of the four arguments, and `from_code` of that tuple is the very dataset the constructor builds — the two
representations convert into each other without loss, for every accepted argument tuple  (regenerated `eqThisArgs`, `ctorParams`, `pydCodeFields`; streams `from_code`, `pair`) -/
theorem code_concept_code_roundtrip (v s m : String) (ver : Option String) (d : DS) (hd : mkConcept v s m ver = .ok d) :
    thisOf d = .ok ⟨some v, some s, some m, ver⟩ ∧
    fromCode (.code ⟨some v, some s, some m, ver⟩) = .ok (.concept d) := by
  obtain ⟨_, _, g3, g4, g5, g6⟩ := value_attribute_roundtrip v s m ver d hd
  have hu : ∀ (c : Code), unpackedArg c "value" = .ok c.value ∧ unpackedArg c "scheme_designator" = .ok c.scheme ∧
      unpackedArg c "meaning" = .ok c.meaning ∧ unpackedArg c "scheme_version" = .ok c.version := by
    intro c
    simp [unpackedArg, ctorParams, pydCodeFields, List.zip, List.lookup, Obj.attr]
  exact ⟨by simp [thisOf, eqThisArgs, mapE, g3, g4, g5, g6, codeOfArgs], by simp [fromCode, hu, hd]⟩

/-- **constructor → `from_dataset` (copy or alias) / `deepcopy` / pickle**: in any state of the store the object that
comes back is a CodedConcept whose four properties are the four arguments; with `copy=True` (and for `deepcopy`) it is
a different object and the constructed one is left as it was  (hand model `stepH` / `runH`, tie C: stream `store-history`; regenerated inside: `fromCodePlan`, `fromDatasetDecision`, `ctorValueAttr`) -/
theorem build_parse_roundtrip (h : Heap) (v s m : String) (ver : Option String) (copy : Bool) (hm : m.length ≤ 64)
    (hb : anyBackslash v s m ver = false) :
    ∃ h1 h2 r', stepH h (.new v s m ver) = .ok (h1, some h.length) ∧
      stepH h1 (.fromDataset h.length copy) = .ok (h2, some r') ∧
      (∃ c, h2[r']? = some c ∧ c.cls = .codedConcept ∧ prop c.ds "value" = .ok (some v) ∧
        prop c.ds "meaning" = .ok (some m) ∧ prop c.ds "scheme_designator" = .ok (some s) ∧
        prop c.ds "scheme_version" = .ok ver) ∧
      (copy = true → r' ≠ h.length ∧ h2[h.length]? = h1[h.length]?) ∧ (copy = false → r' = h.length) ∧
      stepH h1 (.deepcopy h.length) = .ok (h1 ++ [⟨.codedConcept, builtDS (stdKeyword v) v s m ver⟩], some h1.length) := by
  obtain ⟨d, hd⟩ := (ctor_total v s m ver).1.mpr ⟨hb, hm⟩
  obtain ⟨_, _, g3, g4, g5, g6⟩ := value_attribute_roundtrip v s m ver d hd
  have hw := ctor_wf v s m ver d hd
  obtain ⟨_, _, hdd⟩ := mkConcept_ok v s m ver d hd
  have hget : (h ++ [(⟨.codedConcept, d⟩ : Cell)])[h.length]? = some ⟨.codedConcept, d⟩ := by simp
  have hacc : acceptable (⟨.codedConcept, d⟩ : Cell) := ⟨by simp, hw.1, hw.2.1, hw.2.2⟩
  have hfd := fromDataset_ok (h ++ [(⟨.codedConcept, d⟩ : Cell)]) h.length copy ⟨.codedConcept, d⟩ hget hacc
  have hnew : stepH h (.new v s m ver) = .ok (h ++ [(⟨.codedConcept, d⟩ : Cell)], some h.length) := by simp [stepH, hd]
  have hdc : stepH (h ++ [(⟨.codedConcept, d⟩ : Cell)]) (.deepcopy h.length) =
      .ok (h ++ [(⟨.codedConcept, d⟩ : Cell)] ++ [⟨.codedConcept, builtDS (stdKeyword v) v s m ver⟩],
        some (h ++ [(⟨.codedConcept, d⟩ : Cell)]).length) := by
    simp [stepH, hdd]
  cases copy
  · refine ⟨_, (h ++ [(⟨.codedConcept, d⟩ : Cell)]).set h.length ⟨.codedConcept, d⟩, h.length, hnew, ?_,
      ⟨⟨.codedConcept, d⟩, by simp, rfl, g3, g4, g5, g6⟩, (by intro hc; cases hc), fun _ => rfl, hdc⟩
    simp only [stepH, hfd]; rfl
  · refine ⟨_, h ++ [(⟨.codedConcept, d⟩ : Cell)] ++ [⟨.codedConcept, d⟩], h.length + 1, hnew, ?_,
      ⟨⟨.codedConcept, d⟩, by simp, rfl, g3, g4, g5, g6⟩, fun _ => ⟨by omega, by simp⟩, (by intro hc; cases hc), hdc⟩
    simp only [stepH, hfd]; simp

/-- **through a written file** (`dcmwrite` → `dcmread` → `from_dataset`, the item written WITHOUT a SpecificCharacterSet, i.e.
in pydicom's default repertoire ISO 8859-1).  Hand model `readBack kw` / `fileRoundTrip` of writer + reader, tied by the stream
`file-strings` (tie C only, nothing regenerated): a code point above 255 becomes `?`; the reader drops trailing blanks and
NULs from the SH / LO / UC values and ALL trailing white space (`rstrip()`: also TAB, LF, CR, …, but not NUL) from the UR value
of URNCodeValue; nothing else changes.  The concept read back is well-formed, holds the value in the same attribute, and its
four properties are `readBack` of the four arguments; a string survives unchanged **iff** all its characters are in the
default repertoire and it does not end in a character the reader strips from that attribute, and when all four do the dataset
read back is the dataset written.  What is claimed of the library is therefore: arguments within ISO 8859-1 that do not end in
blank / NUL (URN / URL values: in white space) are read back unchanged. -/
theorem file_roundtrip (v s m : String) (ver : Option String) (d : DS) (hd : mkConcept v s m ver = .ok d) :
    (Obj.concept (fileRoundTrip d)).wf ∧
    DS.get (fileRoundTrip d) (stdKeyword v) = some (readBack (stdKeyword v) v) ∧
    prop (fileRoundTrip d) "value" = .ok (some (readBack (stdKeyword v) v)) ∧
    prop (fileRoundTrip d) "meaning" = .ok (some (readBack "CodeMeaning" m)) ∧
    prop (fileRoundTrip d) "scheme_designator" = .ok (some (readBack "CodingSchemeDesignator" s)) ∧
    prop (fileRoundTrip d) "scheme_version" = .ok (ver.map (readBack "CodingSchemeVersion")) ∧
    (∀ (kw x : String), readBack kw x = x ↔
      (∀ c ∈ x.toList, c.val < 256) ∧ (∀ c, x.toList.getLast? = some c → stripSet kw c = false)) ∧
    (readBack (stdKeyword v) v = v → readBack "CodingSchemeDesignator" s = s → readBack "CodeMeaning" m = m →
      ver.map (readBack "CodingSchemeVersion") = ver → fileRoundTrip d = d) := by
  obtain ⟨_, _, rfl⟩ := mkConcept_ok v s m ver d hd
  have hrt : fileRoundTrip (builtDS (stdKeyword v) v s m ver) =
      builtDS (stdKeyword v) (readBack (stdKeyword v) v) (readBack "CodingSchemeDesignator" s) (readBack "CodeMeaning" m)
        (ver.map (readBack "CodingSchemeVersion")) := by
    cases ver <;> rfl
  rw [hrt]
  refine ⟨builtDS_wf _ _ _ _ _ (stdKeyword_cases v), ?_, ?_, ?_, ?_, ?_, readBack_eq_self, ?_⟩
  all_goals first
    | (intro h1 h2 h3 h4; rw [h1, h2, h3, h4])
    | (rcases stdKeyword_cases v with h | h | h <;> rw [h] <;> cases ver <;>
        simp [builtDS, DS.get, List.lookup, prop, valueLookup, firstPresent, propertyAttr])

/-- the audit's witnesses (docs/AUDIT2_D.md): a meaning outside the default repertoire comes back with `?`, a URN with a
trailing TAB loses it, the same TAB at the end of a plain CodeValue stays -/
theorem counterexample_file_repertoire_and_ur_whitespace :
    readBack "CodeMeaning" "Ωmega" = "?mega" ∧ readBack "URNCodeValue" "urn:oid:1.2\t" = "urn:oid:1.2" ∧
    readBack "CodeValue" "abc\t" = "abc\t" ∧ readBack "URNCodeValue" "urn:oid:1.2\x00" = "urn:oid:1.2\x00" ∧
    readBack "CodeValue" "abc\x00 " = "abc" := by
  decide

/-- a 17-character value that ends in a blank sits in LongCodeValue, comes back from a file with 16 characters (still in
LongCodeValue) and no longer equals the concept that was written — trailing blanks are not part of a DICOM value, so
such arguments are outside what the round-trip clause can promise -/
theorem counterexample_trailing_blank_through_file :
    let d : DS := [("CodingSchemeDesignator", "99HDV"), ("CodeMeaning", "m"), ("LongCodeValue", "1234567890123456 ")]
    mkConcept "1234567890123456 " "99HDV" "m" none = .ok d ∧
    DS.get (fileRoundTrip d) "LongCodeValue" = some "1234567890123456" ∧
    objEq (fun _ _ => none) (.concept (fileRoundTrip d)) (.concept d) = .ok false := by
  refine ⟨by rw [mkConcept_spec]; decide, by decide, by decide⟩

/-! ## sharper statements on the thresholds and on the hash contract -/

/-- **which attribute, as equivalences on the regenerated thresholds** (prefix / marker literals and the 16-character
limit come from the source through `ctorValueAttr`, `urnPrefix`, `urlMarker`; `urn_test_is_specification` ties them to the
specification's own literals): for every accepted argument tuple the value sits in URNCodeValue iff it is a URN / URL, in
LongCodeValue iff it is neither and longer than 16 characters, in CodeValue iff it is neither and at most 16 long -/
theorem value_attribute_iff (v s m : String) (ver : Option String) (d : DS) (hd : mkConcept v s m ver = .ok d) :
    (DS.has d "URNCodeValue" = true ↔ specIsUrn v = true) ∧
    (DS.has d "LongCodeValue" = true ↔ (specIsUrn v = false ∧ v.length > 16)) ∧
    (DS.has d "CodeValue" = true ↔ (specIsUrn v = false ∧ v.length ≤ 16)) := by
  obtain ⟨_, _, rfl⟩ := mkConcept_ok v s m ver d hd
  unfold stdKeyword
  by_cases hu : specIsUrn v = true
  · simp only [hu, if_true]
    cases ver <;> simp (disch := decide) [builtDS, DS.has, DS.get, lookup_cons_ne]
  · have hu' : specIsUrn v = false := by simpa using hu
    simp only [hu', Bool.false_eq_true, if_false]
    by_cases hl : v.length ≤ 16
    · have : ¬ v.length > 16 := by omega
      simp only [hl, if_true]
      cases ver <;> simp (disch := decide) [builtDS, DS.has, DS.get, lookup_cons_ne, this]
    · have h2 : v.length > 16 := by omega
      simp only [hl, if_false]
      cases ver <;> simp (disch := decide) [builtDS, DS.has, DS.get, lookup_cons_ne, h2]

/-- **the hash contract, at its exact boundary**: `a == b` implies `hash(a) == hash(b)` for every pair in which no side is
a RETIRED SRT value (a current SRT code is fine) — sharper than `eq_implies_hash_eq`; the excluded pairs are exactly those
of `counterexample_alias_hash_and_dict` -/
theorem eq_implies_hash_eq_unless_retired (h : String → Int) (retired : String → String → Option String) (a b : Obj)
    (ha : a.wf) (hb : b.wf)
    (hna : ∀ v, specScheme a = some "SRT" → specValue a = some v → retired "SRT" v = none)
    (hnb : ∀ v, specScheme b = some "SRT" → specValue b = some v → retired "SRT" v = none)
    (he : objEq retired a b = .ok true) : hashOf h a = hashOf h b := by
  rw [objEq_key retired a b ha hb] at he
  simp only [Except.ok.injEq, decide_eq_true_eq] at he
  have hk : ∀ o : Obj, o.wf → (∀ v, specScheme o = some "SRT" → specValue o = some v → retired "SRT" v = none) →
      key retired o = (specValue o, specScheme o, specVersion o) := by
    intro o ho hn
    obtain ⟨sc, hs⟩ := wf_scheme_some o ho
    obtain ⟨v, hv⟩ := wf_value_some o ho
    unfold key mapKey
    rw [hs, hv]
    by_cases h1 : sc = "SRT"
    · subst h1
      simp [hn v hs hv]
    · simp [h1]
  rw [hk a ha hna, hk b hb hnb] at he
  simp only [Prod.mk.injEq] at he
  exact (hash_congr h a b ha hb he.2.1 he.1).1

/-- **operands that are neither a `Code` nor a `CodedConcept`** (tuples, strings, None, plain datasets): the regenerated
`__eq__` leaves the code comparison and hands over to `Dataset.__eq__` (branch 1 of `Gen.conceptEqPlan`) — nothing of
C17's equivalence is claimed there, and nothing of it is used by the theorems above -/
theorem eq_foreign_operand_leaves_code_comparison :
    conceptEqPlan false false = .ok 1 ∧ ∀ isCode isConcept, (isCode || isConcept) = true → conceptEqPlan isCode isConcept = .ok 0 := by
  refine ⟨by decide, ?_⟩
  intro a b hab
  cases a <;> cases b
  · cases hab
  · decide
  · decide
  · decide

/-! ## `copy.copy`, and a key mutated after its insertion — where the value behaviour ends inside pydicom / Python -/

/-- **`copy.copy` of a concept is NOT a copy of its content** (pydicom's shallow copy: the new object shares the element table
with the original; hand model `OStore`, tie C: stream `shallow-copy`): two objects on one element table read the same content
after ANY history of copies, assignments and deletions through any object — whereas `deepcopy` (what `from_dataset(copy=True)`
uses, `copy_or_alias_copy`) gives a table of its own. -/
theorem shallow_copy_shares_content (s : OStore) (a b : Nat) (ha : a < s.objs.length) (hb : b < s.objs.length)
    (hab : s.objs[a]? = s.objs[b]?) (ops : List SOp) : (srun s ops).content a = (srun s ops).content b := by
  simp only [OStore.content, srun_objs ops s a ha, srun_objs ops s b hb, hab]

/-- the counterexample spelled out: after `c2 = copy.copy(c)`, `c2.CodeMeaning = 'x'` changes what `c` reads; after
`c3 = copy.deepcopy(c)` the same assignment leaves `c` alone -/
theorem counterexample_copy_copy_is_an_alias :
    let c : DS := [("CodingSchemeDesignator", "SCT"), ("CodeMeaning", "Brain"), ("CodeValue", "12738006")]
    let s0 : OStore := { tables := [c], objs := [0] }
    (srun s0 [.shallow 0, .set 1 "CodeMeaning" "x"]).content 0 = some (DS.set c "CodeMeaning" "x") ∧
    (srun s0 [.deep 0, .set 1 "CodeMeaning" "x"]).content 0 = some c ∧
    (srun s0 [.shallow 0, .del 1 "CodeMeaning"]).content 0 = some (DS.del c "CodeMeaning") := by
  decide

/-- **a key mutated after its insertion is lost** (outside `PyDict.WF`: the entry keeps the hash it was stored under; hand model
`mutateKey`, tie C: stream `dict-mutated-key`): after `d[c] = 1; c.CodeValue = 'BB'` neither a concept equal to the mutated `c`
(`kB`, any object other than `c` itself) nor a concept equal to what was inserted is found, although the entry is still there — for
every string hash that separates the two hashed strings.  (The very object `c` may still be found: CPython compares identity
before the stored hash, so that depends on the probe sequence — not modelled, recorded in the evidence.)  Coded concepts are
mutable datasets; they behave as dictionary keys only while they are not written to. -/
theorem counterexample_mutated_key_is_lost (h : String → Int) (hh : h "SCTA" ≠ h "SCTBB") :
    let kA : Obj := .concept [("CodingSchemeDesignator", "SCT"), ("CodeMeaning", "m"), ("CodeValue", "A")]
    let kB : Obj := .concept [("CodeValue", "BB"), ("CodingSchemeDesignator", "SCT"), ("CodeMeaning", "m")]
    ∃ d : PyDict Nat, pySet h exRetired [] kA 1 = .ok d ∧ d.length = 1 ∧ (mutateKey d 0 kB).length = 1 ∧
      pyGet h exRetired (mutateKey d 0 kB) kB = .ok none ∧ pyGet h exRetired (mutateKey d 0 kB) kA = .ok none := by
  intro kA kB
  have ha : kA.wf := by decide
  have hb : kB.wf := by decide
  have h1 : hashOf h kA = .ok (h "SCTA") := by rw [hashOf_wf h kA ha]; rfl
  have h2 : hashOf h kB = .ok (h "SCTBB") := by rw [hashOf_wf h kB hb]; rfl
  have e1 : objEq exRetired kB kA = .ok false := by rw [objEq_key _ _ _ hb ha]; decide
  refine ⟨[⟨h "SCTA", kA, 1⟩], by simp [pySet, h1, pySetH], rfl, rfl, ?_, ?_⟩
  · simp [pyGet, h2, mutateKey, pyGetH, hh]
  · simp [pyGet, h1, mutateKey, pyGetH, e1]

/-! ## non-vacuity: the hypotheses are satisfiable by concrete, non-trivial inputs -/


example : (Obj.code ⟨some "T-A0100", some "SRT", some "Brain", none⟩).wf := by decide
example : mkConcept "12738006" "SCT" "Entire brain" none =
    .ok [("CodingSchemeDesignator", "SCT"), ("CodeMeaning", "Entire brain"), ("CodeValue", "12738006")] := by
  rw [mkConcept_spec]; decide
/-- a backslash in the value or in the meaning is refused; an upper-case URN scheme name is a URN -/
example : mkConcept "a\\b" "99X" "m" none = .error .value ∧ mkConcept "abc" "99X" "x\\y" none = .error .value ∧
    stdKeyword "URN:oid:1.2" = "URNCodeValue" := by
  refine ⟨by rw [mkConcept_spec]; decide, by rw [mkConcept_spec]; decide, by decide⟩
/-- an alias pair across classes and meanings is equal in both directions … -/
example : objEq exRetired (.code ⟨some "T-A0100", some "SRT", some "Brain", none⟩)
    (.concept [("CodingSchemeDesignator", "SCT"), ("CodeMeaning", "Entire brain"), ("CodeValue", "12738006")]) = .ok true ∧
  objEq exRetired (.concept [("CodingSchemeDesignator", "SCT"), ("CodeMeaning", "Entire brain"), ("CodeValue", "12738006")])
    (.code ⟨some "T-A0100", some "SRT", some "Brain", none⟩) = .ok true := by
  refine alias_equal exRetired _ _ (by decide) (by decide) "T-A0100" "12738006" rfl rfl rfl rfl rfl rfl
/-- … while versions do distinguish -/
example : objEq exRetired (.code ⟨some "12738006", some "SCT", some "Brain", some "2020"⟩)
    (.concept [("CodingSchemeDesignator", "SCT"), ("CodeMeaning", "Brain"), ("CodeValue", "12738006")]) = .ok false := by
  rw [objEq_key _ _ _ (by decide) (by decide)]; decide
/-- a 13-character URN goes to URNCodeValue, a 17-character plain value to LongCodeValue -/
example : stdKeyword "urn:oid:1.2.3" = "URNCodeValue" ∧ stdKeyword "12345678901234567" = "LongCodeValue" ∧
    stdKeyword "1234567890123456" = "CodeValue" := by decide
/-- a dataset with two code value attributes is not acceptable, one with exactly one is -/
example : ¬ acceptable ⟨.dataset, [("CodeValue", "1"), ("LongCodeValue", "2"), ("CodeMeaning", "m"), ("CodingSchemeDesignator", "s")]⟩ ∧
    acceptable ⟨.dataset, [("LongCodeValue", "2"), ("CodeMeaning", "m"), ("CodingSchemeDesignator", "s")]⟩ := by decide

/-- dict / set theorems: a history over both classes, two meanings and a version — the concept replaces the value stored
under the equal code (one entry, the first key object kept), the versioned code gets its own entry -/
example :
    (insertAll (fun s => (s.length : Int)) exRetired ([] : PyDict Nat)
      [(.code ⟨some "12738006", some "SCT", some "Brain", none⟩, 1),
       (.concept [("CodingSchemeDesignator", "SCT"), ("CodeMeaning", "Entire brain"), ("CodeValue", "12738006")], 2),
       (.code ⟨some "12738006", some "SCT", some "Brain", some "2020"⟩, 3)]).map
      (fun d => d.map (fun e => (e.key.isCode, e.val))) = .ok [(true, 2), (true, 3)] := by decide
example : PyDict.WF (fun s => (s.length : Int)) ([] : PyDict Nat) ∧ PyDict.distinct exRetired ([] : PyDict Nat) :=
  ⟨fun _ h => (by cases h), fun _ => Nat.zero_le _⟩
/-- the hypothesis of `counterexample_alias_hash_and_dict` holds for a concrete hash -/
example : (fun s : String => (s.length : Int)) "SRTT-A0100" ≠ (fun s : String => (s.length : Int)) "SCT12738006" := by decide
/-- store theorems: accepted arguments, and a history whose steps write through object 1 only, so object 0 is framed -/
example : anyBackslash "12738006" "SCT" "Brain" (some "2020") = false ∧ "Brain".length ≤ 64 ∧
    (∀ op ∈ [HOp.set 1 "CodeMeaning" "x", HOp.fromDataset 1 false, HOp.deepcopy 0, HOp.fromConcept 0], op.target ≠ some 0) := by
  decide
example : (runH [⟨.dataset, [("CodeValue", "1"), ("CodeMeaning", "m"), ("CodingSchemeDesignator", "s")]⟩]
    [HOp.deepcopy 0, HOp.set 1 "CodeMeaning" "x", HOp.del 1 "LongCodeValue"]).2 = [.ok (some 1), .ok none, .error .attribute] := by
  decide
/-- file round trip: padding goes, an inner or leading blank stays -/
example : stripTrailing "ab  \x00 " = "ab" ∧ stripTrailing " a b" = " a b" ∧ readBack "CodeMeaning" "two words" = "two words" := by decide

/-- `eq_implies_hash_eq_unless_retired`: a CURRENT SRT code (not in the retired table) on both sides satisfies the hypotheses -/
example : ∀ v, specScheme (.code ⟨some "T-D0050", some "SRT", some "Tissue", none⟩) = some "SRT" →
    specValue (.code ⟨some "T-D0050", some "SRT", some "Tissue", none⟩) = some v → exRetired "SRT" v = none := by
  intro v _ hv
  simp only [specValue, Option.some.injEq] at hv
  subst hv
  decide

/-- hypotheses of `shallow_copy_shares_content` / `counterexample_mutated_key_is_lost` are satisfiable -/
example : ({ tables := [[("CodeValue", "1")]], objs := [0, 0] } : OStore).objs[0]? =
    ({ tables := [[("CodeValue", "1")]], objs := [0, 0] } : OStore).objs[1]? ∧
    (fun s : String => (s.length : Int)) "SCTA" ≠ (fun s : String => (s.length : Int)) "SCTBB" := by decide

end HdVerif.C17
