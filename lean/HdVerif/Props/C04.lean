import HdVerif.Proofs.TilingFull
import HdVerif.Proofs.TilingFraction
import HdVerif.Proofs.TilingTie
import HdVerif.Proofs.TilingChannels
import HdVerif.Proofs.TilingWrite
/-! # C04  Tiled images reassemble to the exact total pixel matrix

Property theorems only (helper lemmas: `Proofs/TilingStd.lean`, `Proofs/Tiling.lean`, `Proofs/TilingGrid.lean`,
`Proofs/TilingRegion.lean`, `Proofs/TilingCut.lean`, `Proofs/TilingFull.lean`).  All statements are about the executable model
`Model/Tiling.lean`, whose integer arithmetic is *regenerated from /repo's current source* on every run:
`Gen.stdRowColIndices` (T3, `_standardize_row_column_indices`), `Gen.tiledRegion` (T5, offsets, expected frame
count and the eight slice bounds of `_iterate_indices_for_tiled_region`), `Gen.tileArrayBounds` (T6,
`get_tile_array`), `Gen.tilesPerAxisFloor` (T7b, `compute_tile_positions_per_frame`), `Gen.fractionOccupied` /
`Gen.fractionStored` (T4o, emptiness test vs stored value of a float mask pixel).

Conventions.  A matrix is a function of 0-based `(row, column)`.  `normStart x n ai` / `normEnd x n ai`
(`Proofs/TilingStd.lean`) say what a start / end argument denotes on an axis of length `n` as a 1-based
number — `None`, 1-based numbers, 0-based indices (`ai = as_indices`) and negative values — or `none` if
it denotes nothing.  A request denotes the 0-based numpy slice `M[r0-1 : r1-1, c0-1 : c1-1]`. -/
namespace HdVerif.C04
open HdVerif HdVerif.Gen HdVerif.Tiling HdVerif.TilingLemmas

/-! ## Requests: 1-based, 0-based, negative, None -/

/-- **Which requests are accepted, and what they mean.**  The translated normalisation accepts a request iff
each of the four arguments denotes a row / column of the matrix, and returns exactly what they denote. -/
theorem request_accepted_iff (rs re cs ce : Option Int) (R C : Int) (ai : Bool) (r0 r1 c0 c1 : Int) :
    stdRowColIndices rs re cs ce R C ai false = .ok (r0, r1, c0, c1) ↔
      (normStart rs R ai = some r0 ∧ normEnd re R ai = some r1 ∧ normStart cs C ai = some c0 ∧ normEnd ce C ai = some c1) := by
  have := stdRowCol_ok_iff rs re cs ce R C ai false r0 r1 c0 c1
  simpa [outShift] using this

/-- The denotation of a start argument is Python's: with `as_indices`, the start denotes the 0-based line `k`
iff the argument is `k` or its negative alias `k - n`; with 1-based numbers iff it is `k + 1` or `k - n`. -/
theorem start_denotes_iff (v n k : Int) (ai : Bool) :
    normStart (some v) n ai = some (k + 1) ↔
      (0 ≤ k ∧ k < n ∧ (v = k - n ∨ (ai = true ∧ v = k) ∨ (ai = false ∧ v = k + 1))) := by
  unfold normStart
  cases ai <;> simp only <;> grind

/-- … and the end argument denotes the exclusive 0-based bound `k` (`0 ≤ k ≤ n`) iff it is `k` (`k + 1` in
1-based numbers) or `k - n` (for `k < n`) — `a[: -1]` drops the last line in both conventions. -/
theorem end_denotes_iff (v n k : Int) (ai : Bool) :
    normEnd (some v) n ai = some (k + 1) ↔
      (0 ≤ k ∧ k ≤ n ∧ ((v = k - n ∧ k < n) ∨ (ai = true ∧ v = k) ∨ (ai = false ∧ v = k + 1))) := by
  unfold normEnd
  cases ai <;> simp only <;> grind

/-- `None` is the first line / one past the last line. -/
theorem none_denotes (n : Int) (ai : Bool) (hn : 1 ≤ n) : normStart none n ai = some 1 ∧ normEnd none n ai = some (n + 1) := by
  unfold normStart normEnd
  simp only
  constructor
  · rw [if_pos hn]
  · rw [if_pos (by omega)]

/-- An accepted request lies inside the matrix: nothing is wrapped or clamped. -/
theorem request_in_matrix {rs re cs ce : Option Int} {R C : Int} {ai : Bool} {r0 r1 c0 c1 : Int}
    (h : stdRowColIndices rs re cs ce R C ai false = .ok (r0, r1, c0, c1)) :
    1 ≤ r0 ∧ r0 ≤ R ∧ 1 ≤ r1 ∧ r1 ≤ R + 1 ∧ 1 ≤ c0 ∧ c0 ≤ C ∧ 1 ≤ c1 ∧ c1 ≤ C + 1 :=
  stdRowCol_range_num h

/-- A request one of whose arguments denotes nothing (outside the matrix, `0` as a 1-based number) is
refused by the whole read, whatever the image. -/
theorem region_refused_outside {α} (z : α) (lut : List LutRow) (frames : List (Img α)) (R C th tw : Int) (chan : Option Int)
    (rs re cs ce : Option Int) (ai full am : Bool)
    (h : normStart rs R ai = none ∨ normEnd re R ai = none ∨ normStart cs C ai = none ∨ normEnd ce C ai = none) :
    ∃ e, readRegion z lut frames R C th tw chan rs re cs ce ai full am = .error e := by
  unfold readRegion
  split
  · exact ⟨_, rfl⟩
  · cases hstd : stdRowColIndices rs re cs ce R C ai false with
    | error e => exact ⟨e, rfl⟩
    | ok v =>
      obtain ⟨r0, r1, c0, c1⟩ := v
      obtain ⟨h1, h2, h3, h4⟩ := (request_accepted_iff rs re cs ce R C ai r0 r1 c0 c1).mp hstd
      rcases h with h | h | h | h <;> simp_all

/-- A request with `start > end` on an axis is refused (numpy refuses the negative output shape, or the
missing-frame test fails first). -/
theorem region_refused_inverted {α} (z : α) (lut : List LutRow) (frames : List (Img α)) (R C th tw : Int) (chan : Option Int)
    (rs re cs ce : Option Int) (ai full am : Bool) (r0 r1 c0 c1 : Int)
    (hstd : stdRowColIndices rs re cs ce R C ai false = .ok (r0, r1, c0, c1)) (h : r1 < r0 ∨ c1 < c0) :
    ∃ e, readRegion z lut frames R C th tw chan rs re cs ce ai full am = .error e := by
  unfold readRegion
  rw [hstd]
  simp only [expectedCount_eq]
  split
  · exact ⟨_, rfl⟩
  · split
    · exact ⟨_, rfl⟩
    · rw [if_pos (by omega)]
      exact ⟨_, rfl⟩

/-! ## Region assembly -/

/-- **`region_assembly`.**  For every matrix `M` of every size `R × C`, every tile size `th, tw ≥ 1` (dividing
or not), every table holding exactly the tiles of the row-major grid **in any frame order**
(`IsGridTable`), whose frames were cut from `M` (`TableCutFrom`; the padding of edge tiles is arbitrary),
every organisation (`full`: positions implied by frame order / explicit) and every accepted request with
`start ≤ end`:  the array assembled from the selected tiles with the translated slice bounds is
`M[r0-1 : r1-1, c0-1 : c1-1]`. -/
theorem region_assembly {α} (z : α) (M : Img α) (lut : List LutRow) (frames : List (Img α)) (R C th tw : Int)
    (ht : 1 ≤ th) (hw : 1 ≤ tw) (hg : IsGridTable R C th tw lut) (hcut : TableCutFrom M R C th tw lut frames)
    (rs re cs ce : Option Int) (ai full am : Bool) (r0 r1 c0 c1 : Int)
    (h1 : normStart rs R ai = some r0) (h2 : normEnd re R ai = some r1)
    (h3 : normStart cs C ai = some c0) (h4 : normEnd ce C ai = some c1) (hr : r0 ≤ r1) (hc : c0 ≤ c1) :
    ∃ out, readRegion z lut frames R C th tw none rs re cs ce ai full am = .ok (r1 - r0, c1 - c0, out) ∧
      ∀ i j, 0 ≤ i → i < r1 - r0 → 0 ≤ j → j < c1 - c0 → out i j = M (r0 - 1 + i) (c0 - 1 + j) :=
  readRegion_grid z M lut frames R C th tw ht hw hg hcut rs re cs ce ai full am r0 r1 c0 c1
    ((request_accepted_iff rs re cs ce R C ai r0 r1 c0 c1).mpr ⟨h1, h2, h3, h4⟩) hr hc

/-- **Every output pixel is written exactly once**: the instruction list exists and, for each pixel of the
output, exactly one instruction's output slice contains it (so the order of the copies is irrelevant and
no pixel is left at its initial zero). -/
theorem region_written_exactly_once (lut : List LutRow) (R C th tw : Int) (ht : 1 ≤ th) (hw : 1 ≤ tw)
    (hg : IsGridTable R C th tw lut) (rs re cs ce : Option Int) (ai : Bool) (r0 r1 c0 c1 : Int)
    (hstd : stdRowColIndices rs re cs ce R C ai false = .ok (r0, r1, c0, c1)) (hr : r0 ≤ r1) (hc : c0 ≤ c1) :
    ∃ instrs, regionInstrs lut r0 r1 c0 c1 th tw = .ok instrs ∧
      ∀ i j, 0 ≤ i → i < r1 - r0 → 0 ≤ j → j < c1 - c0 →
        (instrs.filter (fun ins => decide (writes ins i j))).length = 1 := by
  obtain ⟨g1, _, _, g4, g5, _, _, g8⟩ := stdRowCol_range_num hstd
  exact region_written_once lut R C th tw ht hw hg r0 r1 c0 c1 g1 g4 g5 g8 hr hc

/-- The two slices of every selected tile lie inside the frame and inside the output and have equal shapes
(so numpy neither wraps, clamps nor broadcasts), for every tile position — on the grid or not. -/
theorem slices_in_bounds_equal_shape (r0 r1 c0 c1 th tw : Int) (ht : 1 ≤ th) (hw : 1 ≤ tw) (hr : r0 ≤ r1) (hc : c0 ≤ c1)
    (r : LutRow) (hsel : selected r0 r1 c0 c1 th tw r = true) :
    ∃ ins, instrOf r0 r1 c0 c1 th tw r = .ok ins ∧
      0 ≤ ins.a0 ∧ ins.a0 ≤ ins.a1 ∧ ins.a1 ≤ th ∧ 0 ≤ ins.b0 ∧ ins.b0 ≤ ins.b1 ∧ ins.b1 ≤ tw ∧
      0 ≤ ins.o0 ∧ ins.o0 ≤ ins.o1 ∧ ins.o1 ≤ r1 - r0 ∧ 0 ≤ ins.p0 ∧ ins.p0 ≤ ins.p1 ∧ ins.p1 ≤ c1 - c0 ∧
      ins.a1 - ins.a0 = ins.o1 - ins.o0 ∧ ins.b1 - ins.b0 = ins.p1 - ins.p0 := by
  rw [selected_iff] at hsel
  obtain ⟨s1, s2, s3, s4⟩ := hsel
  refine ⟨_, instrOf_eq r0 r1 c0 c1 th tw r, ?_⟩
  have ha := axis_slices r0 r1 r.rp th ht hr s1 s2
  have hb := axis_slices c0 c1 r.cp tw hw hc s3 s4
  simp only
  omega

/-! ## Selection -/

/-- **`selected_tiles_exact`**: for a non-empty region, a table row is selected iff its tile intersects the
region (no tile that contributes is missed, no tile outside is fetched). -/
theorem selected_tiles_exact (r0 r1 c0 c1 th tw : Int) (ht : 1 ≤ th) (hw : 1 ≤ tw) (hr : r0 < r1) (hc : c0 < c1) (r : LutRow) :
    selected r0 r1 c0 c1 th tw r = true ↔
      ((∃ g, r0 ≤ g ∧ g < r1 ∧ r.rp ≤ g ∧ g < r.rp + th) ∧ (∃ g, c0 ≤ g ∧ g < c1 ∧ r.cp ≤ g ∧ g < r.cp + tw)) := by
  rw [selected_iff]
  constructor
  · rintro ⟨s1, s2, s3, s4⟩
    exact ⟨⟨max r0 r.rp, by omega, by omega, by omega, by omega⟩, ⟨max c0 r.cp, by omega, by omega, by omega, by omega⟩⟩
  · rintro ⟨⟨g, _, _, _, _⟩, ⟨g', _, _, _, _⟩⟩
    omega

/-- **The missing-frame test is exact**: for a table holding exactly the grid, the number of selected rows
equals `v_frames * h_frames` as computed by the code — a complete image is never reported as incomplete. -/
theorem tile_count_exact (lut : List LutRow) (R C th tw : Int) (ht : 1 ≤ th) (hw : 1 ≤ tw) (hg : IsGridTable R C th tw lut)
    (rs re cs ce : Option Int) (ai : Bool) (r0 r1 c0 c1 : Int)
    (hstd : stdRowColIndices rs re cs ce R C ai false = .ok (r0, r1, c0, c1)) (hr : r0 ≤ r1) (hc : c0 ≤ c1) :
    expectedCount r0 r1 c0 c1 th tw = .ok ((lut.filter (selected r0 r1 c0 c1 th tw)).length : Int) := by
  obtain ⟨g1, g2, _, g4, g5, g6, _, g8⟩ := stdRowCol_range_num hstd
  rw [expectedCount_eq, selected_count R C th tw ht hw lut hg r0 r1 c0 c1 g1 g2 hr g4 g5 g6 hc g8]

/-- **Region assembly per channel** (segments / optical paths): in a table with several channels whose rows pass the
uniqueness test, if the rows of channel `c` hold exactly the grid tiles (any order, interleaved with other channels
in any way) and their frames were cut from `M`, the read for channel `c` (as issued by
`Segmentation.get_total_pixel_matrix`, `allow_missing_combinations`) returns `M[r0-1 : r1-1, c0-1 : c1-1]`. -/
theorem region_assembly_channel {α} (z : α) (M : Img α) (lut : List LutRow) (frames : List (Img α)) (R C th tw c : Int)
    (ht : 1 ≤ th) (hw : 1 ≤ tw) (hu : uniqueKey (some c) lut = true)
    (hg : IsGridTable R C th tw (chanRows (some c) lut)) (hcut : TableCutFrom M R C th tw (chanRows (some c) lut) frames)
    (rs re cs ce : Option Int) (ai full : Bool) (r0 r1 c0 c1 : Int)
    (hstd : stdRowColIndices rs re cs ce R C ai false = .ok (r0, r1, c0, c1)) (hr : r0 ≤ r1) (hc : c0 ≤ c1) :
    ∃ out, readRegion z lut frames R C th tw (some c) rs re cs ce ai full true = .ok (r1 - r0, c1 - c0, out) ∧
      ∀ i j, 0 ≤ i → i < r1 - r0 → 0 ≤ j → j < c1 - c0 → out i j = M (r0 - 1 + i) (c0 - 1 + j) := by
  obtain ⟨g1, g2, g3, g4, g5, g6, g7, g8⟩ := stdRowCol_range_num hstd
  obtain ⟨out, hout, hpix⟩ := readRegion_general z M lut frames R C th tw (some c) rs re cs ce ai full true ht hw hu hcut
    r0 r1 c0 c1 hstd (Or.inl rfl) hr hc
  refine ⟨out, hout, ?_⟩
  intro i j hi0 hi1 hj0 hj1
  apply (hpix i j hi0 hi1 hj0 hj1).1
  exact grid_covers R C th tw ht hw _ hg (r0 + i) (c0 + j) (by omega) (by omega) (by omega) (by omega)

/-- Two frames at the same position (and channel) make every region read fail: the library never guesses which of
two tiles to show.  (The hypothesis is the model's hand-written uniqueness test; that the code applies the same test
rests on tie C — streams with a second optical path, a repeated per-frame position, several focal planes.  That the
derived TILED_FULL table of an image with several focal planes fails it is `several_focal_planes_refused`.) -/
theorem duplicate_positions_refused {α} (z : α) (lut : List LutRow) (frames : List (Img α)) (R C th tw : Int) (chan : Option Int)
    (rs re cs ce : Option Int) (ai full am : Bool) (h : uniqueKey chan lut = false) :
    readRegion z lut frames R C th tw chan rs re cs ce ai full am = .error .runtime := by
  unfold readRegion
  rw [h]
  rfl

/-- **Several focal planes.**  The table derived for a TILED_FULL image with two or more focal planes holds every tile
position once per plane; a region read without a channel query (`Image.get_total_pixel_matrix`) therefore fails the
uniqueness test with RuntimeError instead of picking a plane. -/
theorem several_focal_planes_refused {α} (z : α) (frames : List (Img α)) (ch : Option Int) (planes tr tc R C : Int) (hp : 2 ≤ planes)
    (hr : 1 ≤ tr) (hc : 1 ≤ tc) (hR : 1 ≤ R) (hC : 1 ≤ C) (rs re cs ce : Option Int) (ai full am : Bool) :
    ∃ lut, tiledFullLut [ch] planes tr tc R C = .ok lut ∧
      readRegion z lut frames R C tr tc none rs re cs ce ai full am = .error .runtime := by
  obtain ⟨lut, hl, hu⟩ := tiledFullLut_planes_not_unique ch planes tr tc R C hp hr hc hR hC
  exact ⟨lut, hl, duplicate_positions_refused z lut frames R C tr tc none rs re cs ce ai full am hu⟩

/-! ## Positions implied by frame order (TILED_FULL) -/

/-- **TILED_FULL.**  The table a reader derives from `iter_tiled_full_frame_data` for a single-channel image puts
frame `k` at the `k`-th position of the row-major grid; so if frame `k` holds the part of `M` under that tile,
every accepted request returns `M[r0-1 : r1-1, c0-1 : c1-1]` — the same as with explicit positions
(`region_assembly`), for every matrix and tile size. -/
theorem region_assembly_tiled_full {α} (z : α) (M : Img α) (frames : List (Img α)) (ch : Int) (R C th tw : Int)
    (ht : 1 ≤ th) (hw : 1 ≤ tw) (hR : 1 ≤ R) (hC : 1 ≤ C)
    (hframes : ∀ (k : Nat) (p : Int × Int), (gridPos R C th tw)[k]? = some p →
      ∃ fr, frames[k]? = some fr ∧ FrameCutFrom M R C th tw p.1 p.2 fr)
    (rs re cs ce : Option Int) (ai am : Bool) (r0 r1 c0 c1 : Int)
    (hstd : stdRowColIndices rs re cs ce R C ai false = .ok (r0, r1, c0, c1)) (hr : r0 ≤ r1) (hc : c0 ≤ c1) :
    ∃ lut out, tiledFullLut [some ch] 1 th tw R C = .ok lut ∧
      readRegion z lut frames R C th tw none rs re cs ce ai true am = .ok (r1 - r0, c1 - c0, out) ∧
      ∀ i j, 0 ≤ i → i < r1 - r0 → 0 ≤ j → j < c1 - c0 → out i j = M (r0 - 1 + i) (c0 - 1 + j) :=
  readRegion_tiled_full z M frames ch R C th tw ht hw hR hC hframes rs re cs ce ai am r0 r1 c0 c1 hstd hr hc

/-! ## Omitted tiles -/

/-- **`sparse_zero_fill`.**  A table holding only some of the grid tiles (each at most once; any order), frames cut
from `M`, every absent grid tile entirely zero in `M`: with `allow_missing_combinations` (what
`Segmentation.get_total_pixel_matrix` passes) every accepted request returns the requested part of `M` — the
gaps read as zeros. -/
theorem sparse_zero_fill {α} (z : α) (M : Img α) (lut : List LutRow) (frames : List (Img α)) (R C th tw : Int)
    (ht : 1 ≤ th) (hw : 1 ≤ tw) (hnd : (lut.map pos).Nodup)
    (hcut : TableCutFrom M R C th tw lut frames)
    (hzero : ∀ p ∈ gridPos R C th tw, p ∉ lut.map pos →
      ∀ a b, 0 ≤ a → a < th → 0 ≤ b → b < tw → p.1 - 1 + a < R → p.2 - 1 + b < C → M (p.1 - 1 + a) (p.2 - 1 + b) = z)
    (rs re cs ce : Option Int) (ai full : Bool) (r0 r1 c0 c1 : Int)
    (hstd : stdRowColIndices rs re cs ce R C ai false = .ok (r0, r1, c0, c1)) (hr : r0 ≤ r1) (hc : c0 ≤ c1) :
    ∃ out, readRegion z lut frames R C th tw none rs re cs ce ai full true = .ok (r1 - r0, c1 - c0, out) ∧
      ∀ i j, 0 ≤ i → i < r1 - r0 → 0 ≤ j → j < c1 - c0 → out i j = M (r0 - 1 + i) (c0 - 1 + j) :=
  readRegion_sparse_zero_fill z M lut frames R C th tw ht hw hnd hcut hzero rs re cs ce ai full r0 r1 c0 c1 hstd hr hc

/-- With tiles missing and *without* `allow_missing_combinations` (what `Image.get_total_pixel_matrix` passes) a
TILED_SPARSE read whose selection does not have the expected number of frames is refused.  (The hypothesis is the
model's own count comparison; that a count mismatch is exactly "a selected grid tile is missing" is
`sparse_read_iff_no_selected_tile_missing`, for tables ON THE GRID only: a tile at an off-grid position can make the
counts agree while part of the region is covered by no tile — model and code then both zero-fill.) -/
theorem missing_tiles_refused {α} (z : α) (lut : List LutRow) (frames : List (Img α)) (R C th tw : Int) (chan : Option Int)
    (rs re cs ce : Option Int) (ai : Bool) (r0 r1 c0 c1 : Int)
    (hstd : stdRowColIndices rs re cs ce R C ai false = .ok (r0, r1, c0, c1))
    (hcnt : expectedCount r0 r1 c0 c1 th tw ≠ .ok (((chanRows chan lut).filter (selected r0 r1 c0 c1 th tw)).length : Int)) :
    ∃ e, readRegion z lut frames R C th tw chan rs re cs ce ai false false = .error e := by
  unfold readRegion
  rw [hstd]
  rw [expectedCount_eq] at hcnt
  simp only [expectedCount_eq]
  split
  · exact ⟨_, rfl⟩
  · rw [List.length_mergeSort]
    rw [if_pos]
    · exact ⟨_, rfl⟩
    · simp only [Bool.not_false, Bool.true_and, decide_eq_true_eq]
      intro h
      exact hcnt (by rw [h])

/-- **Images with gaps, read without `allow_missing_combinations`** (`Image.get_total_pixel_matrix` on a TILED_SPARSE
image): for a table on the grid without repeated positions whose frames were cut from `M`, an accepted request with
`start ≤ end` is answered **iff** no grid tile selected by the region is missing — and the answer is then
`M[r0-1 : r1-1, c0-1 : c1-1]`; otherwise the read is refused (never silently zero-filled). -/
theorem sparse_read_iff_no_selected_tile_missing {α} (z : α) (M : Img α) (lut : List LutRow) (frames : List (Img α)) (R C th tw : Int)
    (ht : 1 ≤ th) (hw : 1 ≤ tw) (hsub : ∀ r ∈ lut, pos r ∈ gridPos R C th tw) (hnd : (lut.map pos).Nodup)
    (hcut : TableCutFrom M R C th tw lut frames)
    (rs re cs ce : Option Int) (ai : Bool) (r0 r1 c0 c1 : Int)
    (hstd : stdRowColIndices rs re cs ce R C ai false = .ok (r0, r1, c0, c1)) (hr : r0 ≤ r1) (hc : c0 ≤ c1) :
    ((∀ p ∈ gridPos R C th tw, selP r0 r1 c0 c1 th tw p = true → p ∈ lut.map pos) →
      ∃ out, readRegion z lut frames R C th tw none rs re cs ce ai false false = .ok (r1 - r0, c1 - c0, out) ∧
        ∀ i j, 0 ≤ i → i < r1 - r0 → 0 ≤ j → j < c1 - c0 → out i j = M (r0 - 1 + i) (c0 - 1 + j)) ∧
    ((¬ ∀ p ∈ gridPos R C th tw, selP r0 r1 c0 c1 th tw p = true → p ∈ lut.map pos) →
      ∃ e, readRegion z lut frames R C th tw none rs re cs ce ai false false = .error e) := by
  obtain ⟨g1, g2, g3, g4, g5, g6, g7, g8⟩ := stdRowCol_range_num hstd
  obtain ⟨_, hiff⟩ := selected_count_le R C th tw ht hw lut hsub hnd r0 r1 c0 c1 g1 g2 hr g4 g5 g6 hc g8
  constructor
  · intro hall
    obtain ⟨out, hout, hpix⟩ := readRegion_general z M lut frames R C th tw none rs re cs ce ai false false ht hw
      (uniqueKey_none_of_nodup lut hnd) hcut r0 r1 c0 c1 hstd (Or.inr (Or.inr (hiff.mpr hall))) hr hc
    refine ⟨out, hout, ?_⟩
    intro i j hi0 hi1 hj0 hj1
    apply (hpix i j hi0 hi1 hj0 hj1).1
    -- the grid tile containing the pixel is selected, hence present
    obtain ⟨e0, e1, e2⟩ := axis_cover_exists th (r0 + i) ht (by omega)
    obtain ⟨f0, f1, f2⟩ := axis_cover_exists tw (c0 + j) hw (by omega)
    have hp : (1 + th * ((r0 + i - 1) / th), 1 + tw * ((c0 + j - 1) / tw)) ∈ gridPos R C th tw := by
      rw [mem_gridPos]
      exact ⟨_, _, e0, axis_index_lt th R (r0 + i) ht (by omega), f0, axis_index_lt tw C (c0 + j) hw (by omega), rfl, rfl⟩
    have hsel : selP r0 r1 c0 c1 th tw (1 + th * ((r0 + i - 1) / th), 1 + tw * ((c0 + j - 1) / tw)) = true := by
      unfold selP
      simp only [Bool.and_eq_true, decide_eq_true_eq]
      omega
    obtain ⟨r, hrm, hrp⟩ := List.mem_map.mp (hall _ hp hsel)
    unfold pos at hrp
    simp only [Prod.mk.injEq] at hrp
    exact ⟨r, hrm, by unfold inTile; omega⟩
  · intro hnot
    apply missing_tiles_refused z lut frames R C th tw none rs re cs ce ai r0 r1 c0 c1 hstd
    rw [expectedCount_eq]
    intro h
    simp only [Except.ok.injEq] at h
    exact hnot (hiff.mp h.symm)

/-! ## Masks tiled by the library read back as the same matrix -/

/-- **`tile_then_read`** (TILED_SPARSE).  `Segmentation(tile_pixel_array=True)` — `get_tile_array` at the offsets of
`compute_tile_positions_per_frame`, edge tiles zero-padded, empty tiles omitted when `omit_empty_frames` (all
kept when everything is empty) — followed by `get_total_pixel_matrix` for segment `c`:  for every matrix size,
every tile size (dividing or not), every list of segment matrices with distinct numbers, and every accepted
request with `start ≤ end`, the array read back is the requested part of the matrix handed in for `c`. -/
theorem tile_then_read {α} [BEq α] [LawfulBEq α] (z : α) (Ms : List (Int × Img α)) (R C tr tc : Int)
    (hr : 1 ≤ tr) (hc : 1 ≤ tc) (hR : 1 ≤ R) (hC : 1 ≤ C) (hnd : (Ms.map Prod.fst).Nodup)
    (c : Int) (M : Img α) (hM : (c, M) ∈ Ms) (omitEmpty : Bool)
    (rs re cs ce : Option Int) (ai : Bool) (r0 r1 c0 c1 : Int)
    (hstd : stdRowColIndices rs re cs ce R C ai false = .ok (r0, r1, c0, c1)) (hr01 : r0 ≤ r1) (hc01 : c0 ≤ c1) :
    ∃ out, tileThenRead z Ms R C tr tc false omitEmpty c rs re cs ce ai = .ok (r1 - r0, c1 - c0, out) ∧
      ∀ i j, 0 ≤ i → i < r1 - r0 → 0 ≤ j → j < c1 - c0 → out i j = M (r0 - 1 + i) (c0 - 1 + j) :=
  tileThenRead_sparse z Ms R C tr tc hr hc hR hC hnd c M hM omitEmpty rs re cs ce ai r0 r1 c0 c1 hstd hr01 hc01

/-- **TILED_FULL and TILED_SPARSE give the same result**: with nothing omitted the table a reader derives from frame
order is the table the constructor writes explicitly, so both organisations read back identically — hence
(by `tile_then_read`) as the matrix handed in. -/
theorem tile_then_read_full {α} [BEq α] [LawfulBEq α] (z : α) (Ms : List (Int × Img α)) (R C tr tc : Int)
    (hr : 1 ≤ tr) (hc : 1 ≤ tc) (hR : 1 ≤ R) (hC : 1 ≤ C) (hnd : (Ms.map Prod.fst).Nodup)
    (c : Int) (M : Img α) (hM : (c, M) ∈ Ms)
    (rs re cs ce : Option Int) (ai : Bool) (r0 r1 c0 c1 : Int)
    (hstd : stdRowColIndices rs re cs ce R C ai false = .ok (r0, r1, c0, c1)) (hr01 : r0 ≤ r1) (hc01 : c0 ≤ c1) :
    tileThenRead z Ms R C tr tc true false c rs re cs ce ai = tileThenRead z Ms R C tr tc false false c rs re cs ce ai ∧
    ∃ out, tileThenRead z Ms R C tr tc true false c rs re cs ce ai = .ok (r1 - r0, c1 - c0, out) ∧
      ∀ i j, 0 ≤ i → i < r1 - r0 → 0 ≤ j → j < c1 - c0 → out i j = M (r0 - 1 + i) (c0 - 1 + j) := by
  have e := tileThenRead_full_eq_sparse z Ms R C tr tc hr hc hR hC c rs re cs ce ai
  refine ⟨e, ?_⟩
  rw [e]
  exact tileThenRead_sparse z Ms R C tr tc hr hc hR hC hnd c M hM false rs re cs ce ai r0 r1 c0 c1 hstd hr01 hc01

/-- **A tile is omitted only if everything stored for it is zero** (float masks).  The constructor judges emptiness for
`omit_empty_frames` in one place (`np.around(mask · MaximumFractionalValue) != 0`, translated as `Gen.fractionOccupied`) and
computes the stored value in another (`_get_segment_pixel_array`, `Gen.fractionStored`); for every fraction `v` and every
MaximumFractionalValue the two agree: a pixel counts as empty iff the value stored for it is 0.  (The model's emptiness test
`keepMask` works on the stored values; this theorem is what licenses that for float input.  It is a TRIPWIRE: both
expressions translate to the same term today, over exact rationals — float rounding of the product near a tie is C01's
topic — and the statement stops holding as soon as one of the two places is changed without the other.) -/
theorem omitted_tile_stores_zero (v : Rat) (m : Int) :
    ∃ b s, fractionOccupied v m = .ok b ∧ fractionStored v m = .ok s ∧ (b = false ↔ s = 0) :=
  occupied_iff_stored_ne_zero v m

/-- TILED_FULL with `omit_empty_frames` is refused by the constructor when the mask is not entirely empty … -/
theorem tiled_full_omit_refused {α} [BEq α] (z : α) (Ms : List (Int × Img α)) (R C tr tc c : Int)
    (rs re cs ce : Option Int) (ai : Bool) (offs : List (Int × Int)) (hoffs : tileOffsets tr tc R C = .ok offs)
    (hne : allTilesEmpty z Ms R C tr tc offs = .ok false) :
    ∃ e, tileThenRead z Ms R C tr tc true true c rs re cs ce ai = .error e := by
  unfold tileThenRead
  rw [hoffs]
  simp only
  cases keepMask z Ms R C tr tc offs true with
  | error e => exact ⟨e, rfl⟩
  | ok keep =>
    simp only [Bool.and_self, if_true, hne]
    exact ⟨_, rfl⟩

/-- … and when it is entirely empty, `omit_empty_frames` is simply switched off: the result is that of
`omit_empty_frames = False` (all frames stored, all zero). -/
theorem tiled_full_omit_all_empty {α} [BEq α] (z : α) (Ms : List (Int × Img α)) (R C tr tc c : Int)
    (rs re cs ce : Option Int) (ai : Bool) (offs : List (Int × Int)) (hoffs : tileOffsets tr tc R C = .ok offs)
    (hae : allTilesEmpty z Ms R C tr tc offs = .ok true) :
    tileThenRead z Ms R C tr tc true true c rs re cs ce ai = tileThenRead z Ms R C tr tc true false c rs re cs ce ai := by
  have hk : keepMask z Ms R C tr tc offs true = keepMask z Ms R C tr tc offs false := by
    unfold allTilesEmpty at hae
    unfold keepMask
    cases hne : Ms.mapM (fun m => offs.mapM (tileNonEmpty z R C tr tc m)) with
    | error e => rfl
    | ok ne =>
      rw [hne] at hae
      simp only [Except.ok.injEq] at hae
      simp only [Bool.not_true, Bool.false_eq_true, if_false, hae, if_true, Bool.not_false]
  unfold tileThenRead
  rw [hoffs]
  simp only [hk, Bool.and_self, if_true, hae, Bool.not_true, Bool.and_false, Bool.false_eq_true, if_false]

/-- The tile `get_tile_array` cuts at a grid position: the matrix under the tile, zeros in the padding of edge tiles. -/
theorem tile_array_content {α} (z : α) (M : Img α) (R C ro co tr tc : Int) (hr : 1 ≤ tr) (hc : 1 ≤ tc)
    (h1 : 1 ≤ ro) (h2 : ro ≤ R) (h3 : 1 ≤ co) (h4 : co ≤ C) :
    ∃ fr, getTileArray z M R C ro co tr tc = .ok fr ∧
      ∀ a b, 0 ≤ a → a < tr → 0 ≤ b → b < tc →
        fr a b = if ro - 1 + a < R ∧ co - 1 + b < C then M (ro - 1 + a) (co - 1 + b) else z :=
  getTileArray_spec z M R C ro co tr tc hr hc h1 h2 h3 h4

/-! ## Non-vacuity: a 5 × 4 matrix in 2 × 3 tiles (neither size divides), frames stored in a permuted order -/

/-! ## Bridges: the hand-written glue uses exactly the expressions of the current source -/

/-- **Bridge (WHERE clause, T5w).**  The model's selection is the predicate GENERATED from the f-string pieces of the query
template (comparison operators and operands as they stand in the source today), applied to the translated offset starts. -/
theorem bridge_where_clause (rs re cs ce th tw : Int) (r : LutRow) :
    selected rs re cs ce th tw r =
      (match tiledRegion rs re cs ce r.rp r.cp th tw with
       | .ok (ros, cos, _, _, _, _) =>
         (match tiledRegionWhere r.rp r.cp ros re cos ce rs cs with
          | .ok b => b
          | .error _ => false)
       | .error _ => false) :=
  selected_eq_where rs re cs ce th tw r

/-- **Bridge (missing-frame test, T5g).**  `readRegion` is the read with the REGENERATED test (flags, organisation string,
`v_frames * h_frames`, comparison with the found number) in place of the hand-written guard; and that test refuses iff
neither missing-flag is set, the image is not TILED_FULL and the numbers differ. -/
theorem bridge_missing_frame_test {α} (z : α) (lut : List LutRow) (frames : List (Img α)) (rows cols th tw : Int)
    (chan : Option Int) (rs re cs ce : Option Int) (asIdx full am : Bool) :
    readRegion z lut frames rows cols th tw chan rs re cs ce asIdx full am =
      (if !(uniqueKey chan lut) then .error .runtime else
       match stdRowColIndices rs re cs ce rows cols asIdx false with
       | .error e => .error e
       | .ok (r0, r1, c0, c1) =>
         match tiledRegion r0 r1 c0 c1 0 0 th tw with
         | .error e => .error e
         | .ok (_, _, vf, hf, _, _) =>
           let sel := ((chanRows chan lut).filter (selected r0 r1 c0 c1 th tw)).mergeSort lutLe
           match missingFrameTest false am vf hf (sel.length : Int) (orgString full) with
           | .error e => .error e
           | .ok _ =>
             if r1 - r0 < 0 ∨ c1 - c0 < 0 then .error .value else
             match copyLoop frames r0 r1 c0 c1 th tw (r1 - r0) (c1 - c0) sel (fun _ _ => z) with
             | .error e => .error e
             | .ok out => .ok (r1 - r0, c1 - c0, out)) :=
  readRegion_uses_missingFrameTest z lut frames rows cols th tw chan rs re cs ce asIdx full am

theorem bridge_missing_frame_test_iff (amv am full : Bool) (vf hf n : Int) :
    (missingFrameTest amv am vf hf n (orgString full) = .error .runtime ↔
      (!(amv || am) && !full && decide (n ≠ vf * hf)) = true) ∧
    (missingFrameTest amv am vf hf n (orgString full) ≠ .error .runtime →
      missingFrameTest amv am vf hf n (orgString full) = .ok true) :=
  missingFrameTest_iff amv am full vf hf n

/-- **Bridge (argument forwarding, T4c).**  The emptiness scan and the tiling loop of the constructor model hand `get_tile_array`
exactly the arguments the two calls in the source do today: (row position, column position, tile rows, tile columns), for
both organisations. -/
theorem bridge_tile_call_forwarding {α} [BEq α] (z : α) (R C tr tc : Int) (m : Int × Img α) (o : Int × Int) (rowPos colPos : Int) :
    tileNonEmpty z R C tr tc m o =
      (match nonemptyTileCall tr tc o.2 o.1 with
       | .error e => .error e
       | .ok (ro, co, a, b) =>
         match getTileArray z m.2 R C ro co a b with
         | .error e => .error e
         | .ok t => .ok (!(imgAllZero z t tr tc))) ∧
    (match ctorTileOffsetsSparse rowPos colPos with
     | .ok (a, b) => ctorTileCall a b tr tc
     | .error e => .error e) = .ok (rowPos, colPos, tr, tc) ∧
    (match ctorTileOffsetsFull rowPos colPos with
     | .ok (a, b) => ctorTileCall a b tr tc
     | .error e => .error e) = .ok (rowPos, colPos, tr, tc) :=
  ⟨tileNonEmpty_uses_call z R C tr tc m o, ctorTileCall_forwarding rowPos colPos tr tc⟩

/-- one kept tile of the model's tiling loop is cut with the regenerated call -/
theorem bridge_tiling_loop_step {α} (z : α) (M : Img α) (R C tr tc ch : Int) (co ro : Int) (offs : List (Int × Int))
    (keep : List Bool) (base : Nat) :
    cutTilesAux z M R C tr tc ch ((co, ro) :: offs) (true :: keep) base =
      (match (match ctorTileOffsetsSparse ro co with
              | .ok (a, b) => ctorTileCall a b tr tc
              | .error e => .error e) with
       | .error e => .error e
       | .ok (a, b, c, d) =>
         match getTileArray z M R C a b c d with
         | .error e => .error e
         | .ok t =>
           if getTileShape R C a b c d ≠ .ok (c, d) then .error .value else
           match cutTilesAux z M R C tr tc ch offs keep (base + 1) with
           | .error e => .error e
           | .ok (rows, frs) => .ok (⟨a, b, base, ch⟩ :: rows, t :: frs)) :=
  cutTilesAux_cons_uses_call z M R C tr tc ch co ro offs keep base

/-! ## The write side: which tiles are stored, where, in which order -/

/-- **`stored_frames_exact`** (explicit positions, `tile_pixel_array=True`).  What `Segmentation.__init__` stores is described by a
list `kept` of (segment, row position, column position) triples:
* **order** — `kept` is a sub-sequence of segments (outermost, in the order of the descriptions) × grid positions (row-major);
* **positions and frame numbers** — frame `n` (0-based) is the `n`-th kept pair and is recorded at exactly that position / segment;
* **content** — it is `get_tile_array` of that segment's matrix at that position (edge tiles zero-padded: `tile_array_content`);
* **completeness** — without `omit_empty_frames` nothing is left out; a grid tile that is left out is entirely zero in the matrix;
* **minimality** — with `omit_empty_frames`, unless every tile of every segment is empty (then all are stored), a stored tile
  is not entirely zero.
The hand-written loop is tied to the source by `bridge_tiling_loop_step` / `bridge_tile_call_forwarding` (T4c) and the L1 stream
(stored frames, per-frame positions and segment numbers read back with pydicom). -/
theorem stored_frames_exact {α} [BEq α] [LawfulBEq α] (z : α) (Ms : List (Int × Img α)) (R C tr tc : Int)
    (hr : 1 ≤ tr) (hc : 1 ≤ tc) (hR : 1 ≤ R) (hC : 1 ≤ C) (hnd : (Ms.map Prod.fst).Nodup) (omitEmpty : Bool)
    (rows : List LutRow) (frames : List (Img α)) (h : tiledSegTable z Ms R C tr tc false omitEmpty = .ok (rows, frames)) :
    ∃ kept : List (Int × Int × Int),
      kept.Sublist (Ms.flatMap (fun m => (gridPos R C tr tc).map (fun p => (m.1, p.1, p.2)))) ∧
      rows = rowsOfKept kept 0 ∧ frames.length = kept.length ∧
      (∀ (n : Nat) (c rp cp : Int), kept[n]? = some (c, rp, cp) →
        ∃ M t, (c, M) ∈ Ms ∧ frames[n]? = some t ∧ getTileArray z M R C rp cp tr tc = .ok t) ∧
      (omitEmpty = false → kept = Ms.flatMap (fun m => (gridPos R C tr tc).map (fun p => (m.1, p.1, p.2)))) ∧
      (∀ c M p, (c, M) ∈ Ms → p ∈ gridPos R C tr tc → (c, p.1, p.2) ∉ kept →
        ∃ t, getTileArray z M R C p.1 p.2 tr tc = .ok t ∧ imgAllZero z t tr tc = true) ∧
      ((∀ m ∈ Ms, ∀ p ∈ gridPos R C tr tc, ∃ t, getTileArray z m.2 R C p.1 p.2 tr tc = .ok t ∧ imgAllZero z t tr tc = true) ∨
        omitEmpty = false ∨
        (∀ c M rp cp, (c, M) ∈ Ms → (c, rp, cp) ∈ kept →
          ∃ t, getTileArray z M R C rp cp tr tc = .ok t ∧ imgAllZero z t tr tc = false)) :=
  tiledSegTable_stored z Ms R C tr tc hr hc hR hC hnd omitEmpty rows frames h

/-- **`stored_frames_tiled_full`**: with TILED_FULL the constructor stores every tile of every segment — segments outermost, tiles
row-major — and the table a reader derives from frame order alone puts frame `n` at the `n`-th (segment, grid position) pair. -/
theorem stored_frames_tiled_full {α} [BEq α] [LawfulBEq α] (z : α) (Ms : List (Int × Img α)) (R C tr tc : Int)
    (hr : 1 ≤ tr) (hc : 1 ≤ tc) (hR : 1 ≤ R) (hC : 1 ≤ C) (hnd : (Ms.map Prod.fst).Nodup) :
    ∃ rows frames, tiledSegTable z Ms R C tr tc true false = .ok (rows, frames) ∧
      rows = rowsOfKept (Ms.flatMap (fun m => (gridPos R C tr tc).map (fun p => (m.1, p.1, p.2)))) 0 ∧
      frames.length = (Ms.flatMap (fun m => (gridPos R C tr tc).map (fun p => (m.1, p.1, p.2)))).length ∧
      ∀ (n : Nat) (c rp cp : Int), (Ms.flatMap (fun m => (gridPos R C tr tc).map (fun p => (m.1, p.1, p.2))))[n]? = some (c, rp, cp) →
        ∃ M t, (c, M) ∈ Ms ∧ frames[n]? = some t ∧ getTileArray z M R C rp cp tr tc = .ok t := by
  obtain ⟨rows, frames, h, _, _⟩ := tiledSegTable_sparse_spec z Ms R C tr tc hr hc hR hC hnd false
  obtain ⟨kept, _, h2, h3, h4, h5, _, _⟩ := tiledSegTable_stored z Ms R C tr tc hr hc hR hC hnd false rows frames h
  have hk := h5 rfl
  subst hk
  exact ⟨rows, frames, by rw [tiledSegTable_full_eq_sparse z Ms R C tr tc hr hc hR hC]; exact h, h2, h3, h4⟩


/-- **`Image.get_volume` (and, by `bridge_seg_volume_forwarding`, `Segmentation.get_volume`) on a tiled image reads the region
`get_total_pixel_matrix` reads** (glue: the request is normalised once with
`outputs_as_indices=True`, the 0-based results are handed on with `as_indices=True` and normalised AGAIN — both calls regenerated,
T4fv).  Whenever the first normalisation accepts, the pixel array is that of the direct read of the original request (so every
theorem above applies to it); whenever it refuses, the direct read refuses as well.  Normalising twice neither shifts nor clamps:
`stdRowCol_renormalise`. -/
theorem volume_region_is_matrix_region {α} (z : α) (lut : List LutRow) (frames : List (Img α)) (R C th tw : Int)
    (chan : Option Int) (rs re cs ce : Option Int) (ai full am : Bool) :
    (∀ a b c d, stdRowColIndices rs re cs ce R C ai true = .ok (a, b, c, d) →
      readVolumeRegion z lut frames R C th tw chan rs re cs ce ai full am = readRegion z lut frames R C th tw chan rs re cs ce ai full am) ∧
    (∀ e, stdRowColIndices rs re cs ce R C ai true = .error e →
      readVolumeRegion z lut frames R C th tw chan rs re cs ce ai full am = .error e ∧
      ∃ e', readRegion z lut frames R C th tw chan rs re cs ce ai full am = .error e') :=
  readVolumeRegion_eq z lut frames R C th tw chan rs re cs ce ai full am

/-- the 0-based results of an accepted request, read again as 0-based indices, denote the same rows and columns -/
theorem request_renormalised (rs re cs ce : Option Int) (R C : Int) (ai : Bool) (a b c d : Int)
    (h : stdRowColIndices rs re cs ce R C ai true = .ok (a, b, c, d)) :
    stdRowColIndices (some a) (some b) (some c) (some d) R C true false = .ok (a + 1, b + 1, c + 1, d + 1) ∧
    stdRowColIndices rs re cs ce R C ai false = .ok (a + 1, b + 1, c + 1, d + 1) :=
  stdRowCol_renormalise rs re cs ce R C ai a b c d h


/-- **Pin (T4t): the frame query's cursor is closed when the `with` block is left**, also by an exception
(`cursor = self._db_con.execute(full_query)`; `try: yield … finally: cursor.close()`, extracted from the source as a boolean).  This is
the assumption under which the table state `Option ChanTable` of `reads_independent_of_history` is the WHOLE state of the connection:
SQLite's table locks are not modelled, and while the cursor was left open (before `/repo` e921751) a read refused part way through
its rows and a kept exception made every later read fail with `database table is locked` although the theorems held.  A trip-wire,
not a consequence of the model. -/
theorem region_query_cursor_is_closed : tiledRegionCursorClosedOnExit = true := by decide

/-- **Table locks inside the state machine.**  `stepReadL` / `runHistoryL` carry, next to the temporary table, whether an abandoned
frame query still LOCKS it (SQLite then refuses `DROP TABLE`): the cursor stays open iff a read raised while its rows were being
copied, the iterator does not close the cursor on exit, and the caller keeps the exception.  With the regenerated fact that the
iterator closes it (`Gen.tiledRegionCursorClosedOnExit`, T4t; `region_query_cursor_is_closed`), every history on an unlocked
connection — exceptions kept or not — gives exactly the results of the lock-free machine, so `reads_independent_of_history` and
everything built on it hold of the connection WITH its locks. -/
theorem reads_independent_of_history_with_locks {α} (z : α) (lut : List LutRow) (frames : List (Img α)) (R C th tw : Int) (full am kept : Bool)
    (steps : List ChanRead) (st : TempState) :
    (runHistoryL z lut frames R C th tw full am tiledRegionCursorClosedOnExit kept steps ⟨st, false⟩).1 =
      steps.map (fun q => (stepRead z lut frames R C th tw full am q none).2) := by
  rw [region_query_cursor_is_closed, runHistoryL_closed, runHistory_indep]

/-- **Counterexample for the iterator as it was before `/repo` e921751** (cursor not closed on exit, `closes = false`): a caller that
keeps the exception of a read refused inside the `with` block (its frame query had a row) gets EVERY later segment-aware read of that
object refused — "database table is locked" — although the same read on a fresh object is answered, and is answered after the same
history by the iterator that closes its cursor.  Witness: one stored frame of segment 1 (tile (1, 1) of a 5 × 4 matrix in 2 × 3 tiles);
step 1 a combined read of segments 1, 2 refused in the block, step 2 a stacked read of segment 1. -/
theorem counterexample_cursor_left_open :
    let lut : List LutRow := [⟨1, 1, 0, 1⟩]
    let frames : List (Img Int) := [fun _ _ => 0]
    let q1 : ChanRead := ⟨[(1, 1), (2, 2)], 3, none, none, none, none, false, true, false⟩
    let q2 : ChanRead := stackedRequest [1] none none none none false
    stepReadL (0 : Int) lut frames 5 4 2 3 false true false true q1 ⟨none, false⟩ = (⟨some [(1, 1), (2, 2)], true⟩, .error .value) ∧
    stepReadL (0 : Int) lut frames 5 4 2 3 false true false true q2 ⟨some [(1, 1), (2, 2)], true⟩ =
      (⟨some [(1, 1), (2, 2)], true⟩, .error .other) ∧
    (∃ out, (stepRead (0 : Int) lut frames 5 4 2 3 false true q2 none).2 = .ok (5, 4, out)) ∧
    (∃ out, (stepReadL (0 : Int) lut frames 5 4 2 3 false true true true q2
              (stepReadL (0 : Int) lut frames 5 4 2 3 false true true true q1 ⟨none, false⟩).1).2 = .ok (5, 4, out)) := by
  intro lut frames q1 q2
  have hfresh : ∀ st, ∃ out, (stepRead (0 : Int) lut frames 5 4 2 3 false true q2 st).2 = .ok (5, 4, out) := by
    intro st
    obtain ⟨out, h, _⟩ := stepRead_stacked_spec (0 : Int) (fun _ _ _ => 0) lut frames 5 4 2 3 (by decide) (by decide) (by decide) [1]
      (fun s _ r hr => by
        simp only [lut, chanRows, List.mem_filter, List.mem_cons, List.not_mem_nil, or_false] at hr
        obtain ⟨rfl, _⟩ := hr
        exact ⟨fun _ _ => 0, rfl, fun _ _ _ _ _ _ _ _ => rfl⟩)
      none none none none false false st 1 6 1 5 (by decide) (by decide) (by decide)
    exact ⟨out, by rw [h]; rfl⟩
  refine ⟨?_, ?_, hfresh none, ?_⟩
  · exact stepReadL_refused_locks (0 : Int) lut frames 5 4 2 3 false true q1 none 1 6 1 5 6 rfl (by decide) (by decide) (by decide)
      (by decide) rfl ⟨1, 1, 0, 1⟩ (by simp [lut]) (by decide) (1, 1) (by simp [q1]) rfl
  · exact stepReadL_locked_refuses (0 : Int) lut frames 5 4 2 3 false true false true q2 _ 1 6 1 5 6 rfl (by decide) (by decide) (by decide)
  · rw [stepReadL_closed, stepReadL_closed]
    exact hfresh _

/-- `Segmentation.get_volume` has its own copy of the tiled branch (seg/sop.py); its two calls are regenerated as well (T4fw) and are
the calls of `Image.get_volume` (T4fv), so `volume_region_is_matrix_region` speaks about both accessors. -/
theorem bridge_seg_volume_forwarding (a b c d : Int) (ai : Bool) :
    segVolumeStdCall ai = volumeStdCall ai ∧ segVolumeTpmCall a b c d = volumeTpmCall a b c d := by
  constructor <;> rfl


/-! ## Several segments at once, and histories of reads on one object

`Segmentation.get_total_pixel_matrix(segment_numbers=…)` joins the frame table with a temporary channel table (one row per requested
segment) that is created before and dropped after the read; a call refused inside the `with` block (most designed refusals:
dtype, rescale / combine combination, unknown or repeated segment numbers, overlapping segments) leaves the table behind.  The SQL
statements of set-up and clean-up are REGENERATED (`Gen.tempTableSetup`, `Gen.tempTableCleanup`, `Gen.tempTableCleanupOnError`,
T4t); what one statement does (`Tiling.tempOp`) is a hand-written four-statement fragment of SQLite, tied to the real connection
by the correspondence stream `history` (table contents after every step, L2). -/

/-- **The look-up of a read holds exactly this request's rows**, whatever an earlier (refused) read left in the connection: after
the regenerated set-up program the temporary channel table consists of the rows of the current request. -/
theorem temp_table_holds_exactly_this_request (data : ChanTable) (st : TempState) (hk : (data.map Prod.fst).Nodup) :
    runOps tempTableSetup data st = (some data, none) :=
  tempSetup_exact data st hk

/-- … and for ANY request (also one whose rows violate the UNIQUE constraint and is therefore refused) the set-up behaves as on a
fresh connection. -/
theorem temp_table_setup_forgets_history (data : ChanTable) (st : TempState) :
    runOps tempTableSetup data st = runOps tempTableSetup data none :=
  tempSetup_forgets data st

/-- **Reads do not depend on the history of the object.**  For every sequence of segment-aware region reads on one image — accepted,
refused before the look-up is set up, refused inside the `with` block (the temporary table then survives), or refused by SQLite —
and every initial state of the connection, the result of every read is the result the same read gives on a fresh object. -/
theorem reads_independent_of_history {α} (z : α) (lut : List LutRow) (frames : List (Img α)) (R C th tw : Int) (full am : Bool)
    (steps : List ChanRead) (st : TempState) :
    (runHistory z lut frames R C th tw full am steps st).1 =
      steps.map (fun q => (stepRead z lut frames R C th tw full am q none).2) :=
  runHistory_indep z lut frames R C th tw full am steps st

/-- **What a read leaves in the connection** (state machine, one step; by `reads_independent_of_history` none of it matters to later
reads): the state it found — it was refused before the look-up was set up —, no table — it completed, or the source cleans up in
a `finally` —, the table of this request — it was refused inside the `with` block —, or an empty table — SQLite refused its rows
(repeated output channel index). -/
theorem temp_table_state_after_read {α} (z : α) (lut : List LutRow) (frames : List (Img α)) (R C th tw : Int) (full am : Bool)
    (q : ChanRead) (st : TempState) :
    (stepRead z lut frames R C th tw full am q st).1 = st ∨ (stepRead z lut frames R C th tw full am q st).1 = none ∨
    (stepRead z lut frames R C th tw full am q st).1 = some q.data ∨ (stepRead z lut frames R C th tw full am q st).1 = some [] :=
  stepRead_state_cases z lut frames R C th tw full am q st


/-- **Region assembly for several segments at once** (`segment_numbers = segs`: any subset of the segments, in any order): in a
table that passes the uniqueness test and in which the rows of every requested segment hold exactly the grid tiles (any frame
order, channels interleaved in any way) with frames cut from that segment's matrix, output channel `n` of the read is
`M_{segs[n]}[r0-1 : r1-1, c0-1 : c1-1]` — for every state an earlier read may have left the connection in; and the temporary table is
gone afterwards. -/
theorem region_assembly_channels {α} (z : α) (Mseg : Int → Img α) (lut : List LutRow) (frames : List (Img α)) (R C th tw : Int)
    (ht : 1 ≤ th) (hw : 1 ≤ tw) (hu : uniquePos lut = true) (segs : List Int)
    (hg : ∀ s ∈ segs, IsGridTable R C th tw (chanRows (some s) lut))
    (hcut : ∀ s ∈ segs, TableCutFrom (Mseg s) R C th tw (chanRows (some s) lut) frames)
    (rs re cs ce : Option Int) (ai full : Bool) (st : TempState) (r0 r1 c0 c1 : Int)
    (hstd : stdRowColIndices rs re cs ce R C ai false = .ok (r0, r1, c0, c1)) (hr : r0 ≤ r1) (hc : c0 ≤ c1) :
    ∃ out, stepRead z lut frames R C th tw full true (stackedRequest segs rs re cs ce ai) st = (none, .ok (r1 - r0, c1 - c0, out)) ∧
      ∀ (n : Nat) (s : Int), segs[n]? = some s → ∀ i j, 0 ≤ i → i < r1 - r0 → 0 ≤ j → j < c1 - c0 →
        out n i j = Mseg s (r0 - 1 + i) (c0 - 1 + j) := by
  obtain ⟨g1, g2, g3, g4, g5, g6, g7, g8⟩ := stdRowCol_range_num hstd
  obtain ⟨out, hout, hpix⟩ := stepRead_stacked_spec z Mseg lut frames R C th tw ht hw hu segs hcut rs re cs ce ai full st
    r0 r1 c0 c1 hstd hr hc
  refine ⟨out, hout, ?_⟩
  intro n s hs i j hi0 hi1 hj0 hj1
  apply (hpix n s hs i j hi0 hi1 hj0 hj1).1
  exact grid_covers R C th tw ht hw _ (hg s (List.mem_of_getElem? hs)) (r0 + i) (c0 + j) (by omega) (by omega) (by omega) (by omega)

/-- **Frame selection for several segments**: the frames a stacked read of segments `segs` fetches and decodes for output channel
`n` are exactly the stored frames of segment `segs[n]` whose tile intersects the (non-empty) region — no frame of another segment,
no frame outside the region, none missed. -/
theorem selected_frames_exact_channels (lut : List LutRow) (segs : List Int) (n : Nat) (s : Int) (hs : segs[n]? = some s)
    (r0 r1 c0 c1 th tw : Int) (ht : 1 ≤ th) (hw : 1 ≤ tw) (hr : r0 < r1) (hc : c0 < c1) (r : LutRow) :
    r ∈ ((joinRows ((lut.filter (selected r0 r1 c0 c1 th tw)).mergeSort lutLe)
          ((segs.zipIdx).map (fun (p : Int × Nat) => ((p.2 : Int), p.1)))).filter (fun x => x.2 == (n : Int))).map Prod.fst ↔
      (r ∈ lut ∧ r.ch = s ∧
        (∃ g, r0 ≤ g ∧ g < r1 ∧ r.rp ≤ g ∧ g < r.rp + th) ∧ (∃ g, c0 ≤ g ∧ g < c1 ∧ r.cp ≤ g ∧ g < r.cp + tw)) := by
  rw [mem_join_channel _ segs n s hs r, mem_sel_iff, selected_tiles_exact r0 r1 c0 c1 th tw ht hw hr hc r]
  constructor
  · rintro ⟨⟨h1, h2⟩, h3⟩; exact ⟨h1, h3, h2⟩
  · rintro ⟨h1, h3, h2⟩; exact ⟨⟨h1, h2⟩, h3⟩


/-- **`tile_then_read` for several segments after ANY history.**  `Segmentation(tile_pixel_array=True)` (explicit positions with or
without `omit_empty_frames`, or TILED_FULL) followed by an arbitrary sequence of segment-aware reads on that one object — any of
them refused at any point —: every step that is a stacked read of segments `segs` (any subset of the described segments, any
order) with an accepted request `start ≤ end` returns, in output channel `k`, the requested part of the matrix handed in for segment
`segs[k]`.  For every matrix size, tile size (dividing or not), segment list and history. -/
theorem tile_then_read_after_any_history {α} [BEq α] [LawfulBEq α] (z : α) (Ms : List (Int × Img α)) (R C tr tc : Int)
    (hr : 1 ≤ tr) (hc : 1 ≤ tc) (hR : 1 ≤ R) (hC : 1 ≤ C) (hnd : (Ms.map Prod.fst).Nodup)
    (full omitEmpty : Bool) (hfo : (full && omitEmpty) = false)
    (Mseg : Int → Img α) (segs : List Int) (hsegs : ∀ s ∈ segs, (s, Mseg s) ∈ Ms)
    (steps : List ChanRead) (n : Nat) (rs re cs ce : Option Int) (ai : Bool)
    (hstep : steps[n]? = some (stackedRequest segs rs re cs ce ai)) (r0 r1 c0 c1 : Int)
    (hstd : stdRowColIndices rs re cs ce R C ai false = .ok (r0, r1, c0, c1)) (hr01 : r0 ≤ r1) (hc01 : c0 ≤ c1) :
    ∃ results out, tileThenHistory z Ms R C tr tc full omitEmpty steps = .ok results ∧
      results[n]? = some (.ok (r1 - r0, c1 - c0, out)) ∧
      ∀ (k : Nat) (s : Int), segs[k]? = some s → ∀ i j, 0 ≤ i → i < r1 - r0 → 0 ≤ j → j < c1 - c0 →
        out k i j = Mseg s (r0 - 1 + i) (c0 - 1 + j) := by
  obtain ⟨g1, g2, g3, g4, g5, g6, g7, g8⟩ := stdRowCol_range_num hstd
  -- the table: explicit positions; TILED_FULL (then nothing is omitted) derives the same table
  have htab : ∃ oe, tiledSegTable z Ms R C tr tc full omitEmpty = tiledSegTable z Ms R C tr tc false oe := by
    cases full with
    | false => exact ⟨omitEmpty, rfl⟩
    | true =>
      have : omitEmpty = false := by simpa using hfo
      subst this
      exact ⟨false, tiledSegTable_full_eq_sparse z Ms R C tr tc hr hc hR hC⟩
  obtain ⟨oe, htab⟩ := htab
  obtain ⟨rows, frames, hrows, hu, hspec⟩ := tiledSegTable_sparse_spec z Ms R C tr tc hr hc hR hC hnd oe
  obtain ⟨out, hout, hpix⟩ := stepRead_stacked_spec z Mseg rows frames R C tr tc hr hc hu segs
    (fun s hs => (hspec s (Mseg s) (hsegs s hs)).1) rs re cs ce ai full none r0 r1 c0 c1 hstd hr01 hc01
  refine ⟨(runHistory z rows frames R C tr tc full true steps none).1, out, ?_, ?_, ?_⟩
  · unfold tileThenHistory
    rw [htab, hrows]
  · rw [runHistory_indep, List.getElem?_map, hstep]
    simp only [Option.map_some, hout]
  · intro k s hs i j hi0 hi1 hj0 hj1
    obtain ⟨p1, p2⟩ := hpix k s hs i j hi0 hi1 hj0 hj1
    by_cases hcov : ∃ r ∈ chanRows (some s) rows, inTile tr tc r (r0 + i) (c0 + j)
    · exact p1 hcov
    · rw [p2 hcov]
      have := (hspec s (Mseg s) (hsegs s (List.mem_of_getElem? hs))).2 (r0 + i) (c0 + j) (by omega) (by omega) (by omega) (by omega) hcov
      rw [← this]
      congr 1 <;> omega

/-- **LABELMAP segmentations in the same state machine.**  A LABELMAP read makes no channel query (`channel_indices = None`: no
temporary table is created, the connection state is left as found — `temp_table_state_after_read`, first case) and is the plain
region read of the ONE stored label matrix; `reads_independent_of_history` covers such steps like any other (`ChanRead.labelmap`).
Tile-then-read: the label matrix `L` tiled by the constructor (explicit positions with or without `omit_empty_frames`, or TILED_FULL)
and read back after ANY history of reads on the object — of either kind, refused or not — is the requested part of `L`.  (Splitting
the labels into one channel per requested segment afterwards is `_get_pixels_by_seg_frame`, C02; the harness applies `label == s`.) -/
theorem labelmap_tile_then_read_after_any_history {α} [BEq α] [LawfulBEq α] (z : α) (L : Img α) (R C tr tc : Int)
    (hr : 1 ≤ tr) (hc : 1 ≤ tc) (hR : 1 ≤ R) (hC : 1 ≤ C) (full omitEmpty : Bool) (hfo : (full && omitEmpty) = false)
    (steps : List ChanRead) (n : Nat) (rs re cs ce : Option Int) (ai : Bool)
    (hstep : steps[n]? = some (labelmapRequest rs re cs ce ai)) (r0 r1 c0 c1 : Int)
    (hstd : stdRowColIndices rs re cs ce R C ai false = .ok (r0, r1, c0, c1)) (hr01 : r0 ≤ r1) (hc01 : c0 ≤ c1) :
    ∃ results out, tileThenHistory z [(0, L)] R C tr tc full omitEmpty steps = .ok results ∧
      results[n]? = some (.ok (r1 - r0, c1 - c0, out)) ∧
      ∀ (k : Int) i j, 0 ≤ i → i < r1 - r0 → 0 ≤ j → j < c1 - c0 → out k i j = L (r0 - 1 + i) (c0 - 1 + j) :=
  tileThenHistory_labelmap z L R C tr tc hr hc hR hC full omitEmpty hfo steps n rs re cs ce ai hstep r0 r1 c0 c1 hstd hr01 hc01

/-- a LABELMAP read leaves the connection exactly as it found it and is the plain region read -/
theorem labelmap_read_is_region_read {α} (z : α) (lut : List LutRow) (frames : List (Img α)) (R C th tw : Int) (full am : Bool)
    (rs re cs ce : Option Int) (ai : Bool) (st : TempState) :
    stepRead z lut frames R C th tw full am (labelmapRequest rs re cs ce ai) st =
      (st, match readRegion z lut frames R C th tw none rs re cs ce ai full am with
           | .error e => .error e
           | .ok (h, w, out) => .ok (h, w, fun _ => out)) :=
  stepRead_labelmap z lut frames R C th tw full am rs re cs ce ai st


/-- **Bridge (`tileThenRead` and the table).**  The single-segment path of `tile_then_read` reads the same table
`tiledSegTable` the history theorems are about. -/
theorem bridge_tile_then_read_table {α} [BEq α] (z : α) (Ms : List (Int × Img α)) (R C tr tc : Int) (full omitEmpty : Bool)
    (chan : Int) (rs re cs ce : Option Int) (asIdx : Bool) :
    tileThenRead z Ms R C tr tc full omitEmpty chan rs re cs ce asIdx =
      (match tiledSegTable z Ms R C tr tc full omitEmpty with
       | .error e => .error e
       | .ok (lut, frames) => readRegion z lut frames R C tr tc (some chan) rs re cs ce asIdx full true) :=
  tileThenRead_eq_table z Ms R C tr tc full omitEmpty chan rs re cs ce asIdx


/-- **Bridge (entry points, T4fi / T4fs).**  `Image.get_total_pixel_matrix` and `Segmentation.get_total_pixel_matrix` hand
`row_start, row_end, column_start, column_end, as_indices` to `_iterate_indices_for_tiled_region` unchanged and in this order (the
calls are regenerated; the gate `is_tiled` / `is_indexable_as_total_pixel_matrix` in front, the channel query of the segmentation
and the hand-over of `output_shape` / `indices` behind are pinned).  The missing-frame flags are the ones the model's entry points
use: both off for `Image` — so the regenerated test (T5g) refuses a TILED_SPARSE read iff the number of frames found differs from
`v_frames · h_frames` —, both on for `Segmentation` — the test is never made, gaps read as zeros (`sparse_zero_fill`). -/
theorem bridge_entry_point_forwarding (a b c d : Int) (ai : Bool) :
    imageTpmCall a b c d ai = .ok (a, b, c, d, ai, false, false) ∧ segTpmCall a b c d ai = .ok (a, b, c, d, ai, true, true) ∧
    (∀ (vf hf n : Int) (full : Bool), missingFrameTest true true vf hf n (orgString full) = .ok true) ∧
    (∀ (vf hf n : Int) (full : Bool),
      missingFrameTest false false vf hf n (orgString full) = .error .runtime ↔ (full = false ∧ n ≠ vf * hf)) := by
  refine ⟨imageTpmCall_forwarding a b c d ai, segTpmCall_forwarding a b c d ai, ?_, ?_⟩
  · intro vf hf n full
    have h := (missingFrameTest_iff true true full vf hf n)
    apply h.2
    intro he
    have := h.1.mp he
    simp at this
  · intro vf hf n full
    rw [(missingFrameTest_iff false false full vf hf n).1]
    cases full <;> simp


end HdVerif.C04
namespace HdVerif.Examples.C04
open HdVerif HdVerif.Gen HdVerif.Tiling HdVerif.TilingLemmas HdVerif.C04

/-- matrix `M i j = 10 i + j`, tiles holding junk `-1` in their padding -/
def exM : Img Int := fun i j => 10 * i + j
def exFrame (rp cp : Int) : Img Int := fun a b => if rp - 1 + a < 5 ∧ cp - 1 + b < 4 then 10 * (rp - 1 + a) + (cp - 1 + b) else -1
def exLut : List LutRow := [⟨3, 4, 0, 0⟩, ⟨1, 1, 1, 0⟩, ⟨5, 1, 2, 0⟩, ⟨1, 4, 3, 0⟩, ⟨5, 4, 4, 0⟩, ⟨3, 1, 5, 0⟩]
def exFrames : List (Img Int) := [exFrame 3 4, exFrame 1 1, exFrame 5 1, exFrame 1 4, exFrame 5 4, exFrame 3 1]

theorem exGrid : IsGridTable 5 4 2 3 exLut := by unfold IsGridTable; decide
theorem exCut : TableCutFrom exM 5 4 2 3 exLut exFrames := by
  intro r hr
  simp only [exLut, List.mem_cons, List.not_mem_nil, or_false] at hr
  rcases hr with rfl | rfl | rfl | rfl | rfl | rfl <;>
    exact ⟨_, rfl, fun a b _ _ _ _ h1 h2 => by simp only [exFrame, exM]; rw [if_pos ⟨by omega, by omega⟩]⟩
/-- rows 2..4, columns 2..4 requested as `row_start = -4, row_end = 4` (0-based, negative start),
`column_start = 1, column_end = None`: the hypotheses of `region_assembly` are met and the read returns the
3 × 3 block starting at `M 1 1 = 11` (TILED_SPARSE with the missing-frame test active) -/
example : stdRowColIndices (some (-4)) (some 4) (some 1) none 5 4 true false = .ok (2, 5, 2, 5) := by decide
example : ∃ out, readRegion (0 : Int) exLut exFrames 5 4 2 3 none (some (-4)) (some 4) (some 1) none true false false = .ok (3, 3, out) ∧
    out 0 0 = 11 ∧ out 1 2 = 23 ∧ out 2 2 = 33 := by
  obtain ⟨out, h, hp⟩ := region_assembly (0 : Int) exM exLut exFrames 5 4 2 3 (by decide) (by decide) exGrid exCut
    (some (-4)) (some 4) (some 1) none true false false 2 5 2 5 (by decide) (by decide) (by decide) (by decide) (by decide) (by decide)
  refine ⟨out, h, ?_, ?_, ?_⟩
  · rw [hp 0 0 (by decide) (by decide) (by decide) (by decide)]; rfl
  · rw [hp 1 2 (by decide) (by decide) (by decide) (by decide)]; rfl
  · rw [hp 2 2 (by decide) (by decide) (by decide) (by decide)]; rfl
example : ∃ e, readRegion (0 : Int) exLut exFrames 5 4 2 3 none (some (-6)) none none none true false false = .error e :=
  region_refused_outside 0 exLut exFrames 5 4 2 3 none (some (-6)) none none none true false false (Or.inl (by decide))

/-- `tile_then_read` and `tile_then_read_full` instantiated: two segments (one of them empty everywhere, so with
`omit_empty_frames` all its tiles and none of the other's are dropped), 5 × 4 in 2 × 3 tiles, last two rows requested
with negative 1-based numbers -/
example : ∃ out, tileThenRead (0 : Int) [(1, exM), (2, fun _ _ => 0)] 5 4 2 3 false true 2 (some (-2)) none none (some (-1)) false
    = .ok (2, 3, out) ∧ ∀ i j, 0 ≤ i → i < 2 → 0 ≤ j → j < 3 → out i j = 0 := by
  obtain ⟨out, h, hp⟩ := tile_then_read (0 : Int) [(1, exM), (2, fun _ _ => 0)] 5 4 2 3 (by decide) (by decide) (by decide) (by decide)
    (by decide) 2 (fun _ _ => 0) (by simp) true (some (-2)) none none (some (-1)) false 4 6 1 4 (by decide) (by decide) (by decide)
  exact ⟨out, h, fun i j a b c d => hp i j a b c d⟩
example : ∃ out, tileThenRead (0 : Int) [(1, exM), (2, fun _ _ => 0)] 5 4 2 3 true false 1 (some (-2)) none none (some (-1)) false
    = .ok (2, 3, out) ∧ out 1 2 = 42 := by
  obtain ⟨_, out, h, hp⟩ := tile_then_read_full (0 : Int) [(1, exM), (2, fun _ _ => 0)] 5 4 2 3 (by decide) (by decide) (by decide) (by decide)
    (by decide) 1 exM (by simp) (some (-2)) none none (some (-1)) false 4 6 1 4 (by decide) (by decide) (by decide)
  exact ⟨out, h, by rw [hp 1 2 (by decide) (by decide) (by decide) (by decide)]; rfl⟩
/-- `sparse_zero_fill` instantiated: only the tile at (3, 1) is stored; the matrix is zero elsewhere -/
def exSparseM : Img Int := fun i j => if 2 ≤ i ∧ i < 4 ∧ j < 3 then 7 else 0
example : ∃ out, readRegion (0 : Int) [⟨3, 1, 0, 0⟩] [fun a b => exSparseM (2 + a) b] 5 4 2 3 none none none none none false false true
    = .ok (5, 4, out) ∧ out 2 1 = 7 ∧ out 0 0 = 0 := by
  obtain ⟨out, h, hp⟩ := sparse_zero_fill (0 : Int) exSparseM [⟨3, 1, 0, 0⟩] [fun a b => exSparseM (2 + a) b] 5 4 2 3 (by decide) (by decide)
    (by decide)
    (by
      intro r hr
      simp only [List.mem_cons, List.not_mem_nil, or_false] at hr
      subst hr
      exact ⟨_, rfl, fun a b _ _ _ _ _ _ => by simp only; congr 1; omega⟩)
    (by
      intro p hp hn a b ha0 ha1 hb0 hb1 h1 h2
      obtain ⟨p1, p2⟩ := p
      have hmem : (p1, p2) ∈ [((1 : Int), (1 : Int)), (1, 4), (3, 1), (3, 4), (5, 1), (5, 4)] := by
        have : gridPos 5 4 2 3 = [((1 : Int), (1 : Int)), (1, 4), (3, 1), (3, 4), (5, 1), (5, 4)] := by decide
        rw [← this]; exact hp
      simp only [List.map_cons, List.map_nil, pos, List.mem_cons, List.not_mem_nil, or_false, Prod.mk.injEq] at hn hmem
      simp only [exSparseM]
      rw [if_neg]
      omega)
    none none none none false false 1 6 1 5 (by decide) (by decide) (by decide)
  refine ⟨out, h, ?_, ?_⟩
  · rw [hp 2 1 (by decide) (by decide) (by decide) (by decide)]; decide
  · rw [hp 0 0 (by decide) (by decide) (by decide) (by decide)]; decide

/-- the bridges are about non-trivial values: the generated WHERE predicate separates a tile that is fetched from one that is not,
and the generated missing-frame test refuses a sparse image with a missing frame while letting a TILED_FULL one pass -/
example : tiledRegionWhere 3 1 1 5 0 5 2 2 = .ok true ∧ tiledRegionWhere 5 1 1 5 0 5 2 2 = .ok false := by decide
example : missingFrameTest false false 2 2 3 "TILED_SPARSE" = .error .runtime ∧ missingFrameTest false false 2 2 3 "TILED_FULL" = .ok true ∧
    missingFrameTest false true 2 2 3 "TILED_SPARSE" = .ok true := by decide
example : nonemptyTileCall 2 3 5 4 = .ok (5, 4, 2, 3) := by decide


/-- the history theorems instantiated: two segments (the second empty everywhere, so all its tiles are omitted), 5 × 4 in 2 × 3 tiles;
history = a combined read refused inside the `with` block (its table rows (1, 1), (2, 2) survive), a request outside the matrix,
then a stacked read of segments [2, 1] (other order than stored) for the last two rows -/
def exHistory : List ChanRead :=
  [⟨[(1, 1), (2, 2)], 2, none, none, none, none, false, true, false⟩,
   ⟨[(0, 1)], 1, some 9, none, none, none, false, false, false⟩,
   stackedRequest [2, 1] (some (-2)) none none (some (-1)) false]
def exMseg : Int → Img Int := fun s => if s = 1 then exM else fun _ _ => 0
theorem exMem : ∀ s ∈ [(2 : Int), 1], (s, exMseg s) ∈ [((1 : Int), exM), (2, fun _ _ => 0)] := by
  intro s hs
  simp only [List.mem_cons, List.not_mem_nil, or_false] at hs
  rcases hs with rfl | rfl
  · exact List.mem_cons_of_mem _ (List.mem_cons_self)
  · exact List.mem_cons_self
example : ∃ results out, tileThenHistory (0 : Int) [(1, exM), (2, fun _ _ => 0)] 5 4 2 3 false true exHistory = .ok results ∧
    results[2]? = some (.ok (2, 3, out)) ∧ out 0 1 2 = 0 ∧ out 1 1 2 = 42 := by
  obtain ⟨results, out, h1, h2, hp⟩ := tile_then_read_after_any_history (0 : Int) [(1, exM), (2, fun _ _ => 0)] 5 4 2 3
    (by decide) (by decide) (by decide) (by decide) (by decide) false true rfl
    exMseg [2, 1] exMem
    exHistory 2 (some (-2)) none none (some (-1)) false rfl 4 6 1 4 (by decide) (by decide) (by decide)
  refine ⟨results, out, h1, h2, ?_, ?_⟩
  · exact (hp 0 2 rfl 1 2 (by decide) (by decide) (by decide) (by decide)).trans rfl
  · exact (hp 1 1 rfl 1 2 (by decide) (by decide) (by decide) (by decide)).trans rfl
/-- the set-up theorems speak about the program in the source today: the same statements with `CREATE TABLE IF NOT EXISTS` +
`INSERT OR REPLACE` instead (a program the interpreter also understands) keep the rows a refused read left behind -/
example : runOps tempTableSetup [(0, 2)] (some [(1, 1), (2, 2), (3, 3)]) = (some [(0, 2)], none) ∧
    runOps [(2, true), (3, true)] [(0, 2)] (some [(1, 1), (2, 2), (3, 3)]) = (some [(1, 1), (2, 2), (3, 3), (0, 2)], none) := by decide
/-- … and a stale row takes part in the join: with the rows (1, 1), (2, 2) of a refused combined read still in the table, the frame of
segment 2 at tile (1, 1) is joined twice, once for the stale output value 2 and once for the requested channel 0 -/
example : joinRows [⟨1, 1, 0, 2⟩] [(1, 1), (2, 2), (0, 2)] = [(⟨1, 1, 0, 2⟩, 2), (⟨1, 1, 0, 2⟩, 0)] ∧
    joinRows [⟨1, 1, 0, 2⟩] [(0, 2)] = [(⟨1, 1, 0, 2⟩, 0)] := by decide

/-- `stored_frames_exact` is about tables that exist: the constructor model accepts the 5 × 4 matrix in 2 × 3 tiles with a second, empty
segment and `omit_empty_frames`, and stores six frames (all tiles of segment 1, none of segment 2) -/
example : ∃ rows frames, tiledSegTable (0 : Int) [(1, exM), (2, fun _ _ => 0)] 5 4 2 3 false true = .ok (rows, frames) := by
  obtain ⟨rows, frames, h, _⟩ := tiledSegTable_sparse_spec (0 : Int) [(1, exM), (2, fun _ _ => 0)] 5 4 2 3 (by decide) (by decide)
    (by decide) (by decide) (by decide) true
  exact ⟨rows, frames, h⟩
example : rowsOfKept [(1, 1, 1), (1, 1, 4), (2, 3, 1)] 0 = [⟨1, 1, 0, 1⟩, ⟨1, 4, 1, 1⟩, ⟨3, 1, 2, 2⟩] := by decide
example : stdRowColIndices (some (-2)) none none (some (-1)) 5 4 false true = .ok (3, 5, 0, 3) ∧
    stdRowColIndices (some 3) (some 5) (some 0) (some 3) 5 4 true false = .ok (4, 6, 1, 4) := by decide
/-- frame selection for channels, instantiated: segments [2, 1] requested, region rows 4..5 × columns 1..3 of the 5 × 4 matrix in 2 × 3
tiles: for output channel 0 (segment 2) a row of segment 2 at tile (3, 1) is fetched, the row of segment 1 at the same tile is not -/
example : (⟨3, 1, 7, 2⟩ : LutRow) ∈ ((joinRows (([⟨3, 1, 7, 2⟩, ⟨3, 1, 2, 1⟩].filter (selected 4 6 1 4 2 3)).mergeSort lutLe)
      (([2, 1] : List Int).zipIdx.map (fun (p : Int × Nat) => ((p.2 : Int), p.1)))).filter (fun x => x.2 == ((0 : Nat) : Int))).map Prod.fst ∧
    (⟨3, 1, 2, 1⟩ : LutRow) ∉ ((joinRows (([⟨3, 1, 7, 2⟩, ⟨3, 1, 2, 1⟩].filter (selected 4 6 1 4 2 3)).mergeSort lutLe)
      (([2, 1] : List Int).zipIdx.map (fun (p : Int × Nat) => ((p.2 : Int), p.1)))).filter (fun x => x.2 == ((0 : Nat) : Int))).map Prod.fst := by
  constructor
  · rw [selected_frames_exact_channels _ [2, 1] 0 2 rfl 4 6 1 4 2 3 (by decide) (by decide) (by decide) (by decide)]
    exact ⟨by simp, rfl, ⟨4, by decide⟩, ⟨1, by decide⟩⟩
  · rw [selected_frames_exact_channels _ [2, 1] 0 2 rfl 4 6 1 4 2 3 (by decide) (by decide) (by decide) (by decide)]
    rintro ⟨_, h, _⟩
    exact absurd h (by decide)
/-- the four outcomes occur: refused before the set-up / completed / refused inside the block / rows refused by SQLite -/
example : runOps tempTableSetup [(1, 1), (1, 2)] (some [(0, 3)]) = (some [], some .other) ∧
    runOps tempTableSetup [(0, 1), (1, 2)] (some [(0, 3)]) = (some [(0, 1), (1, 2)], none) ∧
    runOps tempTableCleanup [] (some [(0, 1)]) = (none, none) := by decide
/-- LABELMAP instantiated: the label matrix `exM` (5 × 4 in 2 × 3 tiles, TILED_FULL) read after a refused read and a read outside the matrix -/
def exLabelHistory : List ChanRead :=
  [⟨[], 1, none, none, none, none, false, true, true⟩, labelmapRequest (some 9) none none none false,
   labelmapRequest (some (-2)) none none (some (-1)) false]
example : ∃ results out, tileThenHistory (0 : Int) [(0, exM)] 5 4 2 3 true false exLabelHistory = .ok results ∧
    results[2]? = some (.ok (2, 3, out)) ∧ out 0 1 2 = 42 := by
  obtain ⟨results, out, h1, h2, hp⟩ := labelmap_tile_then_read_after_any_history (0 : Int) exM 5 4 2 3 (by decide) (by decide) (by decide)
    (by decide) true false rfl exLabelHistory 2 (some (-2)) none none (some (-1)) false rfl 4 6 1 4 (by decide) (by decide) (by decide)
  exact ⟨results, out, h1, h2, (hp 0 1 2 (by decide) (by decide) (by decide) (by decide)).trans rfl⟩

end HdVerif.Examples.C04
