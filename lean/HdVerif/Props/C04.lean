import HdVerif.Proofs.TilingRegion
/-! # C04  Tiled images reassemble to the exact total pixel matrix

Property theorems only (helper lemmas: `Proofs/TilingStd.lean`, `Proofs/Tiling.lean`, `Proofs/TilingGrid.lean`,
`Proofs/TilingRegion.lean`, `Proofs/TilingCut.lean`).  All statements are about the executable model
`Model/Tiling.lean`, whose integer arithmetic is *regenerated from /repo's current source* on every run:
`Gen.stdRowColIndices` (T3, `_standardize_row_column_indices`), `Gen.tiledRegion` (T5, offsets, expected frame
count and the eight slice bounds of `_iterate_indices_for_tiled_region`), `Gen.tileArrayBounds` (T6,
`get_tile_array`), `Gen.tilesPerAxisFloor` (T7b, `compute_tile_positions_per_frame`).

Conventions.  A matrix is a function of 0-based `(row, column)`.  `normStart x n ai` / `normEnd x n ai`
(`Proofs/TilingStd.lean`) say what a start / end argument denotes on an axis of length `n` as a 1-based
number — `None`, 1-based numbers, 0-based indices (`ai = as_indices`) and negative values — or `none` if
it denotes nothing.  A request denotes the 0-based numpy slice `M[r0-1 : r1-1, c0-1 : c1-1]`. -/
namespace HdVerif.C04
open HdVerif HdVerif.Gen HdVerif.Tiling HdVerif.TilingLemmas

/-! ## Requests: 1-based, 0-based, negative, None -/

/-- **Which requests are accepted, and what they mean.**  The translated normalisation accepts a request iff
each of the four arguments denotes a row / column of the matrix, and returns exactly what they denote. -/
theorem request_accepted_iff (rs re cs ce : Option Int) (R C : Int) (ai : Bool) (r0 r1 c0 c1 : Int) :
    stdRowColIndices rs re cs ce R C ai false = .ok (r0, r1, c0, c1) ↔
      (normStart rs R ai = some r0 ∧ normEnd re R ai = some r1 ∧ normStart cs C ai = some c0 ∧ normEnd ce C ai = some c1) := by
  have := stdRowCol_ok_iff rs re cs ce R C ai false r0 r1 c0 c1
  simpa [outShift] using this

/-- The denotation of a start argument is Python's: with `as_indices`, the start denotes the 0-based line `k`
iff the argument is `k` or its negative alias `k - n`; with 1-based numbers iff it is `k + 1` or `k - n`. -/
theorem start_denotes_iff (v n k : Int) (ai : Bool) :
    normStart (some v) n ai = some (k + 1) ↔
      (0 ≤ k ∧ k < n ∧ (v = k - n ∨ (ai = true ∧ v = k) ∨ (ai = false ∧ v = k + 1))) := by
  unfold normStart
  cases ai <;> simp only <;> grind

/-- … and the end argument denotes the exclusive 0-based bound `k` (`0 ≤ k ≤ n`) iff it is `k` (`k + 1` in
1-based numbers) or `k - n` (for `k < n`) — `a[: -1]` drops the last line in both conventions. -/
theorem end_denotes_iff (v n k : Int) (ai : Bool) :
    normEnd (some v) n ai = some (k + 1) ↔
      (0 ≤ k ∧ k ≤ n ∧ ((v = k - n ∧ k < n) ∨ (ai = true ∧ v = k) ∨ (ai = false ∧ v = k + 1))) := by
  unfold normEnd
  cases ai <;> simp only <;> grind

/-- `None` is the first line / one past the last line. -/
theorem none_denotes (n : Int) (ai : Bool) (hn : 1 ≤ n) : normStart none n ai = some 1 ∧ normEnd none n ai = some (n + 1) := by
  unfold normStart normEnd
  simp only
  constructor
  · rw [if_pos hn]
  · rw [if_pos (by omega)]

/-- An accepted request lies inside the matrix: nothing is wrapped or clamped. -/
theorem request_in_matrix {rs re cs ce : Option Int} {R C : Int} {ai : Bool} {r0 r1 c0 c1 : Int}
    (h : stdRowColIndices rs re cs ce R C ai false = .ok (r0, r1, c0, c1)) :
    1 ≤ r0 ∧ r0 ≤ R ∧ 1 ≤ r1 ∧ r1 ≤ R + 1 ∧ 1 ≤ c0 ∧ c0 ≤ C ∧ 1 ≤ c1 ∧ c1 ≤ C + 1 :=
  stdRowCol_range_num h

/-- A request one of whose arguments denotes nothing (outside the matrix, `0` as a 1-based number) is
refused by the whole read, whatever the image. -/
theorem region_refused_outside {α} (z : α) (lut : List LutRow) (frames : List (Img α)) (R C th tw : Int) (chan : Option Int)
    (rs re cs ce : Option Int) (ai full am : Bool)
    (h : normStart rs R ai = none ∨ normEnd re R ai = none ∨ normStart cs C ai = none ∨ normEnd ce C ai = none) :
    ∃ e, readRegion z lut frames R C th tw chan rs re cs ce ai full am = .error e := by
  unfold readRegion
  split
  · exact ⟨_, rfl⟩
  · cases hstd : stdRowColIndices rs re cs ce R C ai false with
    | error e => exact ⟨e, rfl⟩
    | ok v =>
      obtain ⟨r0, r1, c0, c1⟩ := v
      obtain ⟨h1, h2, h3, h4⟩ := (request_accepted_iff rs re cs ce R C ai r0 r1 c0 c1).mp hstd
      rcases h with h | h | h | h <;> simp_all

/-- A request with `start > end` on an axis is refused (numpy refuses the negative output shape, or the
missing-frame test fails first). -/
theorem region_refused_inverted {α} (z : α) (lut : List LutRow) (frames : List (Img α)) (R C th tw : Int) (chan : Option Int)
    (rs re cs ce : Option Int) (ai full am : Bool) (r0 r1 c0 c1 : Int)
    (hstd : stdRowColIndices rs re cs ce R C ai false = .ok (r0, r1, c0, c1)) (h : r1 < r0 ∨ c1 < c0) :
    ∃ e, readRegion z lut frames R C th tw chan rs re cs ce ai full am = .error e := by
  unfold readRegion
  rw [hstd]
  simp only [expectedCount_eq]
  split
  · exact ⟨_, rfl⟩
  · split
    · exact ⟨_, rfl⟩
    · rw [if_pos (by omega)]
      exact ⟨_, rfl⟩

/-! ## Region assembly -/

/-- **`region_assembly`.**  For every matrix `M` of every size `R × C`, every tile size `th, tw ≥ 1` (dividing
or not), every table holding exactly the tiles of the row-major grid **in any frame order**
(`IsGridTable`), whose frames were cut from `M` (`TableCutFrom`; the padding of edge tiles is arbitrary),
every organisation (`full`: positions implied by frame order / explicit) and every accepted request with
`start ≤ end`:  the array assembled from the selected tiles with the translated slice bounds is
`M[r0-1 : r1-1, c0-1 : c1-1]`. -/
theorem region_assembly {α} (z : α) (M : Img α) (lut : List LutRow) (frames : List (Img α)) (R C th tw : Int)
    (ht : 1 ≤ th) (hw : 1 ≤ tw) (hg : IsGridTable R C th tw lut) (hcut : TableCutFrom M R C th tw lut frames)
    (rs re cs ce : Option Int) (ai full am : Bool) (r0 r1 c0 c1 : Int)
    (h1 : normStart rs R ai = some r0) (h2 : normEnd re R ai = some r1)
    (h3 : normStart cs C ai = some c0) (h4 : normEnd ce C ai = some c1) (hr : r0 ≤ r1) (hc : c0 ≤ c1) :
    ∃ out, readRegion z lut frames R C th tw none rs re cs ce ai full am = .ok (r1 - r0, c1 - c0, out) ∧
      ∀ i j, 0 ≤ i → i < r1 - r0 → 0 ≤ j → j < c1 - c0 → out i j = M (r0 - 1 + i) (c0 - 1 + j) :=
  readRegion_grid z M lut frames R C th tw ht hw hg hcut rs re cs ce ai full am r0 r1 c0 c1
    ((request_accepted_iff rs re cs ce R C ai r0 r1 c0 c1).mpr ⟨h1, h2, h3, h4⟩) hr hc

/-- **Every output pixel is written exactly once**: the instruction list exists and, for each pixel of the
output, exactly one instruction's output slice contains it (so the order of the copies is irrelevant and
no pixel is left at its initial zero). -/
theorem region_written_exactly_once (lut : List LutRow) (R C th tw : Int) (ht : 1 ≤ th) (hw : 1 ≤ tw)
    (hg : IsGridTable R C th tw lut) (rs re cs ce : Option Int) (ai : Bool) (r0 r1 c0 c1 : Int)
    (hstd : stdRowColIndices rs re cs ce R C ai false = .ok (r0, r1, c0, c1)) (hr : r0 ≤ r1) (hc : c0 ≤ c1) :
    ∃ instrs, regionInstrs lut r0 r1 c0 c1 th tw = .ok instrs ∧
      ∀ i j, 0 ≤ i → i < r1 - r0 → 0 ≤ j → j < c1 - c0 →
        (instrs.filter (fun ins => decide (writes ins i j))).length = 1 := by
  obtain ⟨g1, _, _, g4, g5, _, _, g8⟩ := stdRowCol_range_num hstd
  exact region_written_once lut R C th tw ht hw hg r0 r1 c0 c1 g1 g4 g5 g8 hr hc

/-- The two slices of every selected tile lie inside the frame and inside the output and have equal shapes
(so numpy neither wraps, clamps nor broadcasts), for every tile position — on the grid or not. -/
theorem slices_in_bounds_equal_shape (r0 r1 c0 c1 th tw : Int) (ht : 1 ≤ th) (hw : 1 ≤ tw) (hr : r0 ≤ r1) (hc : c0 ≤ c1)
    (r : LutRow) (hsel : selected r0 r1 c0 c1 th tw r = true) :
    ∃ ins, instrOf r0 r1 c0 c1 th tw r = .ok ins ∧
      0 ≤ ins.a0 ∧ ins.a0 ≤ ins.a1 ∧ ins.a1 ≤ th ∧ 0 ≤ ins.b0 ∧ ins.b0 ≤ ins.b1 ∧ ins.b1 ≤ tw ∧
      0 ≤ ins.o0 ∧ ins.o0 ≤ ins.o1 ∧ ins.o1 ≤ r1 - r0 ∧ 0 ≤ ins.p0 ∧ ins.p0 ≤ ins.p1 ∧ ins.p1 ≤ c1 - c0 ∧
      ins.a1 - ins.a0 = ins.o1 - ins.o0 ∧ ins.b1 - ins.b0 = ins.p1 - ins.p0 := by
  rw [selected_iff] at hsel
  obtain ⟨s1, s2, s3, s4⟩ := hsel
  refine ⟨_, instrOf_eq r0 r1 c0 c1 th tw r, ?_⟩
  have ha := axis_slices r0 r1 r.rp th ht hr s1 s2
  have hb := axis_slices c0 c1 r.cp tw hw hc s3 s4
  simp only
  omega

/-! ## Selection -/

/-- **`selected_tiles_exact`**: for a non-empty region, a table row is selected iff its tile intersects the
region (no tile that contributes is missed, no tile outside is fetched). -/
theorem selected_tiles_exact (r0 r1 c0 c1 th tw : Int) (ht : 1 ≤ th) (hw : 1 ≤ tw) (hr : r0 < r1) (hc : c0 < c1) (r : LutRow) :
    selected r0 r1 c0 c1 th tw r = true ↔
      ((∃ g, r0 ≤ g ∧ g < r1 ∧ r.rp ≤ g ∧ g < r.rp + th) ∧ (∃ g, c0 ≤ g ∧ g < c1 ∧ r.cp ≤ g ∧ g < r.cp + tw)) := by
  rw [selected_iff]
  constructor
  · rintro ⟨s1, s2, s3, s4⟩
    exact ⟨⟨max r0 r.rp, by omega, by omega, by omega, by omega⟩, ⟨max c0 r.cp, by omega, by omega, by omega, by omega⟩⟩
  · rintro ⟨⟨g, _, _, _, _⟩, ⟨g', _, _, _, _⟩⟩
    omega

/-- **The missing-frame test is exact**: for a table holding exactly the grid, the number of selected rows
equals `v_frames * h_frames` as computed by the code — a complete image is never reported as incomplete. -/
theorem tile_count_exact (lut : List LutRow) (R C th tw : Int) (ht : 1 ≤ th) (hw : 1 ≤ tw) (hg : IsGridTable R C th tw lut)
    (rs re cs ce : Option Int) (ai : Bool) (r0 r1 c0 c1 : Int)
    (hstd : stdRowColIndices rs re cs ce R C ai false = .ok (r0, r1, c0, c1)) (hr : r0 ≤ r1) (hc : c0 ≤ c1) :
    expectedCount r0 r1 c0 c1 th tw = .ok ((lut.filter (selected r0 r1 c0 c1 th tw)).length : Int) := by
  obtain ⟨g1, g2, _, g4, g5, g6, _, g8⟩ := stdRowCol_range_num hstd
  rw [expectedCount_eq, selected_count R C th tw ht hw lut hg r0 r1 c0 c1 g1 g2 hr g4 g5 g6 hc g8]

/-! ## Non-vacuity: a 5 × 4 matrix in 2 × 3 tiles (neither size divides), frames stored in a permuted order -/

/-- matrix `M i j = 10 i + j`, tiles holding junk `-1` in their padding -/
def exM : Img Int := fun i j => 10 * i + j
def exFrame (rp cp : Int) : Img Int := fun a b => if rp - 1 + a < 5 ∧ cp - 1 + b < 4 then 10 * (rp - 1 + a) + (cp - 1 + b) else -1
def exLut : List LutRow := [⟨3, 4, 0, 0⟩, ⟨1, 1, 1, 0⟩, ⟨5, 1, 2, 0⟩, ⟨1, 4, 3, 0⟩, ⟨5, 4, 4, 0⟩, ⟨3, 1, 5, 0⟩]
def exFrames : List (Img Int) := [exFrame 3 4, exFrame 1 1, exFrame 5 1, exFrame 1 4, exFrame 5 4, exFrame 3 1]

theorem exGrid : IsGridTable 5 4 2 3 exLut := by unfold IsGridTable; decide
theorem exCut : TableCutFrom exM 5 4 2 3 exLut exFrames := by
  intro r hr
  simp only [exLut, List.mem_cons, List.not_mem_nil, or_false] at hr
  rcases hr with rfl | rfl | rfl | rfl | rfl | rfl <;>
    exact ⟨_, rfl, fun a b _ _ _ _ h1 h2 => by simp only [exFrame, exM]; rw [if_pos ⟨by omega, by omega⟩]⟩
/-- rows 2..4, columns 2..4 requested as `row_start = -4, row_end = 4` (0-based, negative start),
`column_start = 1, column_end = None`: the hypotheses of `region_assembly` are met and the read returns the
3 × 3 block starting at `M 1 1 = 11` (TILED_SPARSE with the missing-frame test active) -/
example : stdRowColIndices (some (-4)) (some 4) (some 1) none 5 4 true false = .ok (2, 5, 2, 5) := by decide
example : ∃ out, readRegion (0 : Int) exLut exFrames 5 4 2 3 none (some (-4)) (some 4) (some 1) none true false false = .ok (3, 3, out) ∧
    out 0 0 = 11 ∧ out 1 2 = 23 ∧ out 2 2 = 33 := by
  obtain ⟨out, h, hp⟩ := region_assembly (0 : Int) exM exLut exFrames 5 4 2 3 (by decide) (by decide) exGrid exCut
    (some (-4)) (some 4) (some 1) none true false false 2 5 2 5 (by decide) (by decide) (by decide) (by decide) (by decide) (by decide)
  refine ⟨out, h, ?_, ?_, ?_⟩
  · rw [hp 0 0 (by decide) (by decide) (by decide) (by decide)]; rfl
  · rw [hp 1 2 (by decide) (by decide) (by decide) (by decide)]; rfl
  · rw [hp 2 2 (by decide) (by decide) (by decide) (by decide)]; rfl
example : ∃ e, readRegion (0 : Int) exLut exFrames 5 4 2 3 none (some (-6)) none none none true false false = .error e :=
  region_refused_outside 0 exLut exFrames 5 4 2 3 none (some (-6)) none none none true false false (Or.inl (by decide))

end HdVerif.C04
