import HdVerif.Proofs.SRItems
import HdVerif.Proofs.SRItemsTie
import HdVerif.Proofs.SRItemsDispatch
import HdVerif.Proofs.SRItemsArgs
/-! # C13  SR content items keep their values and parse back to the same type

Property theorems only.  They are about `Model/SRItems.lean`, whose parsing side runs on the tables and
guards REGENERATED from `sr/value_types.py` and `sr/enum.py` (`HdVerif.Gen.srRequiredAttrs`, `srDispatch`,
`srFromDatasetAsserts`, `srCtorValueType`, `c13OptionalNameClasses`, `srAssertHead`, `srAssertAttr`,
`srBaseGuards`, `srCheckDatasetRel`, `scoordCheck`, `scoord3dCheck`, the enumerations): a missing table row,
a wrong asserted value type or a changed count rule breaks these proofs.

`Built it`: `it` was produced by one of the 15 public constructors, possibly with nested content assigned
through the `ContentSequence` attribute (to any depth). -/
namespace HdVerif.C13
open HdVerif HdVerif.SRItems HdVerif.SRItemsLemmas HdVerif.SRItemsArgs

/-! ## parse ∘ serialise = id -/

/-- **Round trip (class dispatch)**: every item any constructor can build, with nested content of any depth,
serialised to a plain data set and parsed by `ContentItem._from_dataset_derived` /
`ContentSequence.from_sequence`, is the same item again: same class, same attributes (hence equal name,
relationship type and value under every accessor), same children, recursively. -/
theorem parse_serialise {it : Item} (h : Built it) : parse (serialise it) = .ok it :=
  parse_serialise_wf it h.wf

/-- RESTATEMENT of `parse_serialise` in the property's wording (adds nothing: the parsed item IS the item, so class,
name, relationship type, value under every accessor and nested content coincide). -/
theorem parsed_item_equal {it : Item} (h : Built it) :
    ∃ back, parse (serialise it) = .ok back ∧ back.cls = it.cls ∧ nameOf back = nameOf it ∧ relOf back = relOf it ∧
      back.attrs = it.attrs ∧ back.content = it.content ∧
      numValue back = numValue it ∧ scoordValue back = scoordValue it ∧ scoord3dValue back = scoord3dValue it ∧
      tcoordValue back = tcoordValue it ∧ imageFrames back = imageFrames it ∧ waveformChannels back = waveformChannels it :=
  ⟨it, parse_serialise h, rfl, rfl, rfl, rfl, rfl, rfl, rfl, rfl, rfl, rfl, rfl⟩

/-- **Round trip (per-class entry point)**: `<Class>.from_dataset` of the item's own class gives the item back. -/
theorem parse_serialise_own_class {it : Item} (h : Built it) : parseAs it.cls (serialise it) = .ok it := by
  have hp := parse_serialise h
  cases it with
  | mk cls attrs content =>
    have hw := h.wf
    unfold wf at hw
    simp only [Bool.and_eq_true] at hw
    have hc := classifyAs_of_classify (beq_except_eq hw.1)
    simp only [Item.cls]
    cases content with
    | none => simp [serialise, parseAs, hc]
    | some l =>
      have hl := parseList_serialiseList_wf l hw.2
      have hk := wfList_ctorAll l hw.2
      simp [serialise, parseAs, hc, hl, hk]

/-- **Round trip through `ContentSequence.from_sequence([ds], is_root, is_sr)`** — `_check_dataset`, the parse, and
the guards of the `ContentSequence` constructor the call ends in (`Gen.csCtorCheck`, regenerated): the item comes
back exactly when the flags fit it — a non-root SR sequence for an item WITH relationship type, a non-SR sequence for
an item WITHOUT, the root sequence for a container without. -/
theorem parse_serialise_in_sequence {it : Item} (h : Built it) (isRoot isSr : Bool)
    (hr : (isRoot = false ∧ isSr = true ∧ has "RelationshipType" it.attrs = true) ∨
          (isRoot = false ∧ isSr = false ∧ has "RelationshipType" it.attrs = false) ∨
          (isRoot = true ∧ isSr = true ∧ has "RelationshipType" it.attrs = false ∧ it.cls = .container)) :
    parseTop (serialise it) isRoot isSr = .ok it := by
  unfold parseTop
  rw [serialise_attrs, parse_serialise h]
  have hw := h.wf
  have hv' := h.relValid
  cases it with
  | mk cls attrs content =>
    unfold wf at hw
    simp only [Bool.and_eq_true] at hw
    obtain ⟨vt, hv, hn⟩ := classify_vt (beq_except_eq hw.1)
    simp only [Item.attrs, Item.cls] at hr hv' ⊢
    unfold checkDataset ctorItem
    simp only [hv, enumHas_of_enumName hn, Bool.not_true, Bool.false_eq_true, ↓reduceIte, Item.attrs, hv', Item.cls]
    rcases hr with ⟨h1, h2, h3⟩ | ⟨h1, h2, h3⟩ | ⟨h1, h2, h3, h4⟩
    · subst h1; subst h2; simp only [h3, checkRel_ok, ctorCheck_child_ok]
    · subst h1; subst h2; simp only [h3, checkRel_nonSr, ctorCheck_nonsr_ok]
    · subst h1; subst h2; subst h4
      have : Gen.srCheckDatasetRel false true true = .ok true := by decide
      simp only [h3, this, beq_self_eq_true, ctorCheck_root_ok]

/-- … and it is REFUSED when they do not: relationship type in a non-SR sequence (AttributeError from the
constructor at the end of `from_sequence`), none in a non-root SR sequence, relationship type or a non-container at
the root. -/
theorem parse_in_sequence_refused {it : Item} (h : Built it) (isRoot isSr : Bool)
    (hr : (isRoot = false ∧ isSr = false ∧ has "RelationshipType" it.attrs = true) ∨
          (isRoot = false ∧ isSr = true ∧ has "RelationshipType" it.attrs = false) ∨
          (isRoot = true ∧ isSr = true ∧ has "RelationshipType" it.attrs = true) ∨
          (isRoot = true ∧ isSr = true ∧ has "RelationshipType" it.attrs = false ∧ it.cls ≠ .container)) :
    ∃ e, parseTop (serialise it) isRoot isSr = .error e := by
  unfold parseTop
  rw [serialise_attrs, parse_serialise h]
  have hw := h.wf
  have hv' := h.relValid
  cases it with
  | mk cls attrs content =>
    unfold wf at hw
    simp only [Bool.and_eq_true] at hw
    obtain ⟨vt, hv, hn⟩ := classify_vt (beq_except_eq hw.1)
    simp only [Item.attrs, Item.cls] at hr hv' ⊢
    unfold checkDataset ctorItem
    simp only [hv, enumHas_of_enumName hn, Bool.not_true, Bool.false_eq_true, ↓reduceIte, Item.attrs, hv', Item.cls]
    rcases hr with ⟨h1, h2, h3⟩ | ⟨h1, h2, h3⟩ | ⟨h1, h2, h3⟩ | ⟨h1, h2, h3, h4⟩
    · subst h1; subst h2; simp only [h3, checkRel_nonSr, ctorCheck_nonsr_rel]; exact ⟨_, rfl⟩
    · subst h1; subst h2; simp only [h3, checkRel_missing]; exact ⟨_, rfl⟩
    · subst h1; subst h2
      have : Gen.srCheckDatasetRel true true true = .ok true := by decide
      simp only [h3, this, ctorCheck_root_rel]; exact ⟨_, rfl⟩
    · subst h1; subst h2
      have : Gen.srCheckDatasetRel false true true = .ok true := by decide
      have hc : (cls == Cls.container) = false := by simpa using h4
      simp only [h3, this, hc, ctorCheck_root_noncontainer]; exact ⟨_, rfl⟩

/-- **A relationship type outside the enumeration is refused on parsing** (`RelationshipTypeValues('FOO')` raises in the
constructor guards), at the top and for a nested item. -/
theorem unknown_relationship_type_refused_on_parsing (it : Item) (isRoot isSr : Bool) (hv : relValid it.attrs = false) :
    ctorItem isRoot isSr it = .error .value ∧ (∀ r, ctorAll isRoot isSr (it :: r) = .error .value) ∧
    (∀ d, parse d = .ok it → ∀ e, checkDataset d.attrs isRoot isSr = .ok e → parseTop d isRoot isSr = .error .value) := by
  have h1 : ctorItem isRoot isSr it = .error .value := by unfold ctorItem; simp [hv]
  refine ⟨h1, fun r => by simp [ctorAll, h1], ?_⟩
  intro d hp e hc
  unfold parseTop
  simp only [hc, hp, h1]

/-- **Every value type has a class and a required-attribute row** that agree with each other, with the value
type the class's `from_dataset` asserts and with the one its constructor writes (over the regenerated tables). -/
theorem dispatch_total : ∀ p ∈ Gen.c13ValueTypes, ∃ cls req, TableOk cls p.1 p.2 req := by
  intro p hp
  simp only [Gen.c13ValueTypes, List.mem_cons, List.mem_nil_iff, or_false] at hp
  rcases hp with rfl | rfl | rfl | rfl | rfl | rfl | rfl | rfl | rfl | rfl | rfl | rfl | rfl | rfl | rfl
  · exact ⟨_, _, tableOk_code⟩
  · exact ⟨_, _, tableOk_composite⟩
  · exact ⟨_, _, tableOk_container⟩
  · exact ⟨_, _, tableOk_date⟩
  · exact ⟨_, _, tableOk_datetime⟩
  · exact ⟨_, _, tableOk_image⟩
  · exact ⟨_, _, tableOk_num⟩
  · exact ⟨_, _, tableOk_pname⟩
  · exact ⟨_, _, tableOk_scoord⟩
  · exact ⟨_, _, tableOk_scoord3d⟩
  · exact ⟨_, _, tableOk_tcoord⟩
  · exact ⟨_, _, tableOk_text⟩
  · exact ⟨_, _, tableOk_time⟩
  · exact ⟨_, _, tableOk_uidref⟩
  · exact ⟨_, _, tableOk_waveform⟩

/-- and conversely every one of the 15 classes has a value type that dispatches to it (with consistent rows) -/
theorem every_class_dispatched : ∀ c ∈ Cls.all, ∃ vtName vt req, TableOk c vtName vt req := by
  intro c _
  cases c
  · exact ⟨_, _, _, tableOk_code⟩
  · exact ⟨_, _, _, tableOk_composite⟩
  · exact ⟨_, _, _, tableOk_container⟩
  · exact ⟨_, _, _, tableOk_date⟩
  · exact ⟨_, _, _, tableOk_datetime⟩
  · exact ⟨_, _, _, tableOk_image⟩
  · exact ⟨_, _, _, tableOk_num⟩
  · exact ⟨_, _, _, tableOk_pname⟩
  · exact ⟨_, _, _, tableOk_scoord⟩
  · exact ⟨_, _, _, tableOk_scoord3d⟩
  · exact ⟨_, _, _, tableOk_tcoord⟩
  · exact ⟨_, _, _, tableOk_text⟩
  · exact ⟨_, _, _, tableOk_time⟩
  · exact ⟨_, _, _, tableOk_uidref⟩
  · exact ⟨_, _, _, tableOk_waveform⟩

/-! ## the constructor and accessor halves of the model against the keyword tables regenerated from source (`T13k`)

`Gen.srCtorWritesTop` / `srCtorWritesNested`: every attribute each `__init__` writes (and whether on every path);
`Gen.srAccessorReads`: every attribute each property reads. -/

/-- **Table level, source only**: what `_assert_value_type` requires of a value type, the constructor of the class
it dispatches to always writes; and every attribute a property reads is one its class's constructor writes
(`referenced_waveform_channels` reading `ReferencedFrameNumber` would fail here). -/
theorem source_tables_consistent :
    Gen.srRequiredAttrs.all (fun r =>
      match Gen.srDispatch.lookup r.1 with
      | none => false
      | some c => r.2.all (fun k => Gen.srCtorWritesTop.any (fun w => w.1 == c && w.2.1 == k && w.2.2))) = true ∧
    Gen.srAccessorReads.all (fun a =>
      a.2.2.all (fun k =>
        Gen.srCtorWritesTop.any (fun w => (w.1 == a.1 || w.1 == "ContentItem") && w.2.1 == k) ||
        Gen.srCtorWritesNested.any (fun w => w.1 == a.1 && w.2.2.1 == k))) = true :=
  ⟨required_subset_written, reads_subset_writes⟩

/-- **The model's constructors write what the source's constructors write**: for every built item the keys of its
attribute set contain every keyword the regenerated table marks "always" for its class (base class included) and
nothing the table does not list. -/
theorem constructors_write_regenerated_keys {it : Item} (h : Built it) : writesOkB it.cls (keysOf it) = true :=
  h.writes

/-- **The round trip over the regenerated tables**: its premise — the attributes the parser demands are present —
follows from the two regenerated tables and the previous theorem alone; hence `parse (serialise it) = .ok it`. -/
theorem roundtrip_from_tables {it : Item} (h : Built it) {vtName vt : String} {req : List String}
    (T : TableOk it.cls vtName vt req) : (∀ k ∈ req, has k it.attrs = true) ∧ parse (serialise it) = .ok it :=
  ⟨required_present_of_tables h T, parse_serialise h⟩

/-- **The model's accessors read at most what the source's properties read**: each depends on nothing but the
attributes of the item that the regenerated table lists for the property (two items agreeing on those give the same
answer) … -/
theorem accessors_read_regenerated_attributes (it it' : Item) :
    (SameOn (readKeys "ContentItem" "name") it it' → nameOf it = nameOf it') ∧
    (SameOn (readKeys "ContentItem" "relationship_type") it it' → relOf it = relOf it') ∧
    (SameOn (readKeys "CodeContentItem" "value") it it' → codeValue it = codeValue it') ∧
    (SameOn (readKeys "TextContentItem" "value") it it' → strValue "TextValue" it = strValue "TextValue" it') ∧
    (SameOn (readKeys "PnameContentItem" "value") it it' → strValue "PersonName" it = strValue "PersonName" it') ∧
    (SameOn (readKeys "DateContentItem" "value") it it' → strValue "Date" it = strValue "Date" it') ∧
    (SameOn (readKeys "TimeContentItem" "value") it it' → strValue "Time" it = strValue "Time" it') ∧
    (SameOn (readKeys "DateTimeContentItem" "value") it it' → strValue "DateTime" it = strValue "DateTime" it') ∧
    (SameOn (readKeys "UIDRefContentItem" "value") it it' → strValue "UID" it = strValue "UID" it') ∧
    (SameOn (readKeys "NumContentItem" "value") it it' → numValue it = numValue it') ∧
    (SameOn (readKeys "NumContentItem" "unit") it it' → numUnit it = numUnit it') ∧
    (SameOn (readKeys "NumContentItem" "qualifier") it it' → numQualifier it = numQualifier it') ∧
    (SameOn (readKeys "ContainerContentItem" "template_id") it it' → containerTemplate it = containerTemplate it') ∧
    (SameOn (readKeys "CompositeContentItem" "value") it it' → refValue it = refValue it') ∧
    (SameOn (readKeys "ImageContentItem" "value") it it' → refValue it = refValue it') ∧
    (SameOn (readKeys "WaveformContentItem" "value") it it' → refValue it = refValue it') ∧
    (SameOn (readKeys "ImageContentItem" "referenced_frame_numbers") it it' → imageFrames it = imageFrames it') ∧
    (SameOn (readKeys "ImageContentItem" "referenced_segment_numbers") it it' → imageSegments it = imageSegments it') ∧
    (SameOn (readKeys "WaveformContentItem" "referenced_waveform_channels") it it' → waveformChannels it = waveformChannels it') ∧
    (SameOn (readKeys "ScoordContentItem" "value") it it' → scoordValue it = scoordValue it') ∧
    (SameOn (readKeys "ScoordContentItem" "graphic_type") it it' → strValue "GraphicType" it = strValue "GraphicType" it') ∧
    (SameOn (readKeys "Scoord3DContentItem" "value") it it' → scoord3dValue it = scoord3dValue it') ∧
    (SameOn (readKeys "Scoord3DContentItem" "graphic_type") it it' → strValue "GraphicType" it = strValue "GraphicType" it') ∧
    (SameOn (readKeys "Scoord3DContentItem" "frame_of_reference_uid") it it' →
      strValue "ReferencedFrameOfReferenceUID" it = strValue "ReferencedFrameOfReferenceUID" it') ∧
    (SameOn (readKeys "TcoordContentItem" "value") it it' → tcoordValue it = tcoordValue it') ∧
    (SameOn (readKeys "TcoordContentItem" "temporal_range_type") it it' →
      strValue "TemporalRangeType" it = strValue "TemporalRangeType" it') :=
  accessors_read_regenerated_keys it it'

/-- … and inside the one-item sequences (`MeasuredValueSequence`, `ContentTemplateSequence`,
`ReferencedSOPSequence`), which the model keeps as structured values, the fields are the nested keywords the
source writes and reads. -/
theorem nested_keywords_fingerprint :
    (nestedReadKeys "NumContentItem" "value" = ["FloatingPointValue", "NumericValue"] ∧
     nestedReadKeys "NumContentItem" "unit" = ["MeasurementUnitsCodeSequence"] ∧
     nestedReadKeys "ContainerContentItem" "template_id" = ["TemplateIdentifier"] ∧
     nestedReadKeys "CompositeContentItem" "value" = ["ReferencedSOPClassUID", "ReferencedSOPInstanceUID"] ∧
     nestedReadKeys "ImageContentItem" "value" = ["ReferencedSOPClassUID", "ReferencedSOPInstanceUID"] ∧
     nestedReadKeys "WaveformContentItem" "value" = ["ReferencedSOPClassUID", "ReferencedSOPInstanceUID"] ∧
     nestedReadKeys "ImageContentItem" "referenced_frame_numbers" = ["ReferencedFrameNumber"] ∧
     nestedReadKeys "ImageContentItem" "referenced_segment_numbers" = ["ReferencedSegmentNumber"] ∧
     nestedReadKeys "WaveformContentItem" "referenced_waveform_channels" = ["ReferencedWaveformChannels"]) ∧
    Gen.srCtorWritesNested.map (fun w => (w.1, w.2.1, w.2.2.1)) =
      [("NumContentItem", "MeasuredValueSequence", "NumericValue"),
       ("NumContentItem", "MeasuredValueSequence", "FloatingPointValue"),
       ("NumContentItem", "MeasuredValueSequence", "MeasurementUnitsCodeSequence"),
       ("ContainerContentItem", "ContentTemplateSequence", "MappingResource"),
       ("ContainerContentItem", "ContentTemplateSequence", "TemplateIdentifier"),
       ("CompositeContentItem", "ReferencedSOPSequence", "ReferencedSOPClassUID"),
       ("CompositeContentItem", "ReferencedSOPSequence", "ReferencedSOPInstanceUID"),
       ("ImageContentItem", "ReferencedSOPSequence", "ReferencedSOPClassUID"),
       ("ImageContentItem", "ReferencedSOPSequence", "ReferencedSOPInstanceUID"),
       ("ImageContentItem", "ReferencedSOPSequence", "ReferencedFrameNumber"),
       ("ImageContentItem", "ReferencedSOPSequence", "ReferencedSegmentNumber"),
       ("WaveformContentItem", "ReferencedSOPSequence", "ReferencedSOPClassUID"),
       ("WaveformContentItem", "ReferencedSOPSequence", "ReferencedSOPInstanceUID"),
       ("WaveformContentItem", "ReferencedSOPSequence", "ReferencedWaveformChannels")] :=
  ⟨nested_reads_fingerprint, by rw [nested_writes_fingerprint]; rfl⟩

/-! ## the accessors report what the constructor was given -/

/-- name and relationship type, for every constructor that goes through `ContentItem.__init__` only -/
theorem accessor_name_relationship {cls : Cls} {vtName vt : String} {req : List String} (T : TableOk cls vtName vt req)
    (name : Coded) (rel : Option String) (extra : Attrs) (it : Item) (h : withAttrs cls name rel extra = .ok it)
    (he : extra.lookup "RelationshipType" = none) : nameOf it = some name ∧ relOf it = rel := by
  rw [withAttrs_shape T name rel extra it h]
  exact shape_name_rel cls vt name rel extra he

/-- CODE, TEXT, PNAME, DATE, TIME, DATETIME, UIDREF: the stored value is the given one -/
theorem accessor_scalar_types (name : Coded) (rel : Option String) (it : Item) :
    (∀ v, mkCode name v rel = .ok it → codeValue it = some v ∧ nameOf it = some name ∧ relOf it = rel) ∧
    (∀ v, mkText name v rel = .ok it → strValue "TextValue" it = some v ∧ nameOf it = some name ∧ relOf it = rel) ∧
    (∀ v, mkPname name v rel = .ok it → strValue "PersonName" it = some v ∧ nameOf it = some name ∧ relOf it = rel) ∧
    (∀ v, mkDate name v rel = .ok it → strValue "Date" it = some v ∧ nameOf it = some name ∧ relOf it = rel) ∧
    (∀ v, mkTime name v rel = .ok it → strValue "Time" it = some v ∧ nameOf it = some name ∧ relOf it = rel) ∧
    (∀ v, mkDateTime name v rel = .ok it → strValue "DateTime" it = some v ∧ nameOf it = some name ∧ relOf it = rel) ∧
    (∀ v, mkUidRef name v rel = .ok it → strValue "UID" it = some v ∧ nameOf it = some name ∧ relOf it = rel) := by
  refine ⟨?_, ?_, ?_, ?_, ?_, ?_, ?_⟩ <;> intro v h
  · refine ⟨?_, accessor_name_relationship tableOk_code name rel _ it h (by simp [List.lookup])⟩
    rw [withAttrs_shape tableOk_code name rel _ it h]
    simp only [codeValue, Item.attrs, lookup_extra _ name rel _ "ConceptCodeSequence" (by decide)]
    simp [List.lookup]
  · refine ⟨?_, accessor_name_relationship tableOk_text name rel _ it h (by simp [List.lookup])⟩
    rw [withAttrs_shape tableOk_text name rel _ it h]
    simp only [strValue, Item.attrs, lookup_extra _ name rel _ "TextValue" (by decide)]
    simp [List.lookup]
  · refine ⟨?_, accessor_name_relationship tableOk_pname name rel _ it h (by simp [List.lookup])⟩
    rw [withAttrs_shape tableOk_pname name rel _ it h]
    simp only [strValue, Item.attrs, lookup_extra _ name rel _ "PersonName" (by decide)]
    simp [List.lookup]
  · refine ⟨?_, accessor_name_relationship tableOk_date name rel _ it h (by simp [List.lookup])⟩
    rw [withAttrs_shape tableOk_date name rel _ it h]
    simp only [strValue, Item.attrs, lookup_extra _ name rel _ "Date" (by decide)]
    simp [List.lookup]
  · refine ⟨?_, accessor_name_relationship tableOk_time name rel _ it h (by simp [List.lookup])⟩
    rw [withAttrs_shape tableOk_time name rel _ it h]
    simp only [strValue, Item.attrs, lookup_extra _ name rel _ "Time" (by decide)]
    simp [List.lookup]
  · refine ⟨?_, accessor_name_relationship tableOk_datetime name rel _ it h (by simp [List.lookup])⟩
    rw [withAttrs_shape tableOk_datetime name rel _ it h]
    simp only [strValue, Item.attrs, lookup_extra _ name rel _ "DateTime" (by decide)]
    simp [List.lookup]
  · refine ⟨?_, accessor_name_relationship tableOk_uidref name rel _ it h (by simp [List.lookup])⟩
    rw [withAttrs_shape tableOk_uidref name rel _ it h]
    simp only [strValue, Item.attrs, lookup_extra _ name rel _ "UID" (by decide)]
    simp [List.lookup]

/-- NUM: a float is reported exactly (through `FloatingPointValue`, whatever `DS(...)` does to the decimal
string); an int is reported as `DS(value)`, i.e. exactly whenever the decimal string holds it; unit and
qualifier are reported -/
theorem accessor_num (ds : Rat → Rat) (name : Coded) (v : Rat) (isFloat : Bool) (unit : Coded) (q : Option Coded)
    (rel : Option String) (it : Item) (h : mkNum ds name v isFloat unit q rel = .ok it) :
    numValue it = some (if isFloat then v else ds v) ∧ (ds v = v → numValue it = some v) ∧
    numUnit it = some unit ∧ numQualifier it = q ∧ nameOf it = some name ∧ relOf it = rel := by
  have hs := withAttrs_shape tableOk_num name rel _ it h
  have hnr := accessor_name_relationship tableOk_num name rel _ it h (by cases q <;> simp [List.lookup])
  have h1 : numValue it = some (if isFloat then v else ds v) := by
    rw [hs]
    simp only [numValue, Item.attrs, lookup_extra _ name rel _ "MeasuredValueSequence" (by decide)]
    cases isFloat <;> simp
  refine ⟨h1, ?_, ?_, ?_, hnr.1, hnr.2⟩
  · intro hd; rw [h1]; cases isFloat <;> simp [hd]
  · rw [hs]
    simp only [numUnit, Item.attrs, lookup_extra _ name rel _ "MeasuredValueSequence" (by decide)]
    simp
  · rw [hs]
    simp only [numQualifier, Item.attrs, lookup_extra _ name rel _ "NumericValueQualifierCodeSequence" (by decide)]
    cases q <;> simp [List.lookup]

/-- CONTAINER: continuity flag and template identifier -/
theorem accessor_container (name : Coded) (c : Bool) (t : Option String) (rel : Option String) (it : Item)
    (h : mkContainer name c t rel = .ok it) :
    strValue "ContinuityOfContent" it = some (if c then "CONTINUOUS" else "SEPARATE") ∧ containerTemplate it = t ∧
    nameOf it = some name ∧ relOf it = rel := by
  have hs := withAttrs_shape tableOk_container name rel _ it h
  have hnr := accessor_name_relationship tableOk_container name rel _ it h (by cases t <;> simp [List.lookup])
  rw [hs]
  refine ⟨?_, ?_, hs ▸ hnr.1, hs ▸ hnr.2⟩
  · simp only [strValue, Item.attrs, lookup_extra _ name rel _ "ContinuityOfContent" (by decide)]
    simp
  · simp only [containerTemplate, Item.attrs, lookup_extra _ name rel _ "ContentTemplateSequence" (by decide)]
    cases t <;> simp [List.lookup]

/-- COMPOSITE, IMAGE, WAVEFORM: the referenced UIDs; frame and segment numbers also when a single number is
stored as a bare value; the channel pairs back from the flat list -/
theorem accessor_references (name : Coded) (cu iu : String) (rel : Option String) (it : Item) :
    (mkComposite name cu iu rel = .ok it → refValue it = some (cu, iu) ∧ nameOf it = some name ∧ relOf it = rel) ∧
    (∀ f sg, mkImage name cu iu f sg rel = .ok it →
      refValue it = some (cu, iu) ∧ imageFrames it = f ∧ imageSegments it = sg ∧ nameOf it = some name ∧ relOf it = rel) ∧
    (∀ ch, mkWaveform name cu iu ch rel = .ok it →
      refValue it = some (cu, iu) ∧ waveformChannels it = ch ∧ nameOf it = some name ∧ relOf it = rel) := by
  refine ⟨?_, ?_, ?_⟩
  · intro h
    refine ⟨?_, accessor_name_relationship tableOk_composite name rel _ it h (by simp [List.lookup])⟩
    rw [withAttrs_shape tableOk_composite name rel _ it h]
    simp only [refValue, Item.attrs, lookup_extra _ name rel _ "ReferencedSOPSequence" (by decide)]
    simp [List.lookup]
  · intro f sg h
    have hnr := accessor_name_relationship tableOk_image name rel _ it h (by simp [List.lookup])
    refine ⟨?_, ?_, ?_, hnr⟩ <;> rw [withAttrs_shape tableOk_image name rel _ it h]
    · simp only [refValue, Item.attrs, lookup_extra _ name rel _ "ReferencedSOPSequence" (by decide)]
      simp [List.lookup]
    · simp only [imageFrames, Item.attrs, lookup_extra _ name rel _ "ReferencedSOPSequence" (by decide)]
      cases f <;> simp [List.lookup, asList_stored]
    · simp only [imageSegments, Item.attrs, lookup_extra _ name rel _ "ReferencedSOPSequence" (by decide)]
      cases sg <;> simp [List.lookup, asList_stored]
  · intro ch h
    have hnr := accessor_name_relationship tableOk_waveform name rel _ it h (by simp [List.lookup])
    refine ⟨?_, ?_, hnr⟩ <;> rw [withAttrs_shape tableOk_waveform name rel _ it h]
    · simp only [refValue, Item.attrs, lookup_extra _ name rel _ "ReferencedSOPSequence" (by decide)]
      simp [List.lookup]
    · simp only [waveformChannels, Item.attrs, lookup_extra _ name rel _ "ReferencedSOPSequence" (by decide)]
      cases ch <;> simp [List.lookup, pairUp_flattenPairs]

theorem map_rows_flatten (fl : Rat → Rat) (rows : List (List Rat)) :
    rows.flatten.map fl = (rows.map (List.map fl)).flatten := by
  induction rows with
  | nil => rfl
  | cons r rs ih => simp [ih]

/-- SCOORD: `np.array(GraphicData).reshape(-1, 2)` is the array the constructor was given with every coordinate cast
to the 32-bit float of value representation FL (`fl`; since 8825e21 the cast happens at construction) — hence the
given array itself whenever its coordinates are float32 numbers; any graphic type, any admissible number of points;
graphic type, name and relationship are reported -/
theorem accessor_scoord (fl : Rat → Rat) (name : Coded) (gt : String) (p : Points) (o f rel : Option String) (it : Item)
    (hrect : p.rect = true) (h : mkScoord fl name gt p o f rel = .ok it) :
    scoordValue it = some (p.rows.map (List.map fl)) ∧ ((∀ x, fl x = x) → scoordValue it = some p.rows) ∧
    strValue "GraphicType" it = some gt ∧ nameOf it = some name ∧ relOf it = rel := by
  obtain ⟨g, _, _, hc, _, e⟩ := mkScoord_ok_iff fl name gt p o f rel it h
  have hd : (p.d : Int) = 2 := ((scoordCheck_iff g _ _).mp hc).1
  have hd' : p.d = 2 := by exact_mod_cast hd
  have hrows : ∀ r ∈ p.rows.map (List.map fl), r.length = 2 := by
    intro r hr
    obtain ⟨r0, hr0, e0⟩ := List.mem_map.mp hr
    have := List.all_eq_true.mp hrect r0 hr0
    subst e0
    simpa [hd'] using this
  have h1 : scoordValue it = some (p.rows.map (List.map fl)) := by
    rw [e]
    simp only [scoordValue, graphicData, Item.attrs, lookup_extra _ name rel _ "GraphicData" (by decide)]
    have key := reshape_flatten 2 (by decide) _ hrows
    rw [← map_rows_flatten] at key
    have hl : ∀ tail : Attrs, List.lookup "GraphicData" ([("GraphicType", AVal.str gt),
        ("GraphicData", AVal.rats (List.map fl p.rows.flatten))] ++ tail) = some (.rats (List.map fl p.rows.flatten)) := by
      intro tail; simp [List.lookup]
    simp only [List.append_assoc, hl, Option.map_some, key]
  refine ⟨h1, ?_, ?_, ?_⟩
  · intro hid
    rw [h1]
    have : p.rows.map (List.map fl) = p.rows := by
      have hf : fl = id := funext hid
      simp [hf]
    rw [this]
  · rw [e]
    simp only [strValue, Item.attrs, lookup_extra _ name rel _ "GraphicType" (by decide)]
    simp [List.lookup]
  · rw [e]
    exact shape_name_rel _ _ name rel _ (by cases o <;> cases f <;> simp [List.lookup, optAttr])

/-- SCOORD3D: the same with `reshape(-1, 3)`, and the frame of reference -/
theorem accessor_scoord3d (fl : Rat → Rat) (name : Coded) (gt : String) (p : Points) (fo : String) (f rel : Option String) (it : Item)
    (hrect : p.rect = true) (h : mkScoord3d fl name gt p fo f rel = .ok it) :
    scoord3dValue it = some (p.rows.map (List.map fl)) ∧ ((∀ x, fl x = x) → scoord3dValue it = some p.rows) ∧
    strValue "GraphicType" it = some gt ∧
    strValue "ReferencedFrameOfReferenceUID" it = some fo ∧ nameOf it = some name ∧ relOf it = rel := by
  obtain ⟨g, _, _, hc, e⟩ := mkScoord3d_ok_iff fl name gt p fo f rel it h
  have hd : (p.d : Int) = 3 := ((scoord3dCheck_iff g _ _ _ _).mp hc).1
  have hd' : p.d = 3 := by exact_mod_cast hd
  have hrows : ∀ r ∈ p.rows.map (List.map fl), r.length = 3 := by
    intro r hr
    obtain ⟨r0, hr0, e0⟩ := List.mem_map.mp hr
    have := List.all_eq_true.mp hrect r0 hr0
    subst e0
    simpa [hd'] using this
  have h1 : scoord3dValue it = some (p.rows.map (List.map fl)) := by
    rw [e]
    simp only [scoord3dValue, graphicData, Item.attrs, lookup_extra _ name rel _ "GraphicData" (by decide)]
    have key := reshape_flatten 3 (by decide) _ hrows
    rw [← map_rows_flatten] at key
    have hl : ∀ tail : Attrs, List.lookup "GraphicData" ([("GraphicType", AVal.str gt),
        ("GraphicData", AVal.rats (List.map fl p.rows.flatten)), ("ReferencedFrameOfReferenceUID", AVal.str fo)] ++ tail)
          = some (.rats (List.map fl p.rows.flatten)) := by
      intro tail; simp [List.lookup]
    simp only [List.append_assoc, hl, Option.map_some, key]
  refine ⟨h1, ?_, ?_, ?_, ?_⟩
  · intro hid
    rw [h1]
    have hf : fl = id := funext hid
    simp [hf]
  · rw [e]
    simp only [strValue, Item.attrs, lookup_extra _ name rel _ "GraphicType" (by decide)]
    simp [List.lookup]
  · rw [e]
    simp only [strValue, Item.attrs, lookup_extra _ name rel _ "ReferencedFrameOfReferenceUID" (by decide)]
    simp [List.lookup]
  · rw [e]
    exact shape_name_rel _ _ name rel _ (by cases f <;> simp [List.lookup, optAttr])

/-- TCOORD: the list of time points is reported as a list of the same length — also a single one, which
pydicom stores as a bare value; offsets as `DS(v)` each -/
theorem accessor_tcoord (ds : Rat → Rat) (name : Coded) (rt : String) (t : TArg) (rel : Option String) (it : Item)
    (h : mkTcoord ds name rt (some t) rel = .ok it) :
    tcoordValue it = some (tcoordStored ds t) ∧ ((∀ x, ds x = x) → tcoordValue it = some t) ∧
    strValue "TemporalRangeType" it = some rt ∧ nameOf it = some name ∧ relOf it = rel := by
  obtain ⟨_, t', ht, e⟩ := mkTcoord_ok_iff ds name rt (some t) rel it h
  cases ht
  rw [e]
  have h1 : tcoordValue (.mk .tcoord ([("ValueType", .str "TCOORD"), ("ConceptNameCodeSequence", .code name)] ++ relPart rel ++
      tcoordAttrs ds rt t) none) = some (tcoordStored ds t) := by
    cases t <;>
      simp only [tcoordValue, Item.attrs, tcoordAttrs, tcoordStored,
        lookup_extra _ name rel _ "ReferencedSamplePositions" (by decide),
        lookup_extra _ name rel _ "ReferencedTimeOffsets" (by decide),
        lookup_extra _ name rel _ "ReferencedDateTime" (by decide)] <;>
      simp [List.lookup, asList_stored]
  refine ⟨h1, ?_, ?_, shape_name_rel _ _ name rel _ (by cases t <;> simp [List.lookup, tcoordAttrs])⟩
  · intro hd
    rw [h1]
    have hm : ∀ l : List Rat, l.map ds = l := fun l => by
      induction l with
      | nil => rfl
      | cons x r ih => simp [hd x, ih]
    cases t <;> simp [tcoordStored, hm]
  · cases t <;>
      simp only [strValue, Item.attrs, tcoordAttrs, lookup_extra _ name rel _ "TemporalRangeType" (by decide)] <;>
      simp [List.lookup]

/-! ## forbidden values are rejected -/

/-- **Coordinate counts, 2-D** (over the regenerated decision tree of `ScoordContentItem.__init__`): accepted iff
the rows are (column, row) pairs and POINT has exactly 1, CIRCLE exactly 2, ELLIPSE exactly 4 and any other
graphic type more than 1 of them — so 0 and 2 points for POINT, 1 and 3 for CIRCLE, 3 and 5 for ELLIPSE, 0 and 1
for MULTIPOINT / POLYLINE are all refused, and so is every array of another width. -/
theorem scoord_count_rule (g : String) (n d : Int) :
    (Gen.scoordCheck g n d = .ok true ↔ (d = 2 ∧ count2Ok g n)) ∧
    (¬ (d = 2 ∧ count2Ok g n) → Gen.scoordCheck g n d = .error .value) :=
  ⟨scoordCheck_iff g n d, scoordCheck_err g n d⟩

/-- the constructor refuses whatever the rule refuses (and unknown graphic types / pixel origin interpretations) -/
theorem scoord_rejects (fl : Rat → Rat) (name : Coded) (gt : String) (p : Points) (o f rel : Option String)
    (h : p.ndim ≠ 2 ∨ (∀ g, enumName Gen.c13GraphicTypes gt = some g → ¬ ((p.d : Int) = 2 ∧ count2Ok g p.rows.length)) ∨
         (∃ x, o = some x ∧ enumHas Gen.c13PixelOrigins x = false)) :
    ∀ it, mkScoord fl name gt p o f rel ≠ .ok it := by
  intro it hit
  obtain ⟨g, hg, hn, hc, ho, _⟩ := mkScoord_ok_iff fl name gt p o f rel it hit
  rcases h with h | h | ⟨x, hx, hf⟩
  · exact h hn
  · exact h g hg ((scoordCheck_iff g _ _).mp hc)
  · rw [ho x hx] at hf; cases hf

theorem scoord_rejects_count (fl : Rat → Rat) (name : Coded) (gt : String) (hgt : enumName Gen.c13GraphicTypes gt = some gt)
    (rows : List (List Rat)) (o f rel : Option String) (hbad : ¬ count2Ok gt rows.length) :
    ∀ it, mkScoord fl name gt ⟨2, rows, 2⟩ o f rel ≠ .ok it := by
  apply scoord_rejects
  right; left
  intro g hg
  rw [hgt] at hg
  cases hg
  exact fun hh => hbad hh.2

/-- boundary instances: one point too few / too many -/
theorem scoord_count_boundaries (fl : Rat → Rat) (name : Coded) (rows : List (List Rat)) (o f rel : Option String) :
    (rows.length ≠ 1 → ∀ it, mkScoord fl name "POINT" ⟨2, rows, 2⟩ o f rel ≠ .ok it) ∧
    (rows.length ≠ 2 → ∀ it, mkScoord fl name "CIRCLE" ⟨2, rows, 2⟩ o f rel ≠ .ok it) ∧
    (rows.length ≠ 4 → ∀ it, mkScoord fl name "ELLIPSE" ⟨2, rows, 2⟩ o f rel ≠ .ok it) ∧
    (rows.length ≤ 1 → ∀ it, mkScoord fl name "MULTIPOINT" ⟨2, rows, 2⟩ o f rel ≠ .ok it) ∧
    (rows.length ≤ 1 → ∀ it, mkScoord fl name "POLYLINE" ⟨2, rows, 2⟩ o f rel ≠ .ok it) := by
  refine ⟨?_, ?_, ?_, ?_, ?_⟩ <;> intro hn <;> apply scoord_rejects_count _ _ _ (by decide) <;>
    (simp [count2Ok]; omega)

/-- **Coordinate counts, closedness and coplanarity, 3-D** (over the regenerated decision tree of
`Scoord3DContentItem.__init__`): accepted iff (x, y, z) triplets, POINT 1 / ELLIPSE 4 / ELLIPSOID 6 / others more
than 1, a POLYGON closed, POLYGON and ELLIPSE coplanar. -/
theorem scoord3d_rule (g : String) (n d : Int) (closed cop : Bool) :
    (Gen.scoord3dCheck g n d closed cop = .ok true ↔
      (d = 3 ∧ count3Ok g n ∧ (g = "POLYGON" → closed = true) ∧ ((g = "POLYGON" ∨ g = "ELLIPSE") → cop = true))) ∧
    (¬ (d = 3 ∧ count3Ok g n ∧ (g = "POLYGON" → closed = true) ∧ ((g = "POLYGON" ∨ g = "ELLIPSE") → cop = true)) →
      Gen.scoord3dCheck g n d closed cop = .error .value) :=
  ⟨scoord3dCheck_iff g n d closed cop, scoord3dCheck_err g n d closed cop⟩

theorem scoord3d_rejects (fl : Rat → Rat) (name : Coded) (gt : String) (p : Points) (fo : String) (f rel : Option String)
    (h : ∀ g, enumName Gen.c13GraphicTypes3D gt = some g →
      ¬ ((p.d : Int) = 3 ∧ count3Ok g p.rows.length ∧ (g = "POLYGON" → firstEqLast p.rows = true) ∧
         ((g = "POLYGON" ∨ g = "ELLIPSE") → coplanar p.rows = true))) :
    ∀ it, mkScoord3d fl name gt p fo f rel ≠ .ok it := by
  intro it hit
  obtain ⟨g, hg, _, hc, _⟩ := mkScoord3d_ok_iff fl name gt p fo f rel it hit
  exact h g hg ((scoord3dCheck_iff g _ _ _ _).mp hc)

/-- **open polygons are refused** -/
theorem open_polygon_rejected (fl : Rat → Rat) (name : Coded) (rows : List (List Rat)) (fo : String) (f rel : Option String)
    (hopen : firstEqLast rows = false) : ∀ it, mkScoord3d fl name "POLYGON" ⟨3, rows, 2⟩ fo f rel ≠ .ok it := by
  apply scoord3d_rejects
  intro g hg
  have hg' : some "POLYGON" = some g := (by decide : enumName Gen.c13GraphicTypes3D "POLYGON" = some "POLYGON").symm.trans hg
  cases hg'
  intro hh
  have := hh.2.2.1 rfl
  simp only at this
  rw [hopen] at this
  cases this

/-- **non-coplanar polygons and ellipses are refused — by the MODEL's exact test**: four or more points, three of
which span a parallelepiped of non-zero volume with the first (exact rank condition over ℚ).  The library's
`are_points_coplanar` is an SVD with tolerance: it refuses when the largest deviation from the best plane exceeds
1e-5 and ACCEPTS smaller deviations (a polygon lifted by 3e-5 is accepted), so this theorem speaks for the library
only at deviations above the tolerance; the correspondence compares the two at ≥ 0.05 and at exactly 0. -/
theorem noncoplanar_rejected (fl : Rat → Rat) (name : Coded) (gt : String) (hgt : gt = "POLYGON" ∨ gt = "ELLIPSE") (p0 : List Rat)
    (rest : List (List Rat)) (fo : String) (f rel : Option String) (hlen : 4 ≤ (p0 :: rest).length)
    (a b c : List Rat) (ha : a ∈ p0 :: rest) (hb : b ∈ p0 :: rest) (hc : c ∈ p0 :: rest)
    (hdet : det3 (sub3 a p0) (sub3 b p0) (sub3 c p0) ≠ 0) :
    ∀ it, mkScoord3d fl name gt ⟨3, p0 :: rest, 2⟩ fo f rel ≠ .ok it := by
  apply scoord3d_rejects
  intro g hg
  have hcop := coplanar_false_of_det (p0 :: rest) p0 rest rfl hlen a b c ha hb hc hdet
  intro hh
  have hg2 : g = gt := by
    rcases hgt with rfl | rfl
    · exact (Option.some.inj ((by decide : enumName Gen.c13GraphicTypes3D "POLYGON" = some "POLYGON").symm.trans hg)).symm
    · exact (Option.some.inj ((by decide : enumName Gen.c13GraphicTypes3D "ELLIPSE" = some "ELLIPSE").symm.trans hg)).symm
  have := hh.2.2.2 (by rw [hg2]; exact hgt)
  simp only at this
  rw [hcop] at this
  cases this

/-- three or fewer points are always coplanar (a closed triangle is an admissible polygon) -/
theorem few_points_coplanar (rows : List (List Rat)) (h : rows.length < 4) : coplanar rows = true := coplanar_small rows h

/-- **unknown enumerated values are refused**: a relationship type outside the enumeration by ALL 15 constructors
(the 12 that only call `ContentItem.__init__` — any `withAttrs cls` with consistent table rows, instantiated for each —
and SCOORD, SCOORD3D, TCOORD); a temporal range type outside its enumeration and a TCOORD without time points -/
theorem enumerations_enforced (ds fl : Rat → Rat) (name : Coded) (rel : Option String) (r : String) (hr : rel = some r)
    (hbad : enumHas Gen.c13RelationshipTypes r = false) :
    (∀ {cls vtName vt req}, TableOk cls vtName vt req → ∀ extra it, withAttrs cls name rel extra ≠ .ok it) ∧
    (∀ v it, mkCode name v rel ≠ .ok it) ∧ (∀ v it, mkText name v rel ≠ .ok it) ∧ (∀ v it, mkPname name v rel ≠ .ok it) ∧
    (∀ v it, mkDate name v rel ≠ .ok it) ∧ (∀ v it, mkTime name v rel ≠ .ok it) ∧ (∀ v it, mkDateTime name v rel ≠ .ok it) ∧
    (∀ v it, mkUidRef name v rel ≠ .ok it) ∧ (∀ v f u q it, mkNum ds name v f u q rel ≠ .ok it) ∧
    (∀ c t it, mkContainer name c t rel ≠ .ok it) ∧ (∀ c i it, mkComposite name c i rel ≠ .ok it) ∧
    (∀ c i f sg it, mkImage name c i f sg rel ≠ .ok it) ∧ (∀ c i ch it, mkWaveform name c i ch rel ≠ .ok it) ∧
    (∀ gt p o f it, mkScoord fl name gt p o f rel ≠ .ok it) ∧ (∀ gt p fo f it, mkScoord3d fl name gt p fo f rel ≠ .ok it) ∧
    (∀ rt arg it, mkTcoord ds name rt arg rel ≠ .ok it) := by
  have hb : ∀ {cls vtName vt req}, TableOk cls vtName vt req → ∀ a, base cls name rel ≠ .ok a := by
    intro cls vtName vt req T a ha
    have := (base_ok T name rel a ha).2 r hr
    rw [hbad] at this; cases this
  have hw : ∀ {cls vtName vt req}, TableOk cls vtName vt req → ∀ extra it, withAttrs cls name rel extra ≠ .ok it := by
    intro cls vtName vt req T extra it h
    unfold withAttrs at h
    cases hx : base cls name rel with
    | error e => rw [hx] at h; cases h
    | ok a => exact hb T a hx
  refine ⟨hw, fun v => hw tableOk_code _, fun v => hw tableOk_text _, fun v => hw tableOk_pname _, fun v => hw tableOk_date _,
    fun v => hw tableOk_time _, fun v => hw tableOk_datetime _, fun v => hw tableOk_uidref _,
    fun v f u q => hw tableOk_num _, fun c t => hw tableOk_container _, fun c i => hw tableOk_composite _,
    fun c i f sg => hw tableOk_image _, fun c i ch => hw tableOk_waveform _, ?_, ?_, ?_⟩
  · intro gt p o f it h
    obtain ⟨a, ha⟩ := base_of_mkScoord h
    exact hb tableOk_scoord a ha
  · intro gt p fo f it h
    obtain ⟨a, ha⟩ := base_of_mkScoord3d h
    exact hb tableOk_scoord3d a ha
  · intro rt arg it h
    obtain ⟨a, ha⟩ := base_of_mkTcoord h
    exact hb tableOk_tcoord a ha

theorem tcoord_enumeration_and_time_points (ds : Rat → Rat) (name : Coded) (rt : String) (arg : Option TArg) (rel : Option String)
    (h : enumHas Gen.c13TemporalRangeTypes rt = false ∨ arg = none) : ∀ it, mkTcoord ds name rt arg rel ≠ .ok it := by
  intro it hit
  obtain ⟨hr, t, ht, _⟩ := mkTcoord_ok_iff ds name rt arg rel it hit
  rcases h with h | h
  · rw [hr] at h; cases h
  · rw [h] at ht; cases ht

/-- **a child without relationship type cannot be nested** (attribute setter; also one with a relationship type
outside the enumeration) **nor parsed** (`from_sequence`), at ANY position of the content: after any prefix of
children that parse, the list is refused at the offending one -/
theorem child_without_relationship_rejected (it : Item) (cs : List Item) (pre : List DS) (ps : List Item) (d : DS) (r : List DS)
    (vt : String) (hpre : parseList pre = .ok ps)
    (hvt : d.attrs.lookup "ValueType" = some (.str vt)) (hk : enumHas Gen.c13ValueTypes vt = true)
    (hr : has "RelationshipType" d.attrs = false) :
    ((∃ c ∈ cs, has "RelationshipType" c.attrs = false ∨ relValid c.attrs = false) → ∀ it', setContent it cs ≠ .ok it') ∧
    parseList (pre ++ d :: r) = .error .attribute ∧
    ∀ attrs cls attrs', classify attrs = .ok (cls, attrs') → parse (.mk attrs (some (pre ++ d :: r))) = .error .attribute := by
  have hp : parseList (pre ++ d :: r) = .error .attribute := by
    induction pre generalizing ps with
    | nil =>
      simp only [List.nil_append]
      unfold parseList
      simp only [checkDataset_noRel d.attrs vt hvt hk hr]
    | cons x xs ih =>
      simp only [List.cons_append]
      unfold parseList at hpre ⊢
      cases hc : checkDataset x.attrs false true with
      | error e => simp only [hc] at hpre; cases hpre
      | ok u =>
        simp only [hc] at hpre ⊢
        cases hx : parse x with
        | error e => simp only [hx] at hpre; cases hpre
        | ok i =>
          simp only [hx] at hpre ⊢
          cases hl : parseList xs with
          | error e => simp only [hl] at hpre; cases hpre
          | ok is => simp only [ih is hl]
  refine ⟨setContent_refuses it cs, hp, ?_⟩
  intro attrs cls attrs' hc
  unfold parse
  simp only [hc, hp]

/-- the ±1 boundaries in 3-D -/
theorem scoord3d_count_boundaries (fl : Rat → Rat) (name : Coded) (rows : List (List Rat)) (fo : String) (f rel : Option String) :
    (rows.length ≠ 1 → ∀ it, mkScoord3d fl name "POINT" ⟨3, rows, 2⟩ fo f rel ≠ .ok it) ∧
    (rows.length ≠ 4 → ∀ it, mkScoord3d fl name "ELLIPSE" ⟨3, rows, 2⟩ fo f rel ≠ .ok it) ∧
    (rows.length ≠ 6 → ∀ it, mkScoord3d fl name "ELLIPSOID" ⟨3, rows, 2⟩ fo f rel ≠ .ok it) ∧
    (rows.length ≤ 1 → ∀ it, mkScoord3d fl name "MULTIPOINT" ⟨3, rows, 2⟩ fo f rel ≠ .ok it) ∧
    (rows.length ≤ 1 → ∀ it, mkScoord3d fl name "POLYLINE" ⟨3, rows, 2⟩ fo f rel ≠ .ok it) ∧
    (rows.length ≤ 1 → ∀ it, mkScoord3d fl name "POLYGON" ⟨3, rows, 2⟩ fo f rel ≠ .ok it) := by
  have key : ∀ gt, enumName Gen.c13GraphicTypes3D gt = some gt → ¬ count3Ok gt rows.length →
      ∀ it, mkScoord3d fl name gt ⟨3, rows, 2⟩ fo f rel ≠ .ok it := by
    intro gt hgt hbad
    apply scoord3d_rejects
    intro g hg
    rw [hgt] at hg
    cases hg
    exact fun hh => hbad hh.2.1
  refine ⟨?_, ?_, ?_, ?_, ?_, ?_⟩ <;> intro hn <;> apply key _ (by decide) <;> (simp [count3Ok]; omega)

/-- **an array that is not two-dimensional is refused** (`np.zeros((1, 2, 5))` for a POINT, a 1-D array) -/
theorem graphic_data_must_be_two_dimensional (fl : Rat → Rat) (name : Coded) (gt : String) (p : Points) (o f rel : Option String)
    (fo : String) (h : p.ndim ≠ 2) :
    (∀ it, mkScoord fl name gt p o f rel ≠ .ok it) ∧ (∀ it, mkScoord3d fl name gt p fo f rel ≠ .ok it) := by
  constructor
  · exact scoord_rejects fl name gt p o f rel (Or.inl h)
  · intro it hit
    obtain ⟨g, _, hn, _⟩ := mkScoord3d_ok_iff fl name gt p fo f rel it hit
    exact h hn

/-- **missing required attribute on parsing**: for every class, a data set of its value type lacking one of the
attributes of its row is refused with AttributeError — by the class dispatch and by the class's own `from_dataset` -/
theorem missing_attribute_rejected {cls : Cls} {vtName vt : String} {req : List String} (T : TableOk cls vtName vt req)
    (attrs : Attrs) (content : Option (List DS)) (hvt : attrs.lookup "ValueType" = some (.str vt))
    (h : ∃ k ∈ req, has k attrs = false) :
    parse (.mk attrs content) = .error .attribute ∧ parseAs cls (.mk attrs content) = .error .attribute :=
  ⟨parse_of_classify_err attrs content _ (classify_missing T attrs hvt h),
   parseAs_of_classifyAs_err cls attrs content _ (classifyAs_missing T attrs hvt h)⟩

/-- **missing or unknown value type on parsing** -/
theorem missing_value_type_rejected {cls : Cls} {vtName vt : String} {req : List String} (T : TableOk cls vtName vt req)
    (attrs : Attrs) (content : Option (List DS)) :
    (attrs.lookup "ValueType" = none →
      parse (.mk attrs content) = .error .attribute ∧ parseAs cls (.mk attrs content) = .error .attribute) ∧
    (∀ v, attrs.lookup "ValueType" = some (.str v) → enumName Gen.c13ValueTypes v = none →
      parse (.mk attrs content) = .error .value ∧ parseAs cls (.mk attrs content) = .error .value) := by
  constructor
  · intro h
    exact ⟨parse_of_classify_err attrs content _ (classify_noValueType attrs h),
           parseAs_of_classifyAs_err cls attrs content _ (classifyAs_noValueType T attrs h)⟩
  · intro v hv hn
    refine ⟨parse_of_classify_err attrs content _ (classify_unknownValueType attrs v hv hn),
            parseAs_of_classifyAs_err cls attrs content _ (classifyAs_mismatch T attrs v hv ?_)⟩
    intro e
    subst e
    rw [T.name] at hn; cases hn

/-- **mismatching value type on parsing**: a class's `from_dataset` refuses every data set of another value
type with ValueError (in particular `WaveformContentItem` refuses IMAGE data sets and accepts its own) -/
theorem mismatching_value_type_rejected {cls : Cls} {vtName vt : String} {req : List String} (T : TableOk cls vtName vt req)
    (attrs : Attrs) (content : Option (List DS)) (vt' : String) (hvt : attrs.lookup "ValueType" = some (.str vt'))
    (hne : vt' ≠ vt) : parseAs cls (.mk attrs content) = .error .value :=
  parseAs_of_classifyAs_err cls attrs content _ (classifyAs_mismatch T attrs vt' hvt hne)

/-- **missing concept name**: refused for the classes whose name is mandatory -/
theorem missing_name_rejected {cls : Cls} {vtName vt : String} {req : List String} (T : TableOk cls vtName vt req)
    (attrs : Attrs) (content : Option (List DS)) (hvt : attrs.lookup "ValueType" = some (.str vt))
    (hreq : ∀ k ∈ req, has k attrs = true) (hn : has "ConceptNameCodeSequence" attrs = false)
    (hopt : Gen.c13OptionalNameClasses.contains cls.pyName = false) :
    parseAs cls (.mk attrs content) = .error .attribute :=
  parseAs_of_classifyAs_err cls attrs content _ (classifyAs_noName T attrs hvt hreq hn hopt)

/-- the classes of the value types for which PS3.3 C.17.3 makes the concept name mandatory (and CONTAINER) are
not in the regenerated list of optional-name classes, so `missing_name_rejected` applies to them -/
theorem name_mandatory_classes :
    ∀ c ∈ [Cls.text, .num, .code, .datetime, .date, .time, .uidref, .pname, .container],
      Gen.c13OptionalNameClasses.contains c.pyName = false := by decide

/-! ## Bridges: hand-written accessors/constructors use the expressions of the current source (`Generated/T13v.lean`) -/

/-- **NUM tie**: the model's `numValue` tries the attributes in the order regenerated from the `try`/`except` of
`NumContentItem.value`, and `mkNum` writes `FloatingPointValue` under the regenerated guard of the constructor -/
theorem tie_num_read_order_and_float_guard :
    (∀ it : Item, numValue it =
      (match it.attrs.lookup "MeasuredValueSequence" with
       | some (.measured num fp _) => SRItemsTie.numReadGen num fp
       | _ => none)) ∧
    (∀ (ds : Rat → Rat) (name : Coded) (value : Rat) (isFloat : Bool) (unit : Coded) (qualifier : Option Coded)
       (rel : Option String),
      mkNum ds name value isFloat unit qualifier rel =
        withAttrs .num name rel
          ([("MeasuredValueSequence",
              .measured (ds value) (if Gen.numWritesFloat isFloat = .ok true then some value else none) unit)] ++
           (match qualifier with
            | none => []
            | some q => [("NumericValueQualifierCodeSequence", .code q)]))) :=
  ⟨SRItemsTie.numValue_order, SRItemsTie.mkNum_float_guard⟩

/-- **WAVEFORM tie**: the model's pairing of the channel list is the comprehension of
`referenced_waveform_channels` with the regenerated `range` arguments and element indices -/
theorem tie_waveform_channel_pairing (l : List Int) : SRItemsTie.pairUpGen l = .ok (pairUp l) :=
  SRItemsTie.pairUp_eq_gen l

/-- **SCOORD / SCOORD3D tie**: the model's accessors cut `GraphicData` into rows of the widths regenerated from
`reshape(-1, …)` in the two `value` properties -/
theorem tie_reshape_widths (it : Item) :
    scoordValue it = (graphicData it).map (fun l => chunk Gen.scoordReshapeWidth l.length l) ∧
    scoord3dValue it = (graphicData it).map (fun l => chunk Gen.scoord3dReshapeWidth l.length l) :=
  ⟨SRItemsTie.scoordValue_width it, SRItemsTie.scoord3dValue_width it⟩

/-- **Nested-content tie — an item OWNS its content**: `item.ContentSequence = children` is what the current
`ContentItem.__setattr__` says (T14v): the only statement of that branch builds a NEW `ContentSequence` from the children
(`Gen.csAttachRebuilds`; flags `Gen.csAttachFlags`) — whether a list, a pydicom `Sequence`, a `ContentSequence` or another
item's content is assigned — so the item's content is a value of its own: the model's `setContent` takes the children by
value and nothing the caller keeps a handle on is inside the item.  (Seeded change R6C13-1 stored an assigned
`ContentSequence` itself: regeneration of T14v fails on it.)  Correspondence: oracle sites `ownership/*` of
`harness/corr/C13.py` — the caller mutates the container it assigned (append / delete / replace / reverse / clear)
afterwards; the item must report and write the content it was given. -/
theorem tie_nested_content_is_rebuilt (it : Item) (children : List Item) :
    Gen.csAttachRebuilds = true ∧ setContent it children = SRItemsTie.setContentGen it children ∧
    (∀ it', setContent it children = .ok it' → it' = .mk it.cls it.attrs (some children)) := by
  refine ⟨rfl, SRItemsTie.setContent_eq_gen it children, fun it' h => ?_⟩
  unfold setContent at h
  split at h
  · cases h
  · cases h; rfl

/-- the three parsing entry points give the item back, and the 14 other classes refuse it -/
def RoundTrips (it : Item) (c : Cls) : Prop :=
  it.cls = c ∧ parse (serialise it) = .ok it ∧ parseAs c (serialise it) = .ok it ∧
  (∀ c', c' ≠ c → parseAs c' (serialise it) = .error .value) ∧
  (has "RelationshipType" it.attrs = true → parseTop (serialise it) false true = .ok it) ∧
  (has "RelationshipType" it.attrs = false → parseTop (serialise it) false false = .ok it)

/-! ## Round 2: the dispatch tables as a bijection, the 15 × 15 refusal matrix, round trips per value type

All about the tables REGENERATED from `sr/value_types.py` / `sr/enum.py` (T13s, T13se); helper lemmas in
`Proofs/SRItemsDispatch.lean`. -/

/-- **Exactly one class per value type, injectively**: every member of `ValueTypeValues` has exactly one class in
`python_types`; two value types never share a class; the table has the 15 value types as keys and the 15 classes as
values, each once. -/
theorem dispatch_bijective :
    (∀ p ∈ Gen.c13ValueTypes, ∃ c : Cls, Gen.srDispatch.lookup p.1 = some c.pyName ∧
      ∀ c' : Cls, Gen.srDispatch.lookup p.1 = some c'.pyName → c' = c) ∧
    (∀ vt1 vt2 c, Gen.srDispatch.lookup vt1 = some c → Gen.srDispatch.lookup vt2 = some c → vt1 = vt2) ∧
    (∀ c : Cls, ∃ vtName, Gen.srDispatch.lookup vtName = some c.pyName) ∧
    (Gen.srDispatch.map (·.1)).Nodup ∧ (Gen.srDispatch.map (·.2)).Nodup ∧ Gen.srDispatch.length = 15 := by
  refine ⟨SRItemsDispatch.dispatch_exactly_one, SRItemsDispatch.dispatch_injective, ?_,
    SRItemsDispatch.dispatch_shape.1, SRItemsDispatch.dispatch_shape.2.1, SRItemsDispatch.dispatch_shape.2.2.2.2.2.2.1⟩
  intro c
  obtain ⟨n, _, _, T⟩ := SRItemsDispatch.tableOk_of_cls c
  exact ⟨n, T.dispatch⟩

/-- **class → asserted value type is the inverse of value type → class** — and so is class → written value type:
`C.from_dataset` asserts `vt` ⇔ `python_types[vt]` is `C` ⇔ `C.__init__` writes `vt` (any strings `c`, `vt`). -/
theorem asserted_value_type_inverse_of_dispatch (c vt : String) :
    (Gen.srFromDatasetAsserts.lookup c = some vt ↔ Gen.srDispatch.lookup vt = some c) ∧
    (Gen.srCtorValueType.lookup c = some vt ↔ Gen.srDispatch.lookup vt = some c) :=
  SRItemsDispatch.asserts_inverse_of_dispatch c vt

/-- **The 15 × 15 matrix of `<Class>.from_dataset` against built items**: on the diagonal the item comes back, off the
diagonal — any of the 14 other classes — the data set is refused with ValueError (`_assert_value_type`).  Also in the
data-set form: whatever carries the value type of class `c'` is refused by every other class `c`. -/
theorem wrong_class_refused_matrix :
    (∀ {it : Item}, Built it → ∀ c : Cls, (c = it.cls → parseAs c (serialise it) = .ok it) ∧
      (c ≠ it.cls → parseAs c (serialise it) = .error .value)) ∧
    (∀ {c c' : Cls} {n v n' v' : String} {r r' : List String}, TableOk c n v r → TableOk c' n' v' r' → c ≠ c' →
      ∀ (attrs : Attrs) (content : Option (List DS)), attrs.lookup "ValueType" = some (.str v') →
        parseAs c (.mk attrs content) = .error .value) := by
  constructor
  · intro it h c
    exact ⟨fun e => e ▸ parse_serialise_own_class h, SRItemsDispatch.wrong_class_refused h c⟩
  · intro c c' n v n' v' r r' T T' hne attrs content hv
    exact mismatching_value_type_rejected T attrs content v' hv (fun e => hne (SRItemsDispatch.tableOk_vt_injective T T' e.symm))

/-- **`from_sequence([ds], is_root, is_sr)` gives a built item back IF AND ONLY IF the flags fit it** (the two existing
theorems as one equivalence over all eight flag / relationship combinations) -/
theorem parse_in_sequence_iff {it : Item} (h : Built it) (isRoot isSr : Bool) (hsr : isRoot = true → isSr = true) :
    parseTop (serialise it) isRoot isSr = .ok it ↔
      ((isRoot = false ∧ isSr = true ∧ has "RelationshipType" it.attrs = true) ∨
       (isRoot = false ∧ isSr = false ∧ has "RelationshipType" it.attrs = false) ∨
       (isRoot = true ∧ isSr = true ∧ has "RelationshipType" it.attrs = false ∧ it.cls = .container)) := by
  constructor
  · intro hp
    have no : ¬ (∃ e, parseTop (serialise it) isRoot isSr = .error e) := by
      rintro ⟨e, he⟩; rw [hp] at he; cases he
    rcases Bool.eq_false_or_eq_true isRoot with hR | hR <;> rcases Bool.eq_false_or_eq_true isSr with hS | hS <;>
      rcases Bool.eq_false_or_eq_true (has "RelationshipType" it.attrs) with hr | hr
    · exact absurd (parse_in_sequence_refused h _ _ (Or.inr (Or.inr (Or.inl ⟨hR, hS, hr⟩)))) no
    · by_cases hc : it.cls = .container
      · exact Or.inr (Or.inr ⟨hR, hS, hr, hc⟩)
      · exact absurd (parse_in_sequence_refused h _ _ (Or.inr (Or.inr (Or.inr ⟨hR, hS, hr, hc⟩)))) no
    · have := hsr hR; rw [hS] at this; cases this
    · have := hsr hR; rw [hS] at this; cases this
    · exact Or.inl ⟨hR, hS, hr⟩
    · exact absurd (parse_in_sequence_refused h _ _ (Or.inr (Or.inl ⟨hR, hS, hr⟩))) no
    · exact absurd (parse_in_sequence_refused h _ _ (Or.inl ⟨hR, hS, hr⟩)) no
    · exact Or.inr (Or.inl ⟨hR, hS, hr⟩)
  · exact parse_serialise_in_sequence h isRoot isSr

theorem roundTrips_of_built {it : Item} {c : Cls} (hb : Built it) (hc : it.cls = c) : RoundTrips it c := by
  subst hc
  refine ⟨rfl, parse_serialise hb, parse_serialise_own_class hb, fun c' hne => SRItemsDispatch.wrong_class_refused hb c' hne, ?_, ?_⟩
  · intro hr; exact parse_serialise_in_sequence hb false true (Or.inl ⟨rfl, rfl, hr⟩)
  · intro hr; exact parse_serialise_in_sequence hb false false (Or.inr (Or.inl ⟨rfl, rfl, hr⟩))

/-- **Round trip of the VALUE, one statement per value type, through every parsing entry point**: for each of the 15
constructors, the item it builds — serialised and parsed by the class dispatch (`parse`), by its own class's
`from_dataset` (`parseAs`), and by `from_sequence` with fitting flags (`parseTop`) — reports under its accessors exactly
what the constructor was given (for all inputs; `ds` = `DS(v, auto_format=True)`, `fl` = the float32 cast), and every
OTHER class refuses it. -/
theorem value_roundtrip_all_types (ds fl : Rat → Rat) (name : Coded) (rel : Option String) (it : Item) :
    (∀ v, mkCode name v rel = .ok it → RoundTrips it .code ∧ codeValue it = some v) ∧
    (∀ v, mkText name v rel = .ok it → RoundTrips it .text ∧ strValue "TextValue" it = some v) ∧
    (∀ v, mkPname name v rel = .ok it → RoundTrips it .pname ∧ strValue "PersonName" it = some v) ∧
    (∀ v, mkDate name v rel = .ok it → RoundTrips it .date ∧ strValue "Date" it = some v) ∧
    (∀ v, mkTime name v rel = .ok it → RoundTrips it .time ∧ strValue "Time" it = some v) ∧
    (∀ v, mkDateTime name v rel = .ok it → RoundTrips it .datetime ∧ strValue "DateTime" it = some v) ∧
    (∀ v, mkUidRef name v rel = .ok it → RoundTrips it .uidref ∧ strValue "UID" it = some v) ∧
    (∀ v f u q, mkNum ds name v f u q rel = .ok it → RoundTrips it .num ∧ numValue it = some (if f then v else ds v) ∧
      numUnit it = some u ∧ numQualifier it = q) ∧
    (∀ c t, mkContainer name c t rel = .ok it → RoundTrips it .container ∧
      strValue "ContinuityOfContent" it = some (if c then "CONTINUOUS" else "SEPARATE") ∧ containerTemplate it = t) ∧
    (∀ cu iu, mkComposite name cu iu rel = .ok it → RoundTrips it .composite ∧ refValue it = some (cu, iu)) ∧
    (∀ cu iu f sg, mkImage name cu iu f sg rel = .ok it → RoundTrips it .image ∧ refValue it = some (cu, iu) ∧
      imageFrames it = f ∧ imageSegments it = sg) ∧
    (∀ cu iu ch, mkWaveform name cu iu ch rel = .ok it → RoundTrips it .waveform ∧ refValue it = some (cu, iu) ∧
      waveformChannels it = ch) ∧
    (∀ gt p o f, p.rect = true → mkScoord fl name gt p o f rel = .ok it → RoundTrips it .scoord ∧
      scoordValue it = some (p.rows.map (List.map fl)) ∧ strValue "GraphicType" it = some gt) ∧
    (∀ gt p fo f, p.rect = true → mkScoord3d fl name gt p fo f rel = .ok it → RoundTrips it .scoord3d ∧
      scoord3dValue it = some (p.rows.map (List.map fl)) ∧ strValue "GraphicType" it = some gt ∧
      strValue "ReferencedFrameOfReferenceUID" it = some fo) ∧
    (∀ rt t, mkTcoord ds name rt (some t) rel = .ok it → RoundTrips it .tcoord ∧ tcoordValue it = some (tcoordStored ds t) ∧
      strValue "TemporalRangeType" it = some rt) := by
  have RT : ∀ {c : Cls}, Built it → it.cls = c → RoundTrips it c := fun hb hc => roundTrips_of_built hb hc
  have S := accessor_scalar_types name rel it
  refine ⟨?_, ?_, ?_, ?_, ?_, ?_, ?_, ?_, ?_, ?_, ?_, ?_, ?_, ?_, ?_⟩
  · intro v h; exact ⟨RT (Built.code _ _ _ _ h) (SRItemsDispatch.withAttrs_cls tableOk_code h), (S.1 v h).1⟩
  · intro v h; exact ⟨RT (Built.text _ _ _ _ h) (SRItemsDispatch.withAttrs_cls tableOk_text h), (S.2.1 v h).1⟩
  · intro v h; exact ⟨RT (Built.pname _ _ _ _ h) (SRItemsDispatch.withAttrs_cls tableOk_pname h), (S.2.2.1 v h).1⟩
  · intro v h; exact ⟨RT (Built.date _ _ _ _ h) (SRItemsDispatch.withAttrs_cls tableOk_date h), (S.2.2.2.1 v h).1⟩
  · intro v h; exact ⟨RT (Built.time _ _ _ _ h) (SRItemsDispatch.withAttrs_cls tableOk_time h), (S.2.2.2.2.1 v h).1⟩
  · intro v h; exact ⟨RT (Built.datetime _ _ _ _ h) (SRItemsDispatch.withAttrs_cls tableOk_datetime h), (S.2.2.2.2.2.1 v h).1⟩
  · intro v h; exact ⟨RT (Built.uidref _ _ _ _ h) (SRItemsDispatch.withAttrs_cls tableOk_uidref h), (S.2.2.2.2.2.2 v h).1⟩
  · intro v f u q h
    have A := accessor_num ds name v f u q rel it h
    exact ⟨RT (Built.num _ _ _ _ _ _ _ _ h) (SRItemsDispatch.withAttrs_cls tableOk_num h), A.1, A.2.2.1, A.2.2.2.1⟩
  · intro c t h
    have A := accessor_container name c t rel it h
    exact ⟨RT (Built.container _ _ _ _ _ h) (SRItemsDispatch.withAttrs_cls tableOk_container h), A.1, A.2.1⟩
  · intro cu iu h
    exact ⟨RT (Built.composite _ _ _ _ _ h) (SRItemsDispatch.withAttrs_cls tableOk_composite h), ((accessor_references name cu iu rel it).1 h).1⟩
  · intro cu iu f sg h
    have A := (accessor_references name cu iu rel it).2.1 f sg h
    exact ⟨RT (Built.image _ _ _ _ _ _ _ h) (SRItemsDispatch.withAttrs_cls tableOk_image h), A.1, A.2.1, A.2.2.1⟩
  · intro cu iu ch h
    have A := (accessor_references name cu iu rel it).2.2 ch h
    exact ⟨RT (Built.waveform _ _ _ _ _ _ h) (SRItemsDispatch.withAttrs_cls tableOk_waveform h), A.1, A.2.1⟩
  · intro gt p o f hr h
    have A := accessor_scoord fl name gt p o f rel it hr h
    obtain ⟨_, _, _, _, _, e⟩ := mkScoord_ok_iff fl name gt p o f rel it h
    exact ⟨RT (Built.scoord _ _ _ _ _ _ _ _ h) (by rw [e]; rfl), A.1, A.2.2.1⟩
  · intro gt p fo f hr h
    have A := accessor_scoord3d fl name gt p fo f rel it hr h
    obtain ⟨_, _, _, _, e⟩ := mkScoord3d_ok_iff fl name gt p fo f rel it h
    exact ⟨RT (Built.scoord3d _ _ _ _ _ _ _ _ h) (by rw [e]; rfl), A.1, A.2.2.1, A.2.2.2.1⟩
  · intro rt t h
    have A := accessor_tcoord ds name rt t rel it h
    obtain ⟨_, _, _, e⟩ := mkTcoord_ok_iff ds name rt (some t) rel it h
    exact ⟨RT (Built.tcoord _ _ _ _ _ _ h) (by rw [e]; rfl), A.1, A.2.2.1⟩

/-! ## Round 2: the ARGUMENT layer of the constructors (`Model/SRItemsArgs.lean`, every decision regenerated: `T13sa`) -/

/-- **What the constructors build from arguments as a caller spells them is a built item** — so the round-trip,
accessor and refusal theorems above apply to `ImageContentItem` given scalars / sequences, `WaveformContentItem` given
sequences of sequences, `TcoordContentItem` given up to three arguments, `NumContentItem` given any accepted Python /
numpy type, `ContainerContentItem` with `is_content_continuous` omitted. -/
theorem argument_layer_builds (ds : Rat → Rat) (name : Coded) (rel : Option String) (it : Item) :
    (∀ c i fr sg, mkImageA name c i fr sg rel = .ok it → Built it ∧ parse (serialise it) = .ok it ∧
      imageFrames it = fr.map Nums.values ∧ imageSegments it = sg.map Nums.values ∧ refValue it = some (c, i)) ∧
    (∀ c i ch, mkWaveformA name c i ch rel = .ok it → Built it ∧ parse (serialise it) = .ok it ∧
      (waveformChannels it).map (List.map (fun q => [q.1, q.2])) = ch) ∧
    (∀ rt pos off dts, mkTcoordA ds name rt pos off dts rel = .ok it → Built it ∧ parse (serialise it) = .ok it) ∧
    (∀ v sp u q, mkNumA ds name v sp u q rel = .ok it → Built it ∧ parse (serialise it) = .ok it ∧
      numValue it = some (if sp.isFloat then v else ds v)) ∧
    (∀ c t, mkContainerA name c t rel = .ok it → Built it ∧ parse (serialise it) = .ok it ∧
      strValue "ContinuityOfContent" it = some (if c.getD true then "CONTINUOUS" else "SEPARATE")) := by
  refine ⟨?_, ?_, ?_, ?_, ?_⟩
  · intro c i fr sg h
    have hb := SRItemsArgsLemmas.built_of_mkImageA h
    have hf : ¬ SRItemsArgsLemmas.emptySeq fr := fun e => SRItemsArgsLemmas.mkImageA_empty name c i fr sg rel (Or.inl e) it h
    have hs : ¬ SRItemsArgsLemmas.emptySeq sg := fun e => SRItemsArgsLemmas.mkImageA_empty name c i fr sg rel (Or.inr e) it h
    rw [SRItemsArgsLemmas.mkImageA_eq name c i fr sg rel hf hs] at h
    have A := (accessor_references name c i rel it).2.1 _ _ h
    exact ⟨hb, parse_serialise hb, A.2.1, A.2.2.1, A.1⟩
  · intro c i ch h
    have hb := SRItemsArgsLemmas.built_of_mkWaveformA h
    refine ⟨hb, parse_serialise hb, ?_⟩
    cases ch with
    | none =>
      rw [SRItemsArgsLemmas.mkWaveformA_none] at h
      rw [((accessor_references name c i rel it).2.2 _ h).2.1]; rfl
    | some l =>
      have hne : l ≠ [] := fun e => SRItemsArgsLemmas.mkWaveformA_refuses name c i l rel (Or.inl e) it h
      cases hp : allPairs l with
      | none =>
        exfalso
        have : l.any (fun p => p.length != 2) = true := by
          cases hx : l.any (fun p => p.length != 2) with
          | true => rfl
          | false => obtain ⟨ps, hps⟩ := (SRItemsArgsLemmas.allPairs_some_iff l).mpr hx; rw [hps] at hp; cases hp
        obtain ⟨p, hpm, hpl⟩ := List.any_eq_true.mp this
        exact SRItemsArgsLemmas.mkWaveformA_refuses name c i l rel (Or.inr ⟨p, hpm, by simpa using hpl⟩) it h
      | some ps =>
        rw [SRItemsArgsLemmas.mkWaveformA_eq name c i l ps rel hne hp] at h
        rw [((accessor_references name c i rel it).2.2 _ h).2.1]
        simp only [Option.map_some, SRItemsArgsLemmas.allPairs_items l ps hp]
  · intro rt pos off dts h
    have hb := SRItemsArgsLemmas.built_of_mkTcoordA h
    exact ⟨hb, parse_serialise hb⟩
  · intro v sp u q h
    have hb := SRItemsArgsLemmas.built_of_mkNumA h
    refine ⟨hb, parse_serialise hb, ?_⟩
    cases hbt : sp.baseType with
    | none => exact absurd h (SRItemsArgsLemmas.mkNumA_refuses ds name v sp u q rel hbt it)
    | some t =>
      rw [SRItemsArgsLemmas.mkNumA_eq ds name v sp u q rel (by simp [hbt])] at h
      exact (accessor_num ds name v sp.isFloat u q rel it h).1
  · intro c t h
    have hb := SRItemsArgsLemmas.built_of_mkContainerA h
    refine ⟨hb, parse_serialise hb, ?_⟩
    cases c with
    | none => rw [SRItemsArgsLemmas.mkContainerA_default] at h; exact (accessor_container name true t rel it h).1
    | some c => rw [SRItemsArgsLemmas.mkContainerA_given] at h; exact (accessor_container name c t rel it h).1

/-- **Empty multi-valued arguments are refused** (VM 1-n): an empty sequence of frame or segment numbers, an empty list
of waveform channels, and a TCOORD whose FIRST given argument is empty (also when a later one holds time points) or that
is given no argument at all.  Over the regenerated guards `Gen.imageFramesCheck`, `imageSegmentsCheck`,
`waveformChannelsCheck`, `tcoordArgCheck`. -/
theorem empty_multi_values_refused (ds : Rat → Rat) (name : Coded) (rel : Option String) :
    (∀ c i fr sg, (fr = some (.seq []) ∨ sg = some (.seq [])) → ∀ it, mkImageA name c i fr sg rel ≠ .ok it) ∧
    (∀ c i it, mkWaveformA name c i (some []) rel ≠ .ok it) ∧
    (∀ rt pos off dts, (pos = some [] ∨ (pos = none ∧ off = some []) ∨ (pos = none ∧ off = none ∧ dts = some []) ∨
        (pos = none ∧ off = none ∧ dts = none)) → ∀ it, mkTcoordA ds name rt pos off dts rel ≠ .ok it) := by
  refine ⟨?_, ?_, ?_⟩
  · intro c i fr sg h
    apply SRItemsArgsLemmas.mkImageA_empty
    rcases h with h | h
    · left; rw [h]; trivial
    · right; rw [h]; trivial
  · intro c i
    exact SRItemsArgsLemmas.mkWaveformA_refuses name c i [] rel (Or.inl rfl)
  · intro rt pos off dts h
    exact SRItemsArgsLemmas.mkTcoordA_refuses ds name rt pos off dts rel h

/-- **Numbers with a fractional part where integers are required are refused** (they used to be stored as given and
reported truncated): frame / segment numbers (scalar or sequence), waveform channel entries, TCOORD sample positions —
over the regenerated guards (`Gen.imageFramesCheck`, `imageSegmentsCheck`, `waveformChannelsCheck`, `tcoordArgCheck`, each
containing the call of `_assert_integers`, itself `Gen.integersCheck`) -/
theorem fractional_numbers_refused (ds : Rat → Rat) (name : Coded) (rel : Option String) :
    (∀ c i b n other, (∀ it, mkImageA name c i (some (.fractional b n)) other rel ≠ .ok it) ∧
                      (∀ it, mkImageA name c i other (some (.fractional b n)) rel ≠ .ok it)) ∧
    (∀ c i l it, mkWaveformAF name c i (some l) true rel ≠ .ok it) ∧
    (∀ rt l off dts it, mkTcoordAF ds name rt (some l) true off dts rel ≠ .ok it) ∧
    Gen.integersCheck true = .error .value ∧ Gen.integersCheck false = .ok true := by
  refine ⟨?_, ?_, ?_, by decide, by decide⟩
  · intro c i b n other
    exact ⟨SRItemsArgsLemmas.mkImageA_empty name c i _ other rel (Or.inl trivial),
           SRItemsArgsLemmas.mkImageA_empty name c i other _ rel (Or.inr trivial)⟩
  · intro c i l
    exact SRItemsArgsLemmas.mkWaveformAF_fractional name c i l rel
  · intro rt l off dts
    exact SRItemsArgsLemmas.mkTcoordAF_fractional ds name rt l off dts rel

/-- **Waveform channels must be pairs**: an item with one, three, … entries is refused (it used to be flattened and
re-paired differently) -/
theorem non_pair_channels_refused (name : Coded) (c i : String) (l : List (List Int)) (rel : Option String)
    (h : ∃ p ∈ l, p.length ≠ 2) : ∀ it, mkWaveformA name c i (some l) rel ≠ .ok it :=
  SRItemsArgsLemmas.mkWaveformA_refuses name c i l rel (Or.inr h)

/-- **TCOORD: the first given argument wins** (source order of the `if / elif` chain, regenerated): sample positions
over time offsets over date times; the value reported is that argument -/
theorem tcoord_first_given_argument_wins (ds : Rat → Rat) (name : Coded) (rt : String) (rel : Option String) :
    (∀ l off dts, l ≠ [] → mkTcoordA ds name rt (some l) off dts rel = mkTcoord ds name rt (some (.positions l)) rel) ∧
    (∀ l dts, l ≠ [] → mkTcoordA ds name rt none (some l) dts rel = mkTcoord ds name rt (some (.offsets l)) rel) ∧
    (∀ l, l ≠ [] → mkTcoordA ds name rt none none (some l) rel = mkTcoord ds name rt (some (.datetimes l)) rel) ∧
    (∀ l off dts it, l ≠ [] → mkTcoordA ds name rt (some l) off dts rel = .ok it → tcoordValue it = some (.positions l)) := by
  refine ⟨fun l off dts h => SRItemsArgsLemmas.mkTcoordA_positions ds name rt l off dts rel h,
          fun l dts h => SRItemsArgsLemmas.mkTcoordA_offsets ds name rt l dts rel h,
          fun l h => SRItemsArgsLemmas.mkTcoordA_datetimes ds name rt l rel h, ?_⟩
  intro l off dts it hne h
  rw [SRItemsArgsLemmas.mkTcoordA_positions ds name rt l off dts rel hne] at h
  exact (accessor_tcoord ds name rt (.positions l) rel it h).1

/-- **IMAGE: a scalar and the one-item sequence are the same item**, and any sequence spelling is its list of values -/
theorem image_numbers_scalar_or_sequence (name : Coded) (c i : String) (x : Int) (sg : Option Nums) (rel : Option String) :
    mkImageA name c i (some (.scalar x)) sg rel = mkImageA name c i (some (.seq [x])) sg rel ∧
    mkImageA name c i sg (some (.scalar x)) rel = mkImageA name c i sg (some (.seq [x])) rel := by
  constructor
  · by_cases hs : SRItemsArgsLemmas.emptySeq sg
    · unfold mkImageA
      cases base .image name rel with
      | error e => rfl
      | ok a => simp [SRItemsArgsLemmas.numsArg_frames, SRItemsArgsLemmas.numsArg_segments, hs, SRItemsArgsLemmas.emptySeq, Nums.values]
    · rw [SRItemsArgsLemmas.mkImageA_eq _ _ _ _ _ _ (by simp [SRItemsArgsLemmas.emptySeq]) hs,
          SRItemsArgsLemmas.mkImageA_eq _ _ _ _ _ _ (by simp [SRItemsArgsLemmas.emptySeq]) hs]
      rfl
  · by_cases hs : SRItemsArgsLemmas.emptySeq sg
    · unfold mkImageA
      cases base .image name rel with
      | error e => rfl
      | ok a => simp [SRItemsArgsLemmas.numsArg_frames, hs]
    · rw [SRItemsArgsLemmas.mkImageA_eq _ _ _ _ _ _ hs (by simp [SRItemsArgsLemmas.emptySeq]),
          SRItemsArgsLemmas.mkImageA_eq _ _ _ _ _ _ hs (by simp [SRItemsArgsLemmas.emptySeq])]
      rfl

/-- **NUM: the type guard** (`isinstance(value, (int, float))`, both regenerated): Python int / bool and float, numpy
float64 are taken — the latter two as floats, reported exactly — numpy integers, numpy float32, Decimal and str are
refused with TypeError -/
theorem num_value_spellings (ds : Rat → Rat) (name : Coded) (v : Rat) (u : Coded) (q : Option Coded) (rel : Option String) :
    (∀ sp ∈ [NumSpelling.pyInt, .pyBool], mkNumA ds name v sp u q rel = mkNum ds name v false u q rel) ∧
    (∀ sp ∈ [NumSpelling.pyFloat, .npFloat64], mkNumA ds name v sp u q rel = mkNum ds name v true u q rel) ∧
    (∀ sp ∈ [NumSpelling.npInt64, .npInt32, .npFloat32, .decimal, .str], ∀ it, mkNumA ds name v sp u q rel ≠ .ok it) := by
  refine ⟨?_, ?_, ?_⟩
  · intro sp hsp
    simp only [List.mem_cons, List.mem_nil_iff, or_false] at hsp
    rcases hsp with rfl | rfl <;> exact SRItemsArgsLemmas.mkNumA_eq ds name v _ u q rel rfl
  · intro sp hsp
    simp only [List.mem_cons, List.mem_nil_iff, or_false] at hsp
    rcases hsp with rfl | rfl <;> exact SRItemsArgsLemmas.mkNumA_eq ds name v _ u q rel rfl
  · intro sp hsp
    simp only [List.mem_cons, List.mem_nil_iff, or_false] at hsp
    rcases hsp with rfl | rfl | rfl | rfl | rfl <;> exact SRItemsArgsLemmas.mkNumA_refuses ds name v _ u q rel rfl

/-- **CONTAINER: the default of `is_content_continuous` and the strings written** are the regenerated ones
(`Gen.srDefaults`, `Gen.containerContinuity`, `Gen.containerMappingResource`) -/
theorem container_default_and_strings (name : Coded) (c : Bool) (t rel : Option String) :
    mkContainerA name none t rel = mkContainer name true t rel ∧ mkContainerA name (some c) t rel = mkContainer name c t rel ∧
    mkContainer name c t rel =
      withAttrs .container name rel
        ([("ContinuityOfContent", .str ((Gen.containerContinuity.lookup c).getD ""))] ++
         (match t with
          | none => []
          | some t => [("ContentTemplateSequence", .template Gen.containerMappingResource t)])) :=
  ⟨SRItemsArgsLemmas.mkContainerA_default name t rel, rfl, SRItemsArgsLemmas.mkContainer_strings name c t rel⟩

/-- **Read-side ties**: the hand-written `tcoordValue` tries the three attributes in the order regenerated from the
nested `try / except` of `TcoordContentItem.value`; the hand-written `imageFrames` / `imageSegments` (`asList ∘ stored`)
take the regenerated branch of the two IMAGE accessors (absent → None, bare value → wrapped, list → item by item) -/
theorem tie_tcoord_read_order_and_image_branches (it : Item) :
    tcoordValue it = tcoordValueGen it ∧
    numsReadGen Gen.imageFramesRead (SRItemsArgsLemmas.framesAttr it) = .ok (imageFrames it) ∧
    numsReadGen Gen.imageSegmentsRead (SRItemsArgsLemmas.segmentsAttr it) = .ok (imageSegments it) :=
  ⟨SRItemsArgsLemmas.tcoordValue_gen it, SRItemsArgsLemmas.imageFrames_gen it, SRItemsArgsLemmas.imageSegments_gen it⟩

/-- **Defaults of every optional parameter** (regenerated table `Gen.srDefaults`): every `from_dataset` copies by default,
`from_sequence` defaults to a non-root SR sequence and copies, every optional constructor argument defaults to None and
`is_content_continuous` to True.  TRIP-WIRE (a fingerprint of the table, decided by the kernel): the model's `parse` /
`parseList` use the flags `false true` for nested sequences and `mkContainerA` the container default. -/
theorem defaults_fingerprint :
    (∀ r ∈ Gen.srDefaults, r.2.1 = "copy" → r.2.2 = "True") ∧
    (∀ c ∈ Cls.all, defaultOf (c.pyName ++ ".from_dataset") "copy" = some "True" ∧
      defaultOf (c.pyName ++ ".__init__") "relationship_type" = some "None") ∧
    defaultOf "ContentSequence.from_sequence" "is_root" = some "False" ∧
    defaultOf "ContentSequence.from_sequence" "is_sr" = some "True" ∧
    defaultOf "ContentSequence.__init__" "is_root" = some "False" ∧ defaultOf "ContentSequence.__init__" "is_sr" = some "True" ∧
    defaultOf "ContainerContentItem.__init__" "is_content_continuous" = some "True" ∧
    (∀ r ∈ Gen.srDefaults, r.2.2 = "None" ∨ r.2.2 = "True" ∨ r.2.2 = "False") := by
  refine ⟨by decide, by decide, by decide, by decide, by decide, by decide, by decide, by decide⟩

/-! ## Non-vacuity: concrete items built by the model's constructors -/

private def nm : Coded := { value := "121071", scheme := "DCM", meaning := "Finding", version := none }
private def poly : Points := ⟨3, [[0, 0, 0], [1, 0, 0], [1, 1/2, 0], [0, 0, 0]], 2⟩

example : (mkScoord3d id nm "POLYGON" poly "1.2.3" none (some "CONTAINS")).toBool = true := by decide +kernel
example : (mkTcoord id nm "POINT" (some (.positions [5])) (some "HAS PROPERTIES")).toBool = true := by decide +kernel
example : (mkNum id nm (1/3) true nm none none).toBool = true := by decide +kernel
example : (mkScoord id nm "CIRCLE" ⟨2, [[1, 2], [3, 4]], 2⟩ (some "VOLUME") none none).toBool = true := by decide +kernel
example : (mkScoord id nm "CIRCLE" ⟨2, [[1, 2], [3, 4], [5, 6]], 2⟩ none none none).toBool = false := by decide +kernel
/-- a container with a polygon and a single time point nested, round-tripping by the theorem -/
example (c p t it : Item) (hc : mkContainer nm true (some "1500") none = .ok c)
    (hp : mkScoord3d id nm "POLYGON" poly "1.2.3" none (some "CONTAINS") = .ok p)
    (ht : mkTcoord id nm "POINT" (some (.positions [5])) (some "HAS PROPERTIES") = .ok t)
    (h : setContent c [p, t] = .ok it) : parse (serialise it) = .ok it :=
  parse_serialise (Built.content c [p, t] it (Built.container _ _ _ _ _ hc)
    (by intro x hx; simp at hx; rcases hx with rfl | rfl
        · exact Built.scoord3d _ _ _ _ _ _ _ _ hp
        · exact Built.tcoord _ _ _ _ _ _ ht) h)
/-- the open and the lifted polygon are refused; four points of a tetrahedron are not coplanar -/
example : ∀ it, mkScoord3d id nm "POLYGON" ⟨3, [[0, 0, 0], [1, 0, 0], [1, 1, 0], [0, 1, 0]], 2⟩ "1.2.3" none none ≠ .ok it :=
  open_polygon_rejected id nm _ _ _ _ (by decide +kernel)
example : coplanar [[0, 0, 0], [1, 0, 0], [0, 1, 0], [0, 0, 1], [0, 0, 0]] = false := by decide +kernel
example : coplanar poly.rows = true := by decide +kernel
/-- the bridges on concrete data: a float and its 16-character decimal string differ and the float wins; three
channel pairs; three 2-D points -/
example : SRItemsTie.numReadGen (33/100) (some (1/3)) = some (1/3) ∧ SRItemsTie.numReadGen (33/100) none = some (33/100) := by
  decide +kernel
example : SRItemsTie.pairUpGen [1, 2, 1, 3, 4, 1] = .ok [(1, 2), (1, 3), (4, 1)] := by decide +kernel
example : chunk Gen.scoordReshapeWidth 6 [1, 2, 3, 4, 5, 6] = [[1, 2], [3, 4], [5, 6]] ∧
    chunk Gen.scoord3dReshapeWidth 6 [1, 2, 3, 4, 5, 6] = [[1, 2, 3], [4, 5, 6]] := by decide +kernel

/-- round 2, concrete inputs the real code accepts: an image reference with a TUPLE-like sequence of frames and a scalar
segment number; three channel pairs; a TCOORD given positions AND offsets (positions win); a numpy float64; a container
with `is_content_continuous` omitted — and the refusals: empty frames, a channel triple, empty positions, a numpy int -/
example : (mkImageA nm "1.2.840.10008.5.1.4.1.1.2" "1.2.3" (some (.seq [3, 4])) (some (.scalar 2)) (some "CONTAINS")).toBool = true := by
  decide +kernel
example : (mkWaveformA nm "1.2.840.10008.5.1.4.1.1.9.1.1" "1.2.3" (some [[1, 2], [1, 3], [4, 1]]) none).toBool = true := by decide +kernel
example : (mkTcoordA id nm "MULTIPOINT" (some [5, 6]) (some [5/2]) none (some "CONTAINS")).toBool = true := by decide +kernel
example : (mkNumA id nm (1/3) .npFloat64 nm none none).toBool = true := by decide +kernel
example : (mkContainerA nm none (some "1500") none).toBool = true := by decide +kernel
example : (mkImageA nm "1.2" "1.2.3" (some (.seq [])) none none).toBool = false := by decide +kernel
example : (mkWaveformA nm "1.2" "1.2.3" (some [[1, 2, 3]]) none).toBool = false := by decide +kernel
example : (mkTcoordA id nm "POINT" (some []) (some [5/2]) none none).toBool = false := by decide +kernel
example : (mkNumA id nm 5 .npInt64 nm none none).toBool = false := by decide +kernel
/-- a frame number 1.5, the channel pair (1.5, 2), the sample position 5.7: refused; 3.0 is the whole number 3 -/
example : (mkImageA nm "1.2" "1.2.3" (some (.fractional false 1)) none none).toBool = false := by decide +kernel
example : (mkWaveformAF nm "1.2" "1.2.3" (some [[1, 2]]) true none).toBool = false := by decide +kernel
example : (mkTcoordAF id nm "POINT" (some [5]) true none none none).toBool = false := by decide +kernel
example : (mkImageA nm "1.2" "1.2.3" (some (.scalar 3)) none none).toBool = true := by decide +kernel
/-- the 15 × 15 matrix on a concrete item: a text item parses as TextContentItem and is refused by CodeContentItem -/
example (it : Item) (h : mkText nm "abc" (some "CONTAINS") = .ok it) :
    parseAs .text (serialise it) = .ok it ∧ parseAs .code (serialise it) = .error .value := by
  have hb := Built.text _ _ _ _ h
  have hc : it.cls = .text := SRItemsDispatch.withAttrs_cls tableOk_text h
  exact ⟨hc ▸ (wrong_class_refused_matrix.1 hb it.cls).1 rfl, (wrong_class_refused_matrix.1 hb .code).2 (by rw [hc]; decide)⟩
example : (mkText nm "abc" (some "CONTAINS")).toBool = true := by decide +kernel
/-- the read-side ties on concrete data: positions win over date times when both attributes are present -/
example : tcoordValueGen (.mk .tcoord [("ReferencedDateTime", .strs ["20200102"]), ("ReferencedSamplePositions", .ints [7])] none)
    = some (.positions [7]) := by decide +kernel
example : numsReadGen Gen.imageFramesRead (some [7]) = .ok (some [7]) ∧ numsReadGen Gen.imageFramesRead (some [7, 8]) = .ok (some [7, 8]) ∧
    numsReadGen Gen.imageFramesRead none = .ok none := by decide +kernel
/-- the nested-content tie on concrete data: the setter's flags are those of a non-root SR sequence, a child without
relationship type is refused, a child with one is taken by value -/
example : Gen.csAttachFlags = (false, true) ∧ Gen.csAttachRebuilds = true := ⟨rfl, rfl⟩
example (c t : Item) (ht : mkText nm "abc" (some "CONTAINS") = .ok t) (it : Item) (h : setContent c [t] = .ok it) :
    it = .mk c.cls c.attrs (some [t]) := (tie_nested_content_is_rebuilt c [t]).2.2 it h

end HdVerif.C13
