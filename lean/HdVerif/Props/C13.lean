import HdVerif.Proofs.SRItems
/-! # C13  SR content items keep their values and parse back to the same type

Property theorems only.  They are about `Model/SRItems.lean`, whose parsing side runs on the tables and
guards REGENERATED from `sr/value_types.py` and `sr/enum.py` (`HdVerif.Gen.srRequiredAttrs`, `srDispatch`,
`srFromDatasetAsserts`, `srCtorValueType`, `srOptionalNameClasses`, `srAssertHead`, `srAssertAttr`,
`srBaseGuards`, `srCheckDatasetRel`, `scoordCheck`, `scoord3dCheck`, the enumerations): a missing table row,
a wrong asserted value type or a changed count rule breaks these proofs.

`Built it`: `it` was produced by one of the 15 public constructors, possibly with nested content assigned
through the `ContentSequence` attribute (to any depth). -/
namespace HdVerif.C13
open HdVerif HdVerif.SRItems HdVerif.SRItemsLemmas

/-! ## parse ∘ serialise = id -/

/-- **Round trip (class dispatch)**: every item any constructor can build, with nested content of any depth,
serialised to a plain data set and parsed by `ContentItem._from_dataset_derived` /
`ContentSequence.from_sequence`, is the same item again: same class, same attributes (hence equal name,
relationship type and value under every accessor), same children, recursively. -/
theorem parse_serialise {it : Item} (h : Built it) : parse (serialise it) = .ok it :=
  parse_serialise_wf it h.wf

/-- The property's wording: the parsed item has the same class and, under every accessor, equal name,
relationship type, value and nested content (the accessors are functions of the attributes). -/
theorem parsed_item_equal {it : Item} (h : Built it) :
    ∃ back, parse (serialise it) = .ok back ∧ back.cls = it.cls ∧ nameOf back = nameOf it ∧ relOf back = relOf it ∧
      back.attrs = it.attrs ∧ back.content = it.content ∧
      numValue back = numValue it ∧ scoordValue back = scoordValue it ∧ scoord3dValue back = scoord3dValue it ∧
      tcoordValue back = tcoordValue it ∧ imageFrames back = imageFrames it ∧ waveformChannels back = waveformChannels it :=
  ⟨it, parse_serialise h, rfl, rfl, rfl, rfl, rfl, rfl, rfl, rfl, rfl, rfl, rfl⟩

/-- **Round trip (per-class entry point)**: `<Class>.from_dataset` of the item's own class gives the item back. -/
theorem parse_serialise_own_class {it : Item} (h : Built it) : parseAs it.cls (serialise it) = .ok it := by
  have hp := parse_serialise h
  cases it with
  | mk cls attrs content =>
    have hw := h.wf
    unfold wf at hw
    simp only [Bool.and_eq_true] at hw
    have hc := classifyAs_of_classify (beq_except_eq hw.1)
    simp only [Item.cls]
    cases content with
    | none => simp [serialise, parseAs, hc]
    | some l =>
      have hl := parseList_serialiseList_wf l hw.2
      simp [serialise, parseAs, hc, hl]

/-- **Round trip through `ContentSequence.from_sequence([ds], is_root=False, is_sr)`**: with a relationship type
under any flag, without one in a non-SR sequence. -/
theorem parse_serialise_in_sequence {it : Item} (h : Built it) (isSr : Bool)
    (hr : has "RelationshipType" it.attrs = true ∨ isSr = false) : parseTop (serialise it) false isSr = .ok it := by
  unfold parseTop
  rw [serialise_attrs, parse_serialise h]
  have hw := h.wf
  cases it with
  | mk cls attrs content =>
    unfold wf at hw
    simp only [Bool.and_eq_true] at hw
    obtain ⟨vt, hv, hn⟩ := classify_vt (beq_except_eq hw.1)
    simp only [Item.attrs] at hr ⊢
    unfold checkDataset
    simp only [hv, enumHas_of_enumName hn, Bool.not_true, Bool.false_eq_true, ↓reduceIte]
    rcases hr with hr | hr
    · simp only [hr, checkRel_ok]
    · subst hr; simp only [checkRel_nonSr]

/-- **Every value type has a class and a required-attribute row** that agree with each other, with the value
type the class's `from_dataset` asserts and with the one its constructor writes (over the regenerated tables). -/
theorem dispatch_total : ∀ p ∈ Gen.srValueTypes, ∃ cls req, TableOk cls p.1 p.2 req := by
  intro p hp
  simp only [Gen.srValueTypes, List.mem_cons, List.mem_nil_iff, or_false] at hp
  rcases hp with rfl | rfl | rfl | rfl | rfl | rfl | rfl | rfl | rfl | rfl | rfl | rfl | rfl | rfl | rfl
  · exact ⟨_, _, tableOk_code⟩
  · exact ⟨_, _, tableOk_composite⟩
  · exact ⟨_, _, tableOk_container⟩
  · exact ⟨_, _, tableOk_date⟩
  · exact ⟨_, _, tableOk_datetime⟩
  · exact ⟨_, _, tableOk_image⟩
  · exact ⟨_, _, tableOk_num⟩
  · exact ⟨_, _, tableOk_pname⟩
  · exact ⟨_, _, tableOk_scoord⟩
  · exact ⟨_, _, tableOk_scoord3d⟩
  · exact ⟨_, _, tableOk_tcoord⟩
  · exact ⟨_, _, tableOk_text⟩
  · exact ⟨_, _, tableOk_time⟩
  · exact ⟨_, _, tableOk_uidref⟩
  · exact ⟨_, _, tableOk_waveform⟩

/-- and conversely every one of the 15 classes is reached by exactly its value type -/
theorem every_class_dispatched : ∀ c ∈ Cls.all, ∃ vtName vt req, TableOk c vtName vt req := by
  intro c _
  cases c
  · exact ⟨_, _, _, tableOk_code⟩
  · exact ⟨_, _, _, tableOk_composite⟩
  · exact ⟨_, _, _, tableOk_container⟩
  · exact ⟨_, _, _, tableOk_date⟩
  · exact ⟨_, _, _, tableOk_datetime⟩
  · exact ⟨_, _, _, tableOk_image⟩
  · exact ⟨_, _, _, tableOk_num⟩
  · exact ⟨_, _, _, tableOk_pname⟩
  · exact ⟨_, _, _, tableOk_scoord⟩
  · exact ⟨_, _, _, tableOk_scoord3d⟩
  · exact ⟨_, _, _, tableOk_tcoord⟩
  · exact ⟨_, _, _, tableOk_text⟩
  · exact ⟨_, _, _, tableOk_time⟩
  · exact ⟨_, _, _, tableOk_uidref⟩
  · exact ⟨_, _, _, tableOk_waveform⟩

/-! ## the constructor and accessor halves of the model against the keyword tables regenerated from source (`T13k`)

`Gen.srCtorWritesTop` / `srCtorWritesNested`: every attribute each `__init__` writes (and whether on every path);
`Gen.srAccessorReads`: every attribute each property reads. -/

/-- **Table level, source only**: what `_assert_value_type` requires of a value type, the constructor of the class
it dispatches to always writes; and every attribute a property reads is one its class's constructor writes
(`referenced_waveform_channels` reading `ReferencedFrameNumber` would fail here). -/
theorem source_tables_consistent :
    Gen.srRequiredAttrs.all (fun r =>
      match Gen.srDispatch.lookup r.1 with
      | none => false
      | some c => r.2.all (fun k => Gen.srCtorWritesTop.any (fun w => w.1 == c && w.2.1 == k && w.2.2))) = true ∧
    Gen.srAccessorReads.all (fun a =>
      a.2.2.all (fun k =>
        Gen.srCtorWritesTop.any (fun w => (w.1 == a.1 || w.1 == "ContentItem") && w.2.1 == k) ||
        Gen.srCtorWritesNested.any (fun w => w.1 == a.1 && w.2.2.1 == k))) = true :=
  ⟨required_subset_written, reads_subset_writes⟩

/-- **The model's constructors write what the source's constructors write**: for every built item the keys of its
attribute set contain every keyword the regenerated table marks "always" for its class (base class included) and
nothing the table does not list. -/
theorem constructors_write_regenerated_keys {it : Item} (h : Built it) : writesOkB it.cls (keysOf it) = true :=
  h.writes

/-- **The round trip over the regenerated tables**: its premise — the attributes the parser demands are present —
follows from the two regenerated tables and the previous theorem alone; hence `parse (serialise it) = .ok it`. -/
theorem roundtrip_from_tables {it : Item} (h : Built it) {vtName vt : String} {req : List String}
    (T : TableOk it.cls vtName vt req) : (∀ k ∈ req, has k it.attrs = true) ∧ parse (serialise it) = .ok it :=
  ⟨required_present_of_tables h T, parse_serialise h⟩

/-- **The model's accessors read what the source's properties read**: each is a function of exactly the
attributes of the item that the regenerated table lists for the property … -/
theorem accessors_read_regenerated_attributes (it it' : Item) :
    (SameOn (readKeys "ContentItem" "name") it it' → nameOf it = nameOf it') ∧
    (SameOn (readKeys "ContentItem" "relationship_type") it it' → relOf it = relOf it') ∧
    (SameOn (readKeys "CodeContentItem" "value") it it' → codeValue it = codeValue it') ∧
    (SameOn (readKeys "TextContentItem" "value") it it' → strValue "TextValue" it = strValue "TextValue" it') ∧
    (SameOn (readKeys "PnameContentItem" "value") it it' → strValue "PersonName" it = strValue "PersonName" it') ∧
    (SameOn (readKeys "DateContentItem" "value") it it' → strValue "Date" it = strValue "Date" it') ∧
    (SameOn (readKeys "TimeContentItem" "value") it it' → strValue "Time" it = strValue "Time" it') ∧
    (SameOn (readKeys "DateTimeContentItem" "value") it it' → strValue "DateTime" it = strValue "DateTime" it') ∧
    (SameOn (readKeys "UIDRefContentItem" "value") it it' → strValue "UID" it = strValue "UID" it') ∧
    (SameOn (readKeys "NumContentItem" "value") it it' → numValue it = numValue it') ∧
    (SameOn (readKeys "NumContentItem" "unit") it it' → numUnit it = numUnit it') ∧
    (SameOn (readKeys "NumContentItem" "qualifier") it it' → numQualifier it = numQualifier it') ∧
    (SameOn (readKeys "ContainerContentItem" "template_id") it it' → containerTemplate it = containerTemplate it') ∧
    (SameOn (readKeys "CompositeContentItem" "value") it it' → refValue it = refValue it') ∧
    (SameOn (readKeys "ImageContentItem" "value") it it' → refValue it = refValue it') ∧
    (SameOn (readKeys "WaveformContentItem" "value") it it' → refValue it = refValue it') ∧
    (SameOn (readKeys "ImageContentItem" "referenced_frame_numbers") it it' → imageFrames it = imageFrames it') ∧
    (SameOn (readKeys "ImageContentItem" "referenced_segment_numbers") it it' → imageSegments it = imageSegments it') ∧
    (SameOn (readKeys "WaveformContentItem" "referenced_waveform_channels") it it' → waveformChannels it = waveformChannels it') ∧
    (SameOn (readKeys "ScoordContentItem" "value") it it' → scoordValue it = scoordValue it') ∧
    (SameOn (readKeys "ScoordContentItem" "graphic_type") it it' → strValue "GraphicType" it = strValue "GraphicType" it') ∧
    (SameOn (readKeys "Scoord3DContentItem" "value") it it' → scoord3dValue it = scoord3dValue it') ∧
    (SameOn (readKeys "Scoord3DContentItem" "graphic_type") it it' → strValue "GraphicType" it = strValue "GraphicType" it') ∧
    (SameOn (readKeys "Scoord3DContentItem" "frame_of_reference_uid") it it' →
      strValue "ReferencedFrameOfReferenceUID" it = strValue "ReferencedFrameOfReferenceUID" it') ∧
    (SameOn (readKeys "TcoordContentItem" "value") it it' → tcoordValue it = tcoordValue it') ∧
    (SameOn (readKeys "TcoordContentItem" "temporal_range_type") it it' →
      strValue "TemporalRangeType" it = strValue "TemporalRangeType" it') :=
  accessors_read_regenerated_keys it it'

/-- … and inside the one-item sequences (`MeasuredValueSequence`, `ContentTemplateSequence`,
`ReferencedSOPSequence`), which the model keeps as structured values, the fields are the nested keywords the
source writes and reads. -/
theorem nested_keywords_fingerprint :
    (nestedReadKeys "NumContentItem" "value" = ["FloatingPointValue", "NumericValue"] ∧
     nestedReadKeys "NumContentItem" "unit" = ["MeasurementUnitsCodeSequence"] ∧
     nestedReadKeys "ContainerContentItem" "template_id" = ["TemplateIdentifier"] ∧
     nestedReadKeys "CompositeContentItem" "value" = ["ReferencedSOPClassUID", "ReferencedSOPInstanceUID"] ∧
     nestedReadKeys "ImageContentItem" "value" = ["ReferencedSOPClassUID", "ReferencedSOPInstanceUID"] ∧
     nestedReadKeys "WaveformContentItem" "value" = ["ReferencedSOPClassUID", "ReferencedSOPInstanceUID"] ∧
     nestedReadKeys "ImageContentItem" "referenced_frame_numbers" = ["ReferencedFrameNumber"] ∧
     nestedReadKeys "ImageContentItem" "referenced_segment_numbers" = ["ReferencedSegmentNumber"] ∧
     nestedReadKeys "WaveformContentItem" "referenced_waveform_channels" = ["ReferencedWaveformChannels"]) ∧
    Gen.srCtorWritesNested.map (fun w => (w.1, w.2.1, w.2.2.1)) =
      [("NumContentItem", "MeasuredValueSequence", "NumericValue"),
       ("NumContentItem", "MeasuredValueSequence", "FloatingPointValue"),
       ("NumContentItem", "MeasuredValueSequence", "MeasurementUnitsCodeSequence"),
       ("ContainerContentItem", "ContentTemplateSequence", "MappingResource"),
       ("ContainerContentItem", "ContentTemplateSequence", "TemplateIdentifier"),
       ("CompositeContentItem", "ReferencedSOPSequence", "ReferencedSOPClassUID"),
       ("CompositeContentItem", "ReferencedSOPSequence", "ReferencedSOPInstanceUID"),
       ("ImageContentItem", "ReferencedSOPSequence", "ReferencedSOPClassUID"),
       ("ImageContentItem", "ReferencedSOPSequence", "ReferencedSOPInstanceUID"),
       ("ImageContentItem", "ReferencedSOPSequence", "ReferencedFrameNumber"),
       ("ImageContentItem", "ReferencedSOPSequence", "ReferencedSegmentNumber"),
       ("WaveformContentItem", "ReferencedSOPSequence", "ReferencedSOPClassUID"),
       ("WaveformContentItem", "ReferencedSOPSequence", "ReferencedSOPInstanceUID"),
       ("WaveformContentItem", "ReferencedSOPSequence", "ReferencedWaveformChannels")] :=
  ⟨nested_reads_fingerprint, by rw [nested_writes_fingerprint]; rfl⟩

/-! ## the accessors report what the constructor was given -/

/-- name and relationship type, for every constructor that goes through `ContentItem.__init__` only -/
theorem accessor_name_relationship {cls : Cls} {vtName vt : String} {req : List String} (T : TableOk cls vtName vt req)
    (name : Coded) (rel : Option String) (extra : Attrs) (it : Item) (h : withAttrs cls name rel extra = .ok it)
    (he : extra.lookup "RelationshipType" = none) : nameOf it = some name ∧ relOf it = rel := by
  rw [withAttrs_shape T name rel extra it h]
  exact shape_name_rel cls vt name rel extra he

/-- CODE, TEXT, PNAME, DATE, TIME, DATETIME, UIDREF: the stored value is the given one -/
theorem accessor_scalar_types (name : Coded) (rel : Option String) (it : Item) :
    (∀ v, mkCode name v rel = .ok it → codeValue it = some v ∧ nameOf it = some name ∧ relOf it = rel) ∧
    (∀ v, mkText name v rel = .ok it → strValue "TextValue" it = some v ∧ nameOf it = some name ∧ relOf it = rel) ∧
    (∀ v, mkPname name v rel = .ok it → strValue "PersonName" it = some v ∧ nameOf it = some name ∧ relOf it = rel) ∧
    (∀ v, mkDate name v rel = .ok it → strValue "Date" it = some v ∧ nameOf it = some name ∧ relOf it = rel) ∧
    (∀ v, mkTime name v rel = .ok it → strValue "Time" it = some v ∧ nameOf it = some name ∧ relOf it = rel) ∧
    (∀ v, mkDateTime name v rel = .ok it → strValue "DateTime" it = some v ∧ nameOf it = some name ∧ relOf it = rel) ∧
    (∀ v, mkUidRef name v rel = .ok it → strValue "UID" it = some v ∧ nameOf it = some name ∧ relOf it = rel) := by
  refine ⟨?_, ?_, ?_, ?_, ?_, ?_, ?_⟩ <;> intro v h
  · refine ⟨?_, accessor_name_relationship tableOk_code name rel _ it h (by simp [List.lookup])⟩
    rw [withAttrs_shape tableOk_code name rel _ it h]
    simp only [codeValue, Item.attrs, lookup_extra _ name rel _ "ConceptCodeSequence" (by decide)]
    simp [List.lookup]
  · refine ⟨?_, accessor_name_relationship tableOk_text name rel _ it h (by simp [List.lookup])⟩
    rw [withAttrs_shape tableOk_text name rel _ it h]
    simp only [strValue, Item.attrs, lookup_extra _ name rel _ "TextValue" (by decide)]
    simp [List.lookup]
  · refine ⟨?_, accessor_name_relationship tableOk_pname name rel _ it h (by simp [List.lookup])⟩
    rw [withAttrs_shape tableOk_pname name rel _ it h]
    simp only [strValue, Item.attrs, lookup_extra _ name rel _ "PersonName" (by decide)]
    simp [List.lookup]
  · refine ⟨?_, accessor_name_relationship tableOk_date name rel _ it h (by simp [List.lookup])⟩
    rw [withAttrs_shape tableOk_date name rel _ it h]
    simp only [strValue, Item.attrs, lookup_extra _ name rel _ "Date" (by decide)]
    simp [List.lookup]
  · refine ⟨?_, accessor_name_relationship tableOk_time name rel _ it h (by simp [List.lookup])⟩
    rw [withAttrs_shape tableOk_time name rel _ it h]
    simp only [strValue, Item.attrs, lookup_extra _ name rel _ "Time" (by decide)]
    simp [List.lookup]
  · refine ⟨?_, accessor_name_relationship tableOk_datetime name rel _ it h (by simp [List.lookup])⟩
    rw [withAttrs_shape tableOk_datetime name rel _ it h]
    simp only [strValue, Item.attrs, lookup_extra _ name rel _ "DateTime" (by decide)]
    simp [List.lookup]
  · refine ⟨?_, accessor_name_relationship tableOk_uidref name rel _ it h (by simp [List.lookup])⟩
    rw [withAttrs_shape tableOk_uidref name rel _ it h]
    simp only [strValue, Item.attrs, lookup_extra _ name rel _ "UID" (by decide)]
    simp [List.lookup]

/-- NUM: a float is reported exactly (through `FloatingPointValue`, whatever `DS(...)` does to the decimal
string); an int is reported as `DS(value)`, i.e. exactly whenever the decimal string holds it; unit and
qualifier are reported -/
theorem accessor_num (ds : Rat → Rat) (name : Coded) (v : Rat) (isFloat : Bool) (unit : Coded) (q : Option Coded)
    (rel : Option String) (it : Item) (h : mkNum ds name v isFloat unit q rel = .ok it) :
    numValue it = some (if isFloat then v else ds v) ∧ (ds v = v → numValue it = some v) ∧
    numUnit it = some unit ∧ numQualifier it = q ∧ nameOf it = some name ∧ relOf it = rel := by
  have hs := withAttrs_shape tableOk_num name rel _ it h
  have hnr := accessor_name_relationship tableOk_num name rel _ it h (by cases q <;> simp [List.lookup])
  have h1 : numValue it = some (if isFloat then v else ds v) := by
    rw [hs]
    simp only [numValue, Item.attrs, lookup_extra _ name rel _ "MeasuredValueSequence" (by decide)]
    cases isFloat <;> simp
  refine ⟨h1, ?_, ?_, ?_, hnr.1, hnr.2⟩
  · intro hd; rw [h1]; cases isFloat <;> simp [hd]
  · rw [hs]
    simp only [numUnit, Item.attrs, lookup_extra _ name rel _ "MeasuredValueSequence" (by decide)]
    simp
  · rw [hs]
    simp only [numQualifier, Item.attrs, lookup_extra _ name rel _ "NumericValueQualifierCodeSequence" (by decide)]
    cases q <;> simp [List.lookup]

/-- CONTAINER: continuity flag and template identifier -/
theorem accessor_container (name : Coded) (c : Bool) (t : Option String) (rel : Option String) (it : Item)
    (h : mkContainer name c t rel = .ok it) :
    strValue "ContinuityOfContent" it = some (if c then "CONTINUOUS" else "SEPARATE") ∧ containerTemplate it = t ∧
    nameOf it = some name ∧ relOf it = rel := by
  have hs := withAttrs_shape tableOk_container name rel _ it h
  have hnr := accessor_name_relationship tableOk_container name rel _ it h (by cases t <;> simp [List.lookup])
  rw [hs]
  refine ⟨?_, ?_, hs ▸ hnr.1, hs ▸ hnr.2⟩
  · simp only [strValue, Item.attrs, lookup_extra _ name rel _ "ContinuityOfContent" (by decide)]
    simp
  · simp only [containerTemplate, Item.attrs, lookup_extra _ name rel _ "ContentTemplateSequence" (by decide)]
    cases t <;> simp [List.lookup]

/-- COMPOSITE, IMAGE, WAVEFORM: the referenced UIDs; frame and segment numbers also when a single number is
stored as a bare value; the channel pairs back from the flat list -/
theorem accessor_references (name : Coded) (cu iu : String) (rel : Option String) (it : Item) :
    (mkComposite name cu iu rel = .ok it → refValue it = some (cu, iu) ∧ nameOf it = some name ∧ relOf it = rel) ∧
    (∀ f sg, mkImage name cu iu f sg rel = .ok it →
      refValue it = some (cu, iu) ∧ imageFrames it = f ∧ imageSegments it = sg ∧ nameOf it = some name ∧ relOf it = rel) ∧
    (∀ ch, mkWaveform name cu iu ch rel = .ok it →
      refValue it = some (cu, iu) ∧ waveformChannels it = ch ∧ nameOf it = some name ∧ relOf it = rel) := by
  refine ⟨?_, ?_, ?_⟩
  · intro h
    refine ⟨?_, accessor_name_relationship tableOk_composite name rel _ it h (by simp [List.lookup])⟩
    rw [withAttrs_shape tableOk_composite name rel _ it h]
    simp only [refValue, Item.attrs, lookup_extra _ name rel _ "ReferencedSOPSequence" (by decide)]
    simp [List.lookup]
  · intro f sg h
    have hnr := accessor_name_relationship tableOk_image name rel _ it h (by simp [List.lookup])
    refine ⟨?_, ?_, ?_, hnr⟩ <;> rw [withAttrs_shape tableOk_image name rel _ it h]
    · simp only [refValue, Item.attrs, lookup_extra _ name rel _ "ReferencedSOPSequence" (by decide)]
      simp [List.lookup]
    · simp only [imageFrames, Item.attrs, lookup_extra _ name rel _ "ReferencedSOPSequence" (by decide)]
      cases f <;> simp [List.lookup, asList_stored]
    · simp only [imageSegments, Item.attrs, lookup_extra _ name rel _ "ReferencedSOPSequence" (by decide)]
      cases sg <;> simp [List.lookup, asList_stored]
  · intro ch h
    have hnr := accessor_name_relationship tableOk_waveform name rel _ it h (by simp [List.lookup])
    refine ⟨?_, ?_, hnr⟩ <;> rw [withAttrs_shape tableOk_waveform name rel _ it h]
    · simp only [refValue, Item.attrs, lookup_extra _ name rel _ "ReferencedSOPSequence" (by decide)]
      simp [List.lookup]
    · simp only [waveformChannels, Item.attrs, lookup_extra _ name rel _ "ReferencedSOPSequence" (by decide)]
      cases ch <;> simp [List.lookup, pairUp_flattenPairs]

/-- SCOORD: `np.array(GraphicData).reshape(-1, 2)` is the array the constructor was given (any graphic type,
any admissible number of points), graphic type, name and relationship are reported -/
theorem accessor_scoord (name : Coded) (gt : String) (p : Points) (o f rel : Option String) (it : Item)
    (hrect : p.rect = true) (h : mkScoord name gt p o f rel = .ok it) :
    scoordValue it = some p.rows ∧ strValue "GraphicType" it = some gt ∧ nameOf it = some name ∧ relOf it = rel := by
  obtain ⟨g, _, hc, _, e⟩ := mkScoord_ok_iff name gt p o f rel it h
  have hd : (p.d : Int) = 2 := ((scoordCheck_iff g _ _).mp hc).1
  have hd' : p.d = 2 := by exact_mod_cast hd
  have hrows : ∀ r ∈ p.rows, r.length = 2 := by
    intro r hr
    have := List.all_eq_true.mp hrect r hr
    simpa [hd'] using this
  rw [e]
  refine ⟨?_, ?_, shape_name_rel _ _ name rel _ (by cases o <;> cases f <;> simp [List.lookup, optAttr])⟩
  · simp only [scoordValue, graphicData, Item.attrs, lookup_extra _ name rel _ "GraphicData" (by decide)]
    have key := reshape_flatten 2 (by decide) p.rows hrows
    rw [List.length_flatten] at key
    simp [List.lookup, key]
  · simp only [strValue, Item.attrs, lookup_extra _ name rel _ "GraphicType" (by decide)]
    simp

/-- SCOORD3D: the same with `reshape(-1, 3)`, and the frame of reference -/
theorem accessor_scoord3d (name : Coded) (gt : String) (p : Points) (fo : String) (f rel : Option String) (it : Item)
    (hrect : p.rect = true) (h : mkScoord3d name gt p fo f rel = .ok it) :
    scoord3dValue it = some p.rows ∧ strValue "GraphicType" it = some gt ∧
    strValue "ReferencedFrameOfReferenceUID" it = some fo ∧ nameOf it = some name ∧ relOf it = rel := by
  obtain ⟨g, _, hc, e⟩ := mkScoord3d_ok_iff name gt p fo f rel it h
  have hd : (p.d : Int) = 3 := ((scoord3dCheck_iff g _ _ _ _).mp hc).1
  have hd' : p.d = 3 := by exact_mod_cast hd
  have hrows : ∀ r ∈ p.rows, r.length = 3 := by
    intro r hr
    have := List.all_eq_true.mp hrect r hr
    simpa [hd'] using this
  rw [e]
  refine ⟨?_, ?_, ?_, shape_name_rel _ _ name rel _ (by cases f <;> simp [List.lookup, optAttr])⟩
  · simp only [scoord3dValue, graphicData, Item.attrs, lookup_extra _ name rel _ "GraphicData" (by decide)]
    have key := reshape_flatten 3 (by decide) p.rows hrows
    rw [List.length_flatten] at key
    simp [List.lookup, key]
  · simp only [strValue, Item.attrs, lookup_extra _ name rel _ "GraphicType" (by decide)]
    simp
  · simp only [strValue, Item.attrs, lookup_extra _ name rel _ "ReferencedFrameOfReferenceUID" (by decide)]
    simp [List.lookup]

/-- TCOORD: the list of time points is reported as a list of the same length — also a single one, which
pydicom stores as a bare value; offsets as `DS(v)` each -/
theorem accessor_tcoord (ds : Rat → Rat) (name : Coded) (rt : String) (t : TArg) (rel : Option String) (it : Item)
    (h : mkTcoord ds name rt (some t) rel = .ok it) :
    tcoordValue it = some (tcoordStored ds t) ∧ ((∀ x, ds x = x) → tcoordValue it = some t) ∧
    strValue "TemporalRangeType" it = some rt ∧ nameOf it = some name ∧ relOf it = rel := by
  obtain ⟨_, t', ht, e⟩ := mkTcoord_ok_iff ds name rt (some t) rel it h
  cases ht
  rw [e]
  have h1 : tcoordValue (.mk .tcoord ([("ValueType", .str "TCOORD"), ("ConceptNameCodeSequence", .code name)] ++ relPart rel ++
      tcoordAttrs ds rt t) none) = some (tcoordStored ds t) := by
    cases t <;>
      simp only [tcoordValue, Item.attrs, tcoordAttrs, tcoordStored,
        lookup_extra _ name rel _ "ReferencedSamplePositions" (by decide),
        lookup_extra _ name rel _ "ReferencedTimeOffsets" (by decide),
        lookup_extra _ name rel _ "ReferencedDateTime" (by decide)] <;>
      simp [List.lookup, asList_stored]
  refine ⟨h1, ?_, ?_, shape_name_rel _ _ name rel _ (by cases t <;> simp [List.lookup, tcoordAttrs])⟩
  · intro hd
    rw [h1]
    have hm : ∀ l : List Rat, l.map ds = l := fun l => by
      induction l with
      | nil => rfl
      | cons x r ih => simp [hd x, ih]
    cases t <;> simp [tcoordStored, hm]
  · cases t <;>
      simp only [strValue, Item.attrs, tcoordAttrs, lookup_extra _ name rel _ "TemporalRangeType" (by decide)] <;>
      simp [List.lookup]

/-! ## forbidden values are rejected -/

/-- **Coordinate counts, 2-D** (over the regenerated decision tree of `ScoordContentItem.__init__`): accepted iff
the rows are (column, row) pairs and POINT has exactly 1, CIRCLE exactly 2, ELLIPSE exactly 4 and any other
graphic type more than 1 of them — so 0 and 2 points for POINT, 1 and 3 for CIRCLE, 3 and 5 for ELLIPSE, 0 and 1
for MULTIPOINT / POLYLINE are all refused, and so is every array of another width. -/
theorem scoord_count_rule (g : String) (n d : Int) :
    (Gen.scoordCheck g n d = .ok true ↔ (d = 2 ∧ count2Ok g n)) ∧
    (¬ (d = 2 ∧ count2Ok g n) → Gen.scoordCheck g n d = .error .value) :=
  ⟨scoordCheck_iff g n d, scoordCheck_err g n d⟩

/-- the constructor refuses whatever the rule refuses (and unknown graphic types / pixel origin interpretations) -/
theorem scoord_rejects (name : Coded) (gt : String) (p : Points) (o f rel : Option String)
    (h : (∀ g, enumName Gen.srGraphicTypes gt = some g → ¬ ((p.d : Int) = 2 ∧ count2Ok g p.rows.length)) ∨
         (∃ x, o = some x ∧ enumHas Gen.srPixelOrigins x = false)) :
    ∀ it, mkScoord name gt p o f rel ≠ .ok it := by
  intro it hit
  obtain ⟨g, hg, hc, ho, _⟩ := mkScoord_ok_iff name gt p o f rel it hit
  rcases h with h | ⟨x, hx, hf⟩
  · exact h g hg ((scoordCheck_iff g _ _).mp hc)
  · rw [ho x hx] at hf; cases hf

theorem scoord_rejects_count (name : Coded) (gt : String) (hgt : enumName Gen.srGraphicTypes gt = some gt)
    (rows : List (List Rat)) (o f rel : Option String) (hbad : ¬ count2Ok gt rows.length) :
    ∀ it, mkScoord name gt ⟨2, rows⟩ o f rel ≠ .ok it := by
  apply scoord_rejects
  left
  intro g hg
  rw [hgt] at hg
  cases hg
  exact fun hh => hbad hh.2

/-- boundary instances: one point too few / too many -/
theorem scoord_count_boundaries (name : Coded) (rows : List (List Rat)) (o f rel : Option String) :
    (rows.length ≠ 1 → ∀ it, mkScoord name "POINT" ⟨2, rows⟩ o f rel ≠ .ok it) ∧
    (rows.length ≠ 2 → ∀ it, mkScoord name "CIRCLE" ⟨2, rows⟩ o f rel ≠ .ok it) ∧
    (rows.length ≠ 4 → ∀ it, mkScoord name "ELLIPSE" ⟨2, rows⟩ o f rel ≠ .ok it) ∧
    (rows.length ≤ 1 → ∀ it, mkScoord name "MULTIPOINT" ⟨2, rows⟩ o f rel ≠ .ok it) ∧
    (rows.length ≤ 1 → ∀ it, mkScoord name "POLYLINE" ⟨2, rows⟩ o f rel ≠ .ok it) := by
  refine ⟨?_, ?_, ?_, ?_, ?_⟩ <;> intro hn <;> apply scoord_rejects_count _ _ (by decide) <;>
    (simp [count2Ok]; omega)

/-- **Coordinate counts, closedness and coplanarity, 3-D** (over the regenerated decision tree of
`Scoord3DContentItem.__init__`): accepted iff (x, y, z) triplets, POINT 1 / ELLIPSE 4 / ELLIPSOID 6 / others more
than 1, a POLYGON closed, POLYGON and ELLIPSE coplanar. -/
theorem scoord3d_rule (g : String) (n d : Int) (closed cop : Bool) :
    (Gen.scoord3dCheck g n d closed cop = .ok true ↔
      (d = 3 ∧ count3Ok g n ∧ (g = "POLYGON" → closed = true) ∧ ((g = "POLYGON" ∨ g = "ELLIPSE") → cop = true))) ∧
    (¬ (d = 3 ∧ count3Ok g n ∧ (g = "POLYGON" → closed = true) ∧ ((g = "POLYGON" ∨ g = "ELLIPSE") → cop = true)) →
      Gen.scoord3dCheck g n d closed cop = .error .value) :=
  ⟨scoord3dCheck_iff g n d closed cop, scoord3dCheck_err g n d closed cop⟩

theorem scoord3d_rejects (name : Coded) (gt : String) (p : Points) (fo : String) (f rel : Option String)
    (h : ∀ g, enumName Gen.srGraphicTypes3D gt = some g →
      ¬ ((p.d : Int) = 3 ∧ count3Ok g p.rows.length ∧ (g = "POLYGON" → firstEqLast p.rows = true) ∧
         ((g = "POLYGON" ∨ g = "ELLIPSE") → coplanar p.rows = true))) :
    ∀ it, mkScoord3d name gt p fo f rel ≠ .ok it := by
  intro it hit
  obtain ⟨g, hg, hc, _⟩ := mkScoord3d_ok_iff name gt p fo f rel it hit
  exact h g hg ((scoord3dCheck_iff g _ _ _ _).mp hc)

/-- **open polygons are refused** -/
theorem open_polygon_rejected (name : Coded) (rows : List (List Rat)) (fo : String) (f rel : Option String)
    (hopen : firstEqLast rows = false) : ∀ it, mkScoord3d name "POLYGON" ⟨3, rows⟩ fo f rel ≠ .ok it := by
  apply scoord3d_rejects
  intro g hg
  have hg' : some "POLYGON" = some g := (by decide : enumName Gen.srGraphicTypes3D "POLYGON" = some "POLYGON").symm.trans hg
  cases hg'
  intro hh
  have := hh.2.2.1 rfl
  simp only at this
  rw [hopen] at this
  cases this

/-- **non-coplanar polygons and ellipses are refused**: four or more points, three of which span a
parallelepiped of non-zero volume with the first (exact rank condition over ℚ) -/
theorem noncoplanar_rejected (name : Coded) (gt : String) (hgt : gt = "POLYGON" ∨ gt = "ELLIPSE") (p0 : List Rat)
    (rest : List (List Rat)) (fo : String) (f rel : Option String) (hlen : 4 ≤ (p0 :: rest).length)
    (a b c : List Rat) (ha : a ∈ p0 :: rest) (hb : b ∈ p0 :: rest) (hc : c ∈ p0 :: rest)
    (hdet : det3 (sub3 a p0) (sub3 b p0) (sub3 c p0) ≠ 0) :
    ∀ it, mkScoord3d name gt ⟨3, p0 :: rest⟩ fo f rel ≠ .ok it := by
  apply scoord3d_rejects
  intro g hg
  have hcop := coplanar_false_of_det (p0 :: rest) p0 rest rfl hlen a b c ha hb hc hdet
  intro hh
  have hg2 : g = gt := by
    rcases hgt with rfl | rfl
    · exact (Option.some.inj ((by decide : enumName Gen.srGraphicTypes3D "POLYGON" = some "POLYGON").symm.trans hg)).symm
    · exact (Option.some.inj ((by decide : enumName Gen.srGraphicTypes3D "ELLIPSE" = some "ELLIPSE").symm.trans hg)).symm
  have := hh.2.2.2 (by rw [hg2]; exact hgt)
  simp only at this
  rw [hcop] at this
  cases this

/-- three or fewer points are always coplanar (a closed triangle is an admissible polygon) -/
theorem few_points_coplanar (rows : List (List Rat)) (h : rows.length < 4) : coplanar rows = true := coplanar_small rows h

/-- **unknown enumerated values are refused**: relationship type (every constructor), temporal range type,
and a TCOORD without any time points -/
theorem enumerations_enforced (ds : Rat → Rat) (name : Coded) (rt : String) (arg : Option TArg) (rel : Option String) :
    ((enumHas Gen.srTemporalRangeTypes rt = false ∨ arg = none) → ∀ it, mkTcoord ds name rt arg rel ≠ .ok it) ∧
    (∀ r, rel = some r → enumHas Gen.srRelationshipTypes r = false →
      (∀ v it, mkText name v rel ≠ .ok it) ∧ (∀ v it, mkCode name v rel ≠ .ok it) ∧
      (∀ c t it, mkContainer name c t rel ≠ .ok it) ∧ (∀ it, mkTcoord ds name rt arg rel ≠ .ok it)) := by
  constructor
  · intro h it hit
    obtain ⟨hr, t, ht, _⟩ := mkTcoord_ok_iff ds name rt arg rel it hit
    rcases h with h | h
    · rw [hr] at h; cases h
    · rw [h] at ht; cases ht
  · intro r hr hbad
    have hb : ∀ {cls vtName vt req}, TableOk cls vtName vt req → ∀ a, base cls name rel ≠ .ok a := by
      intro cls vtName vt req T a ha
      have := (base_ok T name rel a ha).2 r hr
      rw [hbad] at this; cases this
    refine ⟨?_, ?_, ?_, ?_⟩
    · intro v it h
      unfold mkText withAttrs at h
      cases hx : base .text name rel with
      | error e => rw [hx] at h; cases h
      | ok a => exact hb tableOk_text a hx
    · intro v it h
      unfold mkCode withAttrs at h
      cases hx : base .code name rel with
      | error e => rw [hx] at h; cases h
      | ok a => exact hb tableOk_code a hx
    · intro c t it h
      unfold mkContainer withAttrs at h
      cases hx : base .container name rel with
      | error e => rw [hx] at h; cases h
      | ok a => exact hb tableOk_container a hx
    · intro it h
      unfold mkTcoord at h
      cases hx : base .tcoord name rel with
      | error e => rw [hx] at h; cases h
      | ok a => exact hb tableOk_tcoord a hx

/-- **a child without relationship type cannot be nested** (attribute setter) nor parsed (`from_sequence`) -/
theorem child_without_relationship_rejected (it : Item) (cs : List Item) (d : DS) (r : List DS) (vt : String)
    (hvt : d.attrs.lookup "ValueType" = some (.str vt)) (hk : enumHas Gen.srValueTypes vt = true)
    (hr : has "RelationshipType" d.attrs = false) :
    ((∃ c ∈ cs, has "RelationshipType" c.attrs = false) → setContent it cs = .error .attribute) ∧
    parseList (d :: r) = .error .attribute ∧
    ∀ attrs cls attrs', classify attrs = .ok (cls, attrs') → parse (.mk attrs (some (d :: r))) = .error .attribute := by
  have hp : parseList (d :: r) = .error .attribute := by
    unfold parseList
    simp only [checkDataset_noRel d.attrs vt hvt hk hr]
  refine ⟨setContent_refuses it cs, hp, ?_⟩
  intro attrs cls attrs' hc
  unfold parse
  simp only [hc, hp]

/-- **missing required attribute on parsing**: for every class, a data set of its value type lacking one of the
attributes of its row is refused with AttributeError — by the class dispatch and by the class's own `from_dataset` -/
theorem missing_attribute_rejected {cls : Cls} {vtName vt : String} {req : List String} (T : TableOk cls vtName vt req)
    (attrs : Attrs) (content : Option (List DS)) (hvt : attrs.lookup "ValueType" = some (.str vt))
    (h : ∃ k ∈ req, has k attrs = false) :
    parse (.mk attrs content) = .error .attribute ∧ parseAs cls (.mk attrs content) = .error .attribute :=
  ⟨parse_of_classify_err attrs content _ (classify_missing T attrs hvt h),
   parseAs_of_classifyAs_err cls attrs content _ (classifyAs_missing T attrs hvt h)⟩

/-- **missing or unknown value type on parsing** -/
theorem missing_value_type_rejected {cls : Cls} {vtName vt : String} {req : List String} (T : TableOk cls vtName vt req)
    (attrs : Attrs) (content : Option (List DS)) :
    (attrs.lookup "ValueType" = none →
      parse (.mk attrs content) = .error .attribute ∧ parseAs cls (.mk attrs content) = .error .attribute) ∧
    (∀ v, attrs.lookup "ValueType" = some (.str v) → enumName Gen.srValueTypes v = none →
      parse (.mk attrs content) = .error .value ∧ parseAs cls (.mk attrs content) = .error .value) := by
  constructor
  · intro h
    exact ⟨parse_of_classify_err attrs content _ (classify_noValueType attrs h),
           parseAs_of_classifyAs_err cls attrs content _ (classifyAs_noValueType T attrs h)⟩
  · intro v hv hn
    refine ⟨parse_of_classify_err attrs content _ (classify_unknownValueType attrs v hv hn),
            parseAs_of_classifyAs_err cls attrs content _ (classifyAs_mismatch T attrs v hv ?_)⟩
    intro e
    subst e
    rw [T.name] at hn; cases hn

/-- **mismatching value type on parsing**: a class's `from_dataset` refuses every data set of another value
type with ValueError (in particular `WaveformContentItem` refuses IMAGE data sets and accepts its own) -/
theorem mismatching_value_type_rejected {cls : Cls} {vtName vt : String} {req : List String} (T : TableOk cls vtName vt req)
    (attrs : Attrs) (content : Option (List DS)) (vt' : String) (hvt : attrs.lookup "ValueType" = some (.str vt'))
    (hne : vt' ≠ vt) : parseAs cls (.mk attrs content) = .error .value :=
  parseAs_of_classifyAs_err cls attrs content _ (classifyAs_mismatch T attrs vt' hvt hne)

/-- **missing concept name**: refused for the classes whose name is mandatory -/
theorem missing_name_rejected {cls : Cls} {vtName vt : String} {req : List String} (T : TableOk cls vtName vt req)
    (attrs : Attrs) (content : Option (List DS)) (hvt : attrs.lookup "ValueType" = some (.str vt))
    (hreq : ∀ k ∈ req, has k attrs = true) (hn : has "ConceptNameCodeSequence" attrs = false)
    (hopt : Gen.srOptionalNameClasses.contains cls.pyName = false) :
    parseAs cls (.mk attrs content) = .error .attribute :=
  parseAs_of_classifyAs_err cls attrs content _ (classifyAs_noName T attrs hvt hreq hn hopt)

/-- the classes of the value types for which PS3.3 C.17.3 makes the concept name mandatory (and CONTAINER) are
not in the regenerated list of optional-name classes, so `missing_name_rejected` applies to them -/
theorem name_mandatory_classes :
    ∀ c ∈ [Cls.text, .num, .code, .datetime, .date, .time, .uidref, .pname, .container],
      Gen.srOptionalNameClasses.contains c.pyName = false := by decide

/-! ## Non-vacuity: concrete items built by the model's constructors -/

private def nm : Coded := { value := "121071", scheme := "DCM", meaning := "Finding", version := none }
private def poly : Points := ⟨3, [[0, 0, 0], [1, 0, 0], [1, 1/2, 0], [0, 0, 0]]⟩

example : (mkScoord3d nm "POLYGON" poly "1.2.3" none (some "CONTAINS")).toBool = true := by decide +kernel
example : (mkTcoord id nm "POINT" (some (.positions [5])) (some "HAS PROPERTIES")).toBool = true := by decide +kernel
example : (mkNum id nm (1/3) true nm none none).toBool = true := by decide +kernel
example : (mkScoord nm "CIRCLE" ⟨2, [[1, 2], [3, 4]]⟩ (some "VOLUME") none none).toBool = true := by decide +kernel
example : (mkScoord nm "CIRCLE" ⟨2, [[1, 2], [3, 4], [5, 6]]⟩ none none none).toBool = false := by decide +kernel
/-- a container with a polygon and a single time point nested, round-tripping by the theorem -/
example (c p t it : Item) (hc : mkContainer nm true (some "1500") none = .ok c)
    (hp : mkScoord3d nm "POLYGON" poly "1.2.3" none (some "CONTAINS") = .ok p)
    (ht : mkTcoord id nm "POINT" (some (.positions [5])) (some "HAS PROPERTIES") = .ok t)
    (h : setContent c [p, t] = .ok it) : parse (serialise it) = .ok it :=
  parse_serialise (Built.content c [p, t] it (Built.container _ _ _ _ _ hc)
    (by intro x hx; simp at hx; rcases hx with rfl | rfl
        · exact Built.scoord3d _ _ _ _ _ _ _ hp
        · exact Built.tcoord _ _ _ _ _ _ ht) h)
/-- the open and the lifted polygon are refused; four points of a tetrahedron are not coplanar -/
example : ∀ it, mkScoord3d nm "POLYGON" ⟨3, [[0, 0, 0], [1, 0, 0], [1, 1, 0], [0, 1, 0]]⟩ "1.2.3" none none ≠ .ok it :=
  open_polygon_rejected nm _ _ _ _ (by decide +kernel)
example : coplanar [[0, 0, 0], [1, 0, 0], [0, 1, 0], [0, 0, 1], [0, 0, 0]] = false := by decide +kernel
example : coplanar poly.rows = true := by decide +kernel

end HdVerif.C13
