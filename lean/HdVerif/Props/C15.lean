import HdVerif.Proofs.SREvidence
import HdVerif.Proofs.SREvidenceTie
import HdVerif.Proofs.SRDocument
import HdVerif.Proofs.SRTree
import HdVerif.Proofs.SRTreeItem
import HdVerif.Generated.T15c
import HdVerif.Generated.T15k
import HdVerif.Generated.T15l
/-! # C15  SR documents carry their content intact with complete evidence

Property theorems only.  The model is `Model/SREvidence.lean` (hand-written, tied to `/repo` by the
correspondence check `harness/corr/C15.py`); the refusal guards of the document constructors
(`Gen.srVerifiedGuard`, `Gen.srScoord3dGuard*`) are regenerated from `sr/sop.py` on every run (tie T). -/
namespace HdVerif.C15
open HdVerif HdVerif.SREvidence HdVerif.SREvidenceLemmas

/-! ## searching the tree -/

/-- `find_content_items(recursive=True)` returns, in document order, exactly the items at any depth below
the root that satisfy every given filter. -/
theorem find_recursive_spec (root : Item) (q : Query) (h : root.hasSeq = true) :
    findContentItems root q true = .ok ((descendants root).filter q.matches) := find_rec root q h

/-- … and without recursion exactly the matching direct children. -/
theorem find_flat_spec (root : Item) (q : Query) (h : root.hasSeq = true) :
    findContentItems root q false = .ok (root.children.filter q.matches) := find_flat root q h

/-- The test the model applies to every item (`Query.matches`) is the conjunction of the three predicates of
`find_content_items` as they stand in the source now (`Gen.findHas*`, regenerated every run; T15c also checks the shape of
`search_tree`: item first, then — iff it has a ContentSequence and `recursive` — its children). -/
theorem item_test_is_source_test (q : Query) (it : Item) :
    (do
      let a ← Gen.findHasName q.name.isSome (some it.name == q.name)
      let b ← Gen.findHasValueType q.vt.isSome (some it.vt == q.vt)
      let c ← Gen.findHasRelationshipType q.rel.isSome it.rel.isNone (it.rel == q.rel)
      pure (a && b && c)) = (.ok (q.matches it) : Except ErrKind Bool) := by
  unfold Query.matches Gen.findHasName Gen.findHasValueType Gen.findHasRelationshipType
  cases hn : q.name <;> cases hv : q.vt <;> cases hr : q.rel <;> cases hi : it.rel <;>
    simp [bind, Except.bind, pure, Except.pure]

/-- `descendants` really is "at any depth": an item is a descendant iff a chain of content sequences leads
from the root to it. -/
theorem descendants_any_depth (root x : Item) : x ∈ descendants root ↔ Below root x := mem_descendants_iff root x

/-! ## acceptance -/

/-- **Acceptance, characterised within the model's scope.**  A document is built iff evidence was supplied, verification
details are present when verified, there is one root; every item of the tree has a value type of the enumeration and —
below the root — a relationship type (`Convertible`: what the conversion of the copied tree demands; the enumeration is
read from `sr/enum.py` on every run, T15e); the root has no relationship, is a CONTAINER and has a content sequence;
every IMAGE/COMPOSITE reference at any depth has supplied evidence; and — unless the class is Comprehensive 3D — the tree
holds no SCOORD3D item at any depth.  Outside the model (hypotheses of this reading): every item is otherwise a valid
content item of its value type (C13: required attributes, concept names), the evidence data sets carry the patient /
study attributes `SOPClass.__init__` reads, the transfer syntax is one of the two supported ones. -/
theorem accepted_iff (a : DocArgs) :
    (∃ d, buildSR a = .ok d) ↔
      a.evidence ≠ [] ∧ (a.verified = true → a.hasObserver = true ∧ a.hasOrganization = true) ∧ a.nRoots = 1 ∧
      Convertible a.tree ∧ a.tree.rel = none ∧ a.tree.vt = "CONTAINER" ∧
      a.tree.hasSeq = true ∧ RefsSupplied a.tree a.evidence ∧ (a.cls ≠ .comprehensive3d → NoScoord3d a.tree) := by
  constructor
  · rintro ⟨d, hd⟩
    unfold buildSR at hd
    split at hd
    · cases hd
    rename_i hev
    split at hd
    · cases hd
    rename_i _ hguard
    split at hd
    · cases hd
    rename_i hroots
    split at hd
    · cases hd
    rename_i _ hconv
    split at hd
    · cases hd
    rename_i hrel
    split at hd
    · cases hd
    rename_i hvtc
    split at hd
    · cases hd
    rename_i cur oth hce
    split at hd
    · cases hd
    rename_i n hn
    split at hd
    · cases hd
    rename_i _ hsg
    obtain ⟨refs, hrefs, hall, -⟩ := collectEvidence_spec _ _ _ _ hce
    have hseq : a.tree.hasSeq = true := by
      cases hh : a.tree.hasSeq with
      | true => rfl
      | false => simp [countScoord3d, findContentItems, hh, Except.map] at hn
    refine ⟨by simpa using hev, ?_, by simpa using hroots, (convertTree_ok_iff _).mp hconv, by simpa using hrel, by simpa using hvtc, hseq, ?_, ?_⟩
    · intro hv
      unfold Gen.srVerifiedGuard at hguard
      cases ho : a.hasObserver <;> cases hg : a.hasOrganization <;> simp [hv, ho, hg] at hguard ⊢
    · intro it hit hvt
      -- the item's reference is in refs, hence supplied
      unfold refUids at hrefs
      rw [find_rec _ _ hseq, find_rec _ _ hseq] at hrefs
      simp only [bind, Except.bind] at hrefs
      have hin : it ∈ (List.filter (Query.matches { vt := some "IMAGE" }) (descendants a.tree) ++
          List.filter (Query.matches { vt := some "COMPOSITE" }) (descendants a.tree)) := by
        simp only [List.mem_append, List.mem_filter, Query.matches, Bool.true_and, Bool.and_true, beq_iff_eq]
        rcases hvt with h | h
        · exact Or.inl ⟨hit, h⟩
        · exact Or.inr ⟨hit, h⟩
      generalize (List.filter (Query.matches { vt := some "IMAGE" }) (descendants a.tree) ++
          List.filter (Query.matches { vt := some "COMPOSITE" }) (descendants a.tree)) = l at hrefs hin
      have key : ∀ (l : List Item) (refs : List String),
          l.mapM (fun it => match it.ref with | some r => (Except.ok r.inst : Except ErrKind String) | none => .error .attribute) = .ok refs →
          ∀ it ∈ l, ∃ r, it.ref = some r ∧ r.inst ∈ refs := by
        intro l
        induction l with
        | nil => intro refs _ it hit; simp at hit
        | cons x xs ih =>
          intro refs h it hit
          rw [List.mapM_cons] at h
          cases hx : x.ref with
          | none => simp [hx, bind, Except.bind] at h
          | some r =>
            simp only [hx, bind, Except.bind] at h
            cases hxs : xs.mapM (fun it => match it.ref with | some r => (Except.ok r.inst : Except ErrKind String) | none => .error .attribute) with
            | error e => simp [hxs] at h
            | ok rest =>
              simp only [hxs, pure, Except.pure] at h
              cases h
              rcases List.mem_cons.mp hit with hit | hit
              · subst hit; exact ⟨r, hx, by simp⟩
              · obtain ⟨r', h1, h2⟩ := ih rest hxs it hit
                exact ⟨r', h1, by simp [h2]⟩
      obtain ⟨r, hr, hmem⟩ := key l refs hrefs it hin
      exact ⟨r, hr, hall _ hmem⟩
    · intro hcls
      obtain ⟨n', hn', hz⟩ := countScoord3d_ok a.tree hseq
      rw [hn] at hn'
      cases hn'
      apply hz.mp
      cases hc : a.cls with
      | comprehensive3d => exact absurd hc hcls
      | enhanced =>
        simp only [scoord3dGuard, hc, Gen.srScoord3dGuardEnhanced] at hsg
        by_cases h0 : n = 0
        · exact h0
        · have h1 : 0 < n := by omega
          simp [h1] at hsg
      | comprehensive =>
        simp only [scoord3dGuard, hc, Gen.srScoord3dGuardComprehensive] at hsg
        by_cases h0 : n = 0
        · exact h0
        · have h1 : 0 < n := by omega
          simp [h1] at hsg
  · rintro ⟨hev, hver, hroots, hconv, hrel, hvtc, hseq, hrefs, h3d⟩
    have hconv' := (convertTree_ok_iff _).mpr hconv
    obtain ⟨refs, hr⟩ := refUids_ok_of_supplied a.tree a.evidence hseq hrefs
    have hall : ∀ u ∈ refs, u ∈ a.evidence.map (·.inst) := by
      intro u hu
      obtain ⟨it, hit, hvt, r, hr', hu'⟩ := (refUids_mem a.tree refs hr u).mp hu
      obtain ⟨r2, hr2, hin⟩ := hrefs it hit hvt
      rw [hr'] at hr2
      cases hr2
      rw [← hu']
      exact hin
    obtain ⟨cur, oth, hco, -⟩ := collectEvidence_ok a.evidence a.tree refs hr hall
    obtain ⟨n, hn, hz⟩ := countScoord3d_ok a.tree hseq
    have hguard : Gen.srVerifiedGuard a.verified (!a.hasObserver) (!a.hasOrganization) = .ok true := by
      unfold Gen.srVerifiedGuard
      cases hv : a.verified
      · simp
      · obtain ⟨h1, h2⟩ := hver hv
        simp [h1, h2]
    have hsg : scoord3dGuard a.cls n = .ok true := by
      cases hc : a.cls with
      | comprehensive3d => simp [scoord3dGuard, Gen.srScoord3dGuardComprehensive3D]
      | enhanced =>
        have : n = 0 := hz.mpr (h3d (by simp [hc]))
        subst this
        simp [scoord3dGuard, Gen.srScoord3dGuardEnhanced]
      | comprehensive =>
        have : n = 0 := hz.mpr (h3d (by simp [hc]))
        subst this
        simp [scoord3dGuard, Gen.srScoord3dGuardComprehensive]
    have hev' : a.evidence.isEmpty = false := by
      cases h : a.evidence with
      | nil => exact absurd h hev
      | cons _ _ => rfl
    refine ⟨{ content := a.tree, current := cur, other := if a.record then oth else [],
              predecessors := a.previous.map predecessors, verifiedFlag := a.verified }, ?_⟩
    unfold buildSR
    simp [hev', hguard, hroots, hconv', hrel, hvtc, hco, hn, hsg]

/-- **Evidence partition.**  With `refs` the instance UIDs referenced by IMAGE/COMPOSITE items at any depth
and `firstByInst` the supplied instances with duplicates collapsed (first occurrence kept):
the current-procedure evidence lists exactly the supplied instances that are referenced, the other evidence
exactly the remaining supplied instances iff recording is on (nothing otherwise) — as permutations, i.e. with
multiplicity, every instance under the study and series of its own data set; every study item and every
(study, series) item occurs once and none is empty; every referenced instance was supplied. -/
theorem evidence_partition (a : DocArgs) (d : Doc) (h : buildSR a = .ok d) :
    ∃ refs, refUids a.tree = .ok refs ∧
      (∀ u, u ∈ refs ↔ ∃ it ∈ descendants a.tree, (it.vt = "IMAGE" ∨ it.vt = "COMPOSITE") ∧ ∃ r, it.ref = some r ∧ r.inst = u) ∧
      (∀ u ∈ refs, u ∈ a.evidence.map (·.inst)) ∧
      (rows d.current).Perm (((firstByInst a.evidence []).filter (fun e => decide (e.inst ∈ refs))).map Evd.row) ∧
      (rows d.other).Perm (if a.record then ((firstByInst a.evidence []).filter (fun e => !decide (e.inst ∈ refs))).map Evd.row else []) ∧
      WellGrouped d.current ∧ WellGrouped d.other := by
  obtain ⟨cur, oth, hce, _, hcur, hoth, _⟩ := built_fields a d h
  obtain ⟨refs, hr, hall, h1, h2, h3, h4⟩ := collectEvidence_spec _ _ _ _ hce
  refine ⟨refs, hr, refUids_mem a.tree refs hr, hall, by rw [hcur]; exact h1, ?_, by rw [hcur]; exact h3, ?_⟩
  · rw [hoth]
    cases a.record
    · simp [rows]
    · simpa using h2
  · rw [hoth]
    cases a.record
    · exact ⟨by simp, by simp [pairs], by intro x hx; simp at hx⟩
    · simpa using h4

/-- **Every referenced instance is listed exactly once as current-procedure evidence** (and not as other
evidence), under the study and series of the first data set supplied with that SOP instance UID. -/
theorem referenced_listed_once (a : DocArgs) (d : Doc) (h : buildSR a = .ok d) (it : Item) (r : Ref)
    (hit : it ∈ descendants a.tree) (hvt : it.vt = "IMAGE" ∨ it.vt = "COMPOSITE") (hr : it.ref = some r) :
    ∃ e ∈ a.evidence, e.inst = r.inst ∧
      (rows d.current).filter (fun x => decide (x.inst = r.inst)) = [e.row] ∧
      (rows d.other).filter (fun x => decide (x.inst = r.inst)) = [] := by
  obtain ⟨refs, _, hmem, hall, hcur, hoth, _, _⟩ := evidence_partition a d h
  have hu : r.inst ∈ refs := (hmem r.inst).mpr ⟨it, hit, hvt, r, hr, rfl⟩
  obtain ⟨e0, he0, heq0⟩ := List.mem_map.mp (hall _ hu)
  have hF := firstByInst_complete a.evidence [] e0 he0 (by simp)
  obtain ⟨e, he, heq⟩ := List.mem_map.mp hF
  have hein : e ∈ (firstByInst a.evidence []).filter (fun e => decide (e.inst ∈ refs)) := by
    simp only [List.mem_filter, decide_eq_true_eq]
    exact ⟨he, by rw [heq, heq0]; exact hu⟩
  have hnd : (((firstByInst a.evidence []).filter (fun e => decide (e.inst ∈ refs))).map (·.inst)).Nodup :=
    (firstByInst_nodup a.evidence []).sublist ((List.filter_sublist).map _)
  refine ⟨e, (firstByInst_sub a.evidence [] e he).1, by rw [heq, heq0], ?_, ?_⟩
  · have := rows_filter_inst_of_perm _ _ hcur hnd e hein
    rw [heq, heq0] at this
    exact this
  · cases hrec : a.record
    · rw [hrec] at hoth
      simp only [Bool.false_eq_true, if_false, List.perm_nil] at hoth
      rw [hoth]; rfl
    · rw [hrec] at hoth
      simp only [if_true] at hoth
      apply rows_filter_inst_nil_of_perm _ _ hoth
      intro hc
      obtain ⟨y, hy, hyu⟩ := List.mem_map.mp hc
      simp only [List.mem_filter, Bool.not_eq_true', decide_eq_false_iff_not] at hy
      exact hy.2 (by rw [hyu]; exact hu)

/-- **Every other supplied instance is listed exactly once as other evidence iff recording is on** (never as
current-procedure evidence), again under its own study and series. -/
theorem unreferenced_listed_once (a : DocArgs) (d : Doc) (h : buildSR a = .ok d) (e0 : Evd) (he0 : e0 ∈ a.evidence)
    (hun : ¬ ∃ it ∈ descendants a.tree, (it.vt = "IMAGE" ∨ it.vt = "COMPOSITE") ∧ ∃ r, it.ref = some r ∧ r.inst = e0.inst) :
    ∃ e ∈ a.evidence, e.inst = e0.inst ∧
      (rows d.other).filter (fun x => decide (x.inst = e0.inst)) = (if a.record then [e.row] else []) ∧
      (rows d.current).filter (fun x => decide (x.inst = e0.inst)) = [] := by
  obtain ⟨refs, _, hmem, _, hcur, hoth, _, _⟩ := evidence_partition a d h
  have hu : e0.inst ∉ refs := fun hc => hun ((hmem e0.inst).mp hc)
  have hF := firstByInst_complete a.evidence [] e0 he0 (by simp)
  obtain ⟨e, he, heq⟩ := List.mem_map.mp hF
  have hein : e ∈ (firstByInst a.evidence []).filter (fun e => !decide (e.inst ∈ refs)) := by
    simp only [List.mem_filter, Bool.not_eq_true', decide_eq_false_iff_not]
    exact ⟨he, by rw [heq]; exact hu⟩
  have hnd : (((firstByInst a.evidence []).filter (fun e => !decide (e.inst ∈ refs))).map (·.inst)).Nodup :=
    (firstByInst_nodup a.evidence []).sublist ((List.filter_sublist).map _)
  refine ⟨e, (firstByInst_sub a.evidence [] e he).1, heq, ?_, ?_⟩
  · cases hrec : a.record
    · rw [hrec] at hoth
      simp only [Bool.false_eq_true, if_false, List.perm_nil] at hoth
      rw [hoth]; rfl
    · rw [hrec] at hoth
      simp only [if_true] at hoth ⊢
      have := rows_filter_inst_of_perm _ _ hoth hnd e hein
      rw [heq] at this
      exact this
  · apply rows_filter_inst_nil_of_perm _ _ hcur
    intro hc
    obtain ⟨y, hy, hyu⟩ := List.mem_map.mp hc
    simp only [List.mem_filter, decide_eq_true_eq] at hy
    exact hu (by rw [← hyu]; exact hy.2)

/-- **A reference without supplied evidence is refused** — wherever in the tree the reference sits. -/
theorem reference_without_evidence_refused (a : DocArgs) (it : Item) (r : Ref) (hit : Below a.tree it)
    (hvt : it.vt = "IMAGE" ∨ it.vt = "COMPOSITE") (hr : it.ref = some r) (hmiss : r.inst ∉ a.evidence.map (·.inst)) :
    ∀ d, buildSR a ≠ .ok d := by
  intro d hd
  obtain ⟨_, _, _, _, _, _, _, hsup, _⟩ := (accepted_iff a).mp ⟨d, hd⟩
  obtain ⟨r', hr', hin⟩ := hsup it ((mem_descendants_iff _ _).mpr hit) hvt
  rw [hr] at hr'
  cases hr'
  exact hmiss hin

/-- An item at any depth without relationship type, or with a value type outside the enumeration, is refused. -/
theorem malformed_item_refused (a : DocArgs) (it : Item) (hit : Below a.tree it)
    (hbad : it.rel = none ∨ Gen.srValueTypes.contains it.vt = false) : ∀ d, buildSR a ≠ .ok d := by
  intro d hd
  obtain ⟨_, _, _, hconv, _⟩ := (accepted_iff a).mp ⟨d, hd⟩
  have := hconv.2 it ((mem_descendants_iff _ _).mpr hit)
  rcases hbad with h | h
  · rw [h] at this; simp at this
  · rw [h] at this; simp at this

/-- **Enhanced and Comprehensive SR refuse a tree that holds a SCOORD3D item at any depth.** -/
theorem scoord3d_refused_any_depth (a : DocArgs) (hcls : a.cls = .enhanced ∨ a.cls = .comprehensive) (it : Item)
    (hit : Below a.tree it) (hvt : it.vt = "SCOORD3D") : ∀ d, buildSR a ≠ .ok d := by
  intro d hd
  obtain ⟨_, _, _, _, _, _, _, _, h3d⟩ := (accepted_iff a).mp ⟨d, hd⟩
  have : a.cls ≠ .comprehensive3d := by rcases hcls with h | h <;> simp [h]
  exact h3d this it ((mem_descendants_iff _ _).mpr hit) hvt

/-- … and the refusal is a `ValueError` raised by the class guard when everything else is in order. -/
theorem scoord3d_refusal_kind (a : DocArgs) (hcls : a.cls = .enhanced ∨ a.cls = .comprehensive) (it : Item)
    (hit : Below a.tree it) (hvt : it.vt = "SCOORD3D")
    (hok : ∃ d, buildSR { a with cls := .comprehensive3d } = .ok d) : buildSR a = .error .value := by
  obtain ⟨hev, hver, hroots, hconv, hrel, hvtc, hseq, hrefs, _⟩ := (accepted_iff _).mp hok
  simp only at hev hver hroots hconv hrel hvtc hseq hrefs
  have hconv' := (convertTree_ok_iff _).mpr hconv
  obtain ⟨refs, hr⟩ := refUids_ok_of_supplied a.tree a.evidence hseq hrefs
  have hall : ∀ u ∈ refs, u ∈ a.evidence.map (·.inst) := by
    intro u hu
    obtain ⟨it', hit', hvt', r, hr', hu'⟩ := (refUids_mem a.tree refs hr u).mp hu
    obtain ⟨r2, hr2, hin⟩ := hrefs it' hit' hvt'
    rw [hr'] at hr2; cases hr2; rw [← hu']; exact hin
  obtain ⟨cur, oth, hco, -⟩ := collectEvidence_ok a.evidence a.tree refs hr hall
  obtain ⟨n, hn, hz⟩ := countScoord3d_ok a.tree hseq
  have hn0 : 0 < n := by
    rcases Nat.eq_zero_or_pos n with h0 | h0
    · exact absurd hvt (hz.mp h0 it ((mem_descendants_iff _ _).mpr hit))
    · exact h0
  have hguard : Gen.srVerifiedGuard a.verified (!a.hasObserver) (!a.hasOrganization) = .ok true := by
    unfold Gen.srVerifiedGuard
    cases hv : a.verified
    · simp
    · obtain ⟨h1, h2⟩ := hver hv
      simp [h1, h2]
  have hev' : a.evidence.isEmpty = false := by
    cases h : a.evidence with
    | nil => exact absurd h hev
    | cons _ _ => rfl
  unfold buildSR
  rcases hcls with hc | hc
  · simp [hev', hguard, hroots, hconv', hrel, hvtc, hco, hn, hc, scoord3dGuard, Gen.srScoord3dGuardEnhanced, hn0]
  · simp [hev', hguard, hroots, hconv', hrel, hvtc, hco, hn, hc, scoord3dGuard, Gen.srScoord3dGuardComprehensive, hn0]

/-- Comprehensive 3D SR is indifferent to SCOORD3D items. -/
theorem comprehensive3d_accepts_scoord3d (a : DocArgs) (hcls : a.cls = .comprehensive3d) :
    (∃ d, buildSR a = .ok d) ↔
      a.evidence ≠ [] ∧ (a.verified = true → a.hasObserver = true ∧ a.hasOrganization = true) ∧ a.nRoots = 1 ∧
      Convertible a.tree ∧ a.tree.rel = none ∧ a.tree.vt = "CONTAINER" ∧
      a.tree.hasSeq = true ∧ RefsSupplied a.tree a.evidence := by
  rw [accepted_iff]
  simp [hcls]

/-- **Verification details are demanded when a document is marked verified** (a `ValueError`, before anything
else about the content is looked at), and only then. -/
theorem verified_needs_details (a : DocArgs) (hev : a.evidence ≠ []) (hv : a.verified = true)
    (hmiss : a.hasObserver = false ∨ a.hasOrganization = false) : buildSR a = .error .value := by
  have hev' : a.evidence.isEmpty = false := by
    cases h : a.evidence with
    | nil => exact absurd h hev
    | cons _ _ => rfl
  unfold buildSR
  rcases hmiss with h | h <;> cases ho : a.hasObserver <;> cases hg : a.hasOrganization <;>
    simp_all [Gen.srVerifiedGuard]

theorem unverified_needs_no_details (a : DocArgs) (hv : a.verified = false) (o g : Bool) :
    (∃ d, buildSR a = .ok d) ↔ (∃ d, buildSR { a with hasObserver := o, hasOrganization := g } = .ok d) := by
  rw [accepted_iff, accepted_iff]
  simp [hv]

/-! ## the root item through write and parse -/

/-- **The parsed root item carries exactly the attributes the given root item carried**, for every admissible root item
(all mandatory attributes, any subset of template identification / observation date-time / observation UID): the list of
attributes the parser copies is the one in the source now (`Gen.srParsedRootAttributes`).  Children are content items of
their own (their round trip is C13's). -/
theorem root_attributes_roundtrip (present : List String)
    (hsub : ∀ kw ∈ present, kw ∈ rootItemAttributes.map Prod.fst)
    (hreq : ∀ kw ∈ rootItemAttributes, kw.2 = false → kw.1 ∈ present) :
    ∃ l, parseRoot (writeRoot present) = .ok l ∧ ∀ kw, kw ∈ l ↔ kw ∈ present := by
  have h1 := hreq ("ValueType", false) (by decide) rfl
  have h2 := hreq ("ConceptNameCodeSequence", false) (by decide) rfl
  have h3 := hreq ("ContinuityOfContent", false) (by decide) rfl
  have h4 := hreq ("ContentSequence", false) (by decide) rfl
  simp only at h1 h2 h3 h4
  refine ⟨(Gen.srParsedRootAttributes.map Prod.fst).filter (fun kw => present.contains kw), ?_, ?_⟩
  · simp only [parseRoot, writeRoot, Gen.srParsedRootAttributes, List.foldr_cons, List.foldr_nil, List.map_cons, List.map_nil,
      List.filter_cons, List.filter_nil]
    simp only [List.contains_iff_mem, h1, h2, h3, h4, if_true]
    by_cases a : "ContentTemplateSequence" ∈ present <;> by_cases b : "ObservationDateTime" ∈ present <;>
      by_cases c : "ObservationUID" ∈ present <;> simp [a, b, c]
  · intro kw
    simp only [List.mem_filter, List.contains_iff_mem, decide_eq_true_eq]
    constructor
    · exact fun h => h.2
    · intro h
      refine ⟨?_, h⟩
      have := hsub kw h
      simp only [rootItemAttributes, List.map_cons, List.map_nil, List.mem_cons, List.not_mem_nil, or_false] at this
      simp only [Gen.srParsedRootAttributes, List.map_cons, List.map_nil, List.mem_cons, List.not_mem_nil, or_false]
      rcases this with h | h | h | h | h | h | h <;> simp [h]

/-- … and a root item lacking a mandatory attribute is not parsed. -/
theorem root_missing_mandatory_refused (doc : List String) (kw : String × Bool) (hk : kw ∈ rootItemAttributes) (hm : kw.2 = false)
    (hmiss : kw.1 ∉ doc) : ∃ e, parseRoot doc = .error e := by
  simp only [rootItemAttributes, List.mem_cons, List.not_mem_nil, or_false] at hk
  rcases hk with h | h | h | h | h | h | h <;> subst h <;> simp at hm
  all_goals
    simp only [parseRoot, Gen.srParsedRootAttributes, List.foldr_cons, List.foldr_nil, List.contains_iff_mem]
    simp only at hmiss
    by_cases a : "ContentTemplateSequence" ∈ doc <;> by_cases b : "ObservationDateTime" ∈ doc <;>
      by_cases c : "ObservationUID" ∈ doc <;> by_cases d : "ContinuityOfContent" ∈ doc <;>
      by_cases e : "ValueType" ∈ doc <;> by_cases f : "ContentSequence" ∈ doc <;>
      by_cases g : "ConceptNameCodeSequence" ∈ doc <;> simp_all

/-- `from_dataset(copy=True)`: the root item is built from the returned copy, never from the caller's data set. -/
theorem parsed_root_built_from_returned_object : Gen.srParsedRootSource = "sop_instance" := rfl

/-! ## reading the evidence back -/

theorem rows_nodup (a : DocArgs) (d : Doc) (h : buildSR a = .ok d) : (rows d.current ++ rows d.other).Nodup := by
  obtain ⟨refs, _, _, _, hcur, hoth, _, _⟩ := evidence_partition a d h
  have hF := firstByInst_nodup a.evidence []
  have hsplit : ((((firstByInst a.evidence []).filter (fun e => decide (e.inst ∈ refs))) ++
      ((firstByInst a.evidence []).filter (fun e => !decide (e.inst ∈ refs)))).map (·.inst)).Nodup :=
    ((List.filter_append_perm _ _).map _).nodup_iff.mpr hF
  have hrow : ∀ (l : List Evd), (l.map Evd.row).map (·.inst) = l.map (·.inst) := by
    intro l; simp [Evd.row]
  apply nodup_of_map (fun r : Row => r.inst)
  have hp : ((rows d.current ++ rows d.other).map (·.inst)).Perm
      ((((firstByInst a.evidence []).filter (fun e => decide (e.inst ∈ refs))).map (·.inst)) ++
       (if a.record then ((firstByInst a.evidence []).filter (fun e => !decide (e.inst ∈ refs))).map (·.inst) else [])) := by
    rw [List.map_append]
    refine List.Perm.append ?_ ?_
    · rw [← hrow]; exact hcur.map _
    · revert hoth
      cases a.record <;> intro hoth
      · simp only [Bool.false_eq_true, if_false] at hoth ⊢
        rw [List.perm_nil.mp hoth]; exact List.Perm.refl _
      · simp only [if_true] at hoth ⊢
        rw [← hrow]; exact hoth.map _
  rw [hp.nodup_iff]
  rw [List.map_append] at hsplit
  cases a.record
  · simp only [Bool.false_eq_true, if_false, List.append_nil]
    exact (List.nodup_append.mp hsplit).1
  · simpa using hsplit

/-- **`get_evidence()` lists every recorded instance once**: the current-procedure rows followed by the other
rows (the order-preserving deduplication never removes anything from a constructed document);
`current_procedure_only` gives the current rows alone. -/
theorem get_evidence_spec (a : DocArgs) (d : Doc) (h : buildSR a = .ok d) :
    getEvidence d false = rows d.current ++ rows d.other ∧ getEvidence d true = rows d.current := by
  have hn := rows_nodup a d h
  constructor
  · simp only [getEvidence, Bool.false_eq_true, if_false]
    exact dedup_of_nodup _ _ hn (by simp)
  · simp only [getEvidence, if_true, List.append_nil]
    exact dedup_of_nodup _ _ (List.nodup_append.mp hn).1 (by simp)

/-- **`get_evidence_series()` lists every (study, series) that holds recorded evidence, once** — a series with both
referenced and other instances appears in both sequences but once in the answer. -/
theorem get_evidence_series_spec (d : Doc) :
    (getEvidenceSeries d false).Nodup ∧ (∀ k, k ∈ getEvidenceSeries d false ↔ k ∈ pairs d.current ∨ k ∈ pairs d.other) ∧
    (getEvidenceSeries d true).Nodup ∧ (∀ k, k ∈ getEvidenceSeries d true ↔ k ∈ pairs d.current) := by
  simp only [getEvidenceSeries, pairs_eq_flatMap, Bool.false_eq_true, if_false, if_true, List.append_nil]
  refine ⟨(dedup_spec _).1, fun k => by rw [(dedup_spec _).2 k, List.mem_append], (dedup_spec _).1, fun k => (dedup_spec _).2 k⟩

/-- **Previous versions** are all listed as predecessor documents (each as often as given), grouped under their own
study and series; none are listed when none are given. -/
theorem predecessors_listed (a : DocArgs) (d : Doc) (h : buildSR a = .ok d) :
    (a.previous = none → d.predecessors = none) ∧
    (∀ prev, a.previous = some prev → ∃ g, d.predecessors = some g ∧ (rows g).Perm (prev.map Evd.row) ∧ WellGrouped g) := by
  obtain ⟨_, _, _, _, _, _, hp, _⟩ := built_fields a d h
  constructor
  · intro hn; rw [hp, hn]; rfl
  · intro prev hs
    refine ⟨predecessors prev, by rw [hp, hs]; rfl, ?_⟩
    exact predecessors_spec prev

/-! ## key object selection documents -/

/-- **Key object selection documents**: accepted iff every selected object has supplied evidence and all of
them lie in one study; the current-procedure evidence then lists exactly the selected objects (once each,
under their own study and series), nothing else is recorded, and `resolve_reference` answers
(study, series, instance) of the supplied data set for every selected object and refuses any other UID. -/
theorem ko_evidence (refs : List Ref) (hasDesc : Bool) (evd : List Evd) (d : KODoc)
    (h : buildKO refs hasDesc evd = .ok d) :
    (rows d.current).Perm (((firstByInst evd []).filter (fun e => decide (e.inst ∈ refs.map (·.inst)))).map Evd.row) ∧
    WellGrouped d.current ∧ d.current.length ≤ 1 ∧
    (∀ r ∈ refs, ∃ e ∈ evd, e.inst = r.inst ∧ d.resolve r.inst = .ok (e.study, e.series, e.inst)) ∧
    (∀ u, u ∉ refs.map (·.inst) → d.resolve u = .error .value) := by
  unfold buildKO at h
  simp only [bind, Except.bind, pure, Except.pure] at h
  split at h
  · cases h
  split at h
  · cases h
  split at h
  · cases h
  rename_i v hce
  obtain ⟨cur, oth⟩ := v
  simp only at h
  split at h
  · cases h
  rename_i hlen
  cases h
  obtain ⟨us, hus, hall, hcur, _, hwg, _⟩ := collectEvidence_spec _ _ _ _ hce
  have hmem := ko_refUids_mem refs hasDesc us hus
  have hfilter : (firstByInst evd []).filter (fun e => decide (e.inst ∈ us)) =
      (firstByInst evd []).filter (fun e => decide (e.inst ∈ refs.map (·.inst))) := by
    apply List.filter_congr
    intro e _
    simp only [hmem e.inst]
  rw [hfilter] at hcur
  have hnd : (((firstByInst evd []).filter (fun e => decide (e.inst ∈ refs.map (·.inst)))).map (·.inst)).Nodup :=
    (firstByInst_nodup evd []).sublist ((List.filter_sublist).map _)
  refine ⟨hcur, hwg, by simpa using hlen, ?_, ?_⟩
  · intro r hr
    have hu : r.inst ∈ us := (hmem r.inst).mpr (List.mem_map.mpr ⟨r, hr, rfl⟩)
    obtain ⟨e0, he0, heq0⟩ := List.mem_map.mp (hall _ hu)
    obtain ⟨e, he, heq⟩ := List.mem_map.mp (firstByInst_complete evd [] e0 he0 (by simp))
    have hein : e ∈ (firstByInst evd []).filter (fun e => decide (e.inst ∈ refs.map (·.inst))) := by
      simp only [List.mem_filter, decide_eq_true_eq]
      exact ⟨he, by rw [heq, heq0]; exact List.mem_map.mpr ⟨r, hr, rfl⟩⟩
    have hf := rows_filter_inst_of_perm _ _ hcur hnd e hein
    refine ⟨e, (firstByInst_sub evd [] e he).1, by rw [heq, heq0], ?_⟩
    simp only [KODoc.resolve, lookup_rows]
    have : e.inst = r.inst := by rw [heq, heq0]
    rw [← this, hf]
    simp [Evd.row]
  · intro u hu
    have hf := rows_filter_inst_nil_of_perm _ _ hcur u (by
      intro hc
      obtain ⟨y, hy, hyu⟩ := List.mem_map.mp hc
      simp only [List.mem_filter, decide_eq_true_eq] at hy
      exact hu (by rw [← hyu]; exact hy.2))
    simp only [KODoc.resolve, lookup_rows, hf]
    rfl

/-! ## references built from an existing segmentation -/

/-- **`ReferencedSegment.from_segmentation`, frames.**  The reference names the segmentation, the requested
segment and the frame numbers given (none when the whole segment is meant); every named frame exists and
belongs to the requested segment — otherwise the request is refused — and a segment without frames is refused. -/
theorem segment_reference_spec (s : Seg) (seg : Int) (fs : Option (List Int)) (r : SegmentRef)
    (h : refSegment s seg fs = .ok r) :
    s.isSeg = true ∧ r.cls = s.cls ∧ r.inst = s.inst ∧ r.segment = seg ∧ r.frames = fs ∧
    (∀ f, NamedBy s seg fs f → ∃ fi, s.frame? f = some fi ∧ fi.segment = seg) ∧
    (fs = none → ∃ f, NamedBy s seg fs f) := by
  obtain ⟨hs, infos, hA, hB, hne, htail⟩ := refSegment_infos s seg fs r h
  have hr : r.cls = s.cls ∧ r.inst = s.inst ∧ r.segment = seg ∧ r.frames = fs := by
    simp only at htail
    split at htail
    · subst htail; exact ⟨rfl, rfl, rfl, rfl⟩
    · split at htail
      · exact htail.elim
      · split at htail
        · obtain ⟨_, rfl⟩ := htail; exact ⟨rfl, rfl, rfl, rfl⟩
        · subst htail; exact ⟨rfl, rfl, rfl, rfl⟩
  refine ⟨hs, hr.1, hr.2.1, hr.2.2.1, hr.2.2.2, ?_, ?_⟩
  · intro f hf
    obtain ⟨fi, a, b, _⟩ := hA f hf
    exact ⟨fi, a, b⟩
  · intro hn
    have := hne hn
    cases hi : infos with
    | nil => exact absurd hi this
    | cons x xs =>
      obtain ⟨f, hf, _⟩ := hB x (by simp [hi])
      exact ⟨f, hf⟩

/-- **`ReferencedSegment.from_segmentation`, sources (derivation information present).**  When some named
frame records a source image, the reference lists as source images exactly the instances the named frames were derived
from — each instance once — and for every listed instance exactly the frames of it that the named frames derive from:
no frame numbers iff some named frame derives from the instance as a whole (a source item without frame numbers),
otherwise the set of all frame numbers any named frame records for it (`Whole` / `HasFrame` over all source items of all
named frames); no source series. -/
theorem segment_sources_derived (s : Seg) (seg : Int) (fs : Option (List Int)) (r : SegmentRef)
    (h : refSegment s seg fs = .ok r)
    (hsrc : ∃ f fi, NamedBy s seg fs f ∧ s.frame? f = some fi ∧ frameSources fi ≠ []) :
    ∃ L : List SrcImg,
      (∀ x, x ∈ L ↔ ∃ f fi, NamedBy s seg fs f ∧ s.frame? f = some fi ∧ x ∈ frameSources fi) ∧
      r.series = none ∧ (r.sources.map (·.inst)).Nodup ∧
      (∀ x ∈ L, ∃ y ∈ r.sources, y.inst = x.inst) ∧
      (∀ y ∈ r.sources, (∃ x ∈ L, x.inst = y.inst) ∧ (y.frames = none ↔ Whole L y.inst) ∧
        (∀ l, y.frames = some l → ∀ f, f ∈ l ↔ HasFrame L y.inst f)) := by
  obtain ⟨_, infos, hA, hB, _, htail⟩ := refSegment_infos s seg fs r h
  refine ⟨infos.flatMap frameSources, ?_, ?_⟩
  · intro x
    simp only [List.mem_flatMap]
    constructor
    · rintro ⟨fi, hfi, hx⟩
      obtain ⟨f, a, b⟩ := hB fi hfi
      exact ⟨f, fi, a, b, hx⟩
    · rintro ⟨f, fi, a, b, hx⟩
      obtain ⟨fi', a', _, c'⟩ := hA f a
      rw [b] at a'; cases a'
      exact ⟨fi, c', hx⟩
  · have hspec := gatherSources_spec (infos.flatMap frameSources)
    have hnonempty : (!(gatherSources (infos.flatMap frameSources)).isEmpty) = true := by
      obtain ⟨f, fi, a, b, c⟩ := hsrc
      cases hl : frameSources fi with
      | nil => exact absurd hl c
      | cons x xs =>
        obtain ⟨fi', a', _, c'⟩ := hA f a
        rw [b] at a'; cases a'
        have hx : x ∈ infos.flatMap frameSources := List.mem_flatMap.mpr ⟨fi, c', by simp [hl]⟩
        have := hspec.complete x hx
        cases hg : gatherSources (infos.flatMap frameSources) with
        | nil => rw [hg] at this; simp at this
        | cons _ _ => rfl
    simp only at htail
    rw [if_pos hnonempty] at htail
    subst htail
    refine ⟨rfl, hspec.nodup, ?_, ?_⟩
    · intro x hx
      obtain ⟨y, hy, he⟩ := List.mem_map.mp (hspec.complete x hx)
      exact ⟨y, hy, he⟩
    · intro y hy
      exact hspec.elems y hy

/-- **… sources (no derivation information).**  When no named frame records a source image, the reference
falls back to the segmentation's referenced series: its listed instances (without frame numbers), or —
only if no instances are listed — the series itself; without a referenced series the request is refused. -/
theorem segment_sources_fallback (s : Seg) (seg : Int) (fs : Option (List Int)) (r : SegmentRef)
    (h : refSegment s seg fs = .ok r)
    (hno : ∀ f fi, NamedBy s seg fs f → s.frame? f = some fi → frameSources fi = []) :
    ∃ ser, s.refSeries = some ser ∧
      ((∃ l, s.refInstances = some l ∧ l ≠ [] ∧ r.sources = l.map (fun x => ⟨x.cls, x.inst, none⟩) ∧ r.series = none) ∨
       (s.refInstances = none ∧ r.sources = [] ∧ r.series = some ser)) := by
  obtain ⟨_, infos, _, hB, _, htail⟩ := refSegment_infos s seg fs r h
  have hempty : infos.flatMap frameSources = [] := by
    rw [List.flatMap_eq_nil_iff]
    intro fi hfi
    obtain ⟨f, a, b⟩ := hB fi hfi
    exact hno f fi a b
  simp only [hempty, gatherSources, List.foldl_nil, List.isEmpty_nil, Bool.not_true, Bool.false_eq_true, if_false] at htail
  cases hser : s.refSeries with
  | none => simp [hser] at htail
  | some ser =>
    simp only [hser] at htail
    refine ⟨ser, rfl, ?_⟩
    cases hri : s.refInstances with
    | none => simp only [hri] at htail; subst htail; exact Or.inr ⟨rfl, rfl, rfl⟩
    | some l =>
      simp only [hri] at htail
      obtain ⟨hl, rfl⟩ := htail
      exact Or.inl ⟨l, rfl, hl, rfl, rfl⟩

/-- **`ReferencedSegmentationFrame.from_segmentation`, frames and segment.**  The reference names the
segmentation, the frame numbers given (or, when only a segment is given, exactly the frames of that
segment), and one segment: every named frame exists and belongs to it, and it is the requested segment
whenever one was requested (frames of another segment are refused, also when frame numbers are given). -/
theorem segmentation_frame_reference_spec (s : Seg) (fs : Option (List Int)) (seg : Option Int) (r : SegFrameRef)
    (h : refSegFrame s fs seg = .ok r) :
    s.isSeg = true ∧ r.cls = s.cls ∧ r.inst = s.inst ∧ r.frames ≠ [] ∧
    (∀ f ∈ r.frames, ∃ fi, s.frame? f = some fi ∧ fi.segment = r.segment) ∧
    (∀ sn, seg = some sn → r.segment = sn) ∧
    (∀ l, fs = some l → r.frames = l) ∧
    (fs = none → ∃ sn, seg = some sn ∧ ∀ f, f ∈ r.frames ↔ ∃ fi, s.frame? f = some fi ∧ fi.segment = sn) := by
  obtain ⟨hs, fnums, a, sn, src, hnum, hloop, hsrc, hsn, rfl⟩ := refSegFrame_unpack s fs seg r h
  have inv := segFrameLoop_inv s fnums _ a hloop
  have hsegs := segFrameSegment_spec a seg sn hsn
  refine ⟨hs, rfl, rfl, ?_, ?_, ?_, ?_, ?_⟩
  · intro hc
    simp only at hc
    subst hc
    simp only [segFrameLoop, Except.ok.injEq] at hloop
    subst hloop
    simp [segFrameSegment, dedup] at hsn
  · intro f hf
    obtain ⟨fi, h1, h2, _⟩ := inv.valid f hf
    exact ⟨fi, h1, hsegs.1 _ h2⟩
  · intro want hw
    exact hsegs.2 want hw
  · intro l hl
    subst hl
    simp only [segFrameNumbers, Except.ok.injEq] at hnum
    exact hnum.symm
  · intro hn
    subst hn
    cases seg with
    | none => simp [segFrameNumbers] at hnum
    | some want =>
      refine ⟨want, rfl, ?_⟩
      simp only [segFrameNumbers] at hnum
      split at hnum
      · cases hnum
      · split at hnum
        · cases hnum
        · cases hnum
          intro f
          exact mem_framesOfSegment s want f

/-- **… source image and source frames (derivation information present).**  When some named frame records a
source image, every named frame that records one records this same single instance, the reference names that instance,
and its frame numbers are those of the source image the named segmentation frames were derived from (never the
segmentation's own frame numbers): none as soon as one named frame derives from the image as a whole (source item without
frame numbers), otherwise exactly the union of the frame numbers the named frames record. -/
theorem segmentation_frame_source_derived (s : Seg) (fs : Option (List Int)) (seg : Option Int) (r : SegFrameRef)
    (h : refSegFrame s fs seg = .ok r) (hsrc : ∃ f ∈ r.frames, ∃ src, FrameHasSrc s f src) :
    (∀ f ∈ r.frames, ∀ src, FrameHasSrc s f src → src.cls = r.source.cls ∧ src.inst = r.source.inst) ∧
    ((∃ f ∈ r.frames, ∃ src, FrameHasSrc s f src ∧ src.frames = none) → r.source.frames = none) ∧
    ((∀ f ∈ r.frames, ∀ src, FrameHasSrc s f src → src.frames ≠ none) →
      ∀ x, x ∈ srcFramesOf r.source ↔ ∃ f ∈ r.frames, ∃ src, FrameHasSrc s f src ∧ x ∈ srcFramesOf src) := by
  obtain ⟨_, fnums, a, sn, src, _, hloop, hs, _, rfl⟩ := refSegFrame_unpack s fs seg r h
  have inv := segFrameLoop_inv s fnums _ a hloop
  simp only at hsrc ⊢
  obtain ⟨f0, hf0, src0, fi0, hfi0, hsrc0⟩ := hsrc
  obtain ⟨fi0', h1, _, h3⟩ := inv.valid f0 hf0
  rw [hfi0] at h1; cases h1
  have hu : a.srcUids = some (src0.cls, src0.inst) := by
    rcases h3 with h3 | ⟨src1, h3, hu⟩
    · rw [hsrc0] at h3; cases h3
    · rw [hsrc0] at h3; cases h3; exact hu
  simp only [segFrameSource, hu] at hs
  cases hs
  refine ⟨?_, ?_, ?_⟩
  · rintro f hf src' ⟨fi, hfi, hsingle⟩
    obtain ⟨fi', h1, _, h3⟩ := inv.valid f hf
    rw [hfi] at h1; cases h1
    rcases h3 with h3 | ⟨src2, h3, hu2⟩
    · rw [hsingle] at h3; cases h3
    · rw [hsingle] at h3; cases h3
      rw [hu] at hu2
      simp only [Option.some.injEq, Prod.mk.injEq] at hu2
      exact ⟨hu2.1.symm, hu2.2.symm⟩
  · intro hw
    have : a.srcWhole = true := inv.whole.mpr (Or.inr hw)
    simp [this]
  · intro hall x
    have hnw : a.srcWhole = false := by
      cases hw : a.srcWhole with
      | false => rfl
      | true =>
        rcases inv.whole.mp hw with h' | ⟨f, hf, src', h1, h2⟩
        · cases h'
        · exact absurd h2 (hall f hf src' h1)
    have := inv.frames x
    simp only [List.not_mem_nil, false_or] at this
    rw [← this]
    unfold srcFramesOf
    by_cases he : a.srcFrames.isEmpty = true
    · have he' : a.srcFrames = [] := by simpa using he
      simp [hnw, he']
    · simp [hnw, he]

/-- **… source image (no derivation information).**  When no named frame records a source image, the
reference names the single instance of the segmentation's referenced series, without frame numbers; a
series with several or no listed instances is refused. -/
theorem segmentation_frame_source_fallback (s : Seg) (fs : Option (List Int)) (seg : Option Int) (r : SegFrameRef)
    (h : refSegFrame s fs seg = .ok r) (hno : ∀ f ∈ r.frames, ∀ src, ¬ FrameHasSrc s f src) :
    ∃ ref, s.refInstances = some [ref] ∧ s.refSeries ≠ none ∧ r.source = ⟨ref.cls, ref.inst, none⟩ := by
  obtain ⟨_, fnums, a, sn, src, _, hloop, hs, _, rfl⟩ := refSegFrame_unpack s fs seg r h
  have inv := segFrameLoop_inv s fnums _ a hloop
  simp only at hno ⊢
  have hnone : a.srcUids = none := by
    cases hu : a.srcUids with
    | none => rfl
    | some u =>
      rcases inv.uids u hu with h1 | ⟨f, hf, src', h1, _⟩
      · cases h1
      · exact absurd h1 (hno f hf src')
  simp only [segFrameSource, hnone] at hs
  split at hs
  · cases hs
  · rename_i ser hser
    split at hs
    · cases hs
    · rename_i ref hri
      cases hs
      exact ⟨ref, hri, by rw [hser]; simp, rfl⟩
    · cases hs

/-! ## non-vacuity: concrete inputs satisfying the hypotheses above -/

/-- root › IMAGE(1.1), CONTAINER › { SCOORD › IMAGE(2.1), COMPOSITE(1.1 again), SCOORD3D } -/
def exTree : Item :=
  .mk 1 "CONTAINER" "126000|DCM" none none true [
    .mk 2 "IMAGE" "260753009|SCT" (some "CONTAINS") (some ⟨"ct", "1.1"⟩) false [],
    .mk 3 "CONTAINER" "125007|DCM" (some "CONTAINS") none true [
      .mk 4 "SCOORD" "111030|DCM" (some "CONTAINS") none true [
        .mk 5 "IMAGE" "260753009|SCT" (some "SELECTED FROM") (some ⟨"ct", "2.1"⟩) false []],
      .mk 6 "COMPOSITE" "126100|DCM" (some "CONTAINS") (some ⟨"ct", "1.1"⟩) false [],
      .mk 7 "SCOORD3D" "111030|DCM" (some "CONTAINS") none false []]]

/-- two studies, a duplicate, one instance that is not referenced -/
def exEvd : List Evd := [⟨"st1", "se1", "1.1", "ct"⟩, ⟨"st2", "se1", "2.1", "ct"⟩, ⟨"st1", "se1", "1.1", "ct"⟩,
                         ⟨"st1", "se2", "3.1", "mr"⟩]

def exArgs (c : DocClass) (record : Bool) (evd : List Evd := exEvd) : DocArgs := ⟨c, evd, 1, exTree, record, true, true, true, none⟩

example : (buildSR (exArgs .comprehensive3d true)).map (fun d => (rows d.current, rows d.other)) =
    .ok ([⟨"st1", "se1", "1.1", "ct"⟩, ⟨"st2", "se1", "2.1", "ct"⟩], [⟨"st1", "se2", "3.1", "mr"⟩]) := by decide
example : (buildSR (exArgs .comprehensive3d false)).map (fun d => (rows d.current, rows d.other)) =
    .ok ([⟨"st1", "se1", "1.1", "ct"⟩, ⟨"st2", "se1", "2.1", "ct"⟩], []) := by decide
/-- the SCOORD3D item sits two levels down -/
example : (buildSR (exArgs .enhanced true)).toBool = false ∧ (buildSR (exArgs .comprehensive true)).toBool = false := by decide
/-- the instance referenced below the SCOORD item is not supplied -/
example : (buildSR (exArgs .comprehensive3d true [⟨"st1", "se1", "1.1", "ct"⟩])).toBool = false := by decide
example : (buildSR { exArgs .comprehensive3d true with hasOrganization := false }).toBool = false := by decide
example : (findContentItems exTree { vt := some "IMAGE" } true).map (·.map Item.id) = .ok [2, 5] := by decide
example : (findContentItems exTree { vt := some "IMAGE" } false).map (·.map Item.id) = .ok [2] := by decide

/-- frames 1..4 of segments 1,2,1,2; frames of segment 1 derive from source frames 17 and 5 of one instance -/
def exSeg : Seg :=
  { isSeg := true, cls := "seg", inst := "9.1", tiled := true,
    frames := [⟨1, some [some [⟨"ct", "7.1", some [17]⟩]]⟩, ⟨2, some [some [⟨"ct", "7.1", some [23]⟩]]⟩,
               ⟨1, some [some [⟨"ct", "7.1", some [5]⟩]]⟩, ⟨2, none⟩],
    refSeries := some "7", refInstances := some [⟨"ct", "7.1"⟩] }

example : (refSegFrame exSeg none (some 1)).map (fun r => (r.frames, r.segment, r.source)) =
    .ok ([1, 3], 1, ⟨"ct", "7.1", some [17, 5]⟩) := by decide
example : (refSegFrame exSeg (some [3]) none).map (fun r => (r.frames, r.segment, r.source)) =
    .ok ([3], 1, ⟨"ct", "7.1", some [5]⟩) := by decide
example : (refSegFrame exSeg (some [1, 2]) none).toBool = false ∧ (refSegFrame exSeg (some [1]) (some 2)).toBool = false ∧
    (refSegFrame exSeg (some [1, 9]) none).toBool = false := by decide
example : (refSegment exSeg 2 none).map (fun r => (r.frames, r.sources, r.series)) =
    .ok (none, [⟨"ct", "7.1", some [23]⟩], none) := by decide
example : (refSegment exSeg 2 (some [4])).map (fun r => (r.frames, r.sources, r.series)) =
    .ok (some [4], [⟨"ct", "7.1", none⟩], none) := by decide
example : (refSegment exSeg 1 (some [2])).toBool = false := by decide
/-- by segment: BOTH source frames the two frames of segment 1 derive from (17 and 5), as the by-frame builder names them -/
example : (refSegment exSeg 1 none).map (fun r => r.sources) = .ok [⟨"ct", "7.1", some [17, 5]⟩] := by decide
/-- a frame derived from the whole source image makes the reference name no frame numbers, in both builders -/
def exSegWhole : Seg := { exSeg with frames := [⟨1, some [some [⟨"ct", "7.1", none⟩]]⟩, ⟨1, some [some [⟨"ct", "7.1", some [5]⟩]]⟩] }
example : (refSegment exSegWhole 1 none).map (fun r => r.sources) = .ok [⟨"ct", "7.1", none⟩] := by decide
example : (refSegFrame exSegWhole (some [1, 2]) none).map (fun r => r.source) = .ok ⟨"ct", "7.1", none⟩ := by decide
/-- several derivation items / several source images: the by-frame builder refuses, the by-segment builder lists all -/
def exSegMulti : Seg := { exSeg with frames := [⟨1, some [some [⟨"ct", "7.1", some [1]⟩, ⟨"ct", "7.2", none⟩], none, some [⟨"ct", "7.1", some [2]⟩]]⟩] }
example : (refSegFrame exSegMulti (some [1]) none).toBool = false := by decide
example : (refSegment exSegMulti 1 none).map (fun r => r.sources) = .ok [⟨"ct", "7.1", some [1, 2]⟩, ⟨"ct", "7.2", none⟩] := by decide

example : (buildKO [⟨"ct", "1.1"⟩, ⟨"ct", "1.1"⟩] true exEvd).map (fun d => rows d.current) =
    .ok [⟨"st1", "se1", "1.1", "ct"⟩] := by decide
example : (buildKO [⟨"ct", "1.1"⟩, ⟨"ct", "1.1"⟩] true exEvd).bind (fun d => d.resolve "1.1") = .ok ("st1", "se1", "1.1") := by decide
example : (buildKO [⟨"ct", "1.1"⟩, ⟨"ct", "1.1"⟩] true exEvd).bind (fun d => d.resolve "3.1") = .error .value := by decide
/-- objects from two studies -/
example : (buildKO [⟨"ct", "1.1"⟩, ⟨"ct", "2.1"⟩] false exEvd).toBool = false := by decide

/-! ### The reference builders and the document constructor are the source's (tie T, targets T15f, T15g, T15h)

The theorems above speak about the hand-written `segFrameLoop` / `segFrameSource` / `segFrameSegment` / `segFrameNumbers`,
`namedFrames` / `mergeSrc` and `buildSR` of `Model/SREvidence.lean`.  The statements below tie them to `sr/content.py` and
`sr/sop.py` as they are now: every range guard, index, branch of the loop body, merge decision, guard and recording test in
them is the expression regenerated from the current source (`Generated/T15f.lean`, `T15g.lean`, `T15h.lean`); proofs in
`Proofs/SREvidenceTie.lean`. -/

/-- every iteration of the loop over the named frames of `ReferencedSegmentationFrame.from_segmentation` refuses, indexes and
updates (source uids set / frame numbers united / whole image) exactly as the regenerated range guard
(`frame_number < 1 or frame_number > number_of_frames`), index (`frame_number - 1`) and loop body say -/
theorem segmentation_frame_loop_is_the_source_loop (s : Seg) (f : Int) (fs : List Int) (a : LoopAcc) :
    segFrameLoop s (f :: fs) a =
      (match Gen.segFrameIndex f s.frames.length with
       | .error e => .error e
       | .ok i =>
         match s.frames[i.toNat]? with
         | none => .error .value
         | some fi =>
           match Gen.segFrameStep fi.hasDrv fi.nDrv fi.hasSrc fi.nSrc a.srcUids.isNone (uidsDiffer a fi) fi.hasFrames with
           | .error e => .error e
           | .ok r => segFrameLoop s fs (applyStep a fi r)) := segFrameLoop_cons s f fs a

/-- what the loop is followed by is the source's: the source image is named with the collected frame numbers or as a whole by
the regenerated choice, the fallback to the referenced series and the checks on the segment numbers and on the frames of a
segment are the regenerated ones -/
theorem segmentation_frame_choices_are_the_source_choices (s : Seg) (a : LoopAcc) :
    (∀ c i, a.srcUids = some (c, i) →
      segFrameSource s a = (match Gen.segFrameNameFrames a.srcFrames.length a.srcWhole with
        | .ok named => .ok (SrcImg.mk c i (if named then some a.srcFrames else none))
        | .error e => .error e)) ∧
    (a.srcUids = none →
      segFrameSource s a = (match Gen.segFrameFallback s.refSeries.isSome s.refInstances.isSome ((s.refInstances.getD []).length) with
        | .error e => .error e
        | .ok _ => match s.refInstances with
          | some [r] => .ok (SrcImg.mk r.cls r.inst none)
          | _ => .error .value)) ∧
    (∀ segment sn rest, dedup a.segs [] = sn :: rest →
      segFrameSegment a segment = (match Gen.segFrameSegmentCheck (sn :: rest).length segment.isSome (decide (some sn ≠ segment)) with
        | .ok _ => .ok sn
        | .error e => .error e)) ∧
    (∀ sn, segFrameNumbers s none (some sn) = (match Gen.segFrameOwnGuard (framesOfSegment s.frames sn).length s.tiled with
        | .ok _ => .ok (framesOfSegment s.frames sn)
        | .error e => .error e)) :=
  ⟨fun c i h => segFrameSource_named s a c i h, segFrameSource_fallback s a, fun segment sn rest h => segFrameSegment_gen a segment sn rest h,
   segFrameNumbers_own s⟩

/-- `ReferencedSegment.from_segmentation`: every named frame is validated by the regenerated range guard, index and segment
guard; a source image meets the per-instance table by the regenerated merge (new entry behind all others / the whole instance
from now on / union of the frame numbers); a segment without frames is refused by the regenerated guard -/
theorem segment_reference_steps_are_the_source_steps (s : Seg) (segment : Int) :
    (∀ f fs, namedFrames s segment (f :: fs) =
      (match Gen.segRefIndex f s.frames.length with
       | .error e => .error e
       | .ok i =>
         match s.frames[i.toNat]? with
         | none => .error .value
         | some fi =>
           match Gen.segRefSegmentGuard fi.segment segment with
           | .error e => .error e
           | .ok _ => (namedFrames s segment fs).map (fi :: ·))) ∧
    (∀ (y x : SrcImg) ys, y.inst = x.inst →
      mergeSrc (y :: ys) x = (match Gen.segRefMerge false y.frames.isNone x.frames.isNone with
        | .ok 1 => { y with frames := none } :: ys
        | .ok 2 => { y with frames := some (unionInto (y.frames.getD []) (x.frames.getD [])) } :: ys
        | _ => y :: ys)) ∧
    (∀ t (x : SrcImg), (∀ y ∈ t, y.inst ≠ x.inst) →
      Gen.segRefMerge true (decide False) x.frames.isNone = .ok 0 ∧ mergeSrc t x = t ++ [x]) ∧
    (∀ r, refSegment s segment none = .ok r →
      Gen.segRefOwnGuard (s.frames.filter (fun fi => fi.segment = segment)).length = .ok true) :=
  ⟨namedFrames_cons s segment, fun y x ys h => mergeSrc_known y x ys h, mergeSrc_new, refSegment_own s segment⟩

/-- the document constructor of the model refuses an empty evidence list and a sequence of several roots by the regenerated
guards of `_SR.__init__` (which in turn pass only a non-empty list and exactly one root), and what it records (current-procedure evidence, other evidence iff `record_evidence`, predecessors)
is decided by the regenerated tests (`len(ref_items) > 0`, `len(unref_items) > 0 and record_evidence`,
`previous_versions is not None`) on the two results of `collect_evidence(evidence, content)` -/
theorem document_recording_is_the_source_recording (a : DocArgs) :
    (∀ d, buildSR a = .ok d →
      Gen.srEvidenceGuard a.evidence.length = .ok true ∧ Gen.srContentGuard a.nRoots = .ok true ∧
      ∃ cur oth, collectEvidence a.evidence a.tree = .ok (cur, oth) ∧
        d.current = (if Gen.srRecordCurrent cur.length = .ok true then cur else []) ∧
        d.other = (if Gen.srRecordOther a.record oth.length = .ok true then oth else []) ∧
        d.predecessors = (if Gen.srRecordPredecessors a.previous.isSome = .ok true then a.previous.map predecessors else none)) ∧
    (Gen.srEvidenceGuard a.evidence.length ≠ .ok true ∨ Gen.srContentGuard a.nRoots ≠ .ok true → ∃ e, buildSR a = .error e) ∧
    (Gen.srEvidenceGuard a.evidence.length = .ok true → Gen.srContentGuard a.nRoots = .ok true →
      a.evidence.isEmpty = false ∧ a.nRoots = 1) :=
  ⟨fun d h => buildSR_gen a d h, buildSR_refused_gen a, buildSR_guards_complete a⟩

/-- non-vacuity: the regenerated expressions on the example segmentation (frame 3 of `exSeg`, a frame outside, a frame with two
derivation items), the merge on a whole-instance mention, the constructor guards on the example document -/
example : Gen.segFrameIndex 3 (exSeg.frames.length) = .ok 2 ∧ Gen.segFrameIndex 0 (exSeg.frames.length) = .error .value ∧
    Gen.segFrameIndex 5 (exSeg.frames.length) = .error .value := by decide
example : (exSeg.frames[2]?).map (fun fi => Gen.segFrameStep fi.hasDrv fi.nDrv fi.hasSrc fi.nSrc true false fi.hasFrames) =
    some (.ok (true, true, false)) := by decide
example : (exSegMulti.frames[0]?).map (fun fi => Gen.segFrameStep fi.hasDrv fi.nDrv fi.hasSrc fi.nSrc true false fi.hasFrames) =
    some (.error .value) := by decide
example : Gen.segFrameNameFrames 2 false = .ok true ∧ Gen.segFrameNameFrames 2 true = .ok false ∧ Gen.segFrameNameFrames 0 false = .ok false := by
  decide
example : Gen.segRefMerge false true false = .ok 1 ∧ Gen.segRefMerge false false false = .ok 2 ∧ Gen.segRefMerge true false false = .ok 0 := by
  decide
example : Gen.srEvidenceGuard (exArgs .comprehensive3d true).evidence.length = .ok true ∧ Gen.srContentGuard 2 = .error .value ∧
    Gen.srRecordOther false 3 = .ok false ∧ Gen.srRecordOther true 3 = .ok true ∧ Gen.srRecordOther true 0 = .ok false := by decide

/-! ## the options of the constructors (round 2) -/

/-- **Every option lands where it belongs, and only there.**  For a document built by any of the three classes with any
combination of options: the three flags are the flag options (values regenerated from `_SR.__init__`, T15i), a verifying
observer item exists iff the document is marked verified and then carries exactly the observer name and organization given,
the institution is the institution given, the department is recorded only together with an institution (the behaviour of the
code: `institutional_department_name` without `institution_name` is dropped), the performed procedure codes are the codes
given (an empty sequence when none), the requested procedures are the items given, and the evidence part is the decision
core's (`buildSR`, all evidence theorems apply).  Tie: `Gen.srCompletionFlag`, `Gen.srPreliminaryFlag`,
`Gen.srVerificationFlag`, `Gen.srInstitutionStored`, `Gen.srSupportedTransferSyntaxes` are regenerated (T15i); which argument
is stored in which attribute is the table `Gen.srInitAttrWrites` (`option_dataflow_is_the_source_dataflow`); stream `doc` /
`options` of the correspondence compares every one of these attributes (L1). -/
theorem options_reflected (o : Options) (a : DocArgs) (D : DocDs) (h : constructSR o a = .ok D) :
    buildSR (o.core a) = .ok D.doc ∧
    D.completion = (if o.isComplete then "COMPLETE" else "PARTIAL") ∧
    D.preliminary = (if o.isFinal then "FINAL" else "PRELIMINARY") ∧
    D.verification = (if a.verified then "VERIFIED" else "UNVERIFIED") ∧
    (a.verified = true → ∃ n g, o.observer = some n ∧ o.organization = some g ∧ D.observers = [⟨n, g⟩]) ∧
    (a.verified = false → D.observers = []) ∧
    D.institution = o.institution ∧
    D.department = (if o.institution.isSome then o.department else none) ∧
    D.procedureCodes = o.procedureCodes.getD [] ∧
    D.requested = o.requested := by
  rw [constructSR_eq] at h
  split at h
  · cases h
  split at h
  · cases h
  cases hb : buildSR (o.core a) with
  | error e => rw [hb] at h; cases h
  | ok d =>
    rw [hb] at h
    simp only [Except.ok.injEq] at h
    subst h
    refine ⟨rfl, rfl, rfl, rfl, ?_, ?_, ?_, ?_, ?_, rfl⟩
    · intro hv
      obtain ⟨h1, h2⟩ := buildSR_verified_details _ d hb (by simpa [Options.core] using hv)
      simp only [Options.core] at h1 h2
      cases ho : o.observer with
      | none => simp [ho] at h1
      | some n =>
        cases hg : o.organization with
        | none => simp [hg] at h2
        | some g => exact ⟨n, g, rfl, rfl, by simp [hv]⟩
    · intro hv; simp [hv]
    · cases o.institution <;> rfl
    · cases o.institution <;> cases o.department <;> rfl
    · cases o.procedureCodes <;> rfl

/-- **Verification details are demanded whatever else is passed**: no value of any other option (institution, department,
flags, procedure codes, requested procedures, transfer syntax, …) makes a document marked verified acceptable without an
observer name AND an organization. -/
theorem verification_details_demanded_whatever_else (o : Options) (a : DocArgs) (hv : a.verified = true)
    (hmiss : o.observer = none ∨ o.organization = none) : ∀ D, constructSR o a ≠ .ok D := by
  intro D h
  obtain ⟨_, _, _, _, hobs, _⟩ := options_reflected o a D h
  obtain ⟨n, g, h1, h2, _⟩ := hobs hv
  rcases hmiss with h' | h'
  · rw [h'] at h1; cases h1
  · rw [h'] at h2; cases h2

/-- **Acceptance with options**: a construction succeeds iff the transfer syntax is one of the supported ones (list
regenerated from `_SR.__init__`) and the decision core accepts (`accepted_iff` characterises that completely within the
model's scope, with "observer given" / "organization given" read off the options themselves). -/
theorem constructed_iff (o : Options) (a : DocArgs) :
    (∃ D, constructSR o a = .ok D) ↔
      o.transferSyntax ∈ Gen.srSupportedTransferSyntaxes ∧ ∃ d, buildSR (o.core a) = .ok d := by
  rw [constructSR_eq]
  constructor
  · rintro ⟨D, h⟩
    split at h
    · cases h
    split at h
    · cases h
    rename_i hts
    cases hb : buildSR (o.core a) with
    | error e => rw [hb] at h; cases h
    | ok d => exact ⟨by simpa using hts, d, rfl⟩
  · rintro ⟨hts, d, hd⟩
    have hev : a.evidence.isEmpty = false := by
      cases hh : a.evidence.isEmpty with
      | false => rfl
      | true =>
        have : (o.core a).evidence.isEmpty = true := hh
        unfold buildSR at hd
        simp [this] at hd
    have hts' : Gen.srSupportedTransferSyntaxes.contains o.transferSyntax = true := by simpa using hts
    simp only [hev, hts', hd]
    exact ⟨_, rfl⟩

/-- **The options reach the guards unchanged** (a statement about tables regenerated from `sr/sop.py` on every run, T15i — a
trip-wire in the sense of AGENT_GUIDE §3a: it fails as soon as the source re-binds an option, forwards another expression or
stores another value).  (1) The only parameter any of the four constructors re-binds is `content` (a sequence of one item is
replaced by the item); in particular `verifying_observer_name`, `verifying_organization`, `is_verified` reach the
verification guard as passed.  (2) Each public class forwards every parameter of `_SR.__init__` under its own name
(`sop_class_uid` is the class's storage UID; `Comprehensive3DSR` passes `transfer_syntax_uid` through `**kwargs`).
(3) The verifying observer item stores exactly `verifying_observer_name` / `verifying_organization`, and only in the verified
branch; institution, department, requested procedures and performed procedure codes are stored from their own arguments. -/
theorem option_dataflow_is_the_source_dataflow :
    Gen.srInitRebound = [("_SR", "content", "isinstance(content, DataElementSequence)", "content[0]")] ∧
    (["EnhancedSR", "ComprehensiveSR", "Comprehensive3DSR"].all fun cls => Gen.srOptionNames.all fun opt =>
      opt == "sop_class_uid" || (cls == "Comprehensive3DSR" && opt == "transfer_syntax_uid") ||
      (Gen.srForwarded.filter (fun r => r.1 == cls && r.2.1 == opt)) == [(cls, opt, opt)]) = true ∧
    (Gen.srForwarded.filter (fun r => r.2.1 == "sop_class_uid")).map (·.2.2) =
      ["EnhancedSRStorage", "ComprehensiveSRStorage", "Comprehensive3DSRStorage"] ∧
    (["EnhancedSR", "ComprehensiveSR", "Comprehensive3DSR"].all fun cls => Gen.srForwarded.contains (cls, "**", "kwargs")) = true ∧
    (Gen.srInitAttrWrites.filter (fun r => r.1.startsWith "observer_item.Verifying")) =
      [("observer_item.VerifyingObserverName", "is_verified", "verifying_observer_name"),
       ("observer_item.VerifyingOrganization", "is_verified", "verifying_organization"),
       ("observer_item.VerifyingObserverIdentificationCodeSequence", "is_verified", "[]")] ∧
    (Gen.srInitAttrWrites.filter (fun r => r.1 == "self.VerifyingObserverSequence")) =
      [("self.VerifyingObserverSequence", "is_verified", "[observer_item]")] ∧
    (Gen.srInitAttrWrites.filter (fun r => r.1.startsWith "self.Institution")) =
      [("self.InstitutionName", "institution_name is not None", "institution_name"),
       ("self.InstitutionalDepartmentName", "institution_name is not None and institutional_department_name is not None",
        "institutional_department_name")] ∧
    (Gen.srInitAttrWrites.filter (fun r => r.1 == "self.ReferencedRequestSequence")) =
      [("self.ReferencedRequestSequence", "requested_procedures is not None", "requested_procedures")] ∧
    (Gen.srInitAttrWrites.filter (fun r => r.1 == "self.PerformedProcedureCodeSequence")) =
      [("self.PerformedProcedureCodeSequence", "performed_procedure_codes is not None",
        "[CodedConcept.from_code(c) for c in performed_procedure_codes]"),
       ("self.PerformedProcedureCodeSequence", "not (performed_procedure_codes is not None)", "[]")] := by
  decide +kernel

/-- **The document is filled from its own copy of the tree** (tables regenerated from `_SR.__init__` on every run, T15i; a
trip-wire on tables, AGENT_GUIDE §3a).  The only item store of the constructor is `self[tag] = value` inside
`for tag, value in content_item.items()`; `content_item` is `ContentItem._from_dataset_derived(content_copy)`,
`content_copy` is `deepcopy(content)`, and `.content` (`self._content`) is `ContentSequence([content_item], is_root=True)`:
the attributes of the data set and the items of `.content` are the SAME converted deep copy, never the caller's items
(fix `dcb8cdc`; its inverse `C15-unfix-document-aliases-content` now breaks this theorem, too).  `deepcopy` itself (fresh
objects, equal values) is Python's; that no item of the document `is` an item of the caller's tree, and that editing the
caller's tree afterwards changes neither the data set nor the written file, is checked on every case by the oracle. -/
theorem document_is_filled_from_its_own_copy :
    Gen.srInitItemWrites = [("self[tag]", "for (tag, value) in content_item.items()", "value")] ∧
    Gen.srInitContentLocals =
      [("content_copy", "True", "deepcopy(content)"),
       ("content_item", "True", "ContentItem._from_dataset_derived(content_copy)"),
       ("tag", "True", "<loop variable of content_item.items()>"),
       ("value", "True", "<loop variable of content_item.items()>")] ∧
    (Gen.srInitAttrWrites.filter fun r => r.1 == "self._content") =
      [("self._content", "True", "ContentSequence([content_item], is_root=True)")] := by
  decide +kernel

/-- non-vacuity: a verified Comprehensive 3D document with every option given; the same without organization but WITH an
institution (refused); an unsupported transfer syntax (refused) -/
def exOptions : Options :=
  { isComplete := true, isFinal := false, observer := some "Smith^John", organization := some "Org",
    institution := some "Hospital", department := some "Radiology", procedureCodes := some ["77477000|SCT|CT"],
    requested := some ["RP0"] }
example : (constructSR exOptions (exArgs .comprehensive3d true)).map
      (fun D => (D.completion, D.preliminary, D.verification, D.observers)) =
    .ok ("COMPLETE", "PRELIMINARY", "VERIFIED", [⟨"Smith^John", "Org"⟩]) := by decide
example : (constructSR exOptions (exArgs .comprehensive3d true)).map
      (fun D => (D.institution, D.department, D.procedureCodes, D.requested)) =
    .ok (some "Hospital", some "Radiology", ["77477000|SCT|CT"], some ["RP0"]) := by decide
example : (constructSR { exOptions with organization := none } (exArgs .comprehensive3d true)).toBool = false := by decide
example : (constructSR { exOptions with institution := none } (exArgs .comprehensive3d true)).map (fun D => (D.institution, D.department)) =
    .ok (none, none) := by decide
example : (constructSR { exOptions with transferSyntax := "1.2.840.10008.1.2.4.50" } (exArgs .comprehensive3d true)).toBool = false := by
  decide
example : (constructSR { exOptions with transferSyntax := "1.2.840.10008.1.2" } (exArgs .comprehensive3d true)).toBool = true := by decide

/-! ## the content tree is carried intact (round 2; model `Model/SRTree.lean`: arbitrary trees of data sets with arbitrary
attributes, values opaque) -/

open HdVerif.SRTree in
/-- **"An SR document contains the content tree it was given, unchanged" — over the regenerated table of what the parsers
store.**  `convertRootT X` is the conversion of the copied tree as the source performs it: acceptance and default concept
names by `convertRoot` (`ContentItem._from_dataset_derived` … `ContentSequence([…], is_root=True)`, decisions over the
tables T15e / T15j), and the effect on the attribute VALUES by `Gen.srParserStores` (T15j: every attribute / item store
and deletion of `ContentItem._from_dataset_base`, of the fifteen `from_dataset` methods and of the helpers they call on the
data set, each classified by what it does to the value; plus `Gen.srParserOtherCalls`: every call that is not a known pure
one).  A store the model does not know applies an ARBITRARY transformation `X` to the value it stores.  Theorem: for every
`X`, the tree the document holds is the given tree with the default concept name stored exactly where `_from_dataset_base`
stores it (`named`), and it IS the given tree when no data set lacks a name — because the table holds no unknown store and
no unknown call (`parser_stores_known`).  A parser that strips, recomputes, drops or re-targets a value (`item.TextValue =
item.TextValue.strip()`, `del item.ObservationDateTime`, a NUM unit stored as qualifier, `item.pop(…)`) adds an `other:` row
or a call to the tables and this theorem fails.  What remains an assumption: a `rewrap` store
(`[CodedConcept.from_dataset(item.X[0], copy=False)]` stored back to `item.X`) leaves the canonical value unchanged — that
is C17's subject and is compared attribute by attribute on every generated code (stream `doc` / `coded`); `deepcopy` and
pydicom's element storage are Python's / pydicom's (canonical comparison per case). -/
theorem tree_carried_unchanged (X : String → String → String) (t t' : Node) (h : convertRootT X t = .ok t') :
    t' = named t ∧ (AllNamed t → t' = t) := by
  rw [convertRootT_eq] at h
  have := convertRoot_eq_named t t' h
  exact ⟨this, fun hn => by rw [this, named_eq_self t hn]⟩

open HdVerif.SRTree in
/-- **Which trees are accepted** (complete characterisation over the modelled checks): every data set reachable through
content sequences has a value type of the enumeration, the attributes `_assert_value_type` requires for it, a concept name
or a class that may lack one, and — below the root — a relationship type; the root has none and is a CONTAINER. -/
theorem tree_accepted_iff (t : Node) :
    (∃ t', convertRoot t = .ok t') ↔
      WellFormed true t ∧ has t.attrs "RelationshipType" = false ∧ t.attrs.lookup "ValueType" = some "CONTAINER" :=
  convertRoot_ok_iff t

open HdVerif.SRTree in
/-- **A malformed data set is refused at any depth**: if some data set reachable from the root lacks its value type, has
one outside the enumeration, lacks a required attribute of its value type, lacks a concept name it must have, or lacks the
relationship type, the document is not built. -/
theorem malformed_data_set_refused_any_depth (t x : Node) (hx : Reach t x) (hbad : ¬ NodeOk false x.attrs) :
    ∀ t', convertRoot t ≠ .ok t' := by
  intro t' h
  exact hbad (wellFormed_reach hx true ((convertRoot_ok_iff t).mp ⟨t', h⟩).1)

open HdVerif.SRTree in
/-- **"Parsing a written document exposes an equal tree."**  Let `t'` be the tree a document holds (`convertRoot t = ok t'`,
root with a content sequence) and `own` the document's other attributes, none of which uses a keyword of the root item.
Then `_SR.from_dataset` of the document data set (`writeDoc own t'`) succeeds and its root item has the SAME children
(the whole subtree: converting a converted tree changes nothing, `convert_named`) and, for every keyword the parser copies
(`rootKeys`, from the source: T15d), the same value; if the root carries no other keyword, the same value for EVERY
keyword.  Reading the bytes back (`dcmwrite` / `dcmread`) is pydicom's and enters as the identity on data sets (checked on
every case by the correspondence: written bytes re-read with pydicom alone). -/
theorem parsed_tree_equals_document_tree (X : String → String → String) (own : Attrs) (t t' : Node)
    (hconv : convertRootT X t = .ok t')
    (hseq : t'.hasSeq = true) (hown : ∀ kw, rootKeys.contains kw = true → own.lookup kw = none) :
    ∃ p, parseDocT X (writeDoc own t') = .ok p ∧ p.hasSeq = true ∧ p.children = t'.children ∧
      (∀ kw, p.attrs.lookup kw = if rootKeys.contains kw then t'.attrs.lookup kw else none) ∧
      ((∀ kv ∈ t'.attrs, rootKeys.contains kv.1 = true) → ∀ kw, p.attrs.lookup kw = t'.attrs.lookup kw) := by
  rw [convertRootT_eq] at hconv
  rw [parseDocT_eq]
  obtain ⟨p, h1, h2, h3, h4⟩ := parse_written_root own t t' hconv hseq hown
  refine ⟨p, h1, h2, h3, h4, ?_⟩
  intro hall kw
  rw [h4]
  split
  · rfl
  · rename_i hk
    symm
    cases hl : t'.attrs.lookup kw with
    | none => rfl
    | some v =>
      exfalso
      have : ∀ (l : Attrs), l.lookup kw = some v → ∃ kv ∈ l, kv.1 = kw := by
        intro l
        induction l with
        | nil => intro h; cases h
        | cons hd tl ih =>
          intro h
          obtain ⟨k, v'⟩ := hd
          rw [List.lookup_cons] at h
          by_cases hkk : (kw == k) = true
          · exact ⟨(k, v'), by simp, by simpa using (beq_iff_eq.mp hkk).symm⟩
          · simp only [hkk] at h
            obtain ⟨kv, hm, he⟩ := ih h
            exact ⟨kv, List.mem_cons_of_mem _ hm, he⟩
      obtain ⟨kv, hm, he⟩ := this _ hl
      have := hall kv hm
      rw [he] at this
      exact hk this

/-- **The parser tables are consistent and the parsers store only what they read** (regenerated from `sr/value_types.py`
on every run, T15j; a trip-wire on tables in the sense of AGENT_GUIDE §3a).  (1) Every value type of the enumeration has a
content item class and a row of required attributes (no KeyError in `_get_content_item_class` / `_assert_value_type`).
(2) The class a value type is dispatched to asserts that same value type (`_from_dataset_derived` never fails on its own
dispatch).  (3) Every attribute store of `ContentItem._from_dataset_base` and of the fifteen `from_dataset` methods reads
only DICOM keywords that occur in its own target path — a parser re-wraps `item.X` as `item.X`, never as `item.Y`
(a NUM unit stored as qualifier, a coded value rebuilt from the concept name … make this fail); the two stores that read
nothing are the class change and the default concept name.  (4) Every store is one of the four kinds the model knows
(class change, default name, conversion of the children, re-wrap of a code sequence item stored back where it was read) and
the parsers make no call outside the known pure / constructing ones — the fact `tree_carried_unchanged` rests on. -/
theorem parsers_store_only_what_they_read :
    (Gen.srValueTypes.all fun vt => (Gen.srContentItemClasses.lookup vt).isSome && (Gen.srRequiredAttributes.lookup vt).isSome) = true ∧
    (Gen.srContentItemClasses.all fun (vt, cls) => Gen.srParserAsserts.lookup cls == some vt) = true ∧
    (Gen.srParserStores.all fun (_, _, path, reads, _) => reads.all fun kw => path.contains kw) = true ∧
    (Gen.srParserStores.filter fun (_, _, _, reads, _) => reads.isEmpty) =
      [("ContentItem", "dataset.ConceptNameCodeSequence", ["ConceptNameCodeSequence"], [], "default-name"),
       ("ContentItem", "item.__class__", [], [], "class")] ∧
    (Gen.srParserStores.all fun r => ["class", "default-name", "children", "rewrap"].contains r.2.2.2.2) = true ∧
    Gen.srParserOtherCalls = [] ∧
    Gen.srOptionalNameClasses.all (fun cls => (Gen.srContentItemClasses.map Prod.snd).contains cls) = true := by
  decide +kernel

/-- **The search and the parsers agree on items without a concept name** (two places of the code that must change together:
`sr/utils.py` `_VALUE_TYPES_WITH_OPTIONAL_NAME` / `_DEFAULT_NAME`, regenerated by T15c, and `sr/value_types.py`
`value_types_with_optional_name` / `default_name`, regenerated by T15j).  The name `find_content_items` lets stand in for a
missing concept name is the name `ContentItem._from_dataset_base` stores, and for every value type of the enumeration the
search tolerates a missing name iff the class that value type is parsed by may lack one.  So a tree the conversion accepts
is searched without AttributeError (the document constructor searches the tree it was GIVEN for references and SCOORD3D
items), and searching the given tree by name finds what searching `.content` finds (after fix `15e16d0`). -/
theorem search_and_parser_agree_on_nameless_items :
    Gen.findDefaultName = Gen.srDefaultName ∧
    (∀ vt ∈ Gen.srValueTypes, Gen.findOptionalNameValueTypes.contains vt =
      (match Gen.srContentItemClasses.lookup vt with
       | some cls => Gen.srOptionalNameClasses.contains cls
       | none => false)) ∧
    Gen.findOptionalNameValueTypes.all Gen.srValueTypes.contains = true := by
  decide +kernel

/-- **The three ways a stored document becomes an object agree on its class** (tables regenerated from `sr/sop.py` on every
run: T15i the storage class each constructor passes on, T15k `srread`'s dispatch table and the SOP class check of each
`from_dataset`; a trip-wire on tables, AGENT_GUIDE §3a).  For each of the three public classes: the storage class its
constructor writes is the storage class its `from_dataset` demands (so a document parses back as the class that wrote it,
and — after fix `7c1e231` — as no other: `EnhancedSR.from_dataset` used to accept documents of every class, among them
Comprehensive 3D documents with SCOORD3D content), and `srread` dispatches that storage class to that class. -/
theorem parse_entry_points_agree :
    (["EnhancedSR", "ComprehensiveSR", "Comprehensive3DSR"].all fun cls =>
      match Gen.srFromDatasetChecks.lookup cls with
      | none => false
      | some st =>
        st != "" && Gen.srForwarded.contains (cls, "sop_class_uid", st) && Gen.srReadClassMap.lookup st == some cls) = true ∧
    Gen.srReadClassMap.length = 3 ∧ Gen.srFromDatasetChecks.length = 3 := by
  decide +kernel

/-- **Reading a document back changes nothing on it**: `.content`, `get_evidence` and `get_evidence_series` (and every method
of the document they call on `self`) write no attribute of the document object, set nothing through `setattr` /
`__dict__`, carry no memoising decorator (table regenerated on every run, T15k).  So the answers of `get_evidence(…)` are
functions of the document's evidence sequences and the flag alone, whatever was asked before (`get_evidence_spec`,
`get_evidence_series_spec` state which functions); the correspondence asks every document twice and in both orders. -/
theorem readers_write_nothing_on_the_document :
    Gen.srReadersWrite.map Prod.fst = ["content", "get_evidence", "get_evidence_series"] ∧
    ∀ row ∈ Gen.srReadersWrite, row.2 = [] := by
  decide +kernel

/-- **The key object selection document refuses by the source's guards** (bridge for the hand-written `buildKO`, T15l: the
evidence guard and the single-study guard of `KeyObjectSelectionDocument.__init__` regenerated on every run; the call
`collect_evidence(evidence, content[0])`, the reference table and `resolve_reference` checked textually).  A document the
model builds passed both regenerated guards (its one study group is recorded), and the model refuses whenever the evidence
guard refuses, or the evidence collection succeeds with several study groups — which the regenerated study guard refuses. -/
theorem ko_guards_are_the_source_guards (refs : List Ref) (hasDesc : Bool) (evd : List Evd) :
    (∀ d, buildKO refs hasDesc evd = .ok d →
      Gen.koEvidenceGuard evd.length = .ok true ∧ Gen.koStudyGuard d.current.length ≠ .error .value ∧
      ∃ oth, collectEvidence evd (koTree refs hasDesc) = .ok (d.current, oth)) ∧
    (Gen.koEvidenceGuard evd.length ≠ .ok true → ∃ e, buildKO refs hasDesc evd = .error e) ∧
    (∀ cur oth, refs ≠ [] → evd ≠ [] → collectEvidence evd (koTree refs hasDesc) = .ok (cur, oth) →
      Gen.koStudyGuard cur.length = .error .value → buildKO refs hasDesc evd = .error .value) := by
  have hev : ∀ l : List Evd, Gen.koEvidenceGuard l.length = .ok true ↔ l.isEmpty = false := by
    intro l
    unfold Gen.koEvidenceGuard
    cases l with
    | nil => simp
    | cons x xs =>
      have : ((xs.length : Int) + 1 == 0) = false := by
        have : (xs.length : Int) + 1 ≠ 0 := by omega
        simpa using this
      simp [this]
  have hst : ∀ n : Nat, Gen.koStudyGuard (n : Int) = .error .value ↔ n > 1 := by
    intro n
    unfold Gen.koStudyGuard
    rcases n with _ | _ | n
    · simp
    · simp
    · have h0 : ((n : Int) + 1 + 1 > 0) := by omega
      have h1 : ((n : Int) + 1 + 1 > 1) := by omega
      simp [h0, h1]
  refine ⟨?_, ?_, ?_⟩
  · intro d h
    unfold buildKO at h
    simp only [bind, Except.bind, pure, Except.pure, throw, throwThe, MonadExceptOf.throw] at h
    split at h
    · cases h
    rename_i he
    split at h
    · cases h
    split at h
    · cases h
    rename_i v hce
    obtain ⟨cur, oth⟩ := v
    simp only at h
    split at h
    · cases h
    rename_i hlen
    cases h
    refine ⟨(hev evd).mpr (by simpa using he), ?_, oth, hce⟩
    intro hc
    exact hlen ((hst _).mp hc)
  · intro h
    have : evd.isEmpty = true := by
      cases hh : evd.isEmpty with
      | true => rfl
      | false => exact absurd ((hev evd).mpr hh) h
    unfold buildKO
    simp only [this, bind, Except.bind, throw, throwThe, MonadExceptOf.throw]
    exact ⟨_, rfl⟩
  · intro cur oth hr he hce hg
    have h1 : evd.isEmpty = false := by cases evd <;> simp_all
    have h2 : refs.isEmpty = false := by cases refs <;> simp_all
    unfold buildKO
    simp only [h1, h2, hce, bind, Except.bind, pure, Except.pure, throw, throwThe, MonadExceptOf.throw, Bool.false_eq_true, if_false]
    have := (hst cur.length).mp hg
    simp [this]

open HdVerif.SRTree in
/-- **The two views of a content tree fit together.**  `toItem` is the view of a tree of data sets that the decision core
`buildSR` (evidence, SCOORD3D guard, acceptance — all the theorems above) looks at: value type, name, relationship type,
content sequence.  Every tree the tree model accepts passes the conversion step of the decision core (`convertTree`,
`Convertible` in `accepted_iff`), has a root without relationship type and of value type CONTAINER — so the two hand-written
models never disagree on a tree in the direction that matters (the tree model demands strictly more: required attributes,
concept names).  Proof: every item below the `Item` view is the view of a reachable data set (`below_toItem`, induction on
`Below`), and reachable data sets of an accepted tree are acceptable (`wellFormed_reach`). -/
theorem tree_model_refines_document_model (n : Node) (h : ∃ n', convertRoot n = .ok n') :
    convertTree (toItem n) = .ok () ∧ (toItem n).rel = none ∧ (toItem n).vt = "CONTAINER" :=
  convertRoot_refines n h

/-- non-vacuity: a three-level tree (container > container > NUM, IMAGE without concept name > TEXT) is accepted, the IMAGE
gets the default name, everything else is unchanged; the document data set parses back to the same root; a NUM item without
`MeasuredValueSequence` at depth 2 is refused -/
def exNode : SRTree.Node :=
  .mk [("ValueType", "CONTAINER"), ("ConceptNameCodeSequence", "121071|DCM"), ("ContinuityOfContent", "SEPARATE"),
       ("ContentTemplateSequence", "1500")] true
    [.mk [("ValueType", "CONTAINER"), ("RelationshipType", "CONTAINS"), ("ConceptNameCodeSequence", "125007|DCM"),
          ("ContinuityOfContent", "SEPARATE")] true
       [.mk [("ValueType", "NUM"), ("RelationshipType", "CONTAINS"), ("ConceptNameCodeSequence", "M1|99"), ("MeasuredValueSequence", "1.5 mm")] false [],
        .mk [("ValueType", "IMAGE"), ("RelationshipType", "CONTAINS"), ("ReferencedSOPSequence", "ct 1.1")] true
          [.mk [("ValueType", "TEXT"), ("RelationshipType", "HAS PROPERTIES"), ("ConceptNameCodeSequence", "T|99"), ("TextValue", "x")] false []]]]

def exNodeBad : SRTree.Node :=
  .mk [("ValueType", "CONTAINER"), ("ConceptNameCodeSequence", "121071|DCM"), ("ContinuityOfContent", "SEPARATE")] true
    [.mk [("ValueType", "CONTAINER"), ("RelationshipType", "CONTAINS"), ("ConceptNameCodeSequence", "125007|DCM"),
          ("ContinuityOfContent", "SEPARATE")] true
       [.mk [("ValueType", "NUM"), ("RelationshipType", "CONTAINS"), ("ConceptNameCodeSequence", "M1|99")] false []]]

open HdVerif.SRTree in
example : (convertRoot exNode).toBool = true ∧ (convertRoot exNodeBad).toBool = false := by decide +kernel
open HdVerif.SRTree in
example : (convertRootT (fun act v => act ++ v) exNode).toBool = true ∧
    unknownStores "NumContentItem" "MeasuredValueSequence" = [] ∧ unknownStores "TextContentItem" "TextValue" = [] := by decide +kernel
open HdVerif.SRTree in
example : (convertRoot exNode).map (fun t => (t.children.head?.bind (·.children[1]?)).map (·.attrs.lookup "ConceptNameCodeSequence")) =
    .ok (some (some "260753009|SCT|Source")) := by decide +kernel
open HdVerif.SRTree in
example : ((convertRoot exNode).bind (fun t => parseDoc (writeDoc [("SOPClassUID", "1.2.840.10008.5.1.4.1.1.88.34")] t))).map
      (fun p => (p.attrs.lookup "ContentTemplateSequence", p.attrs.lookup "SOPClassUID", p.children.length)) =
    .ok (some "1500", none, 1) := by decide +kernel
open HdVerif.SRTree in
example : (parseDoc (.mk [("SOPClassUID", "x")] false [])).toBool = false := by decide +kernel
open HdVerif.SRTree in
example : convertTree (toItem exNode) = .ok () ∧ (descendants (toItem exNode)).map Item.vt = ["CONTAINER", "NUM", "IMAGE", "TEXT"] := by
  decide +kernel

end HdVerif.C15
