import HdVerif.Proofs.Ann
import HdVerif.Proofs.AnnTie
/-! # C18  Bulk annotations return the coordinates and measurements stored

Coordinates and measurement values are opaque cells `α` (`finite` = numpy's `isfinite`, `cast` = the
constructor's cast of integer input to float32 (`astype(float32)`, not mentioned in the docstring, exact only
below 2^24), identity for float input, `dbl` = the input is float64).
Graphic data `gd : GData α` is a list of annotations, each a list of points (rows).

`construct` is `AnnotationGroup.__init__` (validation loop, guards, shared-z / dimensionality / attribute
decision, index list — all REGENERATED from /repo's source, `Gen.pointCountCheck`, `Gen.encodePlan`,
`Gen.indexSpan`, `Gen.indexListTypes`), `parse` is `from_dataset` / `annread` (stored attributes only, the
in-memory cache is gone), `getGraphicData` / `getCoordinates` are the public readers (`Gen.decodePlan`,
`Gen.splitIndex`, `Gen.coordIndex`).

`Valid gt finite cast gd c` is well-formed input: at least one annotation, the point-count rule of the
graphic type, open polygons, one width `c ∈ {2, 3}`, finite cells. -/
namespace HdVerif.C18
open HdVerif HdVerif.Gen HdVerif.Ann

variable {α : Type} [DecidableEq α]

/-- coordinate type of the object as 2 / 3 -/
def ctOf (c : Nat) : Int := if c = 3 then 3 else 2

/-! ## graphic data -/

/-- **Round trip of the graphic data** — every list of point lists, every graphic type, 2-D and 3-D,
shared or varying z, single or double precision: valid input is accepted, and reading the *parsed*
group (stored attributes only) returns every annotation unchanged (integers after the constructor's float32 cast, which is exact below 2^24 and rounds silently above). -/
theorem graphic_data_roundtrip (gt : String) (finite : α → Bool) (dbl : Bool) (cast : α → α) (gd : GData α) (c : Nat)
    (v : Valid gt finite cast gd c) :
    ∃ g, construct gt finite dbl cast gd = .ok g ∧
      getGraphicData (parse g) (ctOf c) = .ok (castG cast gd) := by
  refine ⟨{ gtype := gt, enc := expectedEnc gt dbl cast gd c, cache := some (ctOf c, gd) }, ?_, ?_⟩
  · simp [construct, encode_valid gt finite dbl cast gd c v, ctOf]
  · simp only [getGraphicData, parse, ctOf, guard_expected gt dbl cast gd c none (Or.inl rfl)]
    exact decode_expected gt finite dbl cast gd c v

/-- The freshly built object returns exactly the arrays it was given (and refuses the other coordinate type). -/
theorem graphic_data_fresh (gt : String) (finite : α → Bool) (dbl : Bool) (cast : α → α) (gd : GData α) (c : Nat)
    (v : Valid gt finite cast gd c) (g : Group α) (hg : construct gt finite dbl cast gd = .ok g) :
    getGraphicData g (ctOf c) = .ok gd ∧ ∀ ct, ct ≠ ctOf c → getGraphicData g ct = .error .value := by
  simp only [construct, encode_valid gt finite dbl cast gd c v] at hg
  cases hg
  constructor
  · simp [getGraphicData, ctOf]
  · intro ct hct
    have : ¬ ((if c = 3 then (3 : Int) else 2) = ct) := fun h => hct (by simp [ctOf, h])
    simp [getGraphicData, this]

/-- fresh and parsed agree up to the constructor's cast of integers — in particular they are identical for float input -/
theorem fresh_eq_parsed (gt : String) (finite : α → Bool) (dbl : Bool) (gd : GData α) (c : Nat)
    (v : Valid gt finite id gd c) (g : Group α) (hg : construct gt finite dbl id gd = .ok g) :
    getGraphicData (parse g) (ctOf c) = getGraphicData g (ctOf c) := by
  obtain ⟨g', hg', hr⟩ := graphic_data_roundtrip gt finite dbl id gd c v
  rw [hg] at hg'; cases hg'
  rw [hr, (graphic_data_fresh gt finite dbl id gd c v g hg).1]
  simp [castG]

/-- **Per annotation number**: number `k` (one-based) of the parsed group is the `k`-th input array. -/
theorem coordinates_nth (gt : String) (finite : α → Bool) (dbl : Bool) (cast : α → α) (gd : GData α) (c : Nat)
    (v : Valid gt finite cast gd c) (g : Group α) (hg : construct gt finite dbl cast gd = .ok g)
    (k : Nat) (hk : k < gd.length) :
    getCoordinates (parse g) ((k : Int) + 1) (ctOf c) = .ok ((castG cast gd)[k]'(by simpa [castG] using hk)) ∧
    getCoordinates g ((k : Int) + 1) (ctOf c) = .ok gd[k] := by
  obtain ⟨g', hg', hr⟩ := graphic_data_roundtrip gt finite dbl cast gd c v
  rw [hg] at hg'; cases hg'
  have hf := (graphic_data_fresh gt finite dbl cast gd c v g hg).1
  have hci : coordIndex ((k : Int) + 1) = .ok (k : Int) := by
    rw [coordIndex_spec]
    have : ¬ ((k : Int) + 1 < 1) := by omega
    simp [this]
  have hk' : k < (castG cast gd).length := by simpa [castG] using hk
  constructor
  · simp only [getCoordinates, hci, hr]
    have : ¬ ((k : Int) < 0) := by omega
    simp [this, List.getElem?_eq_getElem hk']
  · simp only [getCoordinates, hci, hf]
    have : ¬ ((k : Int) < 0) := by omega
    simp [this, List.getElem?_eq_getElem hk]

/-- annotation numbers outside `1 … n` are refused, never wrapped -/
theorem coordinates_rejected (gt : String) (finite : α → Bool) (dbl : Bool) (cast : α → α) (gd : GData α) (c : Nat)
    (v : Valid gt finite cast gd c) (g : Group α) (hg : construct gt finite dbl cast gd = .ok g) (k : Int) :
    (k < 1 → getCoordinates (parse g) k (ctOf c) = .error .value ∧ getCoordinates g k (ctOf c) = .error .value) ∧
    ((gd.length : Int) < k → getCoordinates (parse g) k (ctOf c) = .error .index ∧ getCoordinates g k (ctOf c) = .error .index) := by
  obtain ⟨g', hg', hr⟩ := graphic_data_roundtrip gt finite dbl cast gd c v
  rw [hg] at hg'; cases hg'
  have hf := (graphic_data_fresh gt finite dbl cast gd c v g hg).1
  constructor
  · intro hk
    simp [getCoordinates, coordIndex_spec, hk]
  · intro hk
    have h1 : ¬ (k < 1) := by omega
    have h0 : ¬ (k - 1 < 0) := by omega
    have hlen : (castG cast gd).length = gd.length := by simp [castG]
    have hn : gd.length ≤ k.toNat - 1 := by omega
    have hn' : (castG cast gd).length ≤ k.toNat - 1 := by omega
    simp [getCoordinates, coordIndex_spec, h1, h0, hr, hf, List.getElem?_eq_none hn, List.getElem?_eq_none hn']

/-- what a freshly parsed object answers to single accesses with the group's own coordinate type  (hand model `accessS` over regenerated `decodePlan`, `coordIndex`, `coordTypeGuard`; tie C: streams `history`, `coordinates`) -/
theorem fresh_answers (gt : String) (finite : α → Bool) (dbl : Bool) (cast : α → α) (gd : GData α) (c : Nat)
    (v : Valid gt finite cast gd c) (kn : Option Int) (hk : kn = none ∨ kn = some (ctOf c)) :
    let p : Group α := { gtype := gt, enc := expectedEnc gt dbl cast gd c, cache := none, known := kn }
    (accessS p (.whole (ctOf c))).1 = .ok (.whole (castG cast gd)) ∧
    (∀ (k : Nat) (hk : k < gd.length), (accessS p (.nth ((k : Int) + 1) (ctOf c))).1 =
      .ok (.nth ((castG cast gd)[k]'(by simpa [castG] using hk)))) ∧
    (∀ k : Int, k < 1 → (accessS p (.nth k (ctOf c))).1 = .error .value) ∧
    (∀ k : Int, (gd.length : Int) < k → (accessS p (.nth k (ctOf c))).1 = .error .index) := by
  intro p
  have hdec : decode gt (expectedEnc gt dbl cast gd c) (ctOf c) = .ok (castG cast gd) :=
    decode_expected gt finite dbl cast gd c v
  have hguard : coordTypeGuard (ctOf c) kn (expectedEnc gt dbl cast gd c).commonZ.isSome = .ok 0 :=
    guard_expected gt dbl cast gd c kn hk
  have hS : getGraphicDataS p (ctOf c) =
      .ok (castG cast gd, { gtype := gt, enc := expectedEnc gt dbl cast gd c, cache := some (ctOf c, castG cast gd), known := kn }) := by
    simp [p, getGraphicDataS, hdec, hguard]
  have hlen : (castG cast gd).length = gd.length := by simp [castG]
  refine ⟨?_, ?_, ?_, ?_⟩
  · simp [accessS, hS]
  · intro k hk
    have hci : coordIndex ((k : Int) + 1) = .ok (k : Int) := by
      rw [coordIndex_spec]
      have : ¬ ((k : Int) + 1 < 1) := by omega
      simp [this]
    have hk' : k < (castG cast gd).length := by omega
    have : ¬ ((k : Int) < 0) := by omega
    simp [accessS, hci, hS, this, List.getElem?_eq_getElem hk']
  · intro k hk
    simp [accessS, coordIndex_spec, hk]
  · intro k hk
    have h1 : ¬ (k < 1) := by omega
    have h0 : ¬ (k - 1 < 0) := by omega
    have hn : (castG cast gd).length ≤ k.toNat - 1 := by omega
    simp [accessS, coordIndex_spec, h1, h0, hS, List.getElem?_eq_none hn]

/-- **Call order does not matter, and the other coordinate type is refused without side effect** — for every group
read through an instance whose AnnotationCoordinateType is the group's own coordinate type `ctOf c` (`annread`,
`MicroscopyBulkSimpleAnnotations.from_dataset`, which hand the instance's type down to the groups:
`Gen.sopHandsDownCoordinateType`, `Gen.coordTypeGuard`).  Every instance the library's constructor builds is of that kind:
it refuses a group built with another coordinate type (`sop_coordinate_types`, /repo d17b77f); a file from elsewhere whose
AnnotationCoordinateType contradicts the data of a group is outside the statement.  ANY history of
whole-group and per-annotation accesses with ANY coordinate types gives, access by access, the answer a freshly parsed
object gives to that single access: with the group's own type the whole stored input / its `k`-th annotation /
ValueError for `k < 1` / IndexError for `k > n`; with the other type ValueError — and nothing an earlier access did
(the cache `_graphic_data` is filled by the first decoding) changes a later answer. -/
theorem history_independent (gt : String) (finite : α → Bool) (dbl : Bool) (cast : α → α) (gd : GData α) (c : Nat)
    (v : Valid gt finite cast gd c) (g : Group α) (hg : construct gt finite dbl cast gd = .ok g) (accs : List Access) :
    runHistory (parseVia (ctOf c) g) accs = accs.map (fun a => (accessS (parseVia (ctOf c) g) a).1) ∧
    (∀ a : Access, a.ct ≠ ctOf c → (accessS (parseVia (ctOf c) g) a).1 = .error .value) ∧
    (accessS (parseVia (ctOf c) g) (.whole (ctOf c))).1 = .ok (.whole (castG cast gd)) ∧
    (∀ (k : Nat) (hk : k < gd.length), (accessS (parseVia (ctOf c) g) (.nth ((k : Int) + 1) (ctOf c))).1 =
      .ok (.nth ((castG cast gd)[k]'(by simpa [castG] using hk)))) ∧
    (∀ k : Int, k < 1 → (accessS (parseVia (ctOf c) g) (.nth k (ctOf c))).1 = .error .value) ∧
    (∀ k : Int, (gd.length : Int) < k → (accessS (parseVia (ctOf c) g) (.nth k (ctOf c))).1 = .error .index) := by
  have hdec : decode gt (expectedEnc gt dbl cast gd c) (ctOf c) = .ok (castG cast gd) :=
    decode_expected gt finite dbl cast gd c v
  simp only [construct, encode_valid gt finite dbl cast gd c v] at hg
  have hp : parseVia (ctOf c) g =
      { gtype := gt, enc := expectedEnc gt dbl cast gd c, cache := none, known := some (ctOf c) } := by
    cases hg; simp [parseVia, sopHandsDownCoordinateType]
  rw [hp]
  have hguard := guard_expected gt dbl cast gd c (some (ctOf c)) (Or.inr rfl)
  obtain ⟨f1, f2, f3, f4⟩ := fresh_answers gt finite dbl cast gd c v (some (ctOf c)) (Or.inr rfl)
  have hwrong : ∀ x : Int, x ≠ ctOf c →
      coordTypeGuard x (some (ctOf c)) (expectedEnc gt dbl cast gd c).commonZ.isSome = .error .value :=
    fun x hx => guard_known_refuses (ctOf c) x _ hx
  refine ⟨?_, ?_, f1, f2, f3, f4⟩
  · refine runHistory_independent gt _ (some (ctOf c)) (ctOf c) (castG cast gd) hguard hdec accs ?_ _ ⟨rfl, rfl, rfl, Or.inl rfl⟩
    intro a _
    by_cases h : a.ct = ctOf c
    · exact Or.inl h
    · exact Or.inr (hwrong a.ct h)
  · intro a ha
    cases a with
    | whole x =>
      simp only [Access.ct] at ha
      simp [accessS, getGraphicDataS, hwrong x ha]
    | nth k x =>
      simp only [Access.ct] at ha
      by_cases hk : k < 1
      · simp [accessS, coordIndex_spec, hk]
      · simp [accessS, coordIndex_spec, hk, getGraphicDataS, hwrong x ha]

/-- the same for a group parsed ON ITS OWN (`AnnotationGroup.from_dataset`) whose z coordinate is shared: the stored
CommonZCoordinateValue exists for 3-D data only, so '2D' is refused and every history is order-independent -/
theorem history_independent_shared_z (gt : String) (finite : α → Bool) (dbl : Bool) (cast : α → α) (gd : GData α) (c : Nat)
    (v : Valid gt finite cast gd c) (g : Group α) (hg : construct gt finite dbl cast gd = .ok g)
    (hz : (expectedEnc gt dbl cast gd c).commonZ.isSome = true) (accs : List Access) :
    ctOf c = 3 ∧ runHistory (parse g) accs = accs.map (fun a => (accessS (parse g) a).1) ∧
    (∀ x : Int, x ≠ 3 → (accessS (parse g) (.whole x)).1 = .error .value) := by
  have hc3 : c = 3 := expectedEnc_commonZ_c3 gt dbl cast gd c hz
  have hct : ctOf c = 3 := by simp [ctOf, hc3]
  have hdec : decode gt (expectedEnc gt dbl cast gd c) (ctOf c) = .ok (castG cast gd) :=
    decode_expected gt finite dbl cast gd c v
  simp only [construct, encode_valid gt finite dbl cast gd c v] at hg
  have hp : parse g = { gtype := gt, enc := expectedEnc gt dbl cast gd c, cache := none, known := none } := by cases hg; rfl
  rw [hp]
  have hguard := guard_expected gt dbl cast gd c none (Or.inl rfl)
  have hwrong : ∀ x : Int, x ≠ ctOf c →
      coordTypeGuard x none (expectedEnc gt dbl cast gd c).commonZ.isSome = .error .value := by
    intro x hx
    rw [hz]
    exact guard_commonZ_refuses none x (by rw [hct] at hx; exact hx)
  refine ⟨hct, ?_, ?_⟩
  · refine runHistory_independent gt _ none (ctOf c) (castG cast gd) hguard hdec accs ?_ _ ⟨rfl, rfl, rfl, Or.inl rfl⟩
    intro a _
    by_cases h : a.ct = ctOf c
    · exact Or.inl h
    · exact Or.inr (hwrong a.ct h)
  · intro x hx
    simp [accessS, getGraphicDataS, hwrong x (by rw [hct]; exact hx)]

/- FULL STATEMENT for a group parsed on its own without a shared z (not a theorem of the code — open finding
   C18-wrong-coordinate-type, narrowed): "… ANY history … and an access with the other coordinate type is refused".
   Such an item carries nothing that tells its coordinate type (AnnotationCoordinateType is an attribute of the
   instance): `get_graphic_data` decodes with whatever type is requested and caches the result under that key, after
   which the right type is refused (`counterexample_wrong_coordinate_type`).  Proved below: the statement restricted to
   histories that use the group's own coordinate type. -/

/-- **Call order does not matter — group parsed on its own, histories that use the coordinate type the group was
built with.**  Any such history of whole-group and per-annotation accesses — per-annotation first, whole first,
outside numbers in between — gives, access by access, the answer a freshly parsed object gives to that single access:
the whole stored input, its `k`-th annotation, ValueError for `k < 1`, IndexError for `k > n`. -/
theorem history_independent_partial (gt : String) (finite : α → Bool) (dbl : Bool) (cast : α → α) (gd : GData α) (c : Nat)
    (v : Valid gt finite cast gd c) (g : Group α) (hg : construct gt finite dbl cast gd = .ok g) (accs : List Access)
    (hown : ∀ a ∈ accs, a.ct = ctOf c) :
    runHistory (parse g) accs = accs.map (fun a => (accessS (parse g) a).1) ∧
    (accessS (parse g) (.whole (ctOf c))).1 = .ok (.whole (castG cast gd)) ∧
    (∀ (k : Nat) (hk : k < gd.length), (accessS (parse g) (.nth ((k : Int) + 1) (ctOf c))).1 =
      .ok (.nth ((castG cast gd)[k]'(by simpa [castG] using hk)))) ∧
    (∀ k : Int, k < 1 → (accessS (parse g) (.nth k (ctOf c))).1 = .error .value) ∧
    (∀ k : Int, (gd.length : Int) < k → (accessS (parse g) (.nth k (ctOf c))).1 = .error .index) := by
  have hdec : decode gt (expectedEnc gt dbl cast gd c) (ctOf c) = .ok (castG cast gd) :=
    decode_expected gt finite dbl cast gd c v
  simp only [construct, encode_valid gt finite dbl cast gd c v] at hg
  have hp : parse g = { gtype := gt, enc := expectedEnc gt dbl cast gd c, cache := none, known := none } := by cases hg; rfl
  rw [hp]
  obtain ⟨f1, f2, f3, f4⟩ := fresh_answers gt finite dbl cast gd c v none (Or.inl rfl)
  refine ⟨?_, f1, f2, f3, f4⟩
  exact runHistory_independent gt _ none (ctOf c) (castG cast gd) (guard_expected gt dbl cast gd c none (Or.inl rfl)) hdec accs
    (fun a ha => Or.inl (hown a ha)) _ ⟨rfl, rfl, rfl, Or.inl rfl⟩

/-- three 2-D POINTs `(1,2) (3,4) (5,6)` as stored by the constructor -/
def exPointsEnc : Enc Int := { coords := [1, 2, 3, 4, 5, 6], double := false, commonZ := none, indexList := none, numAnn := 3 }

/-- **Counterexample (open finding C18-wrong-coordinate-type, now only for a group parsed ON ITS OWN by
`AnnotationGroup.from_dataset`, without a shared z).**  On the parsed group of three 2-D points, asking
for '3D' first is NOT refused: it returns two reinterpreted points `(1,2,3) (4,5,6)` and poisons the cache, so the
following request for the right type '2D' raises ValueError — although a freshly parsed object answers it with
the three stored points (and the freshly built object refuses '3D', `graphic_data_fresh`). -/
theorem counterexample_wrong_coordinate_type :
    runHistory ({ gtype := "POINT", enc := exPointsEnc, cache := none } : Group Int) [.whole 3, .whole 2] =
      [.ok (.whole [[[1, 2, 3]], [[4, 5, 6]]]), .error .value] ∧
    runHistory ({ gtype := "POINT", enc := exPointsEnc, cache := none } : Group Int) [.whole 2] =
      [.ok (.whole [[[1, 2]], [[3, 4]], [[5, 6]]])] := by
  decide

/-- the same three points read through their instance (AnnotationCoordinateType 2D handed down): '3D' is refused and
leaves no trace, '2D' then returns the three stored points -/
example : runHistory (parseVia 2 ({ gtype := "POINT", enc := exPointsEnc, cache := none } : Group Int)) [.whole 3, .nth 1 3, .whole 2] =
    [.error .value, .error .value, .ok (.whole [[[1, 2]], [[3, 4]], [[5, 6]]])] := by decide

omit [DecidableEq α] in
/-- **bridge to `ann/sop.py`**: `MicroscopyBulkSimpleAnnotations.from_dataset` (and `annread`) hand the instance's coordinate
type to every parsed group (`Gen.sopHandsDownCoordinateType`, regenerated), which is what `parseVia` records; a group parsed
on its own learns nothing -/
theorem tie_sop_hands_down (t : Int) (g : Group α) :
    sopHandsDownCoordinateType = true ∧ (parseVia t g).known = some t ∧ (parseVia t g).cache = none ∧
    (parseVia t g).enc = g.enc ∧ (parse g).known = g.known :=
  ⟨rfl, by simp [parseVia, sopHandsDownCoordinateType], rfl, rfl, rfl⟩

/-- **Round trip through the instance** (an instance of the group's own coordinate type — the only kind the constructor
accepts, `sop_coordinate_types`): the group read back from its instance returns every annotation unchanged and — like the
freshly built object — refuses the other coordinate type -/
theorem graphic_data_roundtrip_via_instance (gt : String) (finite : α → Bool) (dbl : Bool) (cast : α → α) (gd : GData α) (c : Nat)
    (v : Valid gt finite cast gd c) :
    ∃ g, construct gt finite dbl cast gd = .ok g ∧
      getGraphicData (parseVia (ctOf c) g) (ctOf c) = .ok (castG cast gd) ∧
      ∀ ct, ct ≠ ctOf c → getGraphicData (parseVia (ctOf c) g) ct = .error .value := by
  refine ⟨{ gtype := gt, enc := expectedEnc gt dbl cast gd c, cache := some (ctOf c, gd) }, ?_, ?_, ?_⟩
  · simp [construct, encode_valid gt finite dbl cast gd c v, ctOf]
  · simp only [getGraphicData, parseVia, sopHandsDownCoordinateType, if_true, ctOf,
      guard_expected gt dbl cast gd c (some (if c = 3 then 3 else 2)) (Or.inr rfl)]
    exact decode_expected gt finite dbl cast gd c v
  · intro ct hct
    simp only [getGraphicData, parseVia, sopHandsDownCoordinateType, if_true, guard_known_refuses (ctOf c) ct _ hct]

/-- **Several groups per instance.**  Each group of a parsed instance keeps its own cache: within ANY interleaved
history of accesses to the groups of one instance (`runInst`, positions into AnnotationGroupSequence, any coordinate
types), what the group at position `i` answers is, access by access, what a freshly parsed object of that group answers
to that single access — reads of other groups, before or in between, change nothing.  (`Model/Ann.lean` `stepInst` /
`runInst`, tied by the stream `instance-history`.) -/
theorem instance_groups_independent (gt : String) (finite : α → Bool) (dbl : Bool) (cast : α → α) (gd : GData α) (c : Nat)
    (v : Valid gt finite cast gd c) (g : Group α) (hg : construct gt finite dbl cast gd = .ok g)
    (gs : List (Group α)) (i : Nat) (hi : gs[i]? = some (parseVia (ctOf c) g)) (accs : List (Nat × Access)) :
    projAns i (runInst gs accs) = (projAcc i accs).map (fun a => (accessS (parseVia (ctOf c) g) a).1) := by
  rw [runInst_proj i accs gs _ hi]
  exact (history_independent gt finite dbl cast gd c v g hg (projAcc i accs)).1

/-- two groups of different dimensionality-independent content in one instance: reading group 1 first (with the right and
with the wrong type) leaves group 0 as it was -/
example : projAns 0 (runInst [parseVia 2 ({ gtype := "POINT", enc := exPointsEnc, cache := none } : Group Int),
      parseVia 2 ({ gtype := "POINT", enc := { exPointsEnc with coords := [7, 8], numAnn := 1 }, cache := none } : Group Int)]
    [(1, .whole 2), (1, .whole 3), (0, .nth 3 2), (1, .nth 1 2), (0, .whole 2)]) =
    [.ok (.nth [[5, 6]]), .ok (.whole [[[1, 2]], [[3, 4]], [[5, 6]]])] := by decide

/-- trip-wire on the regenerated flag `Gen.decodedSharedZReadOnly` (the array a parsed group rebuilds with the common z column
is made read-only before it is cached — /repo fix; without it a caller's in-place edit of a returned array changed every later
answer).  The behaviour itself is carried by tie C: in the `history`, `instance-history` and measurement streams the harness
overwrites every array it is allowed to write to between reads and empties every list it was given (histogram
`scribbled_arrays`); second flag `Gen.graphicDataReturnsNewList`: `get_graphic_data` hands out a new list, not the cached one. -/
theorem tie_decoded_arrays_read_only : decodedSharedZReadOnly = true ∧ graphicDataReturnsNewList = true := ⟨rfl, rfl⟩

/-! ## stored attributes (L1) -/

/-- What is written: all coordinate values row by row (two columns when z is shared), the shared z in
CommonZCoordinateValue exactly when the data are 3-D with one z, the one-based index list in coordinate
units exactly for POLYGON / POLYLINE, NumberOfAnnotations, and the double attribute for float64 input. -/
theorem stored_attributes (gt : String) (finite : α → Bool) (dbl : Bool) (cast : α → α) (gd : GData α) (c : Nat)
    (v : Valid gt finite cast gd c) (g : Group α) (hg : construct gt finite dbl cast gd = .ok g) :
    let rows := (castG cast gd).flatten
    let shared := sharedZ cast gd c
    g.enc.coords = (rows.map (fun r => r.take (storedDim c shared))).flatten ∧
    g.enc.double = dbl ∧ g.enc.numAnn = gd.length ∧
    (g.enc.commonZ.isSome ↔ (c = 3 ∧ ∃ z, ∀ r ∈ rows, r[2]? = some z)) ∧
    g.enc.indexList = (if gt = "POLYGON" ∨ gt = "POLYLINE" then
      some (indexListFrom 1 (gd.map (fun a => (a.length : Int) * (storedDim c shared : Nat)))) else none) := by
  simp only [construct, encode_valid gt finite dbl cast gd c v] at hg
  cases hg
  have hw := rows_width cast gd c v.width
  refine ⟨rfl, rfl, rfl, ?_, rfl⟩
  simp only [expectedEnc]
  by_cases hs : c = 3 ∧ (distinct (zColumn (castG cast gd).flatten)).length = 1
  · obtain ⟨hc3, hd⟩ := hs
    subst hc3
    obtain ⟨z, hzh, hzall⟩ := shared_z_rows _ hw hd
    simp only [sharedZ, hd, and_self, decide_true, if_true, hzh, Option.isSome_some, true_iff]
    exact ⟨trivial, z, hzall⟩
  · have hsh : sharedZ cast gd c = false := by simp [sharedZ, hs]
    simp only [hsh, Bool.false_eq_true, if_false, Option.isSome_none, false_iff]
    rintro ⟨hc3, z, hz⟩
    apply hs
    refine ⟨hc3, (distinct_length_one _).mpr ?_⟩
    subst hc3
    obtain ⟨r0, hhead, _⟩ := valid_head gt finite cast gd 3 v
    have hr0 : r0 ∈ (castG cast gd).flatten := List.mem_of_mem_head? hhead
    match hrows : (castG cast gd).flatten, hhead with
    | r :: rs, hh =>
      rw [hrows] at hz
      refine ⟨z, zColumn_head r rs z (hz r (by simp)), ?_⟩
      intro x hx
      simp only [zColumn, List.mem_filterMap] at hx
      obtain ⟨r', hr', hx'⟩ := hx
      rw [hz r' hr'] at hx'
      exact (Option.some.inj hx').symm

/-! ## malformed input -/

/-- **Whatever the constructor accepts is valid**: no annotation at all, a wrong point count for the
graphic type, a closed polygon, rows of different widths, a width other than 2 or 3, or a non-finite
coordinate — each makes the constructor fail. -/
theorem malformed_rejected (gt : String) (finite : α → Bool) (dbl : Bool) (cast : α → α) (gd : GData α)
    (h : ¬ ∃ c, Valid gt finite cast gd c) : construct gt finite dbl cast gd = .error .value := by
  cases hc : encode gt finite dbl cast gd with
  | error e =>
    have := encode_error_value gt finite dbl cast gd e hc
    subst this
    simp [construct, hc]
  | ok r => exact absurd (encode_ok_valid gt finite dbl cast gd r hc) h

/-- acceptance is exactly validity: the constructor either accepts (valid input) or raises ValueError -/
theorem accepted_iff_valid (gt : String) (finite : α → Bool) (dbl : Bool) (cast : α → α) (gd : GData α) :
    ((∃ g, construct gt finite dbl cast gd = .ok g) ↔ ∃ c, Valid gt finite cast gd c) ∧
    ((¬ ∃ g, construct gt finite dbl cast gd = .ok g) → construct gt finite dbl cast gd = .error .value) := by
  constructor
  · constructor
    · rintro ⟨g, hg⟩
      by_cases hv : ∃ c, Valid gt finite cast gd c
      · exact hv
      · rw [malformed_rejected gt finite dbl cast gd hv] at hg; cases hg
    · rintro ⟨c, v⟩
      obtain ⟨g, hg, _⟩ := graphic_data_roundtrip gt finite dbl cast gd c v
      exact ⟨g, hg⟩
  · intro hn
    apply malformed_rejected
    rintro ⟨c, v⟩
    obtain ⟨g, hg, _⟩ := graphic_data_roundtrip gt finite dbl cast gd c v
    exact hn ⟨g, hg⟩

/-- wrong number of points for the graphic type (POINT ≠ 1, RECTANGLE / ELLIPSE ≠ 4, POLYLINE < 2,
POLYGON < 3) or a closed polygon, in any annotation: ValueError -/
theorem malformed_rejected_point_count (gt : String) (finite : α → Bool) (dbl : Bool) (cast : α → α) (gd : GData α)
    (a : Annot α) (ha : a ∈ gd) (hbad : ¬ countOk gt a) : construct gt finite dbl cast gd = .error .value := by
  have : mapE (fun a => pointCountCheck gt (a.length : Int) (firstEqLast a)) gd = .error .value := by
    apply mapE_error_of_mem _ _ gd _ a ha
    · rw [pointCountCheck_countOk]; simp [hbad]
    · intro x _
      rw [pointCountCheck_countOk]
      by_cases hx : countOk gt x
      · exact Or.inr ⟨0, by simp [hx]⟩
      · exact Or.inl (by simp [hx])
  simp [construct, encode, this]

/-- a polygon whose first and last points coincide is refused -/
theorem malformed_rejected_closed_polygon (finite : α → Bool) (dbl : Bool) (cast : α → α) (gd : GData α)
    (a : Annot α) (ha : a ∈ gd) (hclosed : firstEqLast a = true) :
    construct "POLYGON" finite dbl cast gd = .error .value := by
  apply malformed_rejected_point_count "POLYGON" finite dbl cast gd a ha
  simp [countOk, hclosed]

/-- a non-finite coordinate anywhere is refused -/
theorem malformed_rejected_non_finite (gt : String) (finite : α → Bool) (dbl : Bool) (cast : α → α) (gd : GData α)
    (a : Annot α) (ha : a ∈ gd) (r : Row α) (hr : r ∈ a) (x : α) (hx : x ∈ r) (hbad : finite (cast x) = false) :
    construct gt finite dbl cast gd = .error .value := by
  apply malformed_rejected
  rintro ⟨c, v⟩
  have := v.fin a ha r hr x hx
  rw [hbad] at this
  cases this

/-- points that are not 2-D or 3-D, or arrays of different widths, are refused -/
theorem malformed_rejected_dimensions (gt : String) (finite : α → Bool) (dbl : Bool) (cast : α → α) (gd : GData α)
    (a : Annot α) (ha : a ∈ gd) (r : Row α) (hr : r ∈ a)
    (hbad : (r.length ≠ 2 ∧ r.length ≠ 3) ∨ ∃ a' ∈ gd, ∃ r' ∈ a', r'.length ≠ r.length) :
    construct gt finite dbl cast gd = .error .value := by
  apply malformed_rejected
  rintro ⟨c, v⟩
  have hc := v.width a ha r hr
  rcases hbad with h | ⟨a', ha', r', hr', hne⟩
  · have := v.dims; omega
  · exact hne (by rw [v.width a' ha' r' hr', hc])

/-- an empty list of annotations is refused -/
theorem malformed_rejected_empty (gt : String) (finite : α → Bool) (dbl : Bool) (cast : α → α) :
    construct gt finite dbl cast ([] : GData α) = .error .value := by
  simp [construct, encode, mapE]

/-! ## dtype acceptance, array rank, corrupted index lists -/

/-- which numpy dtypes the constructor accepts (`kind` letter and item size of the concatenated array) -/
def dtypeSupported (kind : String) (itemsize : Int) : Prop :=
  kind = "u" ∨ kind = "i" ∨ (kind = "f" ∧ itemsize ≤ 8)

instance (kind : String) (itemsize : Int) : Decidable (dtypeSupported kind itemsize) := by
  unfold dtypeSupported; exact inferInstance

/-- the cast the constructor applies to every cell: single precision for integers (the constructor's `astype(float32)`, lossy from 2^24) and
for half precision (lossless widening), nothing for float32 / float64 -/
def dtypeCast (kind : String) (itemsize : Int) (toF32 : α → α) : α → α :=
  if kind = "u" ∨ kind = "i" ∨ itemsize < 4 then toF32 else id

/-- the dtype decision (`Gen.dtypePlan`, regenerated from the source) resolved: supported dtypes go on with the
cast and the attribute they determine, everything else is a ValueError -/
theorem constructDT_resolved (gt : String) (finite : α → Bool) (kind : String) (itemsize : Int) (toF32 : α → α) (gd : GData α) :
    constructDT gt finite kind itemsize toF32 gd =
      if dtypeSupported kind itemsize then
        construct gt finite (decide (kind = "f" ∧ itemsize = 8)) (dtypeCast kind itemsize toF32) gd
      else .error .value := by
  unfold constructDT dtypeSupported dtypeCast
  rw [dtypePlan_spec]
  by_cases h1 : kind = "u"
  · subst h1; simp
  by_cases h2 : kind = "i"
  · subst h2; simp
  by_cases h3 : kind = "f"
  · subst h3
    by_cases h8 : itemsize > 8
    · have : ¬ itemsize ≤ 8 := by omega
      simp [h8, this]
    · have h8' : itemsize ≤ 8 := by omega
      by_cases h4 : itemsize < 4
      · have : ¬ itemsize = 8 := by omega
        simp [h8, h8', h4, this]
      · have h8'' : ¬ (8 < itemsize) := by omega
        by_cases he : itemsize = 8
        · subst he; simp
        · have : (itemsize == 8) = false := by simpa using he
          simp [h8', h8'', h4, he, this]
  · simp [h1, h2, h3]


/-- **Acceptance ⇒ the stored cells are the input cells after the cast the constructor applies.**  If the constructor
accepts arrays of dtype (`kind`, `itemsize`) then the dtype is integer or float of at most double
precision, the input is valid, DoublePointCoordinatesData is used exactly for 8-byte floats, and the parsed
group returns every cell of every annotation — cast to single precision for integer / half-precision
input, untouched otherwise. -/
theorem acceptance_implies_stored_cells (gt : String) (finite : α → Bool) (kind : String) (itemsize : Int) (toF32 : α → α)
    (gd : GData α) (g : Group α) (hg : constructDT gt finite kind itemsize toF32 gd = .ok g) :
    dtypeSupported kind itemsize ∧
    ∃ c, Valid gt finite (dtypeCast kind itemsize toF32) gd c ∧
      g.enc.double = decide (kind = "f" ∧ itemsize = 8) ∧
      getGraphicData (parse g) (ctOf c) = .ok (castG (dtypeCast kind itemsize toF32) gd) := by
  rw [constructDT_resolved] at hg
  by_cases hs : dtypeSupported kind itemsize
  · simp only [hs, if_true] at hg
    obtain ⟨c, v⟩ := (accepted_iff_valid gt finite _ _ gd).1.mp ⟨g, hg⟩
    obtain ⟨g', hg', hr⟩ := graphic_data_roundtrip gt finite (decide (kind = "f" ∧ itemsize = 8)) _ gd c v
    rw [hg] at hg'; cases hg'
    exact ⟨hs, c, v, (stored_attributes gt finite _ _ gd c v g hg).2.1, hr⟩
  · simp [hs] at hg

/-- every other dtype (bool, complex, long double, strings, objects …) is refused with a ValueError,
whatever the data -/
theorem unsupported_dtype_rejected (gt : String) (finite : α → Bool) (kind : String) (itemsize : Int) (toF32 : α → α)
    (gd : GData α) (h : ¬ dtypeSupported kind itemsize) :
    constructDT gt finite kind itemsize toF32 gd = .error .value := by
  rw [constructDT_resolved]; simp [h]

/-- **one-dimensional arrays are refused**: whenever one of the input arrays is 1-D the constructor raises
ValueError (point-count check on `shape[0]`, `np.concatenate` on mixed ranks, or the `ndim` guard) -/
theorem malformed_rejected_one_dimensional (gt : String) (finite : α → Bool) (kind : String) (itemsize : Int) (toF32 : α → α)
    (arrs : List (Arr α)) (h : allD2 arrs = none) :
    constructArrs gt finite kind itemsize toF32 arrs = .error .value := by
  unfold constructArrs
  simp only [h]
  cases hc : mapE (fun (a : Arr α) => pointCountCheck gt (a.shape0 : Int) a.firstEqLast) arrs with
  | error e =>
    have : e = .value := by
      refine mapE_error_kind _ .value arrs ?_ e hc
      intro a _ e' he
      rw [pointCountCheck_spec] at he
      split at he
      · cases he
      · cases he; rfl
    subst this; rfl
  | ok _ =>
    simp only []
    split
    · rfl
    · rw [dtypePlan_spec]
      by_cases h1 : kind = "u" ∨ kind = "i"
      · simp [h1, encodePlan_ndim]
      · by_cases h2 : kind ≠ "f" ∨ itemsize > 8
        · simp [h1, h2]
        · simp [h1, h2, encodePlan_ndim]

omit [DecidableEq α] in
/-- **a corrupted index list is refused when the parsed group is read**: an empty list, a first entry other
than 1, entries that are not strictly increasing, an entry off a point boundary or beyond the coordinate
data — `get_graphic_data` raises ValueError instead of cutting at a negative / misplaced position -/
theorem corrupt_index_list_refused (gt : String) (hgt : gt = "POLYLINE" ∨ gt = "POLYGON") (e : Enc α) (ct stored : Int)
    (rows : List (Row α)) (il : List Int) (hil : e.indexList = some il)
    (hbad : ((il.map (fun i => i - 1)).isEmpty || headNotZero (il.map (fun i => i - 1)) ||
      anyNotIncreasing (il.map (fun i => i - 1)) ||
      (il.map (fun i => i - 1)).any (fun i => decide (Int.fmod i stored ≠ 0)) ||
      lastBeyond (il.map (fun i => i - 1)) ((rows.length : Int) * stored)) = true) :
    splitRows gt e ct stored rows = .error .value := by
  unfold splitRows
  rw [decodePlan_spec]
  have h1 : ¬ (gt = "RECTANGLE" ∨ gt = "ELLIPSE") := by rcases hgt with h | h <;> subst h <;> decide
  have h2 : ¬ (gt = "POINT") := by rcases hgt with h | h <;> subst h <;> decide
  simp only [h1, h2, hgt, if_true, if_false, hil, cutsOf, checkIndexList_invalid stored _ il hbad]
  simp

/-- the six corrupted lists of `fixes/C18-corrupt-index-list/repro.py` (three 2-D triangles, valid list
`[1, 7, 13]`, 9 stored rows) are all refused, the valid one is accepted -/
example : ([[1, 0, 13], [1, 13, 7], [1, 8, 13], [3, 7, 13], [1, 7, 19], [1, 7, 7]].map (fun il => checkIndexList 2 9 il)).all
    (fun r => r == .error .value) = true ∧ checkIndexList 2 9 [1, 7, 13] = .ok [0, 6, 12] := by decide


/-! ## measurements -/

/-- **Every NaN pattern round-trips**: `none` = NaN; the values come back at their positions (after the
cast to float32 the IOD prescribes), absent ones stay absent — for no, some, or only NaNs. -/
theorem measurements_roundtrip {β : Type} (cast32 : β → β) (vals : List (Option β)) :
    getValues (encodeMeas cast32 vals) vals.length = .ok (vals.map (Option.map cast32)) :=
  getValues_encodeMeas cast32 vals

/-- the round trip does not depend on `_number_of_values` (which a parsed object no longer has) -/
theorem measurements_roundtrip_parsed {β : Type} (cast32 : β → β) (vals : List (Option β)) :
    getValues { encodeMeas cast32 vals with numberOfValues := none } vals.length = .ok (vals.map (Option.map cast32)) := by
  have := getValues_encodeMeas cast32 vals
  simpa [getValues] using this

/-- AnnotationIndexList is written iff some value is absent -/
theorem measurements_index_list_iff_nan {β : Type} (cast32 : β → β) (vals : List (Option β)) :
    (encodeMeas cast32 vals).indices.isSome = vals.any Option.isNone :=
  indexList_iff_nan cast32 vals

/-- a vector of the right length is accepted by the group constructor … -/
theorem measurements_accepted {β : Type} (cast32 : β → β) (vals : List (Option β)) :
    checkMeas (encodeMeas cast32 vals) vals.length = .ok () := by
  have h := getValues_encodeMeas cast32 vals
  have hn : (encodeMeas cast32 vals).numberOfValues = some vals.length := rfl
  simp [checkMeas, hn, h]

/-- … and **a vector of any other length is refused**, whatever its NaN pattern -/
theorem malformed_rejected_measurement_count {β : Type} (cast32 : β → β) (vals : List (Option β)) (n : Nat)
    (h : vals.length ≠ n) : checkMeas (encodeMeas cast32 vals) n = .error .value := by
  have hn : (encodeMeas cast32 vals).numberOfValues = some vals.length := rfl
  simp [checkMeas, hn, h]

/-- for measurements that carry no remembered length (parsed items reused in a new group) a dense
vector of the wrong length is still refused — in particular a single value is not broadcast -/
theorem malformed_rejected_dense_count {β : Type} (m : MeasEnc β) (n : Nat) (hi : m.indices = none)
    (hk : m.numberOfValues = none) (h : m.values.length ≠ n) : checkMeas m n = .error .value := by
  have hg : getValues m n = .error .index := by
    have hne : ¬ ((m.values.length : Int) = (n : Int)) := by omega
    simp [getValues, hi, measIndexGuard_spec, hne]
  simp [checkMeas, hk, hg]

/-- `get_measurements(name)`: the vectors of the items whose name matches (all of them without a name), in
order, each with its values and NaN pattern intact -/
theorem get_measurements_spec {β κ : Type} (same : κ → κ → Bool) (cast32 : β → β) (items : List (κ × List (Option β))) (n : Nat)
    (hn : ∀ it ∈ items, it.2.length = n) (name : Option κ) :
    getMeasurements same (items.map (fun it => (it.1, encodeMeas cast32 it.2))) n name =
      .ok ((items.filter (fun it => nameMatches same name it.1)).map (fun it => it.2.map (Option.map cast32))) :=
  getMeasurements_spec same cast32 items n hn name

/-- **the value array of `get_measurements`** (`np.vstack(values).T`): `n` rows — also when no item matches, `np.empty((n, 0))` —
and the entry in row `i`, column `j` is the value given for annotation `i` to the `j`-th item whose name matches (after the cast
to single precision), NaN exactly where it was NaN (`Model/Ann.lean` `measMatrix`, tied by the stream `getMeasurementMatrix`) -/
theorem measurement_matrix {β κ : Type} (same : κ → κ → Bool) (cast32 : β → β) (items : List (κ × List (Option β))) (n : Nat)
    (hn : ∀ it ∈ items, it.2.length = n) (name : Option κ) :
    ∃ M, getMeasurementMatrix same (items.map (fun it => (it.1, encodeMeas cast32 it.2))) n name = .ok M ∧ M.length = n ∧
      ∀ i, i < n → M[i]? = some ((items.filter (fun it => nameMatches same name it.1)).map
        (fun it => ((it.2[i]?).join).map cast32)) := by
  refine ⟨measMatrix n ((items.filter (fun it => nameMatches same name it.1)).map (fun it => it.2.map (Option.map cast32))), ?_, ?_, ?_⟩
  · simp only [getMeasurementMatrix, get_measurements_spec same cast32 items n hn name]
  · simp [measMatrix]
  · intro i hi
    simp only [measMatrix, List.getElem?_map, List.getElem?_range hi, Option.map_some, List.map_map]
    congr 1
    apply List.map_congr_left
    intro it _
    simp only [Function.comp, List.getElem?_map]
    cases it.2[i]? with
    | none => rfl
    | some x => cases x <;> rfl

/-! ## group lookup -/

/-- **`get_annotation_groups` returns exactly the groups matching every given criterion, in order**
(`Gen.groupFilterDecision` is the loop body as the source has it now). -/
theorem group_lookup_spec (gs : List GroupInfo) (f : Filter) :
    getGroups gs f = .ok (gs.filter (fun g => matchesSpec g f)) ∧
    (∀ g, g ∈ gs.filter (fun g => matchesSpec g f) ↔ (g ∈ gs ∧ matchesSpec g f = true)) ∧
    List.Sublist (gs.filter (fun g => matchesSpec g f)) gs :=
  ⟨getGroups_spec gs f, fun g => by simp [List.mem_filter], List.filter_sublist⟩

/-- each criterion is compared with the attribute of the item it is named after -/
theorem group_lookup_compares : filterCompares =
    [("annotated_property_category", "item.annotated_property_category"),
     ("annotated_property_type", "item.annotated_property_type"),
     ("label", "item.AnnotationGroupLabel"), ("graphic_type", "item.graphic_type"),
     ("algorithm_type", "item.algorithm_type"), ("algorithm_name", "algorithm_identification.name"),
     ("algorithm_version", "algorithm_identification.version"),
     ("algorithm_family", "algorithm_identification.family")] := by decide

/-- no criterion: all groups -/
theorem group_lookup_no_filter (gs : List GroupInfo) : getGroups gs {} = .ok gs := by
  rw [getGroups_spec]
  have : ∀ g, matchesSpec g {} = true := by
    intro g
    unfold matchesSpec
    cases g.alg with
    | none => simp [optOk]
    | some a => obtain ⟨n, ver, fam⟩ := a; simp [optOk]
  simp [this]

/-- lookup by number: the unique group with that number, ValueError for none or several; the number
takes precedence over a uid given in addition -/
theorem group_lookup_by_number (gs : List GroupInfo) (k : Int) (uid : Option String) :
    getGroup gs (some k) uid =
      match gs.filter (fun g => g.number = k) with
      | [g] => .ok g
      | _ => .error .value :=
  getGroup_by_number gs k uid

/-- in an object whose groups are numbered 1, 2, … in order (the SOP class constructor refuses anything else)
number `k` finds the `k`-th group, and every other number (below 1 or above the number of groups) is refused -/
theorem group_lookup_numbered (gs : List GroupInfo) (h : numberedFrom 0 gs) (uid : Option String) :
    (∀ (k : Nat) (hk : k < gs.length), getGroup gs (some ((k : Int) + 1)) uid = .ok gs[k]) ∧
    (∀ j : Int, (j < 1 ∨ (gs.length : Int) < j) → getGroup gs (some j) uid = .error .value) := by
  constructor
  · intro k hk
    rw [getGroup_by_number]
    have := filter_number_unique gs 0 k hk h
    simp only [Int.zero_add] at this
    rw [this]
  · rintro j (hj | hj)
    · rw [getGroup_by_number, filter_number_none gs 0 j h (by omega)]
    · rw [getGroup_by_number, filter_number_above gs 0 j h (by omega)]

/-- lookup by UID -/
theorem group_lookup_by_uid (gs : List GroupInfo) (u : String) :
    getGroup gs none (some u) =
      match gs.filter (fun g => g.uid = u) with
      | [g] => .ok g
      | _ => .error .value :=
  getGroup_by_uid gs u

/-- neither number nor uid: TypeError -/
theorem group_lookup_no_key (gs : List GroupInfo) : getGroup gs none none = .error .type :=
  getGroup_none gs

/-! ## bridges: hand-written pieces of the model use exactly the expressions of the current source -/

/-- the LongPrimitivePointIndexList of the model is `concatenate([array([f]), (cumsum(spans) + c)[:-k]])` with the
literals `f`, `c`, `k` regenerated from `AnnotationGroup.__init__` -/
theorem tie_index_list_construction (s0 : Int) (spans : List Int) :
    indexListFrom indexListBase (s0 :: spans) = sourceIndexList (s0 :: spans) :=
  indexList_is_source_expression s0 spans

/-- the `+ c` of `Measurements.__init__` and the `- c` of `Measurements.get_values` (both regenerated) agree, the model
writes with the first and reads with the second -/
theorem tie_measurement_offsets {β : Type} (cast32 : β → β) (vals : List (Option β)) (m : MeasEnc β) (il : List Int)
    (hm : m.indices = some il) :
    measReadOffset = measIndexBase ∧
    (encodeMeas cast32 vals).indices =
      (if vals.any Option.isNone then some ((positions 0 vals).map (fun (i : Nat) => (i : Int) + measIndexBase)) else none) ∧
    (∀ (n : Nat) (k : Int), measIndexGuard true (il.length : Int) (n : Int) (m.values.length : Int) = .ok k →
      getValues m n = assignAll n ((il.map (fun i => i - measReadOffset)).zip m.values) (List.replicate n none)) ∧
    (∀ (n : Nat) (e : ErrKind), measIndexGuard true (il.length : Int) (n : Int) (m.values.length : Int) = .error e →
      getValues m n = .error e) :=
  measurement_offsets_are_source β cast32 vals m il hm

/-- the check the group constructor applies to every item of `measurements` (hand-written `checkMeas`, with the source's
`try / except IndexError`) is the regenerated loop body `Gen.measCheckPlan` applied to the remembered number of values, to
whether `get_values` raises (it raises nothing but IndexError) and to the length of what it returns -/
theorem tie_measurement_check {β : Type} (m : MeasEnc β) (n : Nat) :
    (∀ e, getValues m n = .error e → e = .index) ∧
    checkMeas m n =
      (match getValues m n with
       | .error _ => (measCheckPlan (m.numberOfValues.map (fun (k : Nat) => (k : Int))) true true (n : Int) 0).map (fun _ => ())
       | .ok vals => (measCheckPlan (m.numberOfValues.map (fun (k : Nat) => (k : Int))) false true (n : Int) (vals.length : Int)).map
           (fun _ => ())) :=
  ⟨getValues_err_index m n, checkMeas_follows_plan m n⟩

/-- **a group built with another coordinate type than the instance's is refused by the SOP class constructor** (malformed
input; fix in /repo: before, a 3-D group in a '2D' instance was written and came back from the file as reinterpreted 2-D
points).  `sopAcceptsTypes` is the regenerated loop body `Gen.sopGroupCheck` applied to every (correctly numbered) group —
`_graphic_data` of a built group holds exactly its own type, a parsed group holds nothing and is not checked — and it accepts
iff every built group has the instance's type (stream `sopTypes`, malformed kind `sop-type-mismatch`) -/
theorem sop_coordinate_types (ct : Int) (built : List (Option Int)) :
    sopAcceptsTypes ct built = sopTypeLoop ct 0 built ∧
    (sopAcceptsTypes ct built = true ↔ ∀ t, some t ∈ built → t = ct) := by
  refine ⟨sopAcceptsTypes_is_source_loop ct built 0, ?_⟩
  simp only [sopAcceptsTypes, List.all_eq_true]
  constructor
  · intro h t ht
    have := h (some t) ht
    simpa using this
  · intro h b hb
    cases b with
    | none => rfl
    | some t => simpa using h t hb

omit [DecidableEq α] in
/-- **a parsed group handed to the SOP class constructor** (regenerated second check `Gen.sopKnownTypeCheck`, /repo fix): it is
accepted iff the coordinate type it learned from the instance it was read with — if any — is the new instance's, and a stored
common z goes with 3D only.  In particular every group read through an instance of type `t` is refused by an instance of another
type, and (with `history_independent`) is read back unchanged from an instance that accepts it.  A group parsed on its own
without a common z knows nothing and passes: the residue of the open finding C18-wrong-coordinate-type.  (Stream `sopParsed`,
malformed class `sop-parsed-type-mismatch`.) -/
theorem sop_parsed_groups (ct : Int) (gs : List (Group α)) :
    (sopAcceptsParsed ct gs = true ↔
      ∀ g ∈ gs, (g.known = none ∨ g.known = some ct) ∧ (g.enc.commonZ.isSome = true → ct = 3)) ∧
    (∀ (t : Int) (g : Group α), t ≠ ct → sopAcceptsParsed ct [parseVia t g] = false) ∧
    (∀ g : Group α, g.enc.commonZ = none → sopAcceptsParsed ct [parse { g with known := none }] = true) := by
  refine ⟨?_, ?_, ?_⟩
  · simp only [sopAcceptsParsed, List.all_eq_true]
    exact ⟨fun h g hg => (sopKnownTypeCheck_ok_iff ct g.known _).mp (h g hg),
      fun h g hg => (sopKnownTypeCheck_ok_iff ct g.known _).mpr (h g hg)⟩
  · intro t g ht
    simp [sopAcceptsParsed, parseVia, sopHandsDownCoordinateType, sopKnownTypeCheck_spec, ht]
  · intro g hz
    simp [sopAcceptsParsed, parse, sopKnownTypeCheck_spec, hz]

example : sopAcceptsParsed 3 [parseVia 2 ({ gtype := "POINT", enc := exPointsEnc, cache := none } : Group Int)] = false ∧
    sopAcceptsParsed 2 [parseVia 2 ({ gtype := "POINT", enc := exPointsEnc, cache := none } : Group Int)] = true ∧
    sopAcceptsParsed 2 [parse ({ gtype := "POINT", enc := { exPointsEnc with commonZ := some 9 }, cache := none } : Group Int)] = false := by
  decide

example : sopAcceptsTypes 2 [some 2, none, some 2] = true ∧ sopAcceptsTypes 2 [some 2, some 3] = false ∧
    sopAcceptsTypes 3 [none, some 2] = false := by decide

/-- the SOP class constructor accepts a list of group numbers iff its regenerated loop body (`Gen.sopGroupCheck`)
succeeds at every position 0, 1, … -/
theorem tie_sop_numbering (numbers : List Int) : sopAcceptsNumbers numbers = sopLoop 0 numbers :=
  sopAcceptsNumbers_is_source_loop numbers

example : sourceIndexList [6, 8, 4] = [1, 7, 15] ∧ sopLoop 0 [1, 2, 3] = true ∧ sopLoop 0 [1, 3] = false ∧
    sopGroupCheck 1 true 3 0 false = .error .value ∧ sopGroupCheck 1 true 2 1 true = .error .value ∧
    sopGroupCheck 1 true 2 1 false = .ok 0 ∧ sopGroupCheck 1 true 2 0 true = .ok 0 := by decide

/-! ## non-vacuity -/

/-- two open 3-D polygons in one z plane (shared z), cells are integers -/
def exPolygons : GData Int := [[[1, 2, 9], [3, 4, 9], [5, 7, 9]], [[1, 2, 9], [3, 4, 9], [5, 7, 9], [8, 9, 9]]]

example : Valid "POLYGON" (fun _ => true) id exPolygons 3 :=
  ⟨by decide, by decide, by decide, by decide, by decide⟩
example : (construct "POLYGON" (fun _ => true) false id exPolygons).map (fun g => g.enc) =
    .ok { coords := [1, 2, 3, 4, 5, 7, 1, 2, 3, 4, 5, 7, 8, 9], double := false, commonZ := some 9,
          indexList := some [1, 7], numAnn := 2 } := by decide
/-- varying z: three columns stored, index list in units of 3 -/
example : (construct "POLYLINE" (fun _ => true) true id [[[1, 2, 0], [3, 4, 1]], [[5, 6, 2], [7, 8, 3], [9, 9, 4]]]).map (fun g => g.enc) =
    .ok { coords := [1, 2, 0, 3, 4, 1, 5, 6, 2, 7, 8, 3, 9, 9, 4], double := true, commonZ := none,
          indexList := some [1, 7], numAnn := 2 } := by decide
/-- the open-shape rule is a rule of POLYGON only: a closed POLYLINE (last point = first point), a polyline of one
repeated point and a RECTANGLE whose fourth corner repeats the first are VALID input, accepted and read back -/
example : Valid "POLYLINE" (fun _ => true) id ([[[1, 2], [3, 4], [1, 2]], [[5, 5], [5, 5]]] : GData Int) 2 ∧
    Valid "RECTANGLE" (fun _ => true) id ([[[1, 2], [3, 4], [5, 6], [1, 2]]] : GData Int) 2 :=
  ⟨⟨by decide, by decide, by decide, by decide, by decide⟩, ⟨by decide, by decide, by decide, by decide, by decide⟩⟩
example : (construct "POLYLINE" (fun _ => true) false id ([[[1, 2], [3, 4], [1, 2]], [[5, 5], [5, 5]]] : GData Int)).map
    (fun g => (g.enc, getGraphicData (parse g) 2)) =
    .ok ({ coords := [1, 2, 3, 4, 1, 2, 5, 5, 5, 5], double := false, commonZ := none, indexList := some [1, 7], numAnn := 2 },
         .ok [[[1, 2], [3, 4], [1, 2]], [[5, 5], [5, 5]]]) := by decide
/-- a closed polygon and a rectangle with three corners are not valid -/
example : ¬ countOk "POLYGON" ([[1, 2], [3, 4], [1, 2]] : Annot Int) ∧ ¬ countOk "RECTANGLE" ([[1, 2], [3, 4], [5, 6]] : Annot Int) := by
  decide
/-- NaN patterns: some, none, all -/
example : encodeMeas id [some (5 : Int), none, some 7] = { values := [5, 7], indices := some [1, 3], numberOfValues := some 3 } ∧
    encodeMeas id [some (5 : Int), some 6] = { values := [5, 6], indices := none, numberOfValues := some 2 } ∧
    encodeMeas id ([none, none] : List (Option Int)) = { values := [], indices := some [], numberOfValues := some 2 } := by decide

end HdVerif.C18
