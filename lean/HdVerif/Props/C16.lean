import HdVerif.Model.SRReport
namespace HdVerif.C16
end HdVerif.C16
