import HdVerif.Proofs.SRReport
import HdVerif.Proofs.SRReportTie
import HdVerif.Proofs.SRReportHistory
import HdVerif.Generated.T16d
import HdVerif.Generated.T16e
import HdVerif.Generated.T16f
import HdVerif.Generated.T16g
import HdVerif.Generated.T16k
import HdVerif.Generated.T16l
import HdVerif.Generated.T16m
import HdVerif.Generated.T15c
/-! # C16  Measurement-report queries return exactly the matching groups

Property theorems only.  Model: `Model/SRReport.lean`.  The kind classification by content counting
(`Gen.roiCountGuard/Step`, `Gen.containsPlanarRois`, `Gen.containsVolumetricRois`), the argument checks
(`Gen.planarArgCheck`, `Gen.volumetricArgCheck`) and the tables (`Gen.*AllowedRefTypes`, `Gen.refTypeValueTypes`)
are regenerated from `sr/templates.py` on every run (tie T); loops, filter predicates and the ROI reference
search are hand-modelled and checked against the real queries (tie C).  `specKind` / `specFilters` are the
declarative statement over the CONSTRUCTION PARAMETERS of a group (`Params`), `mkGroup` is the layout the
constructors produce (checked against the real containers item for item). -/
namespace HdVerif.C16
open HdVerif HdVerif.SRReport HdVerif.SRReportLemmas HdVerif.SRReportTie

/-! ## the result is a document-order filter -/

/-- **Any report the model represents** (constructed or third-party): an accepted query returns strictly increasing
positions — document order, no group twice — and a position is returned iff the loop body keeps that group; the query
fails iff the arguments are refused or some group cannot be decided.  `keep` carries the error arms of the loop body:
RuntimeErrors of the ROI search, a stored graphic type outside the enumeration it is read into (`.value`), a reference
/ source image item without ReferencedSOPSequence or a SCOORD region without ContentSequence where they are read
(`.attribute`), and the conversion of a group about to be returned (`.attribute`; see `malformed_item_arms`,
`sound_group_has_no_malformed_arm`).  Scope: group containers have a ContentSequence and a present ReferencedSOPSequence
is not empty; the conversion is modelled only for the ReferencedSOPSequence of IMAGE / COMPOSITE items and the GraphicType
of SCOORD / SCOORD3D items; items lacking another attribute of their value type, or carrying a value / relationship type
outside its enumeration, are outside the model (C13 / C14 own the per-item validation). -/
theorem query_is_document_order_filter (k : Kind) (gs : List Group) (f : Filters) (l : List Nat)
    (h : query k gs f = .ok l) :
    l.Pairwise (· < ·) ∧ (∀ j, j ∈ l ↔ ∃ g, gs[j]? = some g ∧ keep k g f = .ok true) ∧
    (∀ g ∈ gs, ∃ b, keep k g f = .ok b) ∧ (∃ b, argCheck k f = .ok b) := by
  unfold query at h
  cases ha : argCheck k f with
  | error x => simp [ha] at h
  | ok b =>
    simp only [ha] at h
    obtain ⟨h1, h2, h3⟩ := queryLoop_spec k f gs 0 l h
    refine ⟨h2, ?_, h1, ⟨b, rfl⟩⟩
    intro j
    rw [h3 j]
    simp

/-- **Soundness and completeness over construction parameters.**  For a report built from groups with parameters
`ps` (consistent with what the constructors accept; graphic types members of their enumeration — the region classes
take them as enumeration members; evaluation names not reserved), an accepted query returns, in
document order and once each, exactly the positions of the groups whose parameters say they are of the queried
kind and satisfy every filter (with or without template identification on each container: `specKind` is the template
test when `p.template`, the content classification otherwise; whatever session, algorithm identification, time point context and real world value map
the groups carry: `ContextOK`) — never a group of another kind, never one failing a filter, never omitting one. -/
theorem query_sound_complete (k : Kind) (ps : List Params) (f : Filters)
    (hcons : ∀ p ∈ ps, p.consistent = true) (hgv : ∀ p ∈ ps, p.graphicsValid = true) (hclean : ∀ p ∈ ps, CleanNames p)
    (hctx : ∀ p ∈ ps, ContextOK p) (b : Bool) (hargs : argCheck k f = .ok b) :
    ∃ l, query k (ps.map mkGroup) f = .ok l ∧ l.Pairwise (· < ·) ∧
      ∀ j, j ∈ l ↔ ∃ p, ps[j]? = some p ∧ specKind k p = true ∧ specFilters k p f = true := by
  have hall : ∀ g ∈ ps.map mkGroup, ∃ b, keep k g f = .ok b := by
    intro g hg
    obtain ⟨p, hp, rfl⟩ := List.mem_map.mp hg
    exact ⟨_, keep_constructed k p f (hcons p hp) (hgv p hp) (hclean p hp) (hctx p hp)⟩
  obtain ⟨l, hl⟩ := queryLoop_ok_of_all k f (ps.map mkGroup) 0 hall
  have hq : query k (ps.map mkGroup) f = .ok l := by simp [query, hargs, hl]
  obtain ⟨h1, h2, _, _⟩ := query_is_document_order_filter k _ f l hq
  refine ⟨l, hq, h1, ?_⟩
  intro j
  rw [h2 j]
  constructor
  · rintro ⟨g, hg, hk⟩
    rw [List.getElem?_map] at hg
    cases hp : ps[j]? with
    | none => simp [hp] at hg
    | some p =>
      simp only [hp, Option.map_some, Option.some.injEq] at hg
      subst hg
      have hmem : p ∈ ps := List.mem_of_getElem? hp
      rw [keep_constructed k p f (hcons p hmem) (hgv p hmem) (hclean p hmem) (hctx p hmem)] at hk
      simp only [Except.ok.injEq, Bool.and_eq_true] at hk
      exact ⟨p, rfl, hk.1, hk.2⟩
  · rintro ⟨p, hp, hk1, hk2⟩
    refine ⟨mkGroup p, by rw [List.getElem?_map, hp]; rfl, ?_⟩
    have hmem : p ∈ ps := List.mem_of_getElem? hp
    rw [keep_constructed k p f (hcons p hmem) (hgv p hmem) (hclean p hmem) (hctx p hmem), hk1, hk2]
    rfl

/-- **No state is carried from one group to the next** in any of the three query loops: the table of variables that are
assigned inside `for group_item in measurement_group_items:` and may be read by an iteration before it writes them
(upward-exposed uses, computed from the current source on every run, T16e) is empty for all three methods, and the result
list is only appended to.  This is what entitles the model to decide every group by `keep k g f` alone; a flag initialised
before the loop and accumulated inside it (e.g. `contains_rois |= …`) makes this theorem fail. -/
theorem no_state_carried_across_groups :
    Gen.queryLoopCarried.map Prod.fst = ["get_planar_roi_measurement_groups", "get_volumetric_roi_measurement_groups",
                                          "get_image_measurement_groups"] ∧
    ∀ row ∈ Gen.queryLoopCarried, row.2 = [] := by decide

/-- **Every group is visited, and what is kept is all that is returned.**  The table of the ways out of an iteration of
`for group_item in measurement_group_items:` (computed from the current source on every run, T16k): in all three methods the
only statements that leave an iteration early are the two `continue`s of the kind test (template identification present
and another template / absent and the content says another kind) — no `break`, no `return`, no `raise` in the loop body
itself —, the result is appended to exactly under "no filter given or all filters matched", the loop has no `else:` clause,
runs over `self._find_measurement_groups()` and is followed by `return sequences` only; no statement between the assignment
of the group list and the loop mentions that list (no in-place `reverse()` / `del …[1:]`), and the result list is assigned
exactly once, `sequences = []` (nothing trims, reorders or deduplicates the answer).  This is what entitles the model to be a document-order FILTER over ALL groups
(`query_is_document_order_filter`): an early exit after the first hit (tracking UIDs assumed unique, "first match wins")
makes this theorem fail.  A trip-wire on a regenerated table in the sense of AGENT_GUIDE §3a; the behaviour itself is
exercised by the `twins` stream of the correspondence (several groups passing one filter). -/
theorem every_group_is_visited :
    Gen.queryLoopExits =
      [("get_planar_roi_measurement_groups", "continue", "group_item.template_id is not None and group_item.template_id != '1410'"),
       ("get_planar_roi_measurement_groups", "continue", "not (group_item.template_id is not None) and not _contains_planar_rois(group_item)"),
       ("get_planar_roi_measurement_groups", "append(seq)", "len(matches) == 0 or all(matches)"),
       ("get_volumetric_roi_measurement_groups", "continue", "group_item.template_id is not None and group_item.template_id != '1411'"),
       ("get_volumetric_roi_measurement_groups", "continue", "not (group_item.template_id is not None) and not _contains_volumetric_rois(group_item)"),
       ("get_volumetric_roi_measurement_groups", "append(seq)", "len(matches) == 0 or all(matches)"),
       ("get_image_measurement_groups", "continue", "group_item.template_id is not None and group_item.template_id != '1501'"),
       ("get_image_measurement_groups", "continue", "not (group_item.template_id is not None) and contains_rois"),
       ("get_image_measurement_groups", "append(seq)", "len(matches) == 0"),
       ("get_image_measurement_groups", "append(seq)", "not (len(matches) == 0) and all(matches)")] ∧
    (["get_planar_roi_measurement_groups", "get_volumetric_roi_measurement_groups", "get_image_measurement_groups"].all fun m =>
      Gen.queryLoopFrame.contains (m, "groups", "self._find_measurement_groups()") &&
      Gen.queryLoopFrame.contains (m, "else", "no") &&
      Gen.queryLoopFrame.contains (m, "tail", "return sequences") &&
      Gen.queryLoopFrame.contains (m, "other-result-calls", "") &&
      Gen.queryLoopFrame.contains (m, "groups-touched-before-loop", "") &&
      Gen.queryLoopFrame.contains (m, "result-assignments", "sequences = []")) = true := by
  decide +kernel

/-- **The filter part of the three loop bodies is the skeleton the model implements** (table of every `matches.append(…)`
and every assignment to `matches_uids` with its path condition, regenerated from the current source on every run, T16l;
coded concepts appear as "value|scheme" and are compared with the MODEL's constants `cImageRegion`, … — a trip-wire on a
table in the sense of AGENT_GUIDE §3a, closing the "C only" row of the skeleton in docs/C16.md).  It pins, for each query:
which entries `matches` gets and when (`commonMatches`: finding type, finding site, tracking UID, each only when given; the
reference-type / graphic-type / referenced-UID entries only under `Filters.needsRef` resp. `Filters.hasUid`, in that order);
that the planar graphic entry is `False` for a reference item of the other value type (`graphicEntry`); that the referenced-UID
entry is the disjunction of exactly three searches with exactly these guards (`planarUid`, `volumetricUid`: the reference
item's own UIDs for a segmentation frame resp. segment or a region in space; the source images below every 2-D region for
an image region; the top-level source images for a segmentation frame resp. segment) and the single search of the image
query (`imageKeep`).  Dropping a guard, searching under another name or appending an entry unconditionally makes it fail. -/
theorem filter_skeleton_is_the_source_skeleton :
    Gen.queryConditionNames =
      [("NEEDS_REF", "reference_type is not None or graphic_type is not None or referenced_sop_class_uid is not None or (referenced_sop_instance_uid is not None)"),
       ("HAS_UID", "referenced_sop_instance_uid is not None or referenced_sop_class_uid is not None")] ∧
    (Gen.queryMatchesSkeleton.filter fun r => r.2.1 == "append" || r.2.1 == "assign matches_uids") =
      (["planar", "volumetric"].flatMap fun m =>
        let direct := if m == "planar" then cReferencedSegmentationFrame else cReferencedSegment
        let loop := if m == "planar" then "" else "for ref_item in ref_items and "
        [(m, "append", "finding_type is not None", "matches_finding"),
         (m, "append", "finding_site is not None", "matches_finding_sites"),
         (m, "append", "tracking_uid is not None", "matches_tracking_uid"),
         (m, "append", "NEEDS_REF and reference_type is not None", "found_ref_type == reference_type")] ++
        (if m == "planar" then
          [(m, "append", "NEEDS_REF and graphic_type is not None and isinstance(graphic_type, GraphicTypeValues) and ref_value_type == ValueTypeValues.SCOORD", "found_gt == graphic_type"),
           (m, "append", "NEEDS_REF and graphic_type is not None and isinstance(graphic_type, GraphicTypeValues) and not (ref_value_type == ValueTypeValues.SCOORD)", "False"),
           (m, "append", "NEEDS_REF and graphic_type is not None and not (isinstance(graphic_type, GraphicTypeValues)) and ref_value_type == ValueTypeValues.SCOORD3D", "found_gt == graphic_type"),
           (m, "append", "NEEDS_REF and graphic_type is not None and not (isinstance(graphic_type, GraphicTypeValues)) and not (ref_value_type == ValueTypeValues.SCOORD3D)", "False")]
         else [(m, "append", "NEEDS_REF and graphic_type is not None", "graphic_type in found_gts")]) ++
        [(m, "assign matches_uids", "NEEDS_REF and HAS_UID", "False"),
         (m, "assign matches_uids", "NEEDS_REF and HAS_UID and found_ref_type in ['" ++ direct ++ "', '" ++ cRegionInSpace ++
            "'] and matches_class_uid and matches_instance_uid", "True"),
         (m, "assign matches_uids", "NEEDS_REF and HAS_UID and found_ref_type == '" ++ cImageRegion ++ "' and " ++ loop ++
            "ref_item.value_type == ValueTypeValues.SCOORD and _contains_image_items(ref_item, name=None, " ++
            "referenced_sop_class_uid=referenced_sop_class_uid, referenced_sop_instance_uid=referenced_sop_instance_uid, " ++
            "relationship_type=RelationshipTypeValues.SELECTED_FROM)", "True"),
         (m, "assign matches_uids", "NEEDS_REF and HAS_UID and found_ref_type == '" ++ direct ++ "' and _contains_image_items(group_item, name='" ++
            cSourceImageForSegmentation ++ "', referenced_sop_class_uid=referenced_sop_class_uid, " ++
            "referenced_sop_instance_uid=referenced_sop_instance_uid, relationship_type=RelationshipTypeValues.CONTAINS)", "True"),
         (m, "append", "NEEDS_REF and HAS_UID", "matches_uids")]) ++
      [("image", "append", "finding_type is not None", "matches_finding"),
       ("image", "append", "finding_site is not None", "matches_finding_sites"),
       ("image", "append", "tracking_uid is not None", "matches_tracking_uid"),
       ("image", "assign matches_uids", "HAS_UID", "_contains_image_items(group_item, name='" ++ cSource ++
          "', referenced_sop_class_uid=referenced_sop_class_uid, referenced_sop_instance_uid=referenced_sop_instance_uid, " ++
          "relationship_type=RelationshipTypeValues.CONTAINS)"),
       ("image", "append", "HAS_UID", "matches_uids")] := by
  decide +kernel

/-- **The accessors of a returned group search what the model's accessors search** (table of every
`find_content_items(root_item, …)` call of the accessors of `_MeasurementsAndQualitativeEvaluations`, regenerated on every
run, T16m; a trip-wire on a table, AGENT_GUIDE §3a).  The single-valued accessors (`method`, `tracking_identifier`,
`tracking_uid`, `finding_category`, `finding_type`) and `finding_sites` look for the model's constant of that name with the
value type the model's `valuesOf` filters by (`methodOf`, `trackingIdOf`, `trackingUidOf`, `findingCategoryOf`,
`findingTypeOf`, `findingSitesOf`), without relationship type and without recursion (a laterality below a site item is no
site); `get_measurements` / `get_qualitative_evaluations` take NUM / CODE items with relationship CONTAINS
(`measurementsOf`, `evaluationsOf`: the items of a time point context — HAS OBS CONTEXT — are no measurements), and the
names `get_qualitative_evaluations` excludes are exactly `reservedCodeNames`.  With `accessors_return_construction_values`
(the model's accessors on `mkGroup p` return the construction values) this is what the accessor oracle of the
correspondence checks on every returned group, in memory and re-read. -/
theorem accessors_search_what_the_source_searches :
    Gen.accessorSearches =
      [("method", cMethod, "CODE", "", false),
       ("tracking_identifier", cTrackingId, "TEXT", "", false),
       ("tracking_uid", cTrackingUid, "UIDREF", "", false),
       ("finding_category", cFindingCategory, "CODE", "", false),
       ("finding_type", cFinding, "CODE", "", false),
       ("finding_sites", cFindingSite, "CODE", "", false),
       ("get_measurements", "", "NUM", "CONTAINS", false),
       ("get_measurements", "<name>", "NUM", "CONTAINS", false),
       ("get_qualitative_evaluations", "", "CODE", "CONTAINS", false),
       ("get_qualitative_evaluations", "<name>", "CODE", "CONTAINS", false)] ∧
    Gen.evaluationReservedNames = reservedCodeNames := by
  decide +kernel

/-- **A query leaves nothing behind on the report object.**  The table of what the three queries and every method of the
report they call on `self` (here: `_find_measurement_groups`) write on the report — attribute assignments and deletions,
`setattr` / `__dict__` writes, memoising decorators, `global` / `nonlocal` (computed from the current source on every run,
T16g) — is empty.  So the answer of a query is a function of the report's content NOW: no cache that an in-place edit of
the report (a group replaced, two groups exchanged) can make stale.  This is what entitles the model to take the list of
group containers as its input. -/
theorem queries_write_nothing_on_the_report :
    Gen.queryWritesOnSelf.map Prod.fst = ["get_planar_roi_measurement_groups", "get_volumetric_roi_measurement_groups",
                                           "get_image_measurement_groups", "_find_measurement_groups"] ∧
    ∀ row ∈ Gen.queryWritesOnSelf, row.2 = [] := by decide

/-- The test by which the model's searches pick items of a container (`name ∧ value type ∧ relationship type`, each an
equality — of concept names: CodedConcept equality, under which the legacy SNOMED-RT spelling equals the SNOMED-CT one;
the harness normalises both to one string) is the conjunction of the three predicates of `find_content_items` as they stand
in the source now (T15c, shared with C15; it also pins `item.name == name` as the comparison of names). -/
theorem search_item_test_is_source_test (it : GItem) (name vt rel : String) :
    (do
      let a ← Gen.findHasName true (it.name == name)
      let b ← Gen.findHasValueType true (it.vt == vt)
      let c ← Gen.findHasRelationshipType true false (it.rel == rel)
      pure (a && b && c)) = (.ok (it.name == name && it.vt == vt && it.rel == rel) : Except ErrKind Bool) := by
  unfold Gen.findHasName Gen.findHasValueType Gen.findHasRelationshipType
  simp [bind, Except.bind, pure, Except.pure]

/-- a query whose arguments are refused returns nothing at all: the error of the argument check -/
theorem refused_arguments_refuse_query (k : Kind) (gs : List Group) (f : Filters) (e : ErrKind) (h : argCheck k f = .error e) :
    query k gs f = .error e := by
  simp [query, h]

/-- The per-item tests of the model's filter predicates are the tests of the `_contains_*_items` helpers as they stand in the
source now (`Gen.*ItemMatches`, regenerated every run from the bodies of their `for item in matched_items` loops):
a referenced class/instance pair matches an item iff every UID that is given equals the item's; a code / UID value
matches iff it equals the item's (the queries always pass a value). -/
theorem filter_item_tests_are_source_tests (r : Ref) (cls inst : Option String) (v itemValue : String) :
    Gen.imageItemMatches cls.isSome (cls == some r.cls) inst.isSome (inst == some r.inst) = .ok (refMatches (some r) cls inst) ∧
    Gen.codeItemMatches true (itemValue == v) = .ok (itemValue == v) ∧
    Gen.uidrefItemMatches true (itemValue == v) = .ok (itemValue == v) := by
  refine ⟨?_, ?_, ?_⟩
  · unfold Gen.imageItemMatches refMatches
    cases cls <;> cases inst <;> simp
    all_goals grind
  · unfold Gen.codeItemMatches; cases (itemValue == v) <;> rfl
  · unfold Gen.uidrefItemMatches; cases (itemValue == v) <;> rfl

/-- The graphic-type entry of the model is the block of the source as it stands now (T16f; the stored string is read into
the enumeration of the branch).  Planar query (`graphicMatches`): a 2-D graphic type only ever matches a SCOORD item, a
3-D one only a SCOORD3D item, and then iff the stored graphic type is the one asked for.  Volumetric query
(`volGraphicMatches`): the entry is "SOME reference item of the branch's value type has the graphic type asked for". -/
theorem graphic_entry_is_source_entry (it : GItem) (items : List GItem) (gt : Bool × String) :
    Gen.planarGraphicEntry gt.1 it.vt (it.graphic == gt.2) = .ok (graphicMatches it gt) ∧
    Gen.volumetricGraphicEntry gt.1 (items.any (fun x => x.vt == "SCOORD" && x.graphic == gt.2))
      (items.any (fun x => x.vt == "SCOORD3D" && x.graphic == gt.2)) = .ok (volGraphicMatches items gt) := by
  refine ⟨?_, ?_⟩
  · unfold Gen.planarGraphicEntry graphicMatches
    cases gt.1 <;> by_cases h1 : it.vt = "SCOORD" <;> by_cases h2 : it.vt = "SCOORD3D" <;> simp_all
  · unfold Gen.volumetricGraphicEntry volGraphicMatches
    cases gt.1 <;> simp

/-- **The volumetric graphic-type filter does not depend on the order of the regions** of the ROI (it looked at the first
region only: a POLYLINE + CIRCLE volume was found by POLYLINE and missed by CIRCLE, or the reverse after reordering). -/
theorem volumetric_graphic_filter_order_independent (items items' : List GItem) (h : items.Perm items') (gt : Bool × String) :
    volGraphicMatches items gt = volGraphicMatches items' gt := by
  unfold volGraphicMatches
  exact h.any_eq

/-! ## the hand-written loop pieces are the source's expressions (tie pass) -/

/-- **The kind test of the model is the head of each query loop as it stands in the source** (T16j): the template
identifier decides when the container has one ("1410" / "1411" / "1501"), the content classification otherwise (for the
image query: neither planar nor volumetric content, both classifications consulted).  `c`, `c'`, `s` are universally
quantified: a container WITH a template identifier is decided by the identifier whatever its content would say, one without
by its content alone. -/
theorem kind_test_is_source_head (g : Group) (c c' : Bool) (s : String) :
    (isKind .planar g = match g.templateId with
      | some t => Gen.planarHead true t c
      | none => match containsPlanar g with
        | .error e => .error e
        | .ok p => Gen.planarHead false s p) ∧
    (isKind .volumetric g = match g.templateId with
      | some t => Gen.volumetricHead true t c
      | none => match containsVolumetric g with
        | .error e => .error e
        | .ok v => Gen.volumetricHead false s v) ∧
    (isKind .image g = match g.templateId with
      | some t => Gen.imageHead true t c c'
      | none => match containsPlanar g with
        | .error e => .error e
        | .ok p => match containsVolumetric g with
          | .error e => .error e
          | .ok v => Gen.imageHead false s p v) :=
  ⟨isKind_planar_is_source_head g c s, isKind_volumetric_is_source_head g c s, isKind_image_is_source_head g c c' s⟩

/-- **The ROI reference search of the model is the iteration of the step extracted from `_get_roi_reference_items`** (T16i):
items with another relationship than CONTAINS, under a name that is not allowed or of a value type the table does not list
for the name are skipped; the first item kept names the reference type; a kept item under another name, or a second item of
a reference type other than image region / volume surface, raises RuntimeError — the source's tests in the source's order. -/
theorem roi_search_is_iteration_of_source_step (allowed : List String) (it : GItem) (rest : List GItem) (rt : Option String)
    (acc : List GItem) (vts : List String) (hlk : Gen.refTypeValueTypes.lookup it.name = some vts) :
    roiRefLoop allowed (it :: rest) rt acc =
      match Gen.roiRefStep it.rel (allowed.contains it.name) (vts.contains it.vt) rt.isSome (rt == some it.name) (rt.getD "") with
      | .error e => .error e
      | .ok true => roiRefLoop allowed rest (some (rt.getD it.name)) (acc ++ [it])
      | .ok false => roiRefLoop allowed rest rt acc :=
  roiRefLoop_cons allowed it rest rt acc vts hlk

/-- **Every filter forwards the source's arguments to the search helpers** (T16h: the calls of `_contains_code_items` /
`_contains_uidref_items` / `_contains_image_items` in the three loops, in source order): which concept name each filter
searches under, with which relationship type, in which parent (the group, or the reference item's children). -/
theorem filters_forward_source_arguments (g : Group) (f : Filters) (it : GItem) (cls inst : Option String) :
    (commonFrom (callsOf planarName) g f = some (commonMatches g f) ∧
     commonFrom (callsOf volumetricName) g f = some (commonMatches g f) ∧
     commonFrom (callsOf imageName) g f = some (commonMatches g f)) ∧
    (((callsOf planarName).drop 3).map (fun r => imageSearchFrom r g it cls inst) =
       [some (kidsContainImage it cls inst), some (containsImage g cSourceImageForSegmentation "CONTAINS" cls inst)] ∧
     ((callsOf volumetricName).drop 3).map (fun r => imageSearchFrom r g it cls inst) =
       [some (kidsContainImage it cls inst), some (containsImage g cSourceImageForSegmentation "CONTAINS" cls inst)] ∧
     ((callsOf imageName).drop 3).map (fun r => imageSearchFrom r g it cls inst) =
       [some (containsImage g cSource "CONTAINS" cls inst)]) :=
  ⟨commonMatches_forwards_source_arguments g f, uid_searches_forward_source_arguments g it cls inst⟩

/-- non-vacuity: the extracted step refuses a second segment reference, keeps a second volume surface, skips an item with
another relationship; the extracted heads tell the template identifiers apart -/
example : Gen.roiRefStep "CONTAINS" true true true true cReferencedSegment = .error .runtime := by decide
example : Gen.roiRefStep "CONTAINS" true true true true cVolumeSurface = .ok true := by decide
example : Gen.roiRefStep "CONTAINS" true true true false cImageRegion = .error .runtime := by decide
example : Gen.roiRefStep "HAS PROPERTIES" true true false false "" = .ok false := by decide
example : Gen.planarHead true "1411" true = .ok false ∧ Gen.planarHead true "1410" false = .ok true ∧
          Gen.planarHead false "" true = .ok true ∧ Gen.imageHead false "" false true = .ok false := by decide

/-! ## malformed stored items -/

/-- **The error arms for malformed stored items**, each stated for any item / group:
(a) a SCOORD / SCOORD3D reference item whose stored graphic type is not a member of the enumeration the filter's branch
reads it into fails a graphic-type filter with ValueError (AttributeError when the attribute is absent) — and is not looked
at without such a filter (`graphicEntry` is only evaluated under `f.graphic = some _`);
(b) a reference item of a type whose UIDs are compared directly, without ReferencedSOPSequence, fails a referenced-UID
filter with AttributeError;
(c) a SCOORD region without ContentSequence fails the search for its source images with AttributeError;
(d) a group that matched every filter but cannot be converted is not returned: AttributeError; a group that did not
match is skipped without conversion. -/
theorem malformed_item_arms (it : GItem) (g : Group) (gt : Bool × String) (names : List String) (t : String) (f : Filters)
    (cls inst : Option String) :
    (it.vt = (if gt.1 then "SCOORD" else "SCOORD3D") →
      (if gt.1 then Gen.srGraphicTypes2D else Gen.srGraphicTypes3D).contains it.graphic = false →
      graphicEntry it gt = .error (if it.graphic == "" then .attribute else .value)) ∧
    (names.contains t = true → it.ref = none → refItemUid names t it f = .error .attribute) ∧
    (it.hasSeq = false → kidsContainImageE it cls inst = .error .attribute) ∧
    (g.convertible = false → convertKept g (.ok true) = .error .attribute ∧ convertKept g (.ok false) = .ok false) := by
  refine ⟨?_, ?_, ?_, ?_⟩
  · intro hv hg
    unfold graphicEntry graphicRead
    simp only [hv, beq_self_eq_true, if_true, hg, Bool.false_eq_true, if_false]
    cases (it.graphic == "") <;> rfl
  · intro hc hr
    simp only [refItemUid, hc, if_true, hr]
  · intro h
    simp [kidsContainImageE, h]
  · intro h
    simp [convertKept, h]

/-- **A sound group never takes one of these arms**: when every SCOORD / SCOORD3D item stores a member of its
enumeration, every SCOORD region has a ContentSequence and every IMAGE / COMPOSITE item (children of regions included)
has a ReferencedSOPSequence, the loop body is the loop body without the arms — the only failures left are the
RuntimeErrors of the ROI search.  Groups built by the constructors are sound (`mkGroup_sound`). -/
theorem sound_group_has_no_malformed_arm (k : Kind) (g : Group) (f : Filters) (hs : g.sound = true) :
    keep k g f = keepP k g f := keep_sound k g f hs

/-! ## kinds -/

/-- **With template identification the three kinds are mutually exclusive** -/
theorem kinds_disjoint_identified (g : Group) (t : String) (ht : g.templateId = some t) (k1 k2 : Kind)
    (h1 : isKind k1 g = .ok true) (h2 : isKind k2 g = .ok true) : k1 = k2 := by
  simp only [isKind, ht, Except.ok.injEq, beq_iff_eq] at h1 h2
  cases k1 <;> cases k2 <;> simp_all [Kind.templateId]

/-- **Without template identification** (content counting over the translated decisions): an image group is neither
planar nor volumetric, and a group can be both planar and volumetric only if it holds a region-in-space reference
(which the standard allows in both templates). -/
theorem kinds_disjoint_by_content (g : Group) (ht : g.templateId = none) :
    (isKind .image g = .ok true → isKind .planar g = .ok false ∧ isKind .volumetric g = .ok false) ∧
    (isKind .planar g = .ok true → isKind .volumetric g = .ok true →
      ∃ a b c d e, countRoi g = .ok (a, b, c, d, e) ∧ e ≥ 1) := by
  simp only [isKind, ht]
  constructor
  · intro h
    cases hp : containsPlanar g with
    | error x => simp [hp] at h
    | ok p =>
      cases hv : containsVolumetric g with
      | error x => simp [hp, hv] at h
      | ok v =>
        simp only [hp, hv, Except.ok.injEq, Bool.not_eq_true', Bool.or_eq_false_iff] at h
        simp [h.1, h.2]
  · intro hp hv
    unfold containsPlanar at hp
    unfold containsVolumetric at hv
    cases hc : countRoi g with
    | error x => simp [hc] at hp
    | ok c =>
      obtain ⟨a, b, c', d, e⟩ := c
      refine ⟨a, b, c', d, e, rfl, ?_⟩
      simp only [hc] at hp hv
      unfold Gen.containsPlanarRois at hp
      unfold Gen.containsVolumetricRois at hv
      grind

/-- **Constructed groups**: two different kinds claim the same group only for a template-less region-in-space group. -/
theorem kinds_disjoint_constructed (p : Params) (hcons : p.consistent = true) (k1 k2 : Kind) (hne : k1 ≠ k2)
    (h1 : specKind k1 p = true) (h2 : specKind k2 p = true) : p.template = false ∧ ∃ r, p.ref = .regionInSpace r := by
  unfold specKind at h1 h2
  unfold Params.consistent at hcons
  cases ht : p.template
  · refine ⟨rfl, ?_⟩
    simp only [ht, Bool.false_eq_true, if_false] at h1 h2
    cases hr : p.ref with
    | regionInSpace r => exact ⟨r, rfl⟩
    | regions2d rs =>
      rw [hr] at h1 h2
      cases k1 <;> cases k2 <;> simp_all [contentKind] <;> omega
    | surface gr n srcs ser =>
      rw [hr] at h1 h2
      cases k1 <;> cases k2 <;> simp_all [contentKind]
    | _ =>
      rw [hr] at h1 h2
      cases k1 <;> cases k2 <;> simp_all [contentKind]
  · simp only [ht, if_true, beq_iff_eq] at h1 h2
    exact absurd (h1.symm.trans h2) hne

/-- **Every constructed group is found by the query of its own kind** — with template identification always;
without it unless it is a volumetric group with exactly one image region (indistinguishable from a planar group:
the documented heuristic). -/
theorem own_kind_recognised (p : Params) (hcons : p.consistent = true)
    (h : p.template = true ∨ ∀ x, p.ref ≠ .regions2d [x]) : specKind p.kind p = true := by
  unfold specKind
  unfold Params.consistent at hcons
  cases ht : p.template
  · simp only [Bool.false_eq_true, if_false]
    have h' : ∀ x, p.ref ≠ .regions2d [x] := by
      rcases h with h | h
      · rw [ht] at h; cases h
      · exact h
    cases hk : p.kind with
    | planar =>
      rw [hk] at hcons
      cases hr : p.ref <;> rw [hr] at hcons <;> simp at hcons <;> simp [contentKind]
    | image =>
      rw [hk] at hcons
      cases hr : p.ref <;> rw [hr] at hcons <;> simp at hcons <;> simp [contentKind]
    | volumetric =>
      rw [hk] at hcons
      cases hr : p.ref with
      | regions2d rs =>
        rw [hr] at hcons
        match rs, hcons, hr with
        | [x], _, hr => exact absurd hr (h' x)
        | _ :: _ :: _, _, _ => simp [contentKind]
      | surface gr n srcs ser => rw [hr] at hcons; simpa [contentKind] using hcons
      | segment seg srcs ser => simp [contentKind]
      | regionInSpace r => simp [contentKind]
      | region2d gr s => rw [hr] at hcons; simp at hcons
      | region3d gr => rw [hr] at hcons; simp at hcons
      | segframe seg s => rw [hr] at hcons; simp at hcons
      | images srcs => rw [hr] at hcons; simp at hcons
  · simp

/-! ## incompatible filter combinations -/

/-- **Planar query: which filter combinations are refused** (over the argument checks translated from the source):
accepted iff none of: a MULTIPOINT graphic type; a 3-D POLYLINE or ELLIPSOID graphic type; a 3-D graphic type
together with a referenced class/instance UID; a reference type that is not Image Region, Referenced Segmentation
Frame or Region in Space; a graphic type together with a reference type other than Image Region. -/
theorem incompatible_filters_refused_planar (gtGiven is2d : Bool) (nm : String) (rtGiven : Bool) (rt : String) (instG clsG : Bool) :
    Gen.planarArgCheck gtGiven is2d nm rtGiven rt instG clsG = .ok true ↔
      ¬ (gtGiven = true ∧ nm = "MULTIPOINT") ∧
      ¬ (gtGiven = true ∧ is2d = false ∧ (nm = "POLYLINE" ∨ nm = "ELLIPSOID")) ∧
      ¬ (gtGiven = true ∧ is2d = false ∧ (instG = true ∨ clsG = true)) ∧
      ¬ (rtGiven = true ∧ rt ≠ cImageRegion ∧ rt ≠ cReferencedSegmentationFrame ∧ rt ≠ cRegionInSpace) ∧
      ¬ (rtGiven = true ∧ gtGiven = true ∧ rt ≠ cImageRegion) := by
  unfold Gen.planarArgCheck
  simp only [cImageRegion, cReferencedSegmentationFrame, cRegionInSpace]
  cases gtGiven <;> cases is2d <;> cases rtGiven <;> cases instG <;> cases clsG <;>
    simp <;> grind

/-- **Volumetric query: which filter combinations are refused.** -/
theorem incompatible_filters_refused_volumetric (gtGiven is2d : Bool) (nm : String) (rtGiven : Bool) (rt : String) (instG clsG : Bool) :
    Gen.volumetricArgCheck gtGiven is2d nm rtGiven rt instG clsG = .ok true ↔
      ¬ (gtGiven = true ∧ nm = "MULTIPOINT") ∧
      ¬ (gtGiven = true ∧ is2d = false ∧ nm = "POLYLINE") ∧
      ¬ (gtGiven = true ∧ is2d = false ∧ (instG = true ∨ clsG = true)) ∧
      ¬ (rtGiven = true ∧ rt ≠ cImageRegion ∧ rt ≠ cReferencedSegment ∧ rt ≠ cVolumeSurface ∧ rt ≠ cRegionInSpace) ∧
      ¬ (rtGiven = true ∧ gtGiven = true ∧ rt ≠ cImageRegion ∧ rt ≠ cVolumeSurface) ∧
      ¬ (rtGiven = true ∧ gtGiven = true ∧ rt = cImageRegion ∧ is2d = false) ∧
      ¬ (rtGiven = true ∧ gtGiven = true ∧ rt = cVolumeSurface ∧ is2d = true) := by
  unfold Gen.volumetricArgCheck
  simp only [cImageRegion, cReferencedSegment, cVolumeSurface, cRegionInSpace]
  cases gtGiven <;> cases is2d <;> cases rtGiven <;> cases instG <;> cases clsG <;>
    simp <;> grind

/-- the argument checks never fail in any other way than refusing (no stray error class) and never answer `false` -/
theorem arg_checks_total (gtGiven is2d : Bool) (nm : String) (rtGiven : Bool) (rt : String) (instG clsG : Bool) :
    (Gen.planarArgCheck gtGiven is2d nm rtGiven rt instG clsG = .ok true ∨
     Gen.planarArgCheck gtGiven is2d nm rtGiven rt instG clsG = .error .value ∨
     Gen.planarArgCheck gtGiven is2d nm rtGiven rt instG clsG = .error .type) ∧
    (Gen.volumetricArgCheck gtGiven is2d nm rtGiven rt instG clsG = .ok true ∨
     Gen.volumetricArgCheck gtGiven is2d nm rtGiven rt instG clsG = .error .value ∨
     Gen.volumetricArgCheck gtGiven is2d nm rtGiven rt instG clsG = .error .type) := by
  unfold Gen.planarArgCheck Gen.volumetricArgCheck
  constructor <;> grind

/-- the image query has no incompatible combination -/
theorem image_query_accepts_all_filters (f : Filters) : argCheck .image f = .ok true := rfl

/-- every allowed ROI reference type has a row in the value-type table: the search for the reference items
cannot fail with a `KeyError` -/
theorem reference_tables_total : Covered Gen.planarAllowedRefTypes ∧ Covered Gen.volumetricAllowedRefTypes :=
  ⟨covered_planar, covered_volumetric⟩

/-! ## returned groups report what they were constructed with -/

/-- **Accessors return the construction values**: tracking UID and identifier, finding type and category, finding
sites, measurements and qualitative evaluations (the latter three in construction order; evaluations exactly — the
finding, finding category, method, finding site and geometric purpose items are not evaluations, and neither the NUM /
CODE items of a time point context nor anything else with a relationship other than CONTAINS is reported). -/
theorem accessors_return_construction_values (p : Params) (hc : CleanNames p) (hctx : ContextOK p) :
    trackingUidOf (mkGroup p) = some p.trackingUid ∧ trackingIdOf (mkGroup p) = some p.trackingId ∧
    findingTypeOf (mkGroup p) = p.findingType ∧ findingCategoryOf (mkGroup p) = p.findingCategory ∧
    methodOf (mkGroup p) = p.method ∧ findingSitesOf (mkGroup p) = p.sites ∧ measurementsOf (mkGroup p) = p.measurements ∧
    evaluationsOf (mkGroup p) = p.evaluations :=
  ⟨trackingUid_constructed p, trackingId_constructed p, findingType_constructed p hc hctx, findingCategory_constructed p hc hctx,
   method_constructed p hc hctx, findingSites_constructed p hc hctx, measurements_constructed p hctx, evaluations_constructed p hc hctx⟩

/-- **The reference type reported is the one constructed with** (planar and volumetric groups; measurement and
evaluation names must not themselves be reference type names, the accessor looks at names only). -/
theorem reference_type_returned (p : Params) (hcons : p.consistent = true) (hctx : ContextOK p)
    (hp : p.kind = .planar → CleanRefNames p Gen.planarAllowedRefTypes)
    (hv : p.kind = .volumetric → CleanRefNames p Gen.volumetricAllowedRefTypes) :
    (p.kind = .planar → referenceTypeOf (mkGroup p) Gen.planarAllowedRefTypes = p.ref.refType) ∧
    (p.kind = .volumetric → referenceTypeOf (mkGroup p) Gen.volumetricAllowedRefTypes = p.ref.refType) := by
  unfold Params.consistent at hcons
  constructor
  · intro hk
    rw [referenceType_constructed p _ (by decide) (by intro n hn; simp only [Gen.planarAllowedRefTypes, List.contains_cons, List.contains_nil, Bool.or_false, Bool.or_eq_true, beq_iff_eq] at hn; rcases hn with h | h | h <;> subst h <;> decide) (hp hk) hctx]
    rw [hk] at hcons
    cases hr : p.ref <;> rw [hr] at hcons <;> simp at hcons <;>
      simp [refItems, RoiRef.refType, Gen.planarAllowedRefTypes, cImageRegion, cReferencedSegmentationFrame, cRegionInSpace]
  · intro hk
    rw [referenceType_constructed p _ (by decide) (by intro n hn; simp only [Gen.volumetricAllowedRefTypes, List.contains_cons, List.contains_nil, Bool.or_false, Bool.or_eq_true, beq_iff_eq] at hn; rcases hn with h | h | h | h <;> subst h <;> decide) (hv hk) hctx]
    rw [hk] at hcons
    cases hr : p.ref with
    | regions2d rs =>
      rw [hr] at hcons
      match rs, hcons with
      | x :: xs, _ => simp [refItems, RoiRef.refType, Gen.volumetricAllowedRefTypes, cImageRegion]
    | surface gr n srcs ser =>
      rw [hr] at hcons
      simp only [decide_eq_true_eq] at hcons
      match n, hcons with
      | n + 1, _ => simp [refItems, RoiRef.refType, Gen.volumetricAllowedRefTypes, cVolumeSurface, List.replicate_succ]
    | segment seg srcs ser => simp [refItems, RoiRef.refType, Gen.volumetricAllowedRefTypes, cReferencedSegment]
    | regionInSpace r => simp [refItems, RoiRef.refType, Gen.volumetricAllowedRefTypes, cRegionInSpace]
    | region2d gr s => rw [hr] at hcons; simp at hcons
    | region3d gr => rw [hr] at hcons; simp at hcons
    | segframe seg s => rw [hr] at hcons; simp at hcons
    | images srcs => rw [hr] at hcons; simp at hcons

/-! ## non-vacuity -/

def exCT (i : String) : Ref := ⟨"1.2.840.10008.5.1.4.1.1.2", i⟩
def exSEG : Ref := ⟨"1.2.840.10008.5.1.4.1.1.66.4", "9.1"⟩

/-- six groups of mixed kinds, two of them without template identification -/
def exReport : List Params := [
  { kind := .planar, trackingUid := "1.1", trackingId := "a", findingCategory := some "C1|99V", findingType := some "F1|99V", method := some "MM|99V",
    sites := ["S1|99V"], measurements := [("M1|99V", "3.5")], evaluations := [("Q1|99V", "A1|99V")], purpose := none,
    ref := .region2d "POLYLINE" (exCT "7.1"), template := true },
  { kind := .volumetric, trackingUid := "1.2", trackingId := "b", findingCategory := none, findingType := some "F1|99V", method := none,
    sites := ["S1|99V", "S2|99V"], measurements := [], evaluations := [], purpose := some "P1|99V",
    ref := .regions2d [("POLYLINE", exCT "7.1"), ("CIRCLE", exCT "7.2")], template := false },
  { kind := .planar, trackingUid := "1.3", trackingId := "c", findingCategory := none, findingType := some "F2|99V", method := none,
    sites := [], measurements := [], evaluations := [], purpose := none,
    ref := .segframe exSEG (exCT "7.3"), template := false },
  { kind := .image, trackingUid := "1.4", trackingId := "d", findingCategory := none, findingType := none, method := none,
    sites := ["S1|99V"], measurements := [("M1|99V", "1.0"), ("M2|99V", "2.0")], evaluations := [], purpose := none,
    ref := .images [exCT "7.1"], template := true },
  { kind := .volumetric, trackingUid := "1.5", trackingId := "e", findingCategory := none, findingType := some "F1|99V", method := none,
    sites := [], measurements := [], evaluations := [], purpose := none,
    ref := .segment exSEG [exCT "7.3", exCT "7.4"] none, template := true },
  { kind := .planar, trackingUid := "1.6", trackingId := "f", findingCategory := none, findingType := some "F1|99V", method := none,
    sites := ["S1|99V"], measurements := [], evaluations := [], purpose := none,
    ref := .region3d "POLYGON", template := true }]

example : ∀ p ∈ exReport, p.consistent = true := by decide
example : ∀ p ∈ exReport, p.graphicsValid = true := by decide
example : ∀ p ∈ exReport, (mkGroup p).sound = true := by decide
/-- a time point context (TEXT, CODE and NUM with HAS OBS CONTEXT) and a real-world-value-map reference satisfy `ContextOK` -/
example : ∀ it ∈ ([{ name := "C2348792|UMLS", vt := "TEXT", rel := "HAS OBS CONTEXT", value := "baseline" },
                    { name := "126072|DCM", vt := "CODE", rel := "HAS OBS CONTEXT", value := "TP1|99V" },
                    { name := "126073|DCM", vt := "NUM", rel := "HAS OBS CONTEXT", value := "2" },
                    { name := cRwvm, vt := "COMPOSITE", rel := "CONTAINS", ref := some ⟨"rwv", "1.9"⟩ }] : List GItem),
    (it.vt = "TEXT" ∨ ((it.vt = "CODE" ∨ it.vt = "NUM") ∧ it.rel = "HAS OBS CONTEXT") ∨ (it.vt = "COMPOSITE" ∧ it.name = cRwvm)) ∧
    fixedNames.contains it.name = false ∧ it.sound = true := by decide
example : ∀ p ∈ exReport, ∀ e ∈ p.evaluations, reservedCodeNames.contains e.1 = false := by decide
example : query .planar (exReport.map mkGroup) {} = .ok [0, 2, 5] := by decide
example : query .volumetric (exReport.map mkGroup) {} = .ok [1, 4] := by decide
example : query .image (exReport.map mkGroup) {} = .ok [3] := by decide
example : query .planar (exReport.map mkGroup) { findingType := some "F1|99V", findingSite := some "S1|99V" } = .ok [0, 5] := by decide
example : query .planar (exReport.map mkGroup) { findingType := some "F1|99V", graphic := some (true, "POLYLINE") } = .ok [0] := by decide
example : query .planar (exReport.map mkGroup) { inst := some "7.3", cls := some "1.2.840.10008.5.1.4.1.1.2" } = .ok [2] := by decide
example : query .volumetric (exReport.map mkGroup) { inst := some "7.4" } = .ok [4] := by decide
example : query .volumetric (exReport.map mkGroup) { referenceType := some cImageRegion, graphic := some (true, "POLYLINE") } = .ok [1] := by decide
/-- refused: 3-D graphic type with a referenced UID; segment reference type in a planar query; graphic type with a segment -/
example : query .planar (exReport.map mkGroup) { graphic := some (false, "POLYGON"), inst := some "7.1" } = .error .type := by decide
example : query .planar (exReport.map mkGroup) { referenceType := some cReferencedSegment } = .error .value := by decide
example : query .volumetric (exReport.map mkGroup) { referenceType := some cReferencedSegment, graphic := some (true, "CIRCLE") } = .error .value := by decide

/-- a volumetric ROI is found by the graphic type of ANY of its regions (group 1: POLYLINE then CIRCLE) -/
example : query .volumetric (exReport.map mkGroup) { graphic := some (true, "CIRCLE") } = .ok [1] := by decide
example : query .volumetric (exReport.map mkGroup) { graphic := some (true, "POLYLINE") } = .ok [1] := by decide
example : query .volumetric (exReport.map mkGroup) { graphic := some (true, "POINT") } = .ok [] := by decide

/-- a report whose groups carry an observation context (session TEXT, time point CODE / NUM, real world value map) -/
def exContext : List Params := [
  { kind := .planar, trackingUid := "2.1", trackingId := "a", findingCategory := none, findingType := some "F1|99V", method := none,
    sites := [], measurements := [("M1|99V", "1")], evaluations := [], purpose := none, ref := .region2d "POINT" (exCT "7.1"),
    template := false,
    ctxA := [{ name := "C67447|NCIt", vt := "TEXT", rel := "HAS OBS CONTEXT", value := "session 1" }],
    ctxB := [{ name := "126072|DCM", vt := "CODE", rel := "HAS OBS CONTEXT", value := "TP1|99V" },
             { name := "126073|DCM", vt := "NUM", rel := "HAS OBS CONTEXT", value := "2" },
             { name := cRwvm, vt := "COMPOSITE", rel := "CONTAINS", ref := some ⟨"rwv", "1.9"⟩ }] }]
example : ∀ p ∈ exContext, p.consistent = true ∧ p.graphicsValid = true ∧ (∀ it ∈ p.ctxA ++ p.ctxB, contextItemOK it = true) := by decide
example : query .planar (exContext.map mkGroup) { findingType := some "F1|99V", inst := some "7.1" } = .ok [0] := by decide
example : (exContext.map mkGroup).map measurementsOf = [[("M1|99V", "1")]] := by decide

/-- third-party groups with malformed items: (0) a region with a graphic type that is no member of the enumeration,
(1) a segmentation-frame reference without ReferencedSOPSequence, (2) a region without ContentSequence -/
def exMalformed : List Group := [
  { templateId := some "1410", items := [{ name := cImageRegion, vt := "SCOORD", rel := "CONTAINS", graphic := "FOO", kids := [srcKid (exCT "7.1")], hasSeq := true }] },
  { templateId := some "1410", items := [{ name := cReferencedSegmentationFrame, vt := "IMAGE", rel := "CONTAINS", ref := none },
                                          { name := cSourceImageForSegmentation, vt := "IMAGE", rel := "CONTAINS", ref := some (exCT "7.3") }] },
  { templateId := some "1410", items := [{ name := cImageRegion, vt := "SCOORD", rel := "CONTAINS", graphic := "POINT", kids := [], hasSeq := false }] }]
/-- without a filter the bogus graphic type and the childless region are not looked at; the reference without
ReferencedSOPSequence is refused by the conversion of the group to be returned -/
example : query .planar [exMalformed[0], exMalformed[2]] {} = .ok [0, 1] := by decide
example : query .planar exMalformed {} = .error .attribute := by decide
example : query .planar exMalformed { graphic := some (true, "POINT") } = .error .value := by decide
example : query .planar [exMalformed[1], exMalformed[2]] { graphic := some (true, "POINT") } = .ok [1] := by decide
example : query .planar [exMalformed[1]] { inst := some "7.3" } = .error .attribute := by decide
example : query .planar [exMalformed[2]] { inst := some "7.3" } = .error .attribute := by decide
example : exMalformed.map Group.sound = [false, false, false] := by decide

/-! ## several calls on one report object; reports that spell their codes differently (round 2) -/

/-- **Histories query / edit / query on ONE report object.**  In any history of in-place edits (a group replaced, two groups
exchanged, one deleted, one appended) and queries, the answer of a query is the query evaluated on the report AS IT IS THEN —
the groups after the edits that precede it; the queries that precede it play no role (`pre.filter Op.isEdit`) — and the
answers before and after it are what they would be without it.  With `query_is_document_order_filter`: an accepted answer
lists, in document order and once each, exactly the positions of the groups the report holds at that moment which the loop
body keeps.  The semantics `run` has no state but the list of group containers: that the real object has none either is
`queries_write_nothing_on_the_report` (T16g) and `no_state_carried_across_groups` (T16e); the `history` stream of the
correspondence runs query → edit → query → edit → query on one object against the model over the report as it is now. -/
theorem history_answers_depend_on_the_current_report_only (r : List Group) (pre post : List Op) (k : Kind) (f : Filters) :
    run r (pre ++ Op.query k f :: post) =
      run r pre ++ query k (stateAfter r (pre.filter Op.isEdit)) f :: run (stateAfter r (pre.filter Op.isEdit)) post ∧
    stateAfter r (pre ++ Op.query k f :: post) = stateAfter r (pre ++ post) ∧
    (∀ l, query k (stateAfter r (pre.filter Op.isEdit)) f = .ok l →
      l.Pairwise (· < ·) ∧ ∀ j, j ∈ l ↔ ∃ g, (stateAfter r (pre.filter Op.isEdit))[j]? = some g ∧ keep k g f = .ok true) := by
  refine ⟨?_, ?_, ?_⟩
  · rw [run_append, stateAfter_filter_edits r pre]
    rfl
  · rw [stateAfter_append, stateAfter_append]
    rfl
  · intro l h
    obtain ⟨h1, h2, _⟩ := query_is_document_order_filter k _ f l h
    exact ⟨h1, h2⟩

/-- **Two groups exchanged in place**: the answer afterwards names the same groups, at their new positions (a position is
returned after the exchange iff the position the group had before was returned before). -/
theorem exchanged_groups_answer (k : Kind) (f : Filters) (r : List Group) (i j : Nat) (hi : i < r.length) (hj : j < r.length)
    (l l' : List Nat) (h : query k r f = .ok l) (h' : query k (applyEdit r (.swap i j)) f = .ok l') :
    ∀ p, p ∈ l' ↔ swapIdx i j p ∈ l := by
  intro p
  obtain ⟨_, h2, _⟩ := query_is_document_order_filter k _ f l h
  obtain ⟨_, h2', _⟩ := query_is_document_order_filter k _ f l' h'
  rw [h2', h2, getElem?_swap r i j hi hj p]

/-- **Equivalent spellings — a lemma about the DEFINITION `queryN`.**  `queryN norm k gs f := query k (gs.map (mapCodes norm))
(f.mapCodes norm)` DEFINES "the library compares codes after a normalisation `norm`"; nothing regenerated stands behind that
definition here (C17 proves, over definitions regenerated from pydicom, that code equality is equality of the key
(value, scheme, VERSION) with ONLY the retired designator `SRT` mapped to SCT — `pydicom_eq_is_key_equality`; that file is
not imported).  Given the definition, a report whose concept names and coded values are respelled with codes that `norm`
identifies (`norm (respell c) = norm c` — for the library: SRT spellings of SNOMED concepts; NOT `SNM3` / `99SDM`
spellings, NOT a value with another coding scheme version) answers every query exactly as the original, and so does a
query whose filter values are respelled — map fusion.  Tie: the `legacy-names` perturbation (SRT; metamorphic, random and
systematic, also after write / read), `versioned-names` (every concept name states a coding scheme version: the same
concepts, answers unchanged — the library's name rule), `versioned-values` and `snm3-names` (answers change exactly as the
documented rule says: evaluated by the harness on the construction parameters), the fixture stream on the repository's
legacy-spelled report.  The harness hands the model names as value|scheme (SRT normalised, version dropped: names are
matched in any version) and coded values as value|scheme[|version] (SRT normalised only). -/
theorem respelled_report_answers_the_same (norm respell : String → String) (h : ∀ c, norm (respell c) = norm c) (k : Kind)
    (gs : List Group) (f : Filters) :
    queryN norm k (gs.map (Group.mapCodes respell)) f = queryN norm k gs f ∧
    queryN norm k gs (f.mapCodes respell) = queryN norm k gs f :=
  ⟨queryN_respell norm respell h k gs f, queryN_respell_filter norm respell h k gs f⟩

/-- non-vacuity of the history / exchange / spelling theorems on the six-group example report: a history planar query,
exchange of groups 0 and 2, deletion of group 5, planar query, append, volumetric query; the exchange alone; a report with
the finding site item named in the legacy SNOMED-RT spelling (G-C0E3, SRT) queried by finding site -/
def exHistory : List Op :=
  [.query .planar {}, .edit (.swap 0 2), .edit (.delete 5), .query .planar {}, .edit (.append (mkGroup exReport[1])),
   .query .volumetric { graphic := some (true, "CIRCLE") }]
example : run (exReport.map mkGroup) exHistory = [.ok [0, 2, 5], .ok [0, 2], .ok [1, 5]] := by decide
example : (stateAfter (exReport.map mkGroup) exHistory).length = 6 ∧
    stateAfter (exReport.map mkGroup) exHistory = stateAfter (exReport.map mkGroup) (exHistory.filter Op.isEdit) := by decide
example : query .planar (applyEdit (exReport.map mkGroup) (.swap 0 1)) {} = .ok [1, 2, 5] ∧
    [1, 2, 5].map (swapIdx 0 1) = [0, 2, 5] := by decide
def exNorm (c : String) : String := if c == "G-C0E3|SRT" then "363698007|SCT" else c
def exRespell (c : String) : String := if c == "363698007|SCT" then "G-C0E3|SRT" else c
example : ∀ c ∈ ["363698007|SCT", "G-C0E3|SRT", "121071|DCM", "S1|99V"], exNorm (exRespell c) = exNorm c := by decide
example : queryN exNorm .planar ((exReport.map mkGroup).map (Group.mapCodes exRespell)) { findingSite := some "S1|99V" } = .ok [0, 5] ∧
    query .planar ((exReport.map mkGroup).map (Group.mapCodes exRespell)) { findingSite := some "S1|99V" } = .ok [] := by decide

/-- a report WITHOUT any measurement group ("0..n groups"): every accepted query answers with no group, a refused filter
combination is refused all the same -/
example : query .planar [] {} = .ok [] ∧ query .image [] { trackingUid := some "1.1" } = .ok [] ∧
    query .volumetric [] { referenceType := some cReferencedSegmentationFrame } = .error .value := by decide

/-- **The name filter of the accessors** (`get_measurements(name=…)`, `get_qualitative_evaluations(name=…)`; the searches
themselves are the rows `<name>` of T16m): on ANY group the named accessor returns, in order, exactly the entries of the
unnamed accessor that carry that name; on a constructed group therefore exactly the measurements / evaluations it was
constructed with under that name — none of another name, none omitted, order kept. -/
theorem named_accessors_are_filters (g : Group) (n : String) :
    measurementsNamed g n = (measurementsOf g).filter (fun x => x.1 == n) ∧
    evaluationsNamed g n = (evaluationsOf g).filter (fun x => x.1 == n) ∧
    (∀ p : Params, g = mkGroup p → CleanNames p → ContextOK p →
      measurementsNamed g n = p.measurements.filter (fun x => x.1 == n) ∧
      evaluationsNamed g n = p.evaluations.filter (fun x => x.1 == n)) := by
  refine ⟨measurementsNamed_eq g n, evaluationsNamed_eq g n, ?_⟩
  intro p hg hc hctx
  subst hg
  rw [measurementsNamed_eq, evaluationsNamed_eq, measurements_constructed p hctx, evaluations_constructed p hc hctx]
  exact ⟨rfl, rfl⟩

example : measurementsNamed (mkGroup exReport[3]) "M2|99V" = [("M2|99V", "2.0")] ∧ measurementsNamed (mkGroup exReport[3]) "M3|99V" = [] ∧
    evaluationsNamed (mkGroup exReport[0]) "Q1|99V" = [("Q1|99V", "A1|99V")] ∧ evaluationsNamed (mkGroup exReport[0]) cFinding = [] := by decide

end HdVerif.C16
