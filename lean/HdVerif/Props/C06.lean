import HdVerif.Proofs.PixelFlags
import HdVerif.Proofs.PixelPipeline
/-! # C06  Pixel transforms follow the DICOM pipeline and the tri-state flags

Property theorems only.  Definitions under `HdVerif.Gen` are regenerated from /repo's current source on
every run (`cptFlags`, `foldWindow`, `foldInvert`, `foldVoiLut`, `voiWindowLinear`, `voiSigmoidArg`,
`applyLutIndex`); `Model/PixelPipeline.lean` composes them into what `_CombinedPixelTransform` builds and
applies (`stageOutcome`, `folded`) and states the standard's pipeline (`specOutcome`, `ref`). -/
namespace HdVerif.C06
open HdVerif HdVerif.Gen HdVerif.PixelPipeline HdVerif.PixelFlags HdVerif.PixelPipelineLemmas

/-! ## Clause: the tri-state flags -/

/-- **The flag table.**  For every flag tuple (3^5 x 2), colour type and presence pattern (46 656 cells) the
stages `_CombinedPixelTransform.__init__` ends up with - or its refusal - are those of the specification
table "True = applied or refused, False = never, None = iff present; real-world map over modality". -/
theorem flags_table (fl : Flags) (ct : CType) (p : Present) :
    toOpt (stageOutcome fl ct p) = specOutcome fl ct p := by
  obtain ⟨rw, mod, voi, pal, icc, pres⟩ := fl
  obtain ⟨a, b, c, d, e⟩ := p
  exact flags_table_cells rw mod voi pal icc pres ct a b c d e

theorem stage_ok_spec {fl : Flags} {ct : CType} {p : Present} {st : Stages} (h : stageOutcome fl ct p = .ok st) :
    specOutcome fl ct p = some st := by
  rw [← flags_table, h]; rfl

/-- A stage flagged `True` is applied whenever a transform is built at all (i.e. applied, or an error). -/
theorem flag_true_applied_or_error (fl : Flags) (ct : CType) (p : Present) (st : Stages)
    (h : stageOutcome fl ct p = .ok st) : TrueApplied fl st := by
  obtain ⟨rw, mod, voi, pal, icc, pres⟩ := fl
  obtain ⟨a, b, c, d, e⟩ := p
  exact (spec_facts rw mod voi pal icc pres ct a b c d e st (stage_ok_spec h)).1

/-- A stage flagged `False` (or `apply_presentation_lut=False`) is never applied. -/
theorem flag_false_never (fl : Flags) (ct : CType) (p : Present) (st : Stages)
    (h : stageOutcome fl ct p = .ok st) : FalseNever fl st := by
  obtain ⟨rw, mod, voi, pal, icc, pres⟩ := fl
  obtain ⟨a, b, c, d, e⟩ := p
  exact (spec_facts rw mod voi pal icc pres ct a b c d e st (stage_ok_spec h)).2.1

/-- A stage flagged `None` is applied iff it is present (for its colour type, unless a real-world value map
supersedes it); no stage is applied that the datasets do not contain. -/
theorem flag_none_iff_present (fl : Flags) (ct : CType) (p : Present) (st : Stages)
    (h : stageOutcome fl ct p = .ok st) : NoneIffPresent fl ct p st ∧ OnlyPresent p st := by
  obtain ⟨rw, mod, voi, pal, icc, pres⟩ := fl
  obtain ⟨a, b, c, d, e⟩ := p
  have := spec_facts rw mod voi pal icc pres ct a b c d e st (stage_ok_spec h)
  exact ⟨this.2.2.2.1, this.2.2.1⟩

/-- The real-world value map is applied instead of (never together with) modality, VOI and presentation
stages; monochrome and colour stages exclude each other. -/
theorem rwvm_over_modality (fl : Flags) (ct : CType) (p : Present) (st : Stages)
    (h : stageOutcome fl ct p = .ok st) : Exclusive ct st := by
  obtain ⟨rw, mod, voi, pal, icc, pres⟩ := fl
  obtain ⟨a, b, c, d, e⟩ := p
  exact (spec_facts rw mod voi pal icc pres ct a b c d e st (stage_ok_spec h)).2.2.2.2

/-- The constructor refuses exactly when the flags contradict each other (both real-world map and modality
demanded; VOI wanted while modality is off; ICC wanted while palette colour is off) or a stage flagged
`True` cannot be applied (absent, wrong colour type, or superseded by the real-world map). -/
theorem flag_refusal_iff (fl : Flags) (ct : CType) (p : Present) :
    (∃ e, stageOutcome fl ct p = .error e) ↔ SpecRefusal fl ct p := by
  obtain ⟨rw, mod, voi, pal, icc, pres⟩ := fl
  obtain ⟨a, b, c, d, e⟩ := p
  rw [← spec_refusal, ← flags_table_cells]
  cases stageOutcome ⟨rw, mod, voi, pal, icc, pres⟩ ct ⟨a, b, c, d, e⟩ <;> simp [toOpt]

/-! ## Clause: lookup tables map values below / above the table to the first / last entry -/

/-- `apply_lut` (clip on): a value below the table gives its first entry, a value above its last entry,
a value inside the entry at `x - first`; for every table, first mapped value (negative ones included) and
input. -/
theorem applyLut_clip {α} (a : α) (t : List α) (first x : Int) :
    applyLut (a :: t) first true x =
      if x < first then .ok a
      else if x > first + ((a :: t).length : Int) - 1 then .ok ((a :: t).getLast (by simp))
      else getIdx (a :: t) (x - first) := by
  rw [applyLut_eq_refLookup]; rfl

/-- ... and inside the table the entry exists (no refusal for any input when clipping is on). -/
theorem applyLut_clip_total {α} (a : α) (t : List α) (first x : Int) :
    ∃ v, applyLut (a :: t) first true x = .ok v ∧ v ∈ a :: t := by
  rw [applyLut_clip]
  split_ifs with h1 h2
  · exact ⟨a, rfl, by simp⟩
  · exact ⟨_, rfl, List.getLast_mem _⟩
  · have hl : ((a :: t).length : Int) = (t.length : Int) + 1 := by simp
    obtain ⟨k, hk⟩ : ∃ k : Nat, x - first = (k : Int) := ⟨(x - first).toNat, by omega⟩
    have hk' : k < (a :: t).length := by simp; omega
    rw [hk, getIdx_nat _ k hk']
    exact ⟨_, rfl, List.getElem_mem _⟩

/-- Without clipping (real-world value LUTs) values outside the table are refused, never mapped. -/
theorem applyLut_noclip_refuses {α} (table : List α) (first x : Int)
    (h : x < first ∨ x > first + (table.length : Int) - 1) : applyLut table first false x = .error .value :=
  applyLut_noclip_outside table first x h

/-! ## Clause: the folded transform equals the stages of the standard, in order

`ref p st s` evaluates the standard's stages on the stored value `s` (real-world value map, or else modality
rescale / LUT, then VOI window / LUT, then presentation inversion); `folded p st s` is what
`_CombinedPixelTransform` builds (one effective LUT, or slope / intercept, or window parameters) and applies.
`p` holds the parameters that apply to the frame, `st` the stages chosen by the flags. -/

/-- modality rescale alone -/
theorem fold_rescale (p : Params) (st : Stages) (m b : Rat) (s : Int)
    (hp : p.modality = .rescale m b) (h1 : st.rwvm = false) (h2 : st.modality = true) (h3 : st.voi = false)
    (h4 : st.invert = false) : folded p st s = ref p st s := by
  simp [folded, build, ref, refModality, applyEff, hp, h1, h2, h3, h4]
  ring

/-- modality LUT alone (values below / above the table included) -/
theorem fold_modlut (p : Params) (st : Stages) (mfirst : Int) (mdata : List Nat) (s : Int)
    (hp : p.modality = .lut mfirst mdata)
    (h1 : st.rwvm = false) (h2 : st.modality = true) (h3 : st.voi = false) (h4 : st.invert = false) :
    folded p st s = ref p st s := by
  simp only [folded, build, ref, refModality, applyEff, hp, h1, h2, h3, h4, Bool.false_eq_true, ↓reduceIte]
  rw [applyLut_map, applyLut_eq_refLookup]
  cases refLookup mdata mfirst s <;> rfl

/-- presentation inversion folded into the rescale: slope -m, intercept m (imin + imax) + b -/
theorem fold_invert_rescale (p : Params) (st : Stages) (m b : Rat) (s : Int)
    (hp : p.modality = .rescale m b) (h1 : st.rwvm = false) (h2 : st.modality = true) (h3 : st.voi = false)
    (h4 : st.invert = true) : folded p st s = ref p st s := by
  simp [folded, build, ref, refModality, rangeSum, applyEff, foldInvert, hp, h1, h2, h3, h4]
  ring

/-- presentation inversion of an image without modality transform -/
theorem fold_invert_identity (p : Params) (st : Stages) (s : Int)
    (h1 : st.rwvm = false) (h2 : st.modality = false) (h3 : st.voi = false)
    (h4 : st.invert = true) : folded p st s = ref p st s := by
  simp [folded, build, ref, refModality, rangeSum, applyEff, foldInvert, h1, h2, h3, h4]
  ring

/-- presentation inversion folded into a modality LUT (`min + max - entry`) -/
theorem fold_invert_modlut (p : Params) (st : Stages) (mfirst : Int) (a : Nat) (t : List Nat) (s : Int)
    (hp : p.modality = .lut mfirst (a :: t))
    (h1 : st.rwvm = false) (h2 : st.modality = true) (h3 : st.voi = false) (h4 : st.invert = true) :
    folded p st s = ref p st s := by
  simp only [folded, build, ref, refModality, rangeSum, invertedLut, listMin, listMax, applyEff, hp, h1, h2, h3, h4,
    Bool.false_eq_true, ↓reduceIte]
  rw [applyLut_map, applyLut_map, applyLut_eq_refLookup]
  cases refLookup (a :: t) mfirst s <;> rfl

/-- **LINEAR_EXACT window behind a rescale with any slope m != 0 (negative included), with or without
inversion**: the window shifted and scaled to stored values gives exactly the standard's three-piece
function of the rescaled value (C.11.2.1.3.2). -/
theorem fold_window_exact (p : Params) (st : Stages) (m b c w : Rat) (s : Int)
    (hp : p.modality = .rescale m b) (hv : p.voi = .window .exact c w)
    (hm : m ≠ 0) (hw : 0 < w) (hr : p.lo < p.hi)
    (h1 : st.rwvm = false) (h2 : st.modality = true) (h3 : st.voi = true) :
    folded p st s = ref p st s := by
  have hfn : ("LINEAR_EXACT" == "LINEAR") = false := by decide
  simp only [folded, build, ref, refModality, refVoi, applyEff, foldWindow, windowOut, WinFn.name, hp, hv, h1, h2, h3,
    hfn, Bool.false_eq_true, ↓reduceIte]
  rw [fold_exact_value c w b m p.lo p.hi s hm (ne_of_gt hw) "LINEAR_EXACT" hfn, window_exact c w p.lo p.hi _ hw hr]
  cases st.invert <;> simp [invertOut]

theorem fold_window_exact_unscaled (p : Params) (st : Stages) (c w : Rat) (s : Int)
    (hv : p.voi = .window .exact c w) (hw : 0 < w) (hr : p.lo < p.hi)
    (h1 : st.rwvm = false) (h2 : st.modality = false) (h3 : st.voi = true) :
    folded p st s = ref p st s := by
  have hfn : ("LINEAR_EXACT" == "LINEAR") = false := by decide
  simp only [folded, build, ref, refModality, refVoi, applyEff, foldWindow, windowOut, WinFn.name, hv, h1, h2, h3,
    hfn, Bool.false_eq_true, ↓reduceIte]
  rw [fold_exact_value c w 0 1 p.lo p.hi s one_ne_zero (ne_of_gt hw) "LINEAR_EXACT" hfn, window_exact c w p.lo p.hi _ hw hr]
  cases st.invert <;> simp [invertOut]

/-- **LINEAR window behind a rescale with any slope m != 0** - full statement (it held only for m = 1 before
the fix babe92f in /repo): the effective centre / width computed by the current source,
((c - 1/2 - b) / m + 1/2, (w - 1) / m + 1), reproduce C.11.2.1.2.1 on the rescaled value exactly. -/
theorem fold_window_linear (p : Params) (st : Stages) (m b c w : Rat) (s : Int)
    (hp : p.modality = .rescale m b) (hv : p.voi = .window .linear c w)
    (hm : m ≠ 0) (hw : 1 < w) (hr : p.lo < p.hi)
    (h1 : st.rwvm = false) (h2 : st.modality = true) (h3 : st.voi = true) :
    folded p st s = ref p st s := by
  simp only [folded, build, ref, refModality, refVoi, applyEff, foldWindow, windowOut, WinFn.name, hp, hv, h1, h2, h3,
    beq_self_eq_true, Bool.false_eq_true, ↓reduceIte]
  rw [fold_linear_value c w b m p.lo p.hi s hm (by linarith), window_linear c w p.lo p.hi _ hw hr]
  cases st.invert <;> simp [invertOut]

theorem fold_window_linear_unscaled (p : Params) (st : Stages) (c w : Rat) (s : Int)
    (hv : p.voi = .window .linear c w) (hw : 1 < w) (hr : p.lo < p.hi)
    (h1 : st.rwvm = false) (h2 : st.modality = false) (h3 : st.voi = true) :
    folded p st s = ref p st s := by
  simp only [folded, build, ref, refModality, refVoi, applyEff, foldWindow, windowOut, WinFn.name, hv, h1, h2, h3,
    beq_self_eq_true, Bool.false_eq_true, ↓reduceIte]
  rw [fold_linear_value c w 0 1 p.lo p.hi s one_ne_zero (by linarith), window_linear c w p.lo p.hi _ hw hr]
  cases st.invert <;> simp [invertOut]

/-- SIGMOID window behind a rescale: the transform differs from the standard's only by how the argument of
`exp` is written - the arguments are equal, so the symbolic values `lo + (hi - lo) / (1 + exp arg)` coincide -/
theorem fold_sigmoid_arg (p : Params) (st : Stages) (m b c w : Rat) (s : Int)
    (hp : p.modality = .rescale m b) (hv : p.voi = .window .sigmoid c w)
    (hm : m ≠ 0) (hw : w ≠ 0)
    (h1 : st.rwvm = false) (h2 : st.modality = true) (h3 : st.voi = true) (h4 : st.invert = false) :
    folded p st s = ref p st s := by
  have hfn : ("SIGMOID" == "LINEAR") = false := by decide
  simp only [folded, build, ref, refModality, refVoi, applyEff, foldWindow, windowOut, WinFn.name, hp, hv, h1, h2, h3, h4,
    hfn, Bool.false_eq_true, ↓reduceIte]
  rw [fold_sigmoid_value c w b m s hm hw]
  simp only [voiSigmoidArg, refSigmoid, Bool.false_eq_true, ↓reduceIte]
  congr 2
  ring

/-- SIGMOID with inversion: `1 / (1 + exp (-a))` against `1 - 1 / (1 + exp a)`; equal for every `exp` with
`exp (-a) * exp a = 1` and positive values (hypotheses on the external component, exercised on `numpy.exp`
by the correspondence). -/
theorem fold_sigmoid_inverted (exp : Rat → Rat) (hexp : ∀ a, exp (-a) * exp a = 1) (hpos : ∀ a, 0 < exp a)
    (p : Params) (st : Stages) (m b c w : Rat) (s : Int)
    (hp : p.modality = .rescale m b) (hv : p.voi = .window .sigmoid c w)
    (hm : m ≠ 0) (hw : w ≠ 0)
    (h1 : st.rwvm = false) (h2 : st.modality = true) (h3 : st.voi = true) (h4 : st.invert = true) :
    ∃ y y', folded p st s = .ok y ∧ ref p st s = .ok y' ∧ y.eval exp = y'.eval exp := by
  have hfn : ("SIGMOID" == "LINEAR") = false := by decide
  simp only [folded, build, ref, refModality, refVoi, applyEff, foldWindow, windowOut, WinFn.name, hp, hv, h1, h2, h3, h4,
    hfn, Bool.false_eq_true, ↓reduceIte]
  rw [fold_sigmoid_value c w b m s hm hw]
  simp only [voiSigmoidArg, refSigmoid, invertOut, ↓reduceIte]
  refine ⟨_, _, rfl, rfl, ?_⟩
  simp only [Out.eval]
  have ha : -(4 / 1) * (c - (m * (s : Rat) + b)) / w = -(-4 * (m * (s : Rat) + b - c) / w) := by ring
  rw [ha]
  generalize (-4 * (m * (s : Rat) + b - c) / w) = a
  have h1 := hexp a
  have h2 := hpos a
  have h3 := hpos (-a)
  have e : exp (-a) = 1 / exp a := by
    field_simp; linarith
  rw [e]
  field_simp
  ring

/-- window applied to the entries of a modality LUT (effective LUT) -/
theorem fold_modlut_window_exact (p : Params) (st : Stages) (mfirst : Int) (mdata : List Nat) (c w : Rat) (s : Int)
    (hp : p.modality = .lut mfirst mdata) (hv : p.voi = .window .exact c w) (hw : 0 < w) (hr : p.lo < p.hi)
    (h1 : st.rwvm = false) (h2 : st.modality = true) (h3 : st.voi = true) :
    folded p st s = ref p st s := by
  simp only [folded, build, ref, refModality, refVoi, applyEff, hp, hv, h1, h2, h3, Bool.false_eq_true, ↓reduceIte]
  obtain ⟨d, hd⟩ := mapExcept_of_total (fun (v : Nat) => windowOut .exact c w p.lo p.hi st.invert ((v : Int) : Rat))
    (fun a => windowOut_linear_total _ _ _ _ _ _ _) mdata
  rw [hd]
  simp only []
  rw [applyLut_mapExcept _ _ _ hd, applyLut_eq_refLookup]
  cases refLookup mdata mfirst s with
  | error e => rfl
  | ok v =>
    simp only [windowOut, WinFn.name]
    rw [window_exact c w p.lo p.hi _ hw hr]
    cases st.invert <;> simp [invertOut]

theorem fold_modlut_window_linear (p : Params) (st : Stages) (mfirst : Int) (mdata : List Nat) (c w : Rat) (s : Int)
    (hp : p.modality = .lut mfirst mdata) (hv : p.voi = .window .linear c w) (hw : 1 < w) (hr : p.lo < p.hi)
    (h1 : st.rwvm = false) (h2 : st.modality = true) (h3 : st.voi = true) :
    folded p st s = ref p st s := by
  simp only [folded, build, ref, refModality, refVoi, applyEff, hp, hv, h1, h2, h3, Bool.false_eq_true, ↓reduceIte]
  obtain ⟨d, hd⟩ := mapExcept_of_total (fun (v : Nat) => windowOut .linear c w p.lo p.hi st.invert ((v : Int) : Rat))
    (fun a => windowOut_linear_total _ _ _ _ _ _ _) mdata
  rw [hd]
  simp only []
  rw [applyLut_mapExcept _ _ _ hd, applyLut_eq_refLookup]
  cases refLookup mdata mfirst s with
  | error e => rfl
  | ok v =>
    simp only [windowOut, WinFn.name]
    rw [window_linear c w p.lo p.hi _ hw hr]
    cases st.invert <;> simp [invertOut]

/-- **Modality LUT then VOI LUT**: the effective table is the VOI table - scaled from its [min, max] to the
output range, inverted if required - looked up at the modality entries (full statement; before the fix
065b656 the raw VOI entries were returned). -/
theorem fold_modlut_voilut (p : Params) (st : Stages) (mfirst vfirst : Int) (mdata : List Nat) (a : Nat) (t : List Nat)
    (mn mx : Nat) (s : Int)
    (hp : p.modality = .lut mfirst mdata) (hv : p.voi = .lut vfirst (a :: t))
    (hmn : listMin (a :: t) = some mn) (hmx : listMax (a :: t) = some mx) (hne : mx ≠ mn)
    (h1 : st.rwvm = false) (h2 : st.modality = true) (h3 : st.voi = true) :
    folded p st s = ref p st s := by
  simp only [folded, build, ref, refModality, applyEff, hp, hv, h1, h2, h3, Bool.false_eq_true, ↓reduceIte]
  rw [scaledLut_eq a t mn mx p.lo p.hi st.invert hmn hmx hne]
  simp only []
  obtain ⟨d, hd⟩ := mapExcept_of_total
    (fun (v : Nat) => applyLut ((a :: t).map (scaledEntry mn mx p.lo p.hi st.invert)) vfirst true (v : Int))
    (fun v => by
      obtain ⟨y, hy, _⟩ := applyLut_clip_total' (scaledEntry mn mx p.lo p.hi st.invert a)
        (t.map (scaledEntry mn mx p.lo p.hi st.invert)) vfirst (v : Int)
      exact ⟨y, by simpa using hy⟩) mdata
  rw [hd]
  simp only []
  rw [applyLut_map, applyLut_mapExcept _ _ _ hd, applyLut_eq_refLookup]
  cases refLookup mdata mfirst s with
  | error e => rfl
  | ok v =>
    simp only []
    rw [refVoi_lut_int vfirst a t mn mx p.lo p.hi v hmn hmx hne, applyLut_map, applyLut_eq_refLookup]
    cases refLookup (a :: t) vfirst (v : Int) with
    | error e => rfl
    | ok e => cases st.invert <;> simp [scaledEntry, invertOut]

end HdVerif.C06
